import FxVerif.Proofs.C20Fee
import FxVerif.Proofs.C20Dec
import FxVerif.Proofs.C20Args
import FxVerif.Model.C20Run
import FxVerif.Proofs.C20Msg
import FxVerif.Gen.C20Msg
import FxVerif.Proofs.C20Handler
import FxVerif.Gen.C20Handler
import FxVerif.Proofs.C20Bech32
import FxVerif.Gen.C20Bech32
/-!
# C20 — hostile input never crashes a node and cannot dodge the minimum fee

Property theorems only.  `Gen/C20.lean` (the fee rule, translated from the Go AST of `ante/fees.go`) and
`Gen/C20Sites.lean` (inventory of potentially panicking constructs) are regenerated from `/repo` on every run.
-/
namespace FxVerif.Props.C20
open FxVerif.Model.C20Base FxVerif.Gen.C20 FxVerif.Proofs.C20Fee FxVerif.Gen.C20Sites FxVerif.Model.C20 FxVerif.Proofs.C20Dec

/-! ## the translator understood everything it read -/

theorem translator_complete : unknownConstructs = [] ∧ ctorStoresConfig = true ∧ checkDelegates = true := by decide

/-! ## the bypass rule -/

/-- exact characterisation of `isByPassMinFee` as written (uint64 product wraps): a transaction with NO messages never
bypasses; otherwise every message type must be in the configured set and the gas limit within `n · allowance` -/
theorem bypass_iff (ctf : CheckTxFeees) (msgs : List String) (gas : Nat) :
    isByPassMinFee ctf msgs gas = true ↔
      msgs ≠ [] ∧ (∀ m ∈ msgs, m ∈ ctf.bypassMsgTypesMap) ∧ gas ≤ (msgs.length * ctf.maxBypassMsgGasUsage) % 2 ^ 64 := by
  simp only [isByPassMinFee, Bool.and_eq_true, bypassMinFeeMsgs_iff, gasUsage_iff, and_assoc]

/-- the property's wording ("only if every one of its messages is of a configured fee-exempt type and its gas limit is
within the per-message allowance"), for every configuration — the wrapped product never exceeds the true one -/
theorem bypass_only_if (ctf : CheckTxFeees) (msgs : List String) (gas : Nat)
    (h : isByPassMinFee ctf msgs gas = true) :
    (∀ m ∈ msgs, m ∈ ctf.bypassMsgTypesMap) ∧ gas ≤ msgs.length * ctf.maxBypassMsgGasUsage := by
  obtain ⟨_, h2, h3⟩ := (bypass_iff ctf msgs gas).1 h
  exact ⟨h2, Nat.le_trans h3 (Nat.mod_le _ _)⟩

/-- when the product fits in 64 bits (any realistic allowance) the rule is exactly the mathematical one -/
theorem bypass_iff_nowrap (ctf : CheckTxFeees) (msgs : List String) (gas : Nat)
    (hfit : msgs.length * ctf.maxBypassMsgGasUsage < 2 ^ 64) :
    isByPassMinFee ctf msgs gas = true ↔
      msgs ≠ [] ∧ (∀ m ∈ msgs, m ∈ ctf.bypassMsgTypesMap) ∧ gas ≤ msgs.length * ctf.maxBypassMsgGasUsage := by
  rw [bypass_iff, Nat.mod_eq_of_lt hfit]

/-- one non-exempt message is enough to lose the exemption -/
theorem bypass_false_of_nonexempt (ctf : CheckTxFeees) (msgs : List String) (gas : Nat) (m : String)
    (hm : m ∈ msgs) (hne : m ∉ ctf.bypassMsgTypesMap) : isByPassMinFee ctf msgs gas = false := by
  cases h : isByPassMinFee ctf msgs gas with
  | false => rfl
  | true => exact absurd ((bypass_only_if ctf msgs gas h).1 m hm) hne

example : isByPassMinFee ⟨["/a", "/b"], 300000⟩ ["/a", "/b", "/a"] 900000 = true := by decide
example : isByPassMinFee ⟨["/a", "/b"], 300000⟩ ["/a", "/b", "/a"] 900001 = false := by decide
example : isByPassMinFee ⟨["/a", "/b"], 300000⟩ [] 0 = false := by decide
example : isByPassMinFee ⟨["/a"], 300000⟩ ["/a", "/c"] 1 = false := by decide

/-! ## the CheckTx admission rule -/

/-- the required-fee list exactly as the decorator computes it (Dec arithmetic, `int64(gas)`) -/
def reqFees (prices : List DecCoin) (gas : Nat) : List Coin :=
  prices.map (fun gp => Coin.mk gp.denom (decCeilInt (decMul gp.amount (legacyNewDec (int64OfU64 gas)))))

/-- exact, for ALL inputs: what `checkTxFeeWithValidatorMinGasPrices` admits in CheckTx mode -/
theorem checktx_accept_iff (ctf : CheckTxFeees) (msgs : List String) (gas : Nat) (fee : List Coin) (prices : List DecCoin) :
    checkTxFee ctf true true msgs gas fee prices = .accept ↔
      ¬ (int64OfU64 gas = 0 ∧ fee ≠ []) ∧
      (isByPassMinFee ctf msgs gas = true ∨ decCoinsIsZero prices = true ∨
        ((reqFees prices gas).any newCoinPanics = false ∧ isAnyGTE fee (reqFees prices gas) = true)) := by
  have hZ : (int64OfU64 gas = 0 ∧ fee ≠ []) ↔ (decide (int64OfU64 gas = 0) && !fee.isEmpty) = true := by
    simp
  rw [hZ]
  simp only [checkTxFee, reqFees]
  generalize (decide (int64OfU64 gas = 0) && !fee.isEmpty) = Z
  generalize (isByPassMinFee ctf msgs gas) = B
  generalize (decCoinsIsZero prices) = Zp
  generalize (prices.map fun gp => Coin.mk gp.denom (decCeilInt (decMul gp.amount (legacyNewDec (int64OfU64 gas))))) = R
  generalize (R.any newCoinPanics) = P
  generalize (isAnyGTE fee R) = G
  cases Z <;> cases B <;> cases Zp <;> cases P <;> cases G <;> simp

/-- outside CheckTx (block execution) the minimum gas price is never consulted -/
theorem delivertx_ignores_min_price (ctf : CheckTxFeees) (msgs : List String) (gas : Nat) (fee : List Coin)
    (prices : List DecCoin) (h : ¬ (int64OfU64 gas = 0 ∧ fee ≠ [])) :
    checkTxFee ctf true false msgs gas fee prices = .accept := by
  unfold checkTxFee
  by_cases hz : int64OfU64 gas = 0 <;> by_cases hf : fee = [] <;> simp_all

/-- normal form of the verdict in the range where `int64(gas)` is faithful (SetUpContextDecorator refuses
`gas > Block.MaxGas = 30 000 000` and DeductFeeDecorator refuses `gas = 0` before the checker runs) and prices are not
negative (`DecCoins` validation) -/
theorem checktx_normal_form (ctf : CheckTxFeees) (msgs : List String) (gas : Nat) (fee : List Coin) (prices : List DecCoin)
    (hg0 : 0 < gas) (hg : gas < 2 ^ 63) (hp : ∀ p ∈ prices, 0 ≤ p.amount) :
    checkTxFee ctf true true msgs gas fee prices =
      if isByPassMinFee ctf msgs gas = true ∨ decCoinsIsZero prices = true ∨
          isAnyGTE fee (prices.map fun gp => Coin.mk gp.denom (Int.ofNat (ceilDiv (gp.amount.toNat * gas) decPrecision))) = true
      then .accept else .refuse := by
  have hmap : (prices.map fun gp => Coin.mk gp.denom (decCeilInt (decMul gp.amount (legacyNewDec (int64OfU64 gas))))) =
      (prices.map fun gp => Coin.mk gp.denom (Int.ofNat (ceilDiv (gp.amount.toNat * gas) decPrecision))) := by
    apply List.map_congr_left
    intro p hpm
    rw [required_is_ceil p.amount gas (hp p hpm) hg]
  have hnz : ¬ int64OfU64 gas = 0 := by
    rw [int64_of_small gas hg]; intro h; have h2 : (gas : Int) = 0 := h; omega
  have hnp : ((prices.map fun gp => Coin.mk gp.denom (Int.ofNat (ceilDiv (gp.amount.toNat * gas) decPrecision))).any newCoinPanics) = false := by
    rw [List.any_eq_false]
    intro c hc
    obtain ⟨p, _, rfl⟩ := List.mem_map.1 hc
    simp only [newCoinPanics, Int.ofNat_eq_natCast, Bool.not_eq_true, decide_eq_false_iff_not, Int.not_lt]
    exact Int.natCast_nonneg _
  simp only [checkTxFee, hmap, hnp, hnz]
  generalize (isByPassMinFee ctf msgs gas) = B
  generalize (decCoinsIsZero prices) = Zp
  generalize (isAnyGTE fee _) = G
  cases B <;> cases Zp <;> cases G <;> simp

/-- in that range the checker itself cannot panic -/
theorem checktx_no_panic_in_range (ctf : CheckTxFeees) (msgs : List String) (gas : Nat) (fee : List Coin) (prices : List DecCoin)
    (hg0 : 0 < gas) (hg : gas < 2 ^ 63) (hp : ∀ p ∈ prices, 0 ≤ p.amount) :
    checkTxFee ctf true true msgs gas fee prices ≠ .panic := by
  rw [checktx_normal_form ctf msgs gas fee prices hg0 hg hp]
  split <;> simp


/-- **CheckTx admission rule** in the faithful range: a transaction is admitted ⇔ it bypasses, or the node has no
(non-zero) minimum gas price, or some fee coin covers ⌈price·gas⌉ of its denomination (and that requirement is non-zero) -/
theorem checktx_accept_iff_ceil (ctf : CheckTxFeees) (msgs : List String) (gas : Nat) (fee : List Coin) (prices : List DecCoin)
    (hg0 : 0 < gas) (hg : gas < 2 ^ 63) (hp : ∀ p ∈ prices, 0 ≤ p.amount) :
    checkTxFee ctf true true msgs gas fee prices = .accept ↔
      isByPassMinFee ctf msgs gas = true ∨ (∀ p ∈ prices, p.amount = 0) ∨ ∃ c ∈ fee, covers prices gas c := by
  rw [checktx_normal_form ctf msgs gas fee prices hg0 hg hp]
  have h := isAnyGTE_ceilFees prices gas fee
  unfold ceilFees at h
  rw [← h, ← decCoinsIsZero_iff]
  split <;> simp_all

/-- what "covers" means in gas-price terms: the node has a price `p` for the coin's denomination with `p·gas > 0`, and
`amount / gas ≥ p` (cross-multiplied; `p` counts 10⁻¹⁸ units) -/
theorem covers_iff_gas_price (prices : List DecCoin) (gas : Nat) (c : Coin) :
    covers prices gas c ↔
      ∃ p, prices.find? (fun q => q.denom == c.denom) = some p ∧ p.amount.toNat * gas ≠ 0 ∧
        c.amount * (decPrecision : Int) ≥ ((p.amount.toNat * gas : Nat) : Int) := by
  unfold covers requiredOf
  cases hfind : prices.find? (fun q => q.denom == c.denom) with
  | none => simp
  | some p =>
    simp only [ne_eq, ceilDiv_eq_zero_iff, ge_ceilDiv_iff, Option.some.injEq, exists_eq_left']

/-- **the property's last sentence**: a CheckTx transaction that does not bypass, on a node with a non-zero minimum gas
price, none of whose fee coins covers the minimum, is refused -/
theorem below_min_refused (ctf : CheckTxFeees) (msgs : List String) (gas : Nat) (fee : List Coin) (prices : List DecCoin)
    (hg0 : 0 < gas) (hg : gas < 2 ^ 63) (hp : ∀ p ∈ prices, 0 ≤ p.amount)
    (hnb : isByPassMinFee ctf msgs gas = false) (hmin : ∃ p ∈ prices, p.amount ≠ 0)
    (hlow : ∀ c ∈ fee, ¬ covers prices gas c) :
    checkTxFee ctf true true msgs gas fee prices = .refuse := by
  have hna : ¬ checkTxFee ctf true true msgs gas fee prices = .accept := by
    rw [checktx_accept_iff_ceil ctf msgs gas fee prices hg0 hg hp]
    rintro (h | h | ⟨c, hc, h⟩)
    · simp [hnb] at h
    · obtain ⟨p, hpm, hne⟩ := hmin; exact hne (h p hpm)
    · exact hlow c hc h
  rw [checktx_normal_form ctf msgs gas fee prices hg0 hg hp] at hna ⊢
  split <;> simp_all

/-- outside the faithful range (`gas ≥ 2⁶³`, only possible if the chain sets no block gas limit): `int64(gas)` is
negative, and a non-bypassing transaction on a node with a positive price is never admitted (the checker refuses or
panics inside `sdk.NewCoin`; the deferred `Recover` of `NewAnteHandler` turns the panic into an error) -/
theorem huge_gas_never_admitted (ctf : CheckTxFeees) (msgs : List String) (gas : Nat) (fee : List Coin) (prices : List DecCoin)
    (hg : 2 ^ 63 ≤ gas) (hg64 : gas < 2 ^ 64) (hp : ∀ p ∈ prices, 0 ≤ p.amount)
    (hnb : isByPassMinFee ctf msgs gas = false) (hmin : decCoinsIsZero prices = false) :
    checkTxFee ctf true true msgs gas fee prices ≠ .accept := by
  intro h
  rw [checktx_accept_iff] at h
  obtain ⟨_, h | h | ⟨hnp, hge⟩⟩ := h
  · simp [hnb] at h
  · simp [hmin] at h
  · -- every required amount is ≤ 0, so none can be both non-zero and not negative
    unfold isAnyGTE at hge
    split at hge
    · simp at hge
    · simp only [List.any_eq_true, Bool.and_eq_true, decide_eq_true_eq, Bool.not_eq_eq_eq_not, Bool.not_true,
        beq_eq_false_iff_ne, ne_eq] at hge
      obtain ⟨c, _, _, hnz⟩ := hge
      apply hnz
      -- amountOf of a list whose amounts are all ≤ 0 and (no panic) ≥ 0 is 0
      have hall : ∀ r ∈ reqFees prices gas, r.amount = 0 := by
        intro r hr
        have h1 : ¬ r.amount < 0 := by
          have := List.any_eq_false.1 hnp r hr
          simpa [newCoinPanics] using this
        have h2 : r.amount ≤ 0 := by
          obtain ⟨p, hpm, rfl⟩ := List.mem_map.1 hr
          have hneg : int64OfU64 gas < 0 := by
            have h1 : gas % 2 ^ 64 = gas := Nat.mod_eq_of_lt hg64
            simp only [int64OfU64, h1]
            split
            · omega
            · simp only [Int.ofNat_eq_natCast]; omega
          exact decCeil_nonpos p.amount (int64OfU64 gas) (hp p hpm) hneg
        omega
      unfold amountOf
      cases hf : (reqFees prices gas).find? (fun x => x.denom == c.denom) with
      | none => rfl
      | some r => exact hall r (List.mem_of_find?_eq_some hf)


-- non-vacuity: the hypotheses of `below_min_refused` / `checktx_accept_iff_ceil` are satisfiable and the boundary is sharp
example : checkTxFee ⟨["/a"], 300000⟩ true true ["/b"] 200000 [⟨"FX", 199999⟩] [⟨"FX", 1000000000000000000⟩] = .refuse := by decide
example : checkTxFee ⟨["/a"], 300000⟩ true true ["/b"] 200000 [⟨"FX", 200000⟩] [⟨"FX", 1000000000000000000⟩] = .accept := by decide
example : checkTxFee ⟨["/a"], 300000⟩ true true ["/a"] 300000 [] [⟨"FX", 1000000000000000000⟩] = .accept := by decide
example : checkTxFee ⟨["/a"], 300000⟩ true true ["/a"] 300001 [] [⟨"FX", 1000000000000000000⟩] = .refuse := by decide
example : checkTxFee ⟨[], 0⟩ true true ["/a"] 3 [⟨"FX", 1⟩] [⟨"FX", 333333333333333333⟩] = .accept := by decide   -- ⌈0.999…⌉ = 1
example : checkTxFee ⟨[], 0⟩ true true ["/a"] (2 ^ 63) [⟨"FX", 1⟩] [⟨"FX", 1⟩] = .panic := by decide

/-! ## panic-freedom of stateless validation, ante and argument decoding: the regenerated inventory -/

/-- **obligation over the regenerated table**: every potentially panicking construct in the fx-core functions reachable
from `ValidateBasic`/`Validate`/`ParseMethodArgs`/`UnpackInput`/`ParseFxTarget`/address parsers/the ante package has a
dominating guard, or is on the reviewed list (keyed by function, kind, expression), or — ante package only — is guarded or
reviewed in the typed ante inventory (`ante_sites_ok`).  A new unguarded site in the source breaks this proof. -/
theorem validation_sites_guarded : sites.all siteOk = true := by decide

/-- unfolded form of the obligation: an ante-package site is accepted only through the typed ante inventory (guarded or
reviewed there) — never because it "runs under the deferred Recover" -/
theorem site_cases (s : Site) (hs : s ∈ sites) :
    s.guarded = true ∨ (∃ r ∈ reviewedSafe, r.covers s = true) ∨
      (s.pkg = "ante" ∧ ∃ t ∈ FxVerif.Gen.C20Run.anteSites, t.recv = s.recv ∧ t.meth = s.meth ∧ t.expr = s.expr ∧
        FxVerif.Model.C20Run.anteSiteOk t = true) := by
  have h := List.all_eq_true.1 validation_sites_guarded s hs
  simp only [siteOk, coveredByTypedAnte, Bool.or_eq_true, Bool.and_eq_true, List.any_eq_true, beq_iff_eq] at h
  rcases h with (h | h) | h
  · exact Or.inl h
  · exact Or.inr (Or.inl h)
  · obtain ⟨hp, t, ht, ⟨⟨⟨h1, h2⟩, h3⟩, h4⟩⟩ := h
    exact Or.inr (Or.inr ⟨hp, t, ht, h1, h2, h3, h4⟩)

/-- **obligation over the typed inventory of the ante package**: every index / slice / division / narrowing / map-write /
assertion site in every function of `ante/*.go` (decorators, fee checker, signature gas consumer) has a recognised
dominating guard (`len(pubkeys) != len(signers)` before `signers[i]`, `size != len(pubKeys)` before `pubKeys[i]`, …) or is
on the reviewed list with the early return it relies on pinned.  No site is accepted for running under `Recover`. -/
theorem ante_sites_ok : FxVerif.Gen.C20Run.anteSites.all FxVerif.Model.C20Run.anteSiteOk = true := by decide

theorem reviewed_ante_entries_live :
    FxVerif.Model.C20Run.reviewedAnte.all (fun r => FxVerif.Gen.C20Run.anteSites.any fun s => r.covers s && !s.guarded) = true := by
  decide

/-- the inventory sees the decorators: it contains the signer index of `PubKeyDecorator` and both index sites of the
multisignature gas consumer -/
theorem ante_inventory_has_key_sites :
    FxVerif.Gen.C20Run.anteSites.any (fun s => s.recv == "PubKeyDecorator" && s.meth == "AnteHandle" && s.expr == "signers[i]") = true ∧
    (FxVerif.Gen.C20Run.anteSites.filter fun s => s.meth == "ConsumeMultisignatureVerificationGas" && s.kind == "index").length = 2 := by
  decide

/-- the ante handler returned by `NewAnteHandler` converts every panic of its decorators into an error -/
theorem ante_handler_recovers : anteRecoversFirst = true := by decide

/-- both precompile dispatchers check `len(contract.Input)` before slicing the selector and before any `UnpackInput` -/
theorem precompile_dispatch_length_checked :
    ["x/crosschain/precompile", "x/staking/precompile"].all (fun p =>
      sites.any (fun s => s.pkg == p && s.recv == "Contract" && s.meth == "Run" && s.expr == "contract.Input[:4]") &&
      sites.all (fun s => !(s.pkg == p && s.recv == "Contract" && s.meth == "Run" && s.kind == "slice") || s.guarded)) = true := by
  decide

/-- no stale review entries: each one still matches a site of the current source -/
theorem reviewed_entries_live :
    reviewedSafe.all (fun r => sites.any fun s => r.covers s && !s.guarded) = true := by decide

/-- no explicit `panic(`, `Must*` call or unchecked type assertion is reachable from stateless message validation
(packages `x/*/types`, `types`, `contract`) -/
theorem no_explicit_panic_in_validation :
    (sites.filter fun s => (s.kind == "panic" || s.kind == "must") ||
      (s.kind == "assert" && !(s.pkg == "x/crosschain/precompile" || s.pkg == "x/staking/precompile"))) = [] := by decide

/-! ## pure decoders: total, explicit errors, accepted values have the stated format -/

theorem strToByte32_spec (bs : List Nat) :
    (bs.length > 32 ∧ ∃ e, strToByte32 bs = .error e) ∨
    (bs.length ≤ 32 ∧ ∃ out, strToByte32 bs = .ok out ∧ out.length = 32 ∧ out.take bs.length = bs ∧
      ∀ i, bs.length ≤ i → i < 32 → out[i]? = some 0) := by
  unfold strToByte32
  by_cases h : bs.length > 32
  · left; exact ⟨h, "string too long", by simp [h]⟩
  · right
    refine ⟨by omega, bs ++ List.replicate (32 - bs.length) 0, by simp [h], ?_, ?_, ?_⟩
    · simp; omega
    · exact List.take_left' rfl
    · intro i h1 h2
      rw [List.getElem?_append_right h1, List.getElem?_replicate]
      have : i - bs.length < 32 - bs.length := by omega
      simp [this]

theorem validateEthereumAddress_spec (ck : List Char → Bool) (a : List Char) :
    (validateEthereumAddress ck a = .ok () ↔ ethFormat a ∧ ck a = true) := by
  unfold validateEthereumAddress ethFormat
  by_cases h0 : a.isEmpty = true
  · have : a = [] := List.isEmpty_iff.1 h0
    subst this; simp
  · by_cases h1 : a.length = 42 <;> by_cases h2 : a.take 2 = ['0', 'x'] <;>
      by_cases h3 : (a.drop 2).all isHexChar = true <;> by_cases h4 : ck a = true <;> simp [h0, h1, h2, h3, h4]

/-- `fxtypes.ParseAddress` is total and classifies exactly: the bech32 form when the text is bech32, else the EVM form when it
is a checksummed `0x` + 40 hex digits, else an error — for every input text and every behaviour of the two dependency checks -/
theorem parseAddress_spec (b ck : List Char → Bool) (a : List Char) :
    (parseAddress b ck a = .ok false ↔ b a = true) ∧
    (parseAddress b ck a = .ok true ↔ b a = false ∧ ethFormat a ∧ ck a = true) ∧
    ((∃ e, parseAddress b ck a = .error e) ↔ b a = false ∧ ¬ (ethFormat a ∧ ck a = true)) := by
  have hv := validateEthereumAddress_spec ck a
  unfold parseAddress
  cases hb : b a <;> simp only [Bool.false_eq_true, if_false, if_true]
  · cases hr : validateEthereumAddress ck a with
    | ok u =>
      cases u
      have := hv.1 hr
      simp [this]
    | error e =>
      have hne : ¬ (ethFormat a ∧ ck a = true) := by
        intro h; rw [hv.2 h] at hr; cases hr
      simp [hne]
  · simp

example : parseAddress (fun _ => false) (fun _ => true) ('0' :: 'x' :: List.replicate 40 'a') = .ok true := by rfl
example : parseAddress (fun _ => true) (fun _ => true) "fx1abc".toList = .ok false := by rfl
example : ∃ e, parseAddress (fun _ => false) (fun _ => true) "0x12".toList = .error e := ⟨_, rfl⟩

/-- whatever `ParseFxTarget` classifies as an IBC target satisfies `IBCValidate`: port `transfer`, a well-formed channel
identifier, a non-blank prefix — for every input string -/
theorem parseFxTarget_ibc_valid (s : List Char) (h : (parseFxTarget s).isIBC = true) :
    ibcValidate (parseFxTarget s) = true := by
  have key : IbcOk (parseFxTarget s) := by
    unfold parseFxTarget
    split
    · intro h; cases h
    · dsimp only
      split
      · intro h; cases h
      · split
        · exact ibcPrefixed_ok _
        · exact threeParts_ok _
  exact key h

example : (parseFxTarget "ibc/0/px".toList).isIBC = true := by decide
example : (parseFxTarget "px/transfer/channel-18446744073709551616".toList).isIBC = false := by decide
example : strToByte32 [1, 2, 3] = .ok ([1, 2, 3] ++ List.replicate 29 0) := rfl

theorem ibcValidate_format (t : FxTarget) (h : ibcValidate t = true) :
    t.sourcePort = "transfer".toList ∧ isValidChannelID t.sourceChannel = true ∧ ¬ (t.pfx.all isSpace = true) := by
  simp only [ibcValidate, Bool.and_eq_true, Bool.not_eq_eq_eq_not, Bool.not_true, beq_iff_eq] at h
  exact ⟨h.1.1.2, h.1.2, by simp [h.2]⟩

/-- a valid channel identifier is `channel-` followed by 1–20 decimal digits below 2⁶⁴ -/
theorem isValidChannelID_format (s : List Char) (h : isValidChannelID s = true) :
    ∃ ds, s = "channel-".toList ++ ds ∧ ds ≠ [] ∧ ds.length ≤ 20 ∧ ds.all isDigit = true ∧ digitsVal ds < 2 ^ 64 := by
  unfold isValidChannelID at h
  split at h
  · rename_i ds hds
    refine ⟨ds, ?_, ?_⟩
    · unfold stripPrefix at hds
      split at hds
      · rename_i hp
        have := List.prefix_iff_eq_append.1 (List.isPrefixOf_iff_prefix.1 hp)
        simp only [Option.some.injEq] at hds
        rw [← hds]; exact this.symm
      · simp at hds
    · simp only [Bool.and_eq_true, Bool.not_eq_eq_eq_not, Bool.not_true, List.isEmpty_eq_false_iff, ne_eq,
        decide_eq_true_eq] at h
      exact ⟨h.1.1.1, h.1.1.2, h.1.2, h.2⟩
  · simp at h

/-! ## the NODE's fee rule: the checker as `app.go` wires it from the configuration

`Gen.C20.wiredCheckTxFeees cfgTypes cfgMaxGas` is `setAnteHandler` translated statement by statement: how
`bypass-min-fee.msg-types` and `bypass-min-fee.msg-max-gas-usage` (absent = `[]` / `0`) reach `NewCheckTxFeees`.  Any
defaulting or rewriting of the configured values in app.go appears in that definition and breaks these theorems. -/
section Node

/-- the app hands the configured values to the checker unchanged -/
theorem wired_checker_is_config (cfgTypes : List String) (cfgMaxGas : Nat) :
    wiredCheckTxFeees cfgTypes cfgMaxGas = ⟨cfgTypes, cfgMaxGas⟩ := rfl

/-- **the node's bypass rule in terms of its configuration** -/
theorem node_bypass_iff (cfgTypes : List String) (cfgMaxGas : Nat) (msgs : List String) (gas : Nat) :
    isByPassMinFee (wiredCheckTxFeees cfgTypes cfgMaxGas) msgs gas = true ↔
      msgs ≠ [] ∧ (∀ m ∈ msgs, m ∈ cfgTypes) ∧ gas ≤ (msgs.length * cfgMaxGas) % 2 ^ 64 := by
  rw [wired_checker_is_config]; exact bypass_iff _ msgs gas

/-- the property's wording for the node: a transaction skips the minimum price ONLY IF every message type is configured as
fee-exempt and the gas limit is within the configured per-message allowance -/
theorem node_bypass_only_if (cfgTypes : List String) (cfgMaxGas : Nat) (msgs : List String) (gas : Nat)
    (h : isByPassMinFee (wiredCheckTxFeees cfgTypes cfgMaxGas) msgs gas = true) :
    (∀ m ∈ msgs, m ∈ cfgTypes) ∧ gas ≤ msgs.length * cfgMaxGas := by
  rw [wired_checker_is_config] at h; exact bypass_only_if _ msgs gas h

/-- an allowance of 0 — or an absent key, which reads as 0 — gives NO free gas: no transaction with a positive gas limit
bypasses, whatever its messages -/
theorem node_zero_allowance_exempts_nothing (cfgTypes : List String) (msgs : List String) (gas : Nat) (hg : 0 < gas) :
    isByPassMinFee (wiredCheckTxFeees cfgTypes 0) msgs gas = false := by
  cases h : isByPassMinFee (wiredCheckTxFeees cfgTypes 0) msgs gas with
  | false => rfl
  | true =>
    have := (node_bypass_only_if cfgTypes 0 msgs gas h).2
    omega

/-- no exempt types configured (or the key absent): nothing bypasses -/
theorem node_no_exempt_types_exempts_nothing (cfgMaxGas : Nat) (msgs : List String) (gas : Nat) :
    isByPassMinFee (wiredCheckTxFeees [] cfgMaxGas) msgs gas = false := by
  cases h : isByPassMinFee (wiredCheckTxFeees [] cfgMaxGas) msgs gas with
  | false => rfl
  | true =>
    obtain ⟨hne, hall, _⟩ := (node_bypass_iff [] cfgMaxGas msgs gas).1 h
    cases msgs with
    | nil => exact absurd rfl hne
    | cons m rest => exact absurd (hall m (by simp)) (by simp)

/-- exact CheckTx admission rule of the node, for all inputs, in terms of its configuration -/
theorem node_checktx_accept_iff (cfgTypes : List String) (cfgMaxGas : Nat) (msgs : List String) (gas : Nat) (fee : List Coin)
    (prices : List DecCoin) :
    checkTxFee (wiredCheckTxFeees cfgTypes cfgMaxGas) true true msgs gas fee prices = .accept ↔
      ¬ (int64OfU64 gas = 0 ∧ fee ≠ []) ∧
      ((msgs ≠ [] ∧ (∀ m ∈ msgs, m ∈ cfgTypes) ∧ gas ≤ (msgs.length * cfgMaxGas) % 2 ^ 64) ∨ decCoinsIsZero prices = true ∨
        ((reqFees prices gas).any newCoinPanics = false ∧ isAnyGTE fee (reqFees prices gas) = true)) := by
  rw [checktx_accept_iff, node_bypass_iff]

/-- the property's last sentence for the node: below the minimum price and not within the configured exemption ⇒ refused -/
theorem node_below_min_refused (cfgTypes : List String) (cfgMaxGas : Nat) (msgs : List String) (gas : Nat) (fee : List Coin)
    (prices : List DecCoin) (hg0 : 0 < gas) (hg : gas < 2 ^ 63) (hp : ∀ p ∈ prices, 0 ≤ p.amount)
    (hnb : ¬ (msgs ≠ [] ∧ (∀ m ∈ msgs, m ∈ cfgTypes) ∧ gas ≤ (msgs.length * cfgMaxGas) % 2 ^ 64))
    (hmin : ∃ p ∈ prices, p.amount ≠ 0) (hlow : ∀ c ∈ fee, ¬ covers prices gas c) :
    checkTxFee (wiredCheckTxFeees cfgTypes cfgMaxGas) true true msgs gas fee prices = .refuse := by
  apply below_min_refused _ msgs gas fee prices hg0 hg hp _ hmin hlow
  cases h : isByPassMinFee (wiredCheckTxFeees cfgTypes cfgMaxGas) msgs gas with
  | false => rfl
  | true => exact absurd ((node_bypass_iff cfgTypes cfgMaxGas msgs gas).1 h) hnb

example : checkTxFee (wiredCheckTxFeees ["/a"] 0) true true ["/a"] 150000 [] [⟨"FX", 2500000000000000000⟩] = .refuse := by decide
example : checkTxFee (wiredCheckTxFeees ["/a"] 300000) true true ["/a"] 150000 [] [⟨"FX", 2500000000000000000⟩] = .accept := by decide

end Node

/-! ## wiring read off the AST: ante chain order, routing, node configuration, `ValidateModuleName`, `Byte32ToString` -/
section Wiring

def chainIdx (pfx : String) : Option Nat := cosmosAnteChain.findIdx? fun d => pfx.toList.isPrefixOf d.toList

set_option maxRecDepth 8192 in
/-- every transaction without extension options runs, in this order: reject embedded MsgEthereumTx → set up the gas meter →
ValidateBasic → **DeductFeeDecorator with the node's `TxFeeChecker`** → signature verification; the fee decorator occurs
exactly once and is handed `options.TxFeeChecker`, which `app.go` sets to `NewCheckTxFeees(<configured types>, <allowance>).Check` -/
theorem cosmos_chain_checks_fee_before_signatures :
    chainIdx "ethante.RejectMessagesDecorator" = some 0 ∧
    (∃ a b c d, chainIdx "ante.NewSetUpContextDecorator(" = some a ∧ chainIdx "ante.NewValidateBasicDecorator(" = some b ∧
      chainIdx "ante.NewDeductFeeDecorator(" = some c ∧ chainIdx "ante.NewSigVerificationDecorator(" = some d ∧ a < b ∧ b < c ∧ c < d) ∧
    (cosmosAnteChain.filter fun d => "ante.NewDeductFeeDecorator(".toList.isPrefixOf d.toList) =
      ["ante.NewDeductFeeDecorator(options.AccountKeeper, options.BankKeeper, options.FeegrantKeeper, options.TxFeeChecker)"] ∧
    appWiresFeeChecker = true ∧ checkDelegates = true := by
  refine ⟨by decide, ⟨2, 4, 8, 13, by decide, by decide, by decide, by decide, by decide, by decide, by decide⟩, by decide, by decide, by decide⟩

/-- `NewAnteHandler` routes: the Ethereum extension option to the EVM handler, any other extension option is refused, a
transaction without extension options takes the chain above — there is no third way into the mempool -/
theorem ante_routing_total :
    anteRouting = ["/ethermint.evm.v1.ExtensionOptionsEthereumTx=>eth", "default=>reject", "none=>cosmos"] := by decide

/-- the pattern the model of `ValidateModuleName` was written for is the one in the source, anchored at both ends, and the
function returns an error exactly when it does not match; `Byte32ToString` has the modelled shape -/
theorem module_name_pattern :
    moduleNameRegex = "[a-zA-Z][a-zA-Z0-9/]{1,32}" ∧ moduleNameAnchored = true ∧ moduleNameErrIffNoMatch = true ∧
      byte32ToStringShape = true := by decide

/-- what `ValidateModuleName` accepts: 2–33 bytes, a letter first, then letters, digits and `/` only — in particular no
blank, no control byte, no byte ≥ 0x80 reaches a route lookup or a store key -/
theorem validateModuleName_spec (bs : List Nat) :
    validateModuleName bs = true ↔
      ∃ h t, bs = h :: t ∧ isLetterB h = true ∧ 1 ≤ t.length ∧ t.length ≤ 32 ∧ ∀ b ∈ t, isAlnumSlashB b = true := by
  cases bs with
  | nil => simp [validateModuleName]
  | cons h t =>
    simp only [validateModuleName, Bool.and_eq_true, decide_eq_true_eq, List.all_eq_true, List.cons.injEq]
    constructor
    · rintro ⟨⟨⟨h1, h2⟩, h3⟩, h4⟩
      exact ⟨h, t, ⟨rfl, rfl⟩, h1, h2, h3, h4⟩
    · rintro ⟨h', t', ⟨rfl, rfl⟩, h1, h2, h3, h4⟩
      exact ⟨⟨⟨h1, h2⟩, h3⟩, h4⟩

theorem validateModuleName_bytes (bs : List Nat) (h : validateModuleName bs = true) :
    2 ≤ bs.length ∧ bs.length ≤ 33 ∧ ∀ b ∈ bs, 47 ≤ b ∧ b ≤ 122 := by
  obtain ⟨hd, tl, rfl, h1, h2, h3, h4⟩ := (validateModuleName_spec bs).1 h
  refine ⟨by simp; omega, by simp; omega, ?_⟩
  intro b hb
  have hr : ∀ x, isAlnumSlashB x = true → 47 ≤ x ∧ x ≤ 122 := by
    intro x hx
    simp only [isAlnumSlashB, isLetterB, Bool.or_eq_true, Bool.and_eq_true, decide_eq_true_eq, beq_iff_eq] at hx
    omega
  rcases List.mem_cons.1 hb with rfl | hb
  · exact hr _ (by simp [isAlnumSlashB, h1])
  · exact hr _ (h4 b hb)

example : validateModuleName [101, 116, 104] = true := by decide   -- "eth"
example : validateModuleName [101] = false := by decide

theorem dropWhile_replicate_zero (k : Nat) (l : List Nat) :
    (List.replicate k 0 ++ l).dropWhile (· == 0) = l.dropWhile (· == 0) := by
  induction k with
  | zero => simp
  | succ n ih => simp [List.replicate_succ, ih]

/-- `Byte32ToString ∘ StrToByte32 = id` on every string of at most 32 bytes that does not end in a zero byte (the
`_target` of `crossChain` / `bridgeCoinAmount` is decoded this way before `ParseFxTarget`) -/
theorem byte32ToString_strToByte32 (bs out : List Nat) (h : strToByte32 bs = .ok out) (hl : bs.getLast? ≠ some 0) :
    byte32ToString out = bs := by
  unfold strToByte32 at h
  split at h
  · cases h
  · simp only [Except.ok.injEq] at h
    subst h
    unfold byte32ToString
    rw [List.reverse_append, List.reverse_replicate, dropWhile_replicate_zero]
    cases hr : bs.reverse with
    | nil =>
      have : bs = [] := by simpa using hr
      simp [this]
    | cons x xs =>
      have hx : bs.getLast? = some x := by
        rw [List.getLast?_eq_head?_reverse, hr]; rfl
      have hne : x ≠ 0 := by
        intro h0; apply hl; rw [hx, h0]
      have : (x :: xs).dropWhile (· == 0) = x :: xs := by
        simp [hne]
      rw [this, ← hr, List.reverse_reverse]

/-- the decoded target never ends in a zero byte -/
theorem byte32ToString_no_trailing_zero (bs : List Nat) : (byte32ToString bs).getLast? ≠ some 0 := by
  unfold byte32ToString
  rw [List.getLast?_reverse]
  cases h : bs.reverse.dropWhile (· == 0) with
  | nil => simp
  | cons x xs =>
    have := List.head_dropWhile_not (p := (· == 0)) (l := bs.reverse) (by rw [h]; simp)
    simp only [h, List.head_cons, beq_eq_false_iff_ne, ne_eq] at this
    simpa using this

end Wiring

/-! ## precompile `Run`: the decoded arguments satisfy what every construct inside `Run` needs

`Gen/C20Run.lean` (typed translator) is regenerated on every run: the `Validate` body of every argument struct as a program,
the method tables of both precompiles, and the inventory of potentially panicking constructs inside every `Run` (and the
functions it calls) with the requirement each one puts on the decoded arguments. -/
section Run
open FxVerif.Model.C20Args FxVerif.Gen.C20Run FxVerif.Model.C20Run FxVerif.Proofs.C20Args

/-- the typed translator understood every `Validate` body; `ParseMethodArgs` ends in `Validate()`; every registered method
decodes its arguments first (`args, err := m.UnpackInput(contract.Input); if err != nil { return }`) into an args struct
whose `Validate` was translated -/
theorem run_translator_complete :
    FxVerif.Gen.C20Run.unknownConstructs = [] ∧ parseMethodArgsValidates = true ∧
      methods.all (fun m => m.unpackFirst && m.parses && (findArgs argsTypes m.argsType).isSome) = true ∧
      methods.length ≥ 20 := by decide

set_option maxRecDepth 8192 in
/-- **obligation over the regenerated table**: every potentially panicking construct inside a precompile method's `Run`, the
in-package functions it reaches and the keeper methods it calls directly is locally guarded, or its requirement on the
decoded arguments is entailed by the method's own `Validate` (regenerated program), or it is on the reviewed list.  Removing
or weakening a `Validate` check that `Run` relies on, or adding an unguarded construct, breaks this proof. -/
theorem run_sites_ok : runSites.all runSiteOk = true := by decide

set_option maxRecDepth 8192 in
/-- every requirement in the table is entailed by the corresponding `Validate` program (ABI facts allowed) -/
theorem all_reqs_entailed : reqSites.all (fun x => entails true x.2.2 x.2.1) = true := by decide

set_option maxRecDepth 8192 in
/-- ABI decoding is needed only for size bounds of single uint256 inputs and for array elements: every nil, sign, length
and sum requirement is established by `Validate` ALONE (even for a hand-built struct with nil fields) -/
theorem needsAbiOnlyForBounds : reqSites.all (fun x => x.2.1.isBound || entails false x.2.2 x.2.1) = true := by decide

theorem mem_reqSites {s : RunSite} {r : Req} (hs : s ∈ runSites) (hr : s.req = some r) :
    (s, r, progOf argsTypes s.argsType) ∈ reqSites := by
  simp only [reqSites, List.mem_filterMap]
  exact ⟨s, hs, by simp [hr]⟩

/-- **`Validate` implies `Run` is safe** — for every site of the regenerated inventory that carries a requirement, every
environment (decoded argument struct) that went through ABI decoding and on which the method's `Validate` returns nil
satisfies the requirement: `args.Amounts[i]` is in range for every `i` ranging over `args.Tokens`, `args.TxID` is not nil
where `Run` dereferences it, `amount + fee` fits `sdkmath.Int` where `Run` converts it, … -/
theorem validate_implies_run_safe (s : RunSite) (hs : s ∈ runSites) (r : Req) (hr : s.req = some r)
    (env : Env) (habi : AbiDecoded env) (hok : run env (progOf argsTypes s.argsType) = .ok) : r.holds env := by
  have h := List.all_eq_true.1 all_reqs_entailed _ (mem_reqSites hs hr)
  exact entails_sound env true (fun _ => habi) _ r h hok

/-- the index form, without any assumption on how the struct was produced: if `Validate` returns nil then every index
expression of `Run` whose bound comes from another field is in range (`len(args.Tokens) ≤ len(args.Amounts)` for
`args.Amounts[i]`, `i` ranging over `args.Tokens`) -/
theorem validate_implies_index_safe (s : RunSite) (hs : s ∈ runSites) (a b : String) (hr : s.req = some (.lenLe a b))
    (env : Env) (hok : run env (progOf argsTypes s.argsType) = .ok) : env.len a ≤ env.len b := by
  have h := List.all_eq_true.1 needsAbiOnlyForBounds _ (mem_reqSites hs hr)
  simp only [Req.isBound, Bool.false_or] at h
  exact entails_sound env false (fun h => by cases h) _ _ h hok

/-- the same for every nil / sign / sum requirement (no ABI assumption) -/
theorem validate_implies_run_safe_noabi (s : RunSite) (hs : s ∈ runSites) (r : Req) (hr : s.req = some r)
    (hb : r.isBound = false) (env : Env) (hok : run env (progOf argsTypes s.argsType) = .ok) : r.holds env := by
  have h := List.all_eq_true.1 needsAbiOnlyForBounds _ (mem_reqSites hs hr)
  simp only [hb, Bool.false_or] at h
  exact entails_sound env false (fun h => by cases h) _ r h hok

/-- the inventory is not vacuous: it contains the index site of `bridgeCall` with its length requirement, and the
`amount + fee` conversion of `crossChain` with its size requirement -/
theorem run_inventory_has_key_sites :
    runSites.any (fun s => s.recv == "BridgeCallMethod" && s.meth == "Run" && s.kind == "index" &&
      s.req == some (.lenLe "Tokens" "Amounts")) = true ∧
    runSites.any (fun s => s.recv == "CrossChainMethod" && s.meth == "Run" && s.kind == "bigint256" &&
      s.req == some (.sumFits256 "Amount" "Fee")) = true ∧
    runSites.any (fun s => s.recv == "CancelSendToExternalMethod" && s.kind == "nilarg" && s.req == some (.nonNil "TxID")) = true := by
  decide

/-- **`Validate` never panics** on an ABI-decoded struct, for every argument struct of both precompiles -/
theorem validate_never_panics (t : ArgsType) (ht : t ∈ argsTypes) (env : Env) (habi : AbiDecoded env) :
    run env t.prog ≠ .panic := by
  have h : argsTypes.all (fun t => nilSafe true t.prog) = true := by decide
  exact nilSafe_sound env true (fun _ => habi) _ (List.all_eq_true.1 h t ht)

/-- … and, except for `BridgeCallArgs` (whose `args.Value.Sign()` has no nil test in front of it), not even on a hand-built
struct with nil big-integer fields: every other dereference is preceded by its `== nil ||` test -/
theorem validate_never_panics_on_nil (t : ArgsType) (ht : t ∈ argsTypes) (hn : t.name ≠ "BridgeCallArgs") (env : Env) :
    run env t.prog ≠ .panic := by
  have h : argsTypes.all (fun t => t.name == "BridgeCallArgs" || nilSafe false t.prog) = true := by decide
  have h2 := List.all_eq_true.1 h t ht
  simp only [Bool.or_eq_true, beq_iff_eq] at h2
  rcases h2 with h2 | h2
  · exact absurd h2 hn
  · exact nilSafe_sound env false (fun h => by cases h) _ h2

set_option maxRecDepth 8192 in
/-- no stale review entries for `Run` sites -/
theorem reviewed_run_entries_live :
    reviewedRun.all (fun r => runSites.any fun s => r.covers s && !s.guarded && s.req.isNone) = true := by decide

-- the check distinguishes: a `Validate` with an early `return nil` in front of the length comparison (the shape of a
-- "pure message call needs no amounts" shortcut) no longer entails the index requirement, and an environment exists
-- on which it returns nil with more tokens than amounts
example : entails true
    [.ifRet (.atom (.lenK "Amounts" .eq 0)) false, .ifRet (.atom (.lenRel "Tokens" .ne "Amounts")) true, .ret false]
    (.lenLe "Tokens" "Amounts") = false := by decide
example : entails false
    [.ifRet (.atom (.lenRel "Tokens" .ne "Amounts")) true, .ifRet (.atom (.lenK "Amounts" .eq 0)) false, .ret false]
    (.lenLe "Tokens" "Amounts") = true := by decide
example : ∃ env : Env,
    run env [.ifRet (.atom (.lenK "Amounts" .eq 0)) false, .ifRet (.atom (.lenRel "Tokens" .ne "Amounts")) true, .ret false] = .ok ∧
      ¬ env.len "Tokens" ≤ env.len "Amounts" :=
  ⟨{ len := fun f => if f == "Tokens" then 1 else 0, big := fun _ => some 0, elemsOk := fun _ => true, zeroAddr := fun _ => false,
     emptyStr := fun _ => false, zeroArr := fun _ => false, ext := fun _ _ => false, num := fun _ => 0 }, by decide⟩

end Run

/-! ## stateless validation of every message, claim, packet, parameter set and proposal: the REGENERATED programs

`Gen/C20Msg.lean` holds the body of every `ValidateBasic` / `validateBasic` / `Validate` method of the fx-core message types and of
the fx-core helper functions they call, translated statement by statement by the typed translator (`go/extractt/c20msg.go`)
into the guard-program language of `Model/C20Msg.lean`, which the model interprets (`runAt`).  Evaluation is three-valued:
a method call on an absent `sdkmath.Int` / `LegacyDec` / coin amount, an index beyond the length, a use of the result of a
failed call, a nil pointer — each evaluates to a panic.  The theorems below hold for ALL environments (all decoded messages:
every combination of absent fields, lengths, values, verdicts of the dependency validators). -/
section Msg
open FxVerif.Model.C20Msg FxVerif.Gen.C20Msg FxVerif.Proofs.C20Msg

/-- the one validation method whose safety rests on the decoder: `IbcCallEvmPacket.ValidateBasic` calls `Value.IsNegative()`
without an `IsNil` test (see `ibc_packet_validate_never_panics_partial`) -/
def needsDecoderFact (p : Prog) : Bool := p.name == "x/ibc/middleware/types.IbcCallEvmPacket.ValidateBasic"

set_option maxRecDepth 100000 in
theorem msg_programs_safe :
    (progs.filter fun p => p.reach && !needsDecoderFact p).all (fun p => safeAt table msgFuel p.name) = true := by decide +kernel

/-- **stateless validation never panics** — for every message / claim / proposal / parameter validation method reachable from
a message type, and every fx-core helper it calls, as regenerated from the source: whatever the decoded message looks like
(any field absent, any length, any value, any verdict of the dependency validators), the method returns nil or an error.
Moving a dereference in front of its `IsNil()` / `IsValid()` / `IsAnyNil()` / length / `err != nil` test, or deleting the test,
breaks this proof. -/
theorem msg_validate_never_panics (p : Prog) (hp : p ∈ progs) (hr : p.reach = true) (hn : needsDecoderFact p = false)
    (env : Env) : runAt table msgFuel p.name env ≠ .panic := by
  have h := List.all_eq_true.1 msg_programs_safe p (by simp [List.mem_filter, hp, hr, hn])
  exact safeAt_sound table msgFuel p.name h env

/-- every message type (root) is covered by the theorem above or by the partial one below -/
theorem msg_roots_covered : (progs.filter (·.root)).all (fun p => p.reach) = true ∧ 40 ≤ (progs.filter (·.root)).length := by
  decide

set_option maxRecDepth 100000 in
/-- `IbcCallEvmPacket.ValidateBasic` never panics on a packet whose `value` is not nil — which is what the only decoder of a
memo packet (`codec.UnmarshalInterfaceJSON`, gogoproto jsonpb: a non-nullable custom type is initialised even when the key
is absent) produces; the harness monitors `Value.IsNil()` after every decoded memo.  *partial*: the extra hypothesis is
`env.isNil "Value" = false` (the method itself has no `IsNil` test, DESIGN §6-L). -/
theorem ibc_packet_validate_never_panics_partial (env : Env) (hv : env.isNil "Value" = false) :
    runAt table msgFuel "x/ibc/middleware/types.IbcCallEvmPacket.ValidateBasic" env ≠ .panic := by
  have hfind : ∃ prog, table.find "x/ibc/middleware/types.IbcCallEvmPacket.ValidateBasic" = some prog ∧
      safeList (safeAt table 5) [(.isNil "Value", false)] prog = true := by
    refine ⟨_, rfl, by decide +kernel⟩
  obtain ⟨prog, hf, hs⟩ := hfind
  show runAt table (5 + 1) _ env ≠ .panic
  simp only [runAt, hf]
  refine safeList_sound (runAt table 5) (safeAt table 5) (safeAt_sound table 5) env prog _ ?_ hs
  intro f hfm
  simp only [List.mem_singleton] at hfm
  subst hfm
  simp [Fact.holds, Atom.eval, hv]

-- non-vacuity of the hypothesis, and the reason it is needed: with `value` absent the method panics
example : ∃ env : Env, env.isNil "Value" = false :=
  ⟨{ ext := fun _ _ => false, isNil := fun _ => false, big := fun _ => 0, anyNil := fun _ => false, len := fun _ => 0,
     num := fun _ => 0, str := fun _ => [] }, rfl⟩
set_option maxRecDepth 100000 in
example : runAt table msgFuel "x/ibc/middleware/types.IbcCallEvmPacket.ValidateBasic"
    { ext := fun _ _ => false, isNil := fun _ => true, big := fun _ => 0, anyNil := fun _ => false, len := fun _ => 0,
      num := fun _ => 0, str := fun _ => [] } = .panic := by decide

/-- the calls are closed: every fx-core function a reachable validation method calls (directly, through an interface — every
implementation —, or inside a condition) is itself translated and reachable (hence covered by `msg_validate_never_panics`),
and every dependency function is on the reviewed list `trustedTotal` -/
theorem msg_callees_closed :
    callees.all (fun c => if c.fxcore then !c.progs.isEmpty && c.progs.all (fun n => progs.any fun q => q.name == n && q.reach)
                          else trustedTotal.contains c.full) = true ∧
    oracleCallees.all (trustedTotal.contains ·) = true ∧
    (progs.filter (·.reach)).all (fun p => p.deps.all fun d => progs.any fun q => q.name == d && q.reach) = true := by
  decide +kernel

/-- the order matters and the check sees it: the same two steps of `MsgRequestBatch.ValidateBasic` in the other order (call
`IsPositive()` first, test `IsNil()` afterwards) are rejected, and an environment exists on which that program panics -/
example : safeList (fun _ => true) []
    [.flat (.ifRet (.or (.not (.atom (.intPred "MinimumFee" "IsPositive"))) (.atom (.isNil "MinimumFee"))) true), .flat (.ret false)] = false := by
  decide
example : safeList (fun _ => true) []
    [.flat (.ifRet (.or (.atom (.isNil "MinimumFee")) (.not (.atom (.intPred "MinimumFee" "IsPositive")))) true), .flat (.ret false)] = true := by
  decide
example : runList (fun _ _ => .ok)
    { ext := fun _ _ => false, isNil := fun _ => true, big := fun _ => 0, anyNil := fun _ => false, len := fun _ => 0,
      num := fun _ => 0, str := fun _ => [] }
    [.flat (.ifRet (.or (.not (.atom (.intPred "MinimumFee" "IsPositive"))) (.atom (.isNil "MinimumFee"))) true), .flat (.ret false)] = .panic := by
  decide
-- an index in front of its length check (`sig[64]` before `len(sig) != 65`) is rejected; behind it, accepted
example : safeFlat [] [.eval (.atom (.index "%sig" 64)), .ifRet (.atom (.lenK "%sig" .ne 65)) true] = false := by decide
example : safeFlat [] [.ifRet (.atom (.lenK "%sig" .ne 65)) true, .eval (.atom (.index "%sig" 64))] = true := by decide

/-! ### what the handlers rely on: a message that PASSED validation has these properties -/

/-- what a message handler (or the code behind it) does with a validated message without checking again; each entry was a
crash or would be one: the escrow of `amount + bridge fee` as one coin (`cb5569c`), `Value.Sign()` / coin arithmetic on the
bridge-call message (`3743596`), the pairing of token contracts with amounts in the bridge-call claim handler -/
def handlerNeeds : List (String × Need) := [
  ("x/crosschain/types.MsgSendToExternal.ValidateBasic", .sumFits256 "Amount.Amount" "BridgeFee.Amount"),
  ("x/crosschain/types.MsgSendToExternal.ValidateBasic", .signGt0 "Amount.Amount"),
  ("x/crosschain/types.MsgSendToExternal.ValidateBasic", .signGt0 "BridgeFee.Amount"),
  ("x/crosschain/types.MsgIncreaseBridgeFee.ValidateBasic", .signGt0 "AddBridgeFee.Amount"),
  ("x/crosschain/types.MsgAddDelegate.ValidateBasic", .signGt0 "Amount.Amount"),
  ("x/crosschain/types.MsgBondedOracle.ValidateBasic", .signGe0 "DelegateAmount.Amount"),
  ("x/crosschain/types.MsgRequestBatch.ValidateBasic", .signGt0 "MinimumFee"),
  ("x/crosschain/types.MsgRequestBatch.ValidateBasic", .signGe0 "BaseFee"),
  ("x/crosschain/types.MsgBridgeCall.ValidateBasic", .nonNil "Value"),
  ("x/crosschain/types.MsgBridgeCall.ValidateBasic", .noNilCoin "Coins"),
  ("x/crosschain/types.MsgBridgeCallClaim.ValidateBasic", .lenEq "TokenContracts" "Amounts"),
  ("x/crosschain/types.MsgBridgeCallClaim.ValidateBasic", .signGe0 "Value"),
  ("x/crosschain/types.MsgSendToFxClaim.ValidateBasic", .signGe0 "Amount"),
  ("x/erc20/types.MsgConvertCoin.ValidateBasic", .signGt0 "Coin.Amount"),
  ("x/erc20/types.MsgConvertERC20.ValidateBasic", .signGt0 "Amount"),
  ("x/erc20/types.MsgConvertDenom.ValidateBasic", .signGt0 "Coin.Amount")
]

set_option maxRecDepth 100000 in
theorem handler_needs_entailed : handlerNeeds.all (fun x => needAt table x.2 msgFuel [] x.1) = true := by decide +kernel

/-- **a message that passes `ValidateBasic` has what its handler relies on** — for every entry of `handlerNeeds` and every
environment on which the regenerated validation method returns nil: amounts present and of the stated sign, `amount + fee`
representable, no nil coin, arrays of equal length.  Weakening or removing the corresponding check breaks this proof. -/
theorem validated_msg_has_handler_needs (name : String) (n : Need) (hx : (name, n) ∈ handlerNeeds) (env : Env)
    (hok : Nil (runAt table msgFuel name env)) : n.holds env := by
  have h := List.all_eq_true.1 handler_needs_entailed (name, n) hx
  exact needAt_sound table n env msgFuel [] name h (by intro f hf; cases hf) hok

set_option maxRecDepth 100000 in
-- non-vacuity: a MsgSendToExternal environment on which validation returns nil
example : runAt table msgFuel "x/crosschain/types.MsgSendToExternal.ValidateBasic"
    { ext := fun fn _ => fn == "mapHas:externalAddressRouter", isNil := fun _ => false, big := fun _ => 5, anyNil := fun _ => false,
      len := fun _ => 0, num := fun _ => 0, str := fun _ => [] } = .ok := by decide

end Msg

/-! ## handler-level panic sites: regenerated call graph, checked reachability certificates, containment by the transaction runner

`Gen/C20Handler.lean`: the static call graph of the fx-core module, entry points by signature, every explicit `panic(…)` / `Must…`
behind a transaction-level entry point of the bridge modules, the certificates `blockReach` / `ungatedReach` (bit masks), and what
`baseapp` does with a panic (module cache).  `Proofs/C20Handler.closed_sound` holds for every graph. -/
section Handler
open FxVerif.Model.C20Handler FxVerif.Gen.C20Handler FxVerif.Proofs.C20Handler

/-- both regenerated certificates check against the regenerated graphs: `blockReach` contains the block hooks and is closed
under the call edges; `ungatedReach` contains the transaction-level entry points and is closed under the call edges that do
not sit behind the vote-power threshold of `TryAttestation` -/
theorem handler_certificates_check :
    certifies graph blockRoots blockReach = true ∧ certifies ungatedGraph txRoots ungatedReach = true := by
  decide +kernel

/-- the transaction runner of `baseapp` (module cache, regenerated): the method that calls the ante handler and `runMsgs`
installs its deferred `recover()` first, `deliverTx` reaches it, and NONE of the block-level functions recovers — so a panic
in a transaction is an error result (`ErrPanic`, writes discarded) while a panic in a block hook stops the node -/
theorem tx_runner_recovers_block_hooks_do_not :
    runTxRecoversFirst = true ∧ deliverTxCallsRunTx = true ∧ blockFnsRecover = false ∧
      blockFnsFound = ["beginBlock", "endBlock", "internalFinalizeBlock", "preBlock"] := by decide

theorem explicit_panics_outside_blockReach :
    (hsites.filter (·.isPanic)).all (fun s => !inSet blockReach s.fn) = true := by decide +kernel

/-- **every explicit `panic(…)` behind a transaction-level entry point of the bridge modules is contained**: no call path from
`PreBlocker` / `BeginBlock(er)` / `EndBlock(er)` of any fx-core module reaches the function it is in (a theorem about the
regenerated call graph, through the checked certificate), and the transaction runner recovers.  Moving such a site — or a call
to its function — into a block hook breaks this proof. -/
theorem handler_panic_contained (s : HSite) (hs : s ∈ hsites) (hk : s.isPanic = true) :
    ¬ reachableFrom graph blockRoots s.fn ∧ runTxRecoversFirst = true ∧ deliverTxCallsRunTx = true := by
  refine ⟨?_, tx_runner_recovers_block_hooks_do_not.1, tx_runner_recovers_block_hooks_do_not.2.1⟩
  apply certifies_sound graph blockRoots blockReach handler_certificates_check.1
  have h := List.all_eq_true.1 explicit_panics_outside_blockReach s (by simp [List.mem_filter, hs, hk])
  simpa using h

/-- a `Must…` call that a block hook can reach works on the chain's own state: it decodes a store value, encodes an in-memory
record, reads a field of a stored record, or has a constant / no operand — never a field of a message -/
def ownState (s : HSite) : Bool := s.kind == "must" && ["store", "encode", "recv", "const", "none"].contains s.arg

theorem block_reachable_sites_own_state :
    (hsites.filter fun s => inSet blockReach s.fn).all ownState = true := by decide +kernel

/-- **disposition of every site of the inventory**: not reachable from a block hook (contained by the transaction runner), or
a `Must…` on the chain's own state -/
theorem handler_sites_disposed (s : HSite) (hs : s ∈ hsites) :
    ¬ reachableFrom graph blockRoots s.fn ∨ ownState s = true := by
  by_cases hb : inSet blockReach s.fn = true
  · right
    exact List.all_eq_true.1 block_reachable_sites_own_state s (by simp [List.mem_filter, hs]; simpa using hb)
  · left
    apply certifies_sound graph blockRoots blockReach handler_certificates_check.1
    simpa using hb

/-- the quorum gate as written in `TryAttestation`: execution of the claim, the time-out sweeps and the pruning all sit behind
`if attestationPower.LT(requiredPower) { continue }`, and none of them is also called in front of it -/
theorem quorum_gate_as_written :
    gateFunc = "x/crosschain/keeper.Keeper.TryAttestation" ∧ gateCond = "attestationPower.LT(requiredPower)" ∧
    ["x/crosschain/keeper.Keeper.processAttestation", "x/crosschain/keeper.Keeper.cleanupTimedOutBatches",
      "x/crosschain/keeper.Keeper.cleanupTimeOutBridgeCall", "x/crosschain/keeper.Keeper.pruneAttestations"].all
        (fun f => gatedCallees.contains f && !ungatedCallees.contains f) = true := by decide

/-- functions that execute an observed claim: what a hostile ORACLE QUORUM can steer (by number, through the regenerated names:
a function that disappears makes this definition fail to compile) -/
def claimExecutionFuncs : List Nat := [
  fn.«x/crosschain/keeper.Keeper.OutgoingTxBatchExecuted»,     -- `unknown batch nonce …`, `Failed cancel out batch …`
  fn.«x/crosschain/keeper.Keeper.cleanupTimedOutBatches»,      -- `Failed cancel out batch …`
  fn.«x/crosschain/keeper.Keeper.CancelOutgoingTxBatch»,       -- `unable to add batched transaction back into pool`
  fn.«x/crosschain/keeper.Keeper.UpdateOracleSetExecuted»,     -- `Potential bridge highjacking …`
  fn.«x/crosschain/keeper.Keeper.SavePendingExecuteClaim»,
  fn.«x/crosschain/keeper.Keeper.IterateAttestationAndClaim»   -- pruneAttestations: `couldn't cast to claim`
]

theorem claim_execution_outside_ungatedReach :
    (hsites.filter fun s => claimExecutionFuncs.contains s.fn).all (fun s => !inSet ungatedReach s.fn) = true ∧
    claimExecutionFuncs.all (fun f => hsites.any fun s => s.fn == f && s.isPanic) = true := by decide +kernel

/-- **the panic hsites of claim execution can be reached from a transaction only through the calls behind the vote-power
threshold**: in the call graph without those calls no message-server method, precompile `Run` or IBC callback reaches them.
A single account (even a registered bridger) cannot steer them; ≥ 2/3 of the oracle power can, and then `handler_panic_contained`
applies (error result, node keeps running). -/
theorem claim_execution_sites_quorum_gated (s : HSite) (hs : s ∈ hsites) (hf : s.fn ∈ claimExecutionFuncs) :
    ¬ reachableFrom ungatedGraph txRoots s.fn := by
  apply certifies_sound ungatedGraph txRoots ungatedReach handler_certificates_check.2
  have h := List.all_eq_true.1 claim_execution_outside_ungatedReach.1 s (by simp [List.mem_filter, hs]; simpa using hf)
  simpa using h

/-- the inventory is not vacuous: it holds the hsites named in the gap list; the entry points include the bridge's message
server (`Claim`), its end-blocker, the application's end-blocker and the `executeClaim` precompile method -/
theorem handler_inventory_has_key_sites :
    hsites.any (fun s => s.fn == fn.«x/crosschain/keeper.Keeper.OutgoingTxBatchExecuted» && s.isPanic && s.conds.length == 1) = true ∧
    hsites.any (fun s => s.fn == fn.«x/crosschain/keeper.Keeper.BridgeCallResultHandler» && s.isPanic) = true ∧
    txRoots.contains fn.«x/crosschain/keeper.MsgServer.Claim» = true ∧
    blockRoots.contains fn.«x/crosschain/keeper.Keeper.EndBlocker» = true ∧ blockRoots.contains fn.«app.App.EndBlocker» = true ∧
    txRoots.contains fn.«x/crosschain/precompile.ExecuteClaimMethod.Run» = true ∧
    30 ≤ (hsites.filter (·.isPanic)).length ∧ 10 ≤ blockRoots.length ∧ 60 ≤ txRoots.length := by decide +kernel

-- the closure check distinguishes: a set that misses a callee is rejected, and then something outside it IS reachable
example : closed [(0, [1]), (1, [2])] 0b011 = false := by decide
example : closed [(0, [1]), (1, [2])] 0b111 = true := by decide
example : reachableFrom [(0, [1]), (1, [2])] [0] 2 :=
  ⟨0, by simp, Reach.step (b := 1) (Reach.step (b := 0) (Reach.refl 0) ⟨[1], by simp, by simp⟩) ⟨[2], by simp, by simp⟩⟩
-- `bridge call not found` (BridgeCallResultHandler) is NOT behind the gate: `executeClaim` reaches it for anyone once a claim is
-- parked — contained by the transaction runner, not by the quorum
example : (hsites.filter fun s => s.fn == fn.«x/crosschain/keeper.Keeper.BridgeCallResultHandler»).all
    (fun s => inSet ungatedReach s.fn && !inSet blockReach s.fn) = true := by decide +kernel

/-! ### gRPC query handlers (round 5): reachability from the Query entry points, what recovers a query, caller-side guards

A query is not run by the transaction runner.  Two transports reach a query method: ABCI `Query` (CometBFT RPC `abci_query`, the
REST gateway, the node's own clients) and the gRPC server.  Both facts are regenerated from the cosmos-sdk fork in the module
cache: `BaseApp.Query` installs a deferred `recover()` before it routes; `BaseApp.RegisterGRPCServer` re-registers every method
with `ChainUnaryServer(recovery.UnaryServerInterceptor(), …)` — without the first, a panic in a gRPC handler goroutine ends the
PROCESS (grpc-go does not recover).  Beyond containment the inventory shows that hostile requests cannot steer the sites. -/

/-- the regenerated certificate `queryReach` contains every gRPC query method of every fx-core module and is closed under the
call edges -/
theorem query_certificate_checks : certifies graph queryRoots queryReach = true := by decide +kernel

/-- **what recovers a query** (regenerated from `baseapp/abci.go` and `baseapp/grpcserver.go` of the module cache): ABCI `Query`
defers its `recover()` in front of the route to `handleQueryGRPC`; the gRPC server wraps every method handler in a chain whose
OUTERMOST interceptor is go-grpc-middleware's recovery interceptor (the SDK's context interceptor runs inside it) -/
theorem query_transports_recover :
    abciQueryRecoversFirst = true ∧ abciQueryRoutesGrpc = true ∧ grpcChainInHandler = true ∧
    grpcChain = ["github.com/grpc-ecosystem/go-grpc-middleware/recovery.UnaryServerInterceptor()", "interceptor"] := by decide

/-- functions with an explicit `panic(…)` that a query method can reach, according to the site inventory -/
def queryPanicFns : List Nat := (qsites.filter (·.isPanic)).map (·.fn)

theorem query_panic_hosts_listed :
    (panicHosts.filter (inSet queryReach)).all (fun f => queryPanicFns.contains f) = true ∧
    queryPanicFns.all (fun f => !queryRoots.contains f) = true ∧
    edgesGuarded graph queryReach qcalls queryPanicFns = true := by decide +kernel

/-- **the panic inventory behind the query entry points is complete** with respect to the regenerated graph: a function of the
module whose body contains an explicit `panic(…)` and that ANY call path from ANY gRPC query method reaches has its panic in
`qsites` (so the dispositions below speak about all of them) -/
theorem query_panic_inventory_complete (f : Nat) (hf : f ∈ panicHosts) (hr : reachableFrom graph queryRoots f) :
    ∃ s ∈ qsites, s.fn = f ∧ s.isPanic = true := by
  have hin : inSet queryReach f = true := by
    cases h : inSet queryReach f
    · exact absurd hr (certifies_sound graph queryRoots queryReach query_certificate_checks f h)
    · rfl
  have h := List.all_eq_true.1 query_panic_hosts_listed.1 f (by simp [List.mem_filter, hf, hin])
  simp only [queryPanicFns, List.contains_iff_mem, List.mem_map, List.mem_filter] at h
  obtain ⟨s, ⟨hs, hk⟩, rfl⟩ := h
  exact ⟨s, hs, rfl, hk⟩

/-- **a hostile request cannot steer an explicit panic behind a query**: whatever the call path from a query method to the
function that hosts the panic, the LAST call on it is in the regenerated call table and the caller tests the very condition the
panic sits behind, on the same argument, in a dominating early return (`getQueryServerByChainName`: `if !k.router.HasRoute(chainName)
{ return nil, error }` in front of `k.router.GetRoute(chainName)`, whose body is `if !rtr.HasRoute(path) { panic(…) }`).  Two
cooperating sites: dropping the caller's test, or calling the host from a second place without it, breaks this proof.  No query
method hosts such a panic itself. -/
theorem query_panic_calls_guarded (s : HSite) (hs : s ∈ qsites) (hk : s.isPanic = true)
    {r a : Nat} (hr : r ∈ queryRoots) (hra : Reach graph r a) (he : graph.edge a s.fn) :
    callsGuarded qcalls a s.fn = true ∧ s.fn ∉ queryRoots := by
  have hm : s.fn ∈ queryPanicFns := by
    simp only [queryPanicFns, List.mem_map, List.mem_filter]
    exact ⟨s, ⟨hs, hk⟩, rfl⟩
  refine ⟨edgesGuarded_sound graph queryRoots queryReach qcalls queryPanicFns query_certificate_checks
    query_panic_hosts_listed.2.2 hr hra he hm, ?_⟩
  have h := List.all_eq_true.1 query_panic_hosts_listed.2.1 s.fn hm
  simpa using h

/-- every `Must…` call behind a query decodes the chain's own state (a store value, a stored record's field): none takes a field
of the request -/
theorem query_must_sites_own_state :
    (qsites.filter (fun s => !s.isPanic)).all (fun s => s.kind == "must" && s.arg != "msg" && s.arg != "none") = true := by
  decide +kernel

/-- not vacuous: the query side has entry points in the bridge, erc20, gov and migrate modules, a non-trivial reach, the router
panic with its guarded call, and store-decoding `Must…` sites -/
theorem query_inventory_has_key_sites :
    40 ≤ queryRoots.length ∧ 100 ≤ (nodes.filter fun n => inSet queryReach n.id).length ∧
    qsites.any (fun s => s.fn == fn.«x/crosschain/keeper.router.GetRoute» && s.isPanic && s.conds == ["!rtr.HasRoute(path)"]) = true ∧
    qcalls.any (fun c => c.callee == fn.«x/crosschain/keeper.router.GetRoute» && c.guard == "HasRoute" && c.guarded) = true ∧
    10 ≤ (qsites.filter (fun s => !s.isPanic)).length := by decide +kernel

-- the guarded-edge check distinguishes: the same graph with the dominating test missing is rejected, and a second, unrecorded
-- call of the host is rejected as well
example : edgesGuarded [(0, [1]), (1, [2])] 0b111 [⟨1, 2, "HasRoute", "x", true⟩] [2] = true := by decide
example : edgesGuarded [(0, [1]), (1, [2])] 0b111 [⟨1, 2, "HasRoute", "x", false⟩] [2] = false := by decide
example : edgesGuarded [(0, [1, 2]), (1, [2])] 0b111 [⟨1, 2, "HasRoute", "x", true⟩] [2] = false := by decide
example : ∃ s ∈ qsites, s.isPanic = true ∧ ∃ r ∈ queryRoots, inSet queryReach s.fn = true ∧ inSet queryReach r = true := by
  refine ⟨qsites.find? (·.isPanic) |>.get (by decide +kernel), List.mem_of_find?_eq_some (Option.some_get _).symm, ?_⟩
  decide +kernel

/-- **no optional part of a query request is dereferenced without a nil test** (round 5): gogoproto decodes an absent message-typed
field (`pagination`, …) to a nil pointer; getter methods are nil-safe, a field selection through the pointer is not.  In every
function a gRPC query method reaches, every field selection through a pointer-typed field of a `*Query…Request` parameter is
dominated by a nil test of that pointer.  (On the pinned tree the code uses getters and hands `req.Pagination` on as a whole,
so the regenerated list is empty; `qreqParams` counts the request parameters that were inspected, and the examples show what
the check rejects — e.g. a page-size cap `if req.Pagination.Limit > 100 {…}` without a test.) -/
theorem query_request_pointers_nil_checked : qderefs.all (·.guarded) = true ∧ 40 ≤ qreqParams := by decide

example : ([⟨1, "req.Pagination.Limit", "req.Pagination", false⟩] : List QDeref).all (·.guarded) = false := by decide
example : ([⟨1, "req.Pagination.Limit", "req.Pagination", true⟩] : List QDeref).all (·.guarded) = true := by decide

/-- **the IBC middleware's callbacks are in the same inventory** (round 5): every `OnRecvPacket` / `OnAcknowledgementPacket` /
`OnTimeoutPacket` of the fx-core module is a transaction-level root (they run inside `MsgRecvPacket` / `MsgAcknowledgement` /
`MsgTimeout`, i.e. under the transaction runner), so `handler_panic_contained` and `handler_sites_disposed` speak about every
explicit panic / `Must…` they reach; none of them is a block hook -/
theorem ibc_callbacks_are_tx_roots :
    (nodes.filter (·.kind == "ibc")).all (fun n => txRoots.contains n.id && !blockRoots.contains n.id) = true ∧
    3 ≤ (nodes.filter (·.kind == "ibc")).length := by decide +kernel

end Handler

/-! ## bech32 decoding behind every Cosmos-address check (round 5): the decoder modelled, its slices in range, its constants regenerated

`Model/C20Bech32.lean` follows `sdk.GetFromBech32 → types/bech32.DecodeAndConvert → btcutil/bech32.Decode(·, 1023) → ConvertBits(·, 5, 8,
false)` statement by statement; the `bech` driver lines compare its verdict (error class, human-readable part, address bytes) with the
real decoder on hostile strings.  The theorems hold for EVERY byte string. -/
section Bech32
open FxVerif.Model.C20Bech32 FxVerif.Proofs.C20Bech32

/-- the constants of the model are the constants of the code: charset and generator table of btcutil, minimum length of
`DecodeNoLimit`, the limit the cosmos-sdk fork hands to `Decode`, the separator window and the four slice expressions of
`DecodeUnsafe`, the printable range of `Normalize`; fx-core's prefix, address length and the two tests of `VerifyAddressFormat` -/
theorem bech32_constants_as_written :
    charset = FxVerif.Gen.C20Bech32.charset.toList.map Char.toNat ∧ gen = FxVerif.Gen.C20Bech32.gen ∧
    (minLen : Int) = FxVerif.Gen.C20Bech32.minLen ∧ (limit : Int) = FxVerif.Gen.C20Bech32.limit ∧
    FxVerif.Gen.C20Bech32.separatorCond = "one < 1 || one+7 > len(bech)" ∧
    FxVerif.Gen.C20Bech32.decodeUnsafeSlices = ["bech[:one]", "bech[one+1:]", "decoded[:len(decoded)-6]", "decoded[len(decoded)-6:]"] ∧
    FxVerif.Gen.C20Bech32.normalizeConds = ["(*bech)[i] < 33 || (*bech)[i] > 126", "hasLower && hasUpper", "hasUpper"] ∧
    FxVerif.Gen.C20Bech32.addressPrefix = "fx" ∧ FxVerif.Gen.C20Bech32.addrLen = 20 ∧
    FxVerif.Gen.C20Bech32.verifyAddressConds = ["len(bz) == 0", "len(bz) != AddrLen"] := by decide

/-- **the slices of `DecodeUnsafe` are in range whenever they are reached** — for every byte string: once the separator test
`one < 1 || one+7 > len(bech)` has passed, `bech[:one]` and `bech[one+1:]` are inside the string, and every result of `toBytes` on
the data part has at least six elements, so `decoded[:len(decoded)-6]` and `decoded[len(decoded)-6:]` cannot go out of range.
(With the minimum length 8 in front, `bech[len(bech)-6:]` of the checksum error path is in range as well.) -/
theorem bech32_slices_in_range (s : List Nat) (one : Nat) (hsep : separator s = .ok one) :
    one ≤ s.length ∧ one + 1 ≤ s.length ∧ 1 ≤ (s.take one).length ∧
    ∀ decoded, toBytes (s.drop (one + 1)) = .ok decoded → 6 ≤ decoded.length := by
  have h := separator_ok s one hsep
  refine ⟨by omega, by omega, by simp only [List.length_take]; omega, ?_⟩
  intro decoded hd
  have := toBytes_length _ decoded hd
  simp only [List.length_drop] at this
  omega

/-- **what the decoder accepts** — for every byte string: an accepted string has between 8 and 1023 bytes and a non-empty
human-readable part, and the address it yields has exactly `⌊5·(len − len(hrp) − 7)/8⌋ ≤ 635` bytes.  Everything else is
answered with one of eight error classes (the result type has no third alternative). -/
theorem bech32_accepts_only_wellformed (s hrp bz : List Nat) (h : decodeAndConvert s = .ok (hrp, bz)) :
    8 ≤ s.length ∧ s.length ≤ 1023 ∧ 1 ≤ hrp.length ∧ bz.length = 5 * (s.length - hrp.length - 7) / 8 ∧ bz.length ≤ 635 := by
  have h2 := decodeAndConvert_ok_length s hrp bz h
  have h1 : 8 ≤ s.length ∧ s.length ≤ 1023 := by
    unfold decodeAndConvert at h
    split at h
    · cases h
    · rename_i hrp' values hd
      have := decode_ok_spec s hrp' values hd
      exact ⟨this.1, this.2.1⟩
  exact ⟨h1.1, h1.2, h2.2.2.1, h2.1, h2.2.1⟩

/-- **an fx address is 20 bytes, so its text has a fixed length**: when `GetFromBech32` + `VerifyAddressFormat` accept a string
under a prefix, the string has exactly `len(prefix) + 39` bytes (`fx1…`: 41) — length-extension and truncation cannot be accepted -/
theorem bech32_address_text_length (pfx s : List Nat) (h : addressClass pfx (· == 20) s = "ok") :
    s.length = pfx.length + 39 := by
  unfold addressClass at h
  split at h
  · exact absurd h (by decide)
  · split at h
    · rename_i e _
      cases e <;> exact absurd h (by decide)
    · rename_i hrp bz hd
      split at h
      · exact absurd h (by decide)
      · rename_i hp
        split at h
        · rename_i hl
          have h1 := bech32_accepts_only_wellformed s hrp bz hd
          have h2 := decodeAndConvert_ok_length s hrp bz hd
          have hh : hrp = pfx := by simpa using hp
          have hl' : bz.length = 20 := by simpa using hl
          subst hh
          omega
        · exact absurd h (by decide)

/-- `fxtypes.ParseAddress` with its bech32 test instantiated by the decoder model (`bech32.DecodeAndConvert(addr)` succeeds — any
prefix, no address-length rule: this is what the IBC middleware runs on the `receiver` of an incoming packet): whenever the
bech32 branch is taken the text has 8..1023 bytes, and the address it yields has at most 635 bytes — so `receiver.String()`
(bech32 re-encoding, which fails only on 5-bit overflow) cannot be driven out of range by the packet -/
def bech32Decodes (a : List Char) : Bool := (decodeAndConvert (a.map Char.toNat)).toOption.isSome

theorem parseAddress_bech32_branch_bounded (ck : List Char → Bool) (a : List Char)
    (h : FxVerif.Model.C20.parseAddress bech32Decodes ck a = .ok false) :
    8 ≤ a.length ∧ a.length ≤ 1023 ∧
    ∃ hrp bz, decodeAndConvert (a.map Char.toNat) = .ok (hrp, bz) ∧ bz.length ≤ 635 ∧ 1 ≤ hrp.length := by
  have hb : bech32Decodes a = true := ((parseAddress_spec bech32Decodes ck a).1).1 h
  unfold bech32Decodes at hb
  cases hd : decodeAndConvert (a.map Char.toNat) with
  | error e => rw [hd] at hb; simp [Except.toOption] at hb
  | ok r =>
    obtain ⟨hrp, bz⟩ := r
    have := bech32_accepts_only_wellformed _ hrp bz hd
    simp only [List.length_map] at this
    exact ⟨this.1, this.2.1, hrp, bz, rfl, this.2.2.2.2, this.2.2.1⟩

example : FxVerif.Model.C20.parseAddress bech32Decodes (fun _ => true) "a12uel5l".toList = .ok false := by
  exact ((parseAddress_spec bech32Decodes (fun _ => true) "a12uel5l".toList).1).2 (by decide +kernel)

-- non-vacuity: an accepted address, and every error class is inhabited (the model is executable)
example : (decodeAndConvert ("cosmos1qypqxpq9qcrsszg2pvxq6rs0zqg3yyc5lzv7xu".toList.map Char.toNat)).toOption =
    some ("cosmos".toList.map Char.toNat, (List.range 20).map (· + 1)) := by decide +kernel
example : addressClass ("cosmos".toList.map Char.toNat) (· == 20) ("cosmos1qypqxpq9qcrsszg2pvxq6rs0zqg3yyc5lzv7xu".toList.map Char.toNat) = "ok" := by
  decide +kernel
example : (["", "a1qqqqq", "a b1qqqqqq", "aB1qqqqqq", "aqqqqqqqq", "1qqqqqqq", "a1bqqqqqq", "a1qqqqqqq", "a1q3g6mn3", "a12uel5l"].map
    fun t => addressClass [97] (· == 20) (t.toList.map Char.toNat)) =
    ["empty", "too-short", "invalid-char", "mixed-case", "separator", "separator", "non-charset", "checksum", "incomplete-group",
      "length"] := by
  decide +kernel
example : addressClass [97] (· == 20) (List.replicate 1024 113) = "too-long" ∧
    addressClass [97] (· == 20) (97 :: 49 :: List.replicate 100 113) = "checksum" := by decide +kernel
example : (separator ("a12uel5l".toList.map Char.toNat)).toOption = some 1 := by decide +kernel

end Bech32

end FxVerif.Props.C20
