import FxVerif.Proofs.C06
import FxVerif.Proofs.C05Ext
import FxVerif.Proofs.C05Prompt
import FxVerif.Proofs.C05Sol
import FxVerif.Props.C01
import FxVerif.Proofs.C06Vote
/-!
# C06 — outgoing value is released only once the external chain can no longer run it

Property theorems only.  The comparison operators, the source of the height the clean-ups compare against, every caller
of the clean-ups, the zero-timeout guards (`Gen/C05.lean`, Go AST) and the `require(block.number < timeout)` rules of
`FxBridgeLogic.sol` (Solidity text) are regenerated from `/repo` on every run; the statements below are over these
generated definitions.
-/
namespace FxVerif.Props.C06
open FxVerif.Gen.C05 FxVerif.Model.C05 FxVerif.Proofs.C05 FxVerif.Proofs.C06 List

/-- where and how the clean-ups run, as read from the source now: only `TryAttestation` calls them, after the observed
height of the claim has been stored and the event handled; both compare against the observed *external* height -/
theorem cleanup_runs_only_after_observation :
    cleanupCallers = ["TryAttestation"] ∧ observedHeightArg = "claim.GetBlockHeight()" ∧
    tryAttestationOrder = ["SetLastObservedEventNonce", "SetLastObservedBlockHeight", "processAttestation",
      "cleanupTimedOutBatches", "cleanupTimeOutBridgeCall"] ∧
    batchCleanupSrc = .observedExternal ∧ callCleanupSrc = .observedExternal ∧
    batchCleanupCancels = true ∧ batchCleanupVisitsAll = true ∧ batchIter = .reverse ∧
    callCleanupStops = true ∧ callCleanupRefunds = true ∧ callCleanupDeletes = true ∧ callIter = .forward := by decide

/-- the exact release rules: a batch is cancelled for time-out at observed external height `h` iff `timeout < h` -/
theorem batch_release_rule (h : Nat) (b : Batch) : batchExpired h b = true ↔ b.timeout < h := by
  have h1 : batchCleanupCmp = .lt := by decide
  have h2 : batchCleanupCancels = true := by decide
  simp [batchExpired, h1, h2, Cmp.eval]

/-- … and the bridge calls refunded are the longest prefix, in nonce order, of records with `timeout ≤ h` (the iteration
stops at the first record that has not timed out) -/
theorem call_release_rule (h : Nat) (cs : List Call) :
    expiredCalls h cs = cs.takeWhile (fun c => decide (c.timeout ≤ h)) ∧
    keptCalls h cs = cs.dropWhile (fun c => decide (c.timeout ≤ h)) := by
  have h1 : callCleanupStopCmp = .gt := by decide
  have h2 : callCleanupStops = true := by decide
  have e : (fun c : Call => !callStops h c) = (fun c => decide (c.timeout ≤ h)) := by
    funext c; simp only [callStops, h1, Cmp.eval]; exact not_lt_decide _ _
  simp [expiredCalls, keptCalls, h2, e]

/-- the external contract's rules, as read from `FxBridgeLogic.sol` now -/
theorem solidity_rules (blockNumber timeout lastNonce nonce : Nat) :
    (solBatchTimeoutCmp.eval blockNumber timeout = true ↔ blockNumber < timeout) ∧
    (solCallTimeoutCmp.eval blockNumber timeout = true ↔ blockNumber < timeout) ∧
    (solBatchNonceCmp.eval lastNonce nonce = true ↔ lastNonce < nonce) ∧ solCallNonceOnce = true := by
  have h1 : solBatchTimeoutCmp = .lt := by decide
  have h2 : solCallTimeoutCmp = .lt := by decide
  have h3 : solBatchNonceCmp = .lt := by decide
  simp [h1, h2, h3, Cmp.eval]; decide

/-- `cleanup_reads_only_observed_height` (non-interference): two states that agree on pool, batches, bridge calls,
ledger, settlement log and the last observed *external* height — and differ arbitrarily in fxcore height, the fxcore
height of the last observation, block-time / timeout parameters, counters, pending claims — clean up exactly the same
records with exactly the same effects -/
theorem cleanup_reads_only_observed_height (s1 s2 : State)
    (hp : s1.pool = s2.pool) (hb : s1.batches = s2.batches) (hc : s1.calls = s2.calls) (hl : s1.bal = s2.bal)
    (hs : s1.settled = s2.settled) (hh : s1.obsExt = s2.obsExt) :
    slice (cleanupCalls (cleanupBatches s1)) = slice (cleanupCalls (cleanupBatches s2)) := by
  have e1 : batchCleanupSrc = .observedExternal := by decide
  have e2 : callCleanupSrc = .observedExternal := by decide
  rw [cleanup_eq s1 e1 e2, cleanup_eq s2 e1 e2, hh]
  simp [slice, hp, hb, hc, hl, hs]

/-- fxcore's own clock and parameter changes release nothing: `block` and `setParams` leave pool, batches, bridge
calls, ledger and settlement log untouched -/
theorem clock_and_params_release_nothing (s : State) (n : Nat) (p : Params) :
    slice (step s (.block n)).1 = slice s ∧ slice (step s (.setParams p)).1 = slice s := by
  refine ⟨rfl, ?_⟩
  simp only [step]
  split <;> rfl

/-- an observation releases exactly what the rules say, at the height carried by the observed event: for an unrelated
event the batches left are those with `timeout ≥ h`, the cancelled ones are back in the pool, the bridge calls left are
`dropWhile (timeout ≤ h)` -/
theorem observe_releases_by_rule (s : State) (h : Nat) :
    (doObserve s h .other).1.batches = s.batches.filter (fun b => decide (h ≤ b.timeout)) ∧
    (doObserve s h .other).1.calls = s.calls.dropWhile (fun c => decide (c.timeout ≤ h)) ∧
    (doObserve s h .other).1.pool.Perm ((s.batches.filter (fun b => decide (b.timeout < h))).flatMap (·.txs) ++ s.pool) := by
  have e1 : batchCleanupSrc = .observedExternal := by decide
  have e2 : callCleanupSrc = .observedExternal := by decide
  have hd : callCleanupDeletes = true := by decide
  have hk := cleanup_eq { s with eventNonce := s.eventNonce + 1, obsExt := h, obsFx := s.fxHeight } e1 e2
  have hb : ∀ b, batchExpired h b = decide (b.timeout < h) := by
    intro b
    have := batch_release_rule h b
    by_cases hlt : b.timeout < h <;> simp_all
  have e : batchExpired h = fun b => decide (b.timeout < h) := funext hb
  rw [doObserve_eq]
  simp only [doObserveStd, handleEvent]
  have hp := congrArg Slice.pool hk
  have hbt := congrArg Slice.batches hk
  have hcl := congrArg Slice.calls hk
  simp only [slice, cleanupAt, hd, if_true, e, (call_release_rule h _).2] at hp hbt hcl
  refine ⟨?_, hcl, ?_⟩
  · rw [hbt]; congr 1; funext b; exact not_lt_decide _ _
  · rw [hp]; exact insertAll_perm _ _

/-- `no_batch_before_observation`: while no external height has been observed, no batch and no outgoing bridge call
can be created (timeout 0 is rejected); and a batch / bridge call that is created carries a positive timeout -/
theorem no_batch_before_observation (s : State) (hz : s.obsExt = 0) (t : Token) (mf bf : Nat) (fr : String)
    (a r : Addr) (to d m : String) (cs : List (Token × Nat)) :
    doReqBatch s t mf bf fr = (s, .err) ∧ doBridgeCall s a r to d m cs = (s, .err) := by
  have h1 : calTimeoutGuardCmp = .eq := by decide
  have h2 : calTimeoutGuardReturnsZero = true := by decide
  have h3 : batchZeroTimeoutCmp = .le := by decide
  have h4 : batchZeroTimeoutRejects = true := by decide
  have h5 : callZeroTimeoutCmp = .le := by decide
  have h6 : callZeroTimeoutRejects = true := by decide
  have hc : ∀ p, calTimeout s p = 0 := by intro p; simp [calTimeout, h1, h2, hz, Cmp.eval]
  constructor
  · unfold doReqBatch
    simp only [hc, h3, h4, Cmp.eval]
    repeat' split
    all_goals first | rfl | simp_all
  · unfold doBridgeCall
    simp only [hc, h5, h6, Cmp.eval]
    repeat' split
    all_goals first | rfl | simp_all

theorem created_timeouts_positive (s s' : State) (n : Nat) :
    (∀ t mf bf fr, doReqBatch s t mf bf fr = (s', .ok n) → ∃ b, s'.batches = s.batches ++ [b] ∧ 0 < b.timeout ∧ 0 < s.obsExt) ∧
    (∀ a r to d m cs, doBridgeCall s a r to d m cs = (s', .ok n) →
      ∃ c, s'.calls = s.calls ++ [c] ∧ 0 < c.timeout ∧ 0 < s.obsExt) := by
  have h3 : batchZeroTimeoutCmp = .le := by decide
  have h4 : batchZeroTimeoutRejects = true := by decide
  have h5 : callZeroTimeoutCmp = .le := by decide
  have h6 : callZeroTimeoutRejects = true := by decide
  have hobs : ∀ p, 0 < calTimeout s p → 0 < s.obsExt := by
    intro p hp
    by_cases hz : s.obsExt = 0
    · have h1 : calTimeoutGuardCmp = .eq := by decide
      have h2 : calTimeoutGuardReturnsZero = true := by decide
      simp [calTimeout, h1, h2, hz, Cmp.eval] at hp
    · omega
  constructor
  · intro t mf bf fr h
    unfold doReqBatch at h
    simp only [h3, h4, Cmp.eval, Bool.true_and, decide_eq_true_eq, Nat.le_zero_eq] at h
    repeat' split at h
    all_goals first
      | (cases h; exact ⟨_, rfl, by simp only; omega, hobs s.params.batchTimeout (by omega)⟩)
      | cases h
  · intro a r to d m cs h
    unfold doBridgeCall at h
    simp only [h5, h6, Cmp.eval, Bool.true_and, decide_eq_true_eq, Nat.le_zero_eq] at h
    repeat' split at h
    all_goals first
      | (cases h; exact ⟨_, rfl, by simp only; omega, hobs s.params.callTimeout (by omega)⟩)
      | cases h

/-- `no_batch_before_observation`, over histories: every batch and every outgoing bridge call ever created, along every
operation list from every initial state (where no external height has been observed yet), carries a positive timeout —
it was created after the first observation, with a timeout computed from an observed external height -/
theorem created_after_observation (s0 : State) (h0 : IsInit s0) (ops : List Op) :
    (∀ b ∈ (runExt s0 {} ops).2.created, 0 < b.timeout) ∧ (∀ c ∈ (runExt s0 {} ops).2.createdCalls, 0 < c.timeout) ∧
    (∀ b ∈ (run s0 ops).batches, 0 < b.timeout) ∧ (∀ c ∈ (run s0 ops).calls, 0 < c.timeout) := by
  have ht0 : T {} := ⟨fun b hb => (by cases hb), fun c hc => (by cases hc)⟩
  have ht := T_run (s := s0) ht0 ops
  have hn := N_run (N_init h0) ops
  rw [runExt_fst] at hn
  rw [runExt_eq]
  exact ⟨ht.batches, ht.calls, fun b hb => ht.batches b (hn.sub b hb), fun c hc => ht.calls c (hn.csub c hc)⟩

/-- `refund_excludes_execution`, batches.  A batch cancelled for time-out at the observation of an event at external
height `h` (`timeout < h`, the generated Go rule) cannot be submitted at any block `h' ≥ h`: the contract's generated rule
`require(block.number < _batchTimeout)` fails there -/
theorem refund_excludes_execution_batch (b : Batch) (h h' : Nat) (hrel : batchExpired h b = true) (hmono : h ≤ h') :
    solBatchTimeoutCmp.eval h' b.timeout = false := by
  have hlt := (batch_release_rule h b).mp hrel
  have h1 : solBatchTimeoutCmp = .lt := by decide
  simp [h1, Cmp.eval]; omega

/-- `refund_excludes_execution`, bridge calls: a bridge call refunded for time-out at external height `h`
(`timeout ≤ h`, generated) fails the contract's `require(block.number < _input.timeout)` at every block `h' ≥ h` -/
theorem refund_excludes_execution_call (c : Call) (cs : List Call) (h h' : Nat) (hrel : c ∈ expiredCalls h cs)
    (hmono : h ≤ h') : solCallTimeoutCmp.eval h' c.timeout = false := by
  rw [(call_release_rule h cs).1] at hrel
  have := mem_takeWhile_true _ _ _ hrel
  have h1 : solCallTimeoutCmp = .lt := by decide
  simp only [decide_eq_true_eq] at this
  simp [h1, Cmp.eval]; omega

/-- an external event: its height, and what it executes -/
structure ExtEvent where
  height : Nat
  execBatch : Option (Token × Nat) := none
  execCall : Option Nat := none

/-- environment: the external contract accepted the submission this event reports (generated Solidity rules) -/
def contractAccepted (e : ExtEvent) (bs : List Batch) (cs : List Call) : Prop :=
  (∀ b ∈ bs, e.execBatch = some (b.token, b.nonce) → solBatchTimeoutCmp.eval e.height b.timeout = true) ∧
  (∀ c ∈ cs, e.execCall = some c.nonce → solCallTimeoutCmp.eval e.height c.timeout = true)

/-- `refund_excludes_execution` over event sequences: if external event heights are non-decreasing in event-nonce order and
every execution event was accepted by the contract, then a batch cancelled / a bridge call refunded for time-out at the
observation of event `i` is not executed by any event `j > i` — the same funds are never released on fxcore and later
executed on the external chain -/
theorem refund_excludes_execution (evs : List ExtEvent) (hmono : evs.Pairwise (fun a b => a.height ≤ b.height))
    (bs : List Batch) (cs : List Call) (i j : Nat) (hij : i < j) (hj : j < evs.length)
    (hacc : contractAccepted evs[j] bs cs) :
    (∀ b ∈ bs, batchExpired (evs[i]'(by omega)).height b = true → evs[j].execBatch ≠ some (b.token, b.nonce)) ∧
    (∀ c ∈ cs, c ∈ expiredCalls (evs[i]'(by omega)).height cs → evs[j].execCall ≠ some c.nonce) := by
  have hle : (evs[i]'(by omega)).height ≤ evs[j].height := (pairwise_iff_getElem.mp hmono) i j (by omega) hj hij
  constructor
  · intro b hb hrel hex
    have := refund_excludes_execution_batch b _ _ hrel hle
    rw [hacc.1 b hb hex] at this
    cases this
  · intro c hc hrel hex
    have := refund_excludes_execution_call c cs _ _ hrel hle
    rw [hacc.2 c hc hex] at this
    cases this

/-- the other way a batch is cancelled — a batch of the same token with a higher nonce was executed — is equally final:
the contract then holds `lastBatchNonce ≥` the executed nonce and rejects every lower nonce (generated nonce rule) -/
theorem superseded_excludes_execution (b b' : Batch) (last : Nat)
    (hcancel : (executedCancelsCmp.eval b'.nonce b.nonce && (!executedCancelsSameToken || b'.token == b.token)) = true)
    (hlast : b.nonce ≤ last) : solBatchNonceCmp.eval last b'.nonce = false ∧ b'.token = b.token := by
  have h1 : executedCancelsCmp = .lt := by decide
  have h2 : executedCancelsSameToken = true := by decide
  have h3 : solBatchNonceCmp = .lt := by decide
  simp only [h1, h2, Cmp.eval, Bool.not_true, Bool.false_or, Bool.and_eq_true, decide_eq_true_eq, beq_iff_eq] at hcancel
  refine ⟨?_, hcancel.2⟩
  simp [h3, Cmp.eval]; omega

/-- `released_only_by_observation` (every state, every operation): a batch leaves fxcore's store only at the observation
of an external event whose height is above its timeout, or that executes a batch of the same token with the same or a
higher nonce; an outgoing bridge call leaves only at the observation of an event whose height has reached its timeout,
or when an observed result for it is applied.  No user message, no block (`EndBlocker` calls no clean-up: regenerated),
no parameter change releases anything — never fxcore's own clock or a projected height. -/
theorem released_only_by_observation (s : State) (op : Op) :
    (∀ b ∈ s.batches, b ∉ (step s op).1.batches →
      ∃ h ev, op = .observe h ev ∧ (b.timeout < h ∨ ∃ t n, ev = .batch t n ∧ b.token = t ∧ b.nonce ≤ n)) ∧
    (∀ c ∈ s.calls, c ∉ (step s op).1.calls →
      (∃ h ev, op = .observe h ev ∧ c.timeout ≤ h) ∨ (∃ n ok, op = .exec n ∧ (n, c.nonce, ok) ∈ s.pending)) :=
  FxVerif.Proofs.C05.released_only_by_observation s op

/-- `released_means_no_longer_executable` — the property over whole histories.  Environment: every observed event is one
the bridge contract can have produced (`AdmissibleRun`: heights non-decreasing in event order, the Solidity `require`s
as read from FxBridgeLogic.sol).  Then after every such operation list, from every initial state: a batch fxcore ever
created and no longer holds (executed, superseded, or cancelled for time-out — its transfers are refundable again) can
not be executed by any further admissible event, at any height; an outgoing bridge call fxcore no longer holds (refunded
for time-out, or settled by its result) can not be run by any further admissible event.  So the same funds are never
released on fxcore and afterwards executed on the external chain. -/
theorem released_means_no_longer_executable (s0 : State) (h0 : IsInit s0) (ops : List Op) (ha : AdmissibleRun s0 {} ops) :
    let s := run s0 ops
    let x := (runExt s0 {} ops).2
    (∀ b ∈ x.created, b ∉ s.batches → ∀ h, ¬ admissible x (.observe h (.batch b.token b.nonce))) ∧
    (∀ c ∈ x.createdCalls, c ∉ s.calls → ∀ h ok, ¬ admissible x (.observe h (.result c.nonce ok))) := by
  have hj := J_run (J_init h0) ops ((admissibleRun_iff _ _ _).mp ha)
  rw [runExt_fst] at hj
  rw [runExt_eq]
  have hs1 : solBatchNonceCmp = .lt := by decide
  have hs2 : solBatchTimeoutCmp = .lt := by decide
  have hs3 : solCallTimeoutCmp = .lt := by decide
  have hs4 : solCallNonceOnce = true := by decide
  simp only
  constructor
  · intro b hb hnot h hadm
    obtain ⟨hh, b', hb', ht, hn, hnonce, htime⟩ := (admissible_iff _ _).mp hadm
    have hnd : (((runExtStd s0 {} ops).2.created).map (·.nonce)).Nodup := by rw [hj.nonces]; exact nodup_range'
    have heq : b' = b := nodup_map_inj (fun b : Batch => b.nonce) _ hnd b' hb' b hb hn
    subst heq
    simp only [hs1, hs2, Cmp.eval, decide_eq_true_eq] at hnonce htime
    exact hnot (hj.batches b' hb' hnonce (by omega))
  · intro c hc hnot h ok hadm
    obtain ⟨hh, c', hc', hn, hdone, htime⟩ := (admissible_iff _ _).mp hadm
    have hnd : (((runExtStd s0 {} ops).2.createdCalls).map (·.nonce)).Nodup := by rw [hj.cnonces]; exact nodup_range'
    have heq : c' = c := nodup_map_inj (fun c : Call => c.nonce) _ hnd c' hc' c hc hn
    subst heq
    simp only [hs3, Cmp.eval, decide_eq_true_eq] at htime
    exact hnot (hj.calls c' hc' (hdone hs4) (by omega))

/-- the converse reading: an admissible event always finds the record it is about — the batch execution is applied
without panic, the bridge-call result finds its outgoing bridge call still stored -/
theorem admissible_event_finds_record (s0 : State) (h0 : IsInit s0) (ops : List Op) (h : Nat) (ev : Ev)
    (ha : AdmissibleRun s0 {} (ops ++ [.observe h ev])) :
    (doObserve (run s0 ops) h ev).2 ≠ .panic ∧
    (∀ t n, ev = .batch t n → ∃ b ∈ (run s0 ops).batches, b.token = t ∧ b.nonce = n) ∧
    (∀ c ok, ev = .result c ok → ∃ cl ∈ (run s0 ops).calls, cl.nonce = c) := by
  obtain ⟨ha1, ha2⟩ := admissibleRun_append ((admissibleRun_iff _ _ _).mp ha)
  have hj := J_run (J_init h0) ops ha1
  rw [runExt_fst] at hj
  have hs3 : solCallTimeoutCmp = .lt := by decide
  have hs4 : solCallNonceOnce = true := by decide
  refine ⟨(J_observe hj h ev ha2.1).2, fun t n he => ?_, fun c ok he => ?_⟩
  · subst he
    obtain ⟨b, _, hb, ht, hn⟩ := admissible_batch_found hj ha2.1
    exact ⟨b, hb, ht, hn⟩
  · subst he
    obtain ⟨hh, cl, hcl, hn, hdone, htime⟩ := ha2.1
    simp only [hs3, Cmp.eval, decide_eq_true_eq] at htime
    exact ⟨cl, hj.calls cl hcl (by rw [hn]; exact hdone hs4) (by omega), hn⟩

/-- KNOWN DEFECT (see `fixes/C05-pending-result-refund.md`): the full-strength statement "a bridge call whose successful
execution has been observed is never refunded" is FALSE of the code.  The result claim is only *stored* at observation
(`SavePendingExecuteClaim`); until someone calls `ExecuteClaim`, the record stays and the next observed event whose height
reaches the timeout refunds it.  Witness from the initial state: -/
theorem executed_call_refunded_witness :
    ∃ ops : List Op, let s := run (init 1 [((0, 0), 100)] {}) ops
      1 ∈ s.obsSuccess ∧ (⟨true, 1, .refunded, 7, [(0, 70)]⟩ : Settle) ∈ s.settled ∧ getBal s.bal (7, 0) = 70 := by
  refine ⟨[.observe 1000 .other,
           .bridgeCall 0 7 "0x0000000000000000000000000000000000000001" "ab" "" [(0, 70)],
           .observe 41319 (.result 1 true),     -- executed on the external chain at block 41319 < timeout 41320
           .observe 41320 .other], ?_⟩          -- next event reaches the timeout: refunded although executed
  decide

/-- `executed_never_refunded` for bridge calls, partial: it holds for an observation provided (missing in the code) every
successful result observed earlier has already been applied by `ExecuteClaim` — no stored bridge call has an observed
success — and the observed event itself obeys the contract's timeout rule -/
theorem executed_never_refunded_call_partial (s : State) (h : Nat) (ev : Ev)
    (happlied : ∀ c ∈ s.calls, c.nonce ∉ s.obsSuccess)
    (hrule : ∀ n ok, ev = .result n ok → ∀ c ∈ s.calls, c.nonce = n → solCallTimeoutCmp.eval h c.timeout = true)
    (hnopanic : (doObserve s h ev).2 ≠ .panic) :
    ∀ c ∈ expiredCalls h s.calls, c.nonce ∉ (doObserve s h ev).1.obsSuccess := by
  rw [doObserve_eq] at hnopanic ⊢
  have e1 : batchCleanupSrc = .observedExternal := by decide
  have e2 : callCleanupSrc = .observedExternal := by decide
  have hsol : solCallTimeoutCmp = .lt := by decide
  have hobs : ∀ s2 : State, (cleanupCalls (cleanupBatches s2)).obsSuccess = s2.obsSuccess := cleanup_obsSuccess
  intro c hc
  have hmem : c ∈ s.calls := by
    rw [(call_release_rule h s.calls).1] at hc
    exact (takeWhile_sublist _).subset hc
  have hexp : c.timeout ≤ h := by
    rw [(call_release_rule h s.calls).1] at hc
    simpa using mem_takeWhile_true _ _ _ hc
  cases ev with
  | other => simp only [doObserveStd, handleEvent, hobs]; exact happlied c hmem
  | result n ok =>
    simp only [doObserveStd, handleEvent, hobs]
    cases ok with
    | false => simpa using happlied c hmem
    | true =>
      simp only [if_true, mem_append, mem_singleton, not_or]
      refine ⟨happlied c hmem, fun hn => ?_⟩
      have := hrule n true rfl c hmem hn
      simp [hsol, Cmp.eval] at this
      omega
  | batch t n =>
    simp only [doObserveStd, handleEvent] at hnopanic ⊢
    cases hf : s.batches.find? (fun b => decide (b.token = t ∧ b.nonce = n)) with
    | none => rw [hf] at hnopanic; exact absurd rfl hnopanic
    | some b =>
      simp only [hf, hobs]
      simpa [executeBatch, cancelBatches] using happlied c hmem

/-- `executed_never_refunded` for bridge calls over whole histories, partial: along every admissible operation list
(`AdmissibleRun`: the bridge contract's rules, heights non-decreasing) in which — this is what the code does not
enforce, see the known finding — every observed bridge-call result has been applied by `ExecuteClaim` before the next
event is observed (`PromptRun`: no result is pending at an observation), no outgoing bridge call is ever both observed as
successfully executed on the external chain and refunded on fxcore.  `executed_call_refunded_witness` shows the
hypothesis cannot be dropped. -/
theorem executed_never_refunded_call_run_partial (s0 : State) (h0 : IsInit s0) (ops : List Op)
    (ha : AdmissibleRun s0 {} ops) (hp : PromptRun s0 ops) :
    ∀ e ∈ (run s0 ops).settled, e.isCall = true → e.how = .refunded → e.id ∉ (run s0 ops).obsSuccess := by
  have hk := K_run (K_init h0) (J_init h0) (inv_init h0) ops ((admissibleRun_iff _ _ _).mp ha) hp
  rw [runExt_fst] at hk
  exact hk.k1

/-! ## round 3: the bridge contract's submit functions, interpreted; the event order of C01 -/

/-- the statement lists of `submitBatch` / `submitBridgeCall` / `checkOracleSignatures` as regenerated from
`FxBridgeLogic.sol` now (`verifySubmitBridgeCall` inlined): which `require`s there are, in which order, and that every
check — including the signature / power-threshold check — comes before the state update, which comes before the first
value-moving statement (checks, then effects, then interactions) -/
theorem solidity_programs :
    solSubmitBatch.filter (fun st => match st with | .requireOther _ => false | _ => true) =
      [.require .lastNonce .lt .nonce, .require .blockNumber .lt .timeout, .checkSignatures, .setLastNonce, .moveValue] ∧
    solSubmitBridgeCall.filter (fun st => match st with | .requireOther _ => false | _ => true) =
      [.requireNot .nonceUsed, .require .blockNumber .lt .timeout, .checkSignatures, .setNonceUsed, .moveValue] ∧
    solCheckSignatures.getLast? = some (.require .power .gt .threshold) ∧
    solSubmitBatch.getLast? = some .moveValue ∧ solSubmitBridgeCall.getLast? = some .moveValue := by decide

/-- what the INTERPRETED `submitBatch` does, for every contract state and submission: it reverts unless
`state_lastBatchNonces[token] < nonce` and `block.number < timeout`; otherwise it ends having recorded the nonce and moved
value — so a replay of the same or an older nonce, and any submission at or after the timeout height, reverts -/
theorem interpreted_submitBatch (st : SolSt) :
    (solRun solSubmitBatch st).isSome = true ↔ st.lastNonce < st.nonce ∧ st.blockNumber < st.timeout :=
  by rw [solRun_batch]; split <;> simp_all

theorem interpreted_submitBatch_effect (st st' : SolSt) (h : solRun solSubmitBatch st = some st') :
    st'.lastNonce = st.nonce ∧ st'.moved = true ∧ (solRun solSubmitBatch { st' with moved := false }).isSome = false := by
  rw [solRun_batch] at h
  split at h
  · cases h
    refine ⟨rfl, rfl, ?_⟩
    rw [solRun_batch]
    simp
  · cases h

/-- the same for the INTERPRETED `submitBridgeCall`: accepted iff the nonce is unused and `block.number < timeout`;
afterwards the nonce is used, so the same bridge call can never be run twice -/
theorem interpreted_submitBridgeCall (st : SolSt) :
    (solRun solSubmitBridgeCall st).isSome = true ↔ st.nonceUsed = false ∧ st.blockNumber < st.timeout :=
  by rw [solRun_call]; split <;> simp_all

theorem interpreted_submitBridgeCall_effect (st st' : SolSt) (h : solRun solSubmitBridgeCall st = some st') :
    st'.nonceUsed = true ∧ st'.moved = true ∧ (solRun solSubmitBridgeCall { st' with moved := false }).isSome = false := by
  rw [solRun_call] at h
  split at h
  · cases h
    refine ⟨rfl, rfl, ?_⟩
    rw [solRun_call]
    simp
  · cases h

/-- the environment hypothesis of the history theorems is about the interpreted contract: an observed event is
`admissible` (the interpreted submit function does not revert) iff it satisfies the closed-form rules, and the ghost's
contract state moves as the interpreted program moves it -/
theorem admissible_is_interpreted (s : State) (x : Ext) (op : Op) (ops : List Op) :
    (admissible x op ↔ admissibleStd x op) ∧ x.next s op = x.nextStd s op ∧
    (AdmissibleRun s x ops ↔ AdmissibleRunStd s x ops) :=
  ⟨admissible_iff x op, next_eq x s op, admissibleRun_iff s x ops⟩

/-- `refund_excludes_execution` against the interpreted contract: a batch cancelled for time-out at observed height `h`
makes `submitBatch` revert at every block `h' ≥ h`, whatever the contract's nonce state; a bridge call refunded for
time-out at `h` makes `submitBridgeCall` revert at every `h' ≥ h` -/
theorem refund_excludes_execution_interpreted (h h' last : Nat) (used : Bool) (hmono : h ≤ h') :
    (∀ b : Batch, batchExpired h b = true → solRun solSubmitBatch ⟨h', b.timeout, last, b.nonce, false, false⟩ = none) ∧
    (∀ (cs : List Call) (c : Call), c ∈ expiredCalls h cs →
      solRun solSubmitBridgeCall ⟨h', c.timeout, 0, c.nonce, used, false⟩ = none) := by
  constructor
  · intro b hb
    have := (batch_release_rule h b).mp hb
    rw [solRun_batch, if_neg]
    simp only; omega
  · intro cs c hc
    rw [(call_release_rule h cs).1] at hc
    have := mem_takeWhile_true _ _ _ hc
    simp only [decide_eq_true_eq] at this
    rw [solRun_call, if_neg]
    simp only; omega

/-- non-vacuity: an accepted batch submission, its replay rejected; a bridge call at its last block, one block later -/
example : (solRun solSubmitBatch ⟨10, 11, 0, 1, false, false⟩).isSome = true ∧
    (solRun solSubmitBatch ⟨10, 11, 1, 1, false, false⟩).isSome = false ∧
    (solRun solSubmitBridgeCall ⟨10, 11, 0, 1, false, false⟩).isSome = true ∧
    (solRun solSubmitBridgeCall ⟨11, 11, 0, 1, false, false⟩).isSome = false := by decide

/-- **Event order, discharged by C01.**  The history theorems above take the observed events in the order fxcore applies
them and assume their heights do not decrease.  That the order of application IS the external chain's event-nonce order
is C01's theorem (`observedLog_contiguous`): along every history of votes, bondings, slashings and deferred executions
(the C01 model of `Attest`/`TryAttestation`), the nonces of the applied events are exactly `1, 2, …, lastObserved`, in this
order.  So for every external chain whose block height is non-decreasing in its own event nonce (`block.number` never
decreases, `state_lastEventNonce` grows by one per event — a fact about the external chain alone), the heights of the
events in the order fxcore applies them are non-decreasing: the `hmono` of `refund_excludes_execution` and the height part
of `AdmissibleRun` hold for the composed system.  What is left as an assumption is only the external chain's own
monotonicity. -/
theorem event_order_from_C01 (p : FxVerif.Model.C01.Params) (ops : List FxVerif.Model.C01.Op) (extHeight : Nat → Nat)
    (hext : ∀ i j, i ≤ j → extHeight i ≤ extHeight j) :
    let applied := (FxVerif.Props.C01.reach p ops).observedLog.map Prod.fst
    applied = List.range' 1 (FxVerif.Props.C01.reach p ops).lastObserved ∧
    (applied.map extHeight).Pairwise (· ≤ ·) := by
  have hc := FxVerif.Props.C01.observedLog_contiguous p ops
  simp only
  refine ⟨hc, ?_⟩
  rw [hc, pairwise_map]
  exact (pairwise_lt_range' (s := 1) (n := (FxVerif.Props.C01.reach p ops).lastObserved)).imp
    (fun {a b} hab => hext a b (Nat.le_of_lt hab))

/-- the C05 model applies events in that same order: the k-th successful observation carries event nonce k — `observe`
answers `eventNonce + 1` and advances the counter by exactly one, a failed one (panic) leaves it alone -/
theorem observe_applies_next_nonce (s : State) (h : Nat) (ev : Ev) :
    ((doObserve s h ev).2 = .ok (s.eventNonce + 1) ∧ (doObserve s h ev).1.eventNonce = s.eventNonce + 1) ∨
    ((doObserve s h ev).2 = .panic ∧ (doObserve s h ev).1 = s) := by
  rw [doObserve_eq]
  unfold doObserveStd
  simp only
  cases hh : handleEvent { s with eventNonce := s.eventNonce + 1, obsExt := h, obsFx := s.fxHeight } ev with
  | none => exact Or.inr ⟨rfl, rfl⟩
  | some s2 =>
    left
    refine ⟨rfl, ?_⟩
    show (cleanupCalls (cleanupBatches s2)).eventNonce = _
    have h2 : s2.eventNonce = s.eventNonce + 1 := by
      cases ev with
      | other => cases hh; rfl
      | result c ok => cases hh; rfl
      | batch t n =>
        simp only [handleEvent] at hh
        split at hh
        · cases hh
        · cases hh; simp [executeBatch, cancelBatches]
    obtain ⟨fm, er, hfm⟩ := cleanupCalls_core (cleanupBatches s2)
    rw [hfm]
    unfold cleanupCallsCore
    show (foldl refundCall _ _).eventNonce = _
    rw [foldl_refundCall_eventNonce]
    simpa [cleanupBatches, cancelBatches] using h2

/-- non-vacuity of the composition: the C01 demo history applies its events in order -/
example : ((FxVerif.Props.C01.reach {} []).observedLog.map Prod.fst) = [] := by decide

/-- non-vacuity of `PromptRun` together with `AdmissibleRun`: a bridge call is created, its successful result observed
and applied, a later event passes the timeout -/
example : AdmissibleRun (init 1 [((0, 0), 100)] {}) {}
      [.observe 1000 .other, .bridgeCall 0 7 "0x0000000000000000000000000000000000000001" "ab" "" [(0, 70)],
       .observe 41319 (.result 1 true), .exec 2, .observe 41320 .other] ∧
    PromptRun (init 1 [((0, 0), 100)] {})
      [.observe 1000 .other, .bridgeCall 0 7 "0x0000000000000000000000000000000000000001" "ab" "" [(0, 70)],
       .observe 41319 (.result 1 true), .exec 2, .observe 41320 .other] := by
  constructor
  · simp only [AdmissibleRun, admissible]
    decide
  · simp only [PromptRun]
    decide

/-- non-vacuity: a batch and a bridge call exist, an observation at the batch timeout keeps the batch, one block later
cancels it -/
example : ∃ ops : List Op, let s := run (init 1 [((0, 0), 100)] {}) ops
    s.batches.map (·.timeout) = [3880] ∧
    (doObserve s 3880 .other).1.batches.length = 1 ∧ (doObserve s 3881 .other).1.batches.length = 0 ∧
    poolIds (doObserve s 3881 .other).1 = [1] := by
  refine ⟨[.observe 1000 .other, .send 0 "0x0000000000000000000000000000000000000001" 0 5 2,
           .reqBatch 0 1 0 "0x0000000000000000000000000000000000000002"], ?_⟩
  decide

/-! ## round 5: the observed height is the height a QUORUM reported (votes of several oracles, `Model/C06Vote.lean`) -/

section votes
open FxVerif.Model.C06Vote FxVerif.Proofs.C06Vote

/-- what the votes of different oracles must agree on to be summed, as read from the source now: `Attest` looks the
attestation up under (event nonce, ClaimHash) of the voter's own claim; the `ClaimHash` of the three claim types driven
here covers the reported external height and the fields that identify the batch / the bridge-call result; `TryAttestation`
stores the height of the claim it is handed, which is the current voter's -/
theorem votes_summed_only_when_they_agree :
    FxVerif.Gen.C06.attestLookupArgs = "claim.GetEventNonce(), claim.ClaimHash()" ∧
    FxVerif.Gen.C06.observedHeightFromVoter = true ∧
    (∀ ty ∈ ["MsgSendToExternalClaim", "MsgBridgeCallResultClaim", "MsgBridgeTokenClaim"],
      covers FxVerif.Gen.C06.claimHashFields ty "BlockHeight" = true ∧
      covers FxVerif.Gen.C06.claimHashFields ty "EventNonce" = true) ∧
    covers FxVerif.Gen.C06.claimHashFields "MsgSendToExternalClaim" "TokenContract" = true ∧
    covers FxVerif.Gen.C06.claimHashFields "MsgSendToExternalClaim" "BatchNonce" = true ∧
    covers FxVerif.Gen.C06.claimHashFields "MsgBridgeCallResultClaim" "Nonce" = true ∧
    covers FxVerif.Gen.C06.claimHashFields "MsgBridgeCallResultClaim" "Success" = true := by decide

/-- with that coverage two claims share an attestation only if they report the same height and the same event -/
theorem claimKey_injective (h h' : Nat) (ev ev' : Ev)
    (hk : claimKey FxVerif.Gen.C06.claimHashFields h ev = claimKey FxVerif.Gen.C06.claimHashFields h' ev') :
    h = h' ∧ ev = ev' := by
  have c1 : covers FxVerif.Gen.C06.claimHashFields "MsgSendToExternalClaim" "BlockHeight" = true := by decide
  have c2 : covers FxVerif.Gen.C06.claimHashFields "MsgBridgeCallResultClaim" "BlockHeight" = true := by decide
  have c3 : covers FxVerif.Gen.C06.claimHashFields "MsgBridgeTokenClaim" "BlockHeight" = true := by decide
  have c4 : covers FxVerif.Gen.C06.claimHashFields "MsgSendToExternalClaim" "TokenContract" = true := by decide
  have c5 : covers FxVerif.Gen.C06.claimHashFields "MsgSendToExternalClaim" "BatchNonce" = true := by decide
  have c6 : covers FxVerif.Gen.C06.claimHashFields "MsgBridgeCallResultClaim" "Nonce" = true := by decide
  have c7 : covers FxVerif.Gen.C06.claimHashFields "MsgBridgeCallResultClaim" "Success" = true := by decide
  cases ev <;> cases ev' <;> simp [claimKey, evType, FxVerif.Model.C06Vote.pick, c1, c2, c3, c4, c5, c6, c7] at hk ⊢
  · exact ⟨hk.1, hk.2.1, hk.2.2⟩
  · rename_i c ok c' ok'
    refine ⟨hk.1, hk.2.1, ?_⟩
    cases ok <;> cases ok' <;> simp at hk ⊢
  · exact hk

/-- non-vacuity of `claimKey_injective` (its hypothesis is satisfiable) and its use: claims that differ only in the
reported height have different keys -/
example : claimKey FxVerif.Gen.C06.claimHashFields 7 (.batch 1 2) = claimKey FxVerif.Gen.C06.claimHashFields 7 (.batch 1 2) ∧
    claimKey FxVerif.Gen.C06.claimHashFields 7 (.batch 1 2) ≠ claimKey FxVerif.Gen.C06.claimHashFields 8 (.batch 1 2) := by
  decide

/-- a voted history IS a history of the C05 / C06 model: the state reached through any sequence of user operations and
single votes of the oracles equals the state the base model reaches on the trace — the user operations plus one `observe`
per quorum-completing vote.  Every theorem above (and every C05 theorem) about `run` therefore holds of voted histories. -/
theorem voted_history_is_a_history (b : State) (powers : List Nat) (total : Nat) (ops : List VOp) :
    (vrun (vinit b powers total) ops).base = run b (trace (vinit b powers total) ops) :=
  vrun_base _ ops _

/-- **the observed height was reported by a quorum.**  In every state reachable through user operations and votes (any
number of oracles, any powers, any recorded total, any order, oracles reporting whatever heights and events they like),
every observation that has taken effect — the height `e.height` was stored as the observed external height and ran the
event handler and both timeout clean-ups — is backed by its voters: each of them submitted a claim for that event nonce with
exactly that height and exactly that event, they are pairwise DISTINCT oracles (an oracle votes once per event nonce:
the contiguity check), and their combined power is at least the required power (`threshold · total / 100`, regenerated).  Depends on the claim hash covering the height: with a hash that drops it the
statement is false (see the `example` below). -/
theorem observed_height_has_quorum (b : State) (powers : List Nat) (total : Nat) (ops : List VOp) :
    let s := vrun (vinit b powers total) ops
    ∀ e ∈ s.obsLog,
      (∀ o ∈ e.voters, (⟨o, e.nonce, e.height, e.ev⟩ : Vote) ∈ s.voteLog) ∧
      required total ≤ sumPower (fun o => powers.getD o 0) e.voters ∧ e.voters.Nodup := by
  intro s e he
  have hD := (vdist_run FxVerif.Gen.C06.claimHashFields ops _ (vdist_init b powers total)).obs e he
  have hv : FxVerif.Gen.C06.observedHeightFromVoter = true := by decide
  have I := vinv_run FxVerif.Gen.C06.claimHashFields hv ops _ (vinv_init _ b powers total)
  have hp := vrun_powers FxVerif.Gen.C06.claimHashFields ops (vinit b powers total)
  obtain ⟨hb, hr⟩ := I.obs e he
  refine ⟨?_, ?_, hD⟩
  · intro o ho
    obtain ⟨v, hvm, h1, h2, h3⟩ := hb o ho
    obtain ⟨h4, h5⟩ := claimKey_injective _ _ _ _ h3
    have : v = ⟨o, e.nonce, e.height, e.ev⟩ := by
      cases v; simp only at h1 h2 h4 h5; subst h1 h2 h4 h5; rfl
    exact this ▸ hvm
  · have hlt : ∀ a r, below a r = decide (a < r) := by
      intro a r
      have : FxVerif.Gen.C01.tallyCmp = .lt := by decide
      simp [below, this]
    have := reached_sum _ _ hlt e.voters 0 hr
    have hpw : power (vrunWith FxVerif.Gen.C06.claimHashFields (vinit b powers total) ops) = fun o => powers.getD o 0 := by
      funext o
      show (vrunWith _ _ ops).powers.getD o 0 = _
      rw [hp.1]; rfl
    have htot : (vrunWith FxVerif.Gen.C06.claimHashFields (vinit b powers total) ops).total = total := hp.2
    rw [hpw, htot] at this
    omega

/-- a claim that does not complete a quorum (and one that is rejected) leaves the whole C05 state as it is — observed
heights, event nonce, pool, batches, bridge calls, balances: the Lean side of the monitor clause "a vote without a quorum
changes nothing" -/
theorem vote_without_quorum_changes_nothing (s : VState) (o n h : Nat) (ev : Ev)
    (hq : (voteCore FxVerif.Gen.C06.claimHashFields s o n h ev).2.2 = none) : (vote s o n h ev).1.base = s.base := by
  have := voteCore_base FxVerif.Gen.C06.claimHashFields s o n h ev
  rw [hq] at this
  exact this

/-- **a vote releases something only by completing a quorum, at the voter's height, by the release rules** (every
state of the voted system, every vote): if a batch leaves the store at a vote, that vote completed a quorum — one
observation `⟨n, h, ev, voters⟩` was logged, with the height and the event of this very claim — and the batch's timeout is
below that height (or the event executes / supersedes it); if an outgoing bridge call leaves, its timeout has been
reached by that height.  Nothing leaves at a vote that does not complete a quorum, or whose handler panics. -/
theorem vote_releases_only_with_quorum (s : VState) (o n h : Nat) (ev : Ev) :
    let s' := (vote s o n h ev).1
    (∀ b ∈ s.base.batches, b ∉ s'.base.batches →
      (∃ voters, s'.obsLog = s.obsLog ++ [⟨n, h, ev, voters⟩]) ∧
      (b.timeout < h ∨ ∃ t k, ev = .batch t k ∧ b.token = t ∧ b.nonce ≤ k)) ∧
    (∀ c ∈ s.base.calls, c ∉ s'.base.calls →
      (∃ voters, s'.obsLog = s.obsLog ++ [⟨n, h, ev, voters⟩]) ∧ c.timeout ≤ h) := by
  have hv : FxVerif.Gen.C06.observedHeightFromVoter = true := by decide
  have hh : hObsOf h = h := by simp [hObsOf, hv]
  intro s'
  have key0 : (voteCore FxVerif.Gen.C06.claimHashFields s o n h ev).1.base = s.base ∨
      ((voteCore FxVerif.Gen.C06.claimHashFields s o n h ev).1.base = (step s.base (.observe h ev)).1 ∧
        ∃ voters, (voteCore FxVerif.Gen.C06.claimHashFields s o n h ev).1.obsLog = s.obsLog ++ [⟨n, h, ev, voters⟩]) := by
    unfold voteCore
    split
    · exact Or.inl rfl
    split
    · exact Or.inl rfl
    simp only
    split
    · unfold observeBy
      simp only [hh]
      split
      · rename_i hp
        left
        rcases observe_applies_next_nonce s.base h ev with ⟨h1, _⟩ | ⟨_, h2⟩
        · have hp' : (doObserve s.base h ev).2 = .panic := hp
          rw [h1] at hp'; cases hp'
        · exact h2
      · exact Or.inr ⟨rfl, _, rfl⟩
    · exact Or.inl rfl
  have key : s'.base = s.base ∨
      (s'.base = (step s.base (.observe h ev)).1 ∧ ∃ voters, s'.obsLog = s.obsLog ++ [⟨n, h, ev, voters⟩]) := key0
  have rel := released_only_by_observation s.base (.observe h ev)
  refine ⟨?_, ?_⟩
  · intro b hb hnb
    rcases key with hk | ⟨hk, hlog⟩
    · rw [hk] at hnb; exact absurd hb hnb
    · rw [hk] at hnb
      obtain ⟨h', ev', hop, hrule⟩ := rel.1 b hb hnb
      cases hop
      exact ⟨hlog, hrule⟩
  · intro c hc hnc
    rcases key with hk | ⟨hk, hlog⟩
    · rw [hk] at hnc; exact absurd hc hnc
    · rw [hk] at hnc
      rcases rel.2 c hc hnc with ⟨h', ev', hop, hrule⟩ | ⟨k, ok, hop, _⟩
      · cases hop
        exact ⟨hlog, hrule⟩
      · cases hop

/-- **release only after the timeout height was observed by a quorum** — over whole voted histories: from any base state,
for any oracle set, powers and recorded total, after any list of user operations and votes, if the next vote makes a batch
(an outgoing bridge call) leave fxcore's store, then oracles holding at least the required power have EACH submitted a
claim for this event nonce (pairwise distinct oracles) reporting exactly the height `h` that the release rule was evaluated with (`timeout < h`, resp.
`timeout ≤ h`; or the event executes / supersedes the batch).  One oracle (or any set below the quorum) reporting a
height beyond a timeout releases nothing. -/
theorem release_only_after_quorum_observed_height (b0 : State) (powers : List Nat) (total : Nat) (ops : List VOp)
    (o n h : Nat) (ev : Ev) :
    let s := vrun (vinit b0 powers total) ops
    let s' := (vote s o n h ev).1
    (∀ b ∈ s.base.batches, b ∉ s'.base.batches →
      (b.timeout < h ∨ ∃ t k, ev = .batch t k ∧ b.token = t ∧ b.nonce ≤ k) ∧
      ∃ voters, (∀ o' ∈ voters, (⟨o', n, h, ev⟩ : Vote) ∈ s'.voteLog) ∧
        required total ≤ sumPower (fun o => powers.getD o 0) voters ∧ voters.Nodup) ∧
    (∀ c ∈ s.base.calls, c ∉ s'.base.calls →
      c.timeout ≤ h ∧
      ∃ voters, (∀ o' ∈ voters, (⟨o', n, h, ev⟩ : Vote) ∈ s'.voteLog) ∧
        required total ≤ sumPower (fun o => powers.getD o 0) voters ∧ voters.Nodup) := by
  intro s s'
  have hs' : s' = vrun (vinit b0 powers total) (ops ++ [.vote o n h ev]) := by
    show _ = vrunWith _ _ _
    unfold vrunWith
    rw [List.foldl_append]
    rfl
  have hq := observed_height_has_quorum b0 powers total (ops ++ [.vote o n h ev])
  simp only at hq
  rw [← hs'] at hq
  have step := vote_releases_only_with_quorum s o n h ev
  have back : (∃ voters, s'.obsLog = s.obsLog ++ [⟨n, h, ev, voters⟩]) →
      ∃ voters, (∀ o' ∈ voters, (⟨o', n, h, ev⟩ : Vote) ∈ s'.voteLog) ∧
        required total ≤ sumPower (fun o => powers.getD o 0) voters ∧ voters.Nodup := by
    rintro ⟨voters, hl⟩
    have hm : (⟨n, h, ev, voters⟩ : Obs) ∈ s'.obsLog := by rw [hl]; simp
    exact ⟨voters, hq _ hm⟩
  refine ⟨?_, ?_⟩
  · intro b hb hnb
    obtain ⟨hl, hr⟩ := step.1 b hb hnb
    exact ⟨hr, back hl⟩
  · intro c hc hnc
    obtain ⟨hl, hr⟩ := step.2 c hc hnc
    exact ⟨hr, back hl⟩

/-- non-vacuity of the two: a batch with timeout 3880 is in flight; oracle 1 (300 of 1000) alone reporting height 9999
releases nothing; the other two reporting 3881 do -/
example : ∃ ops : List VOp,
    let s := vrun (vinit (init 1 [((0, 0), 100)] {}) [400, 300, 300] 1000) ops
    s.base.batches.map (·.timeout) = [3880] ∧
    (vote s 1 2 9999 .other).1.base.batches.length = 1 ∧
    (vote (vote s 0 2 3881 .other).1 2 2 3881 .other).1.base.batches.length = 0 := by
  refine ⟨[.vote 0 1 1000 .other, .vote 1 1 1000 .other, .vote 2 1 1000 .other,
           .base (.send 0 "0x0000000000000000000000000000000000000001" 0 5 2),
           .base (.reqBatch 0 1 0 "0x0000000000000000000000000000000000000002")], ?_⟩
  decide

/-- non-vacuity of `vote_without_quorum_changes_nothing`: the first of three oracles votes -/
example : (voteCore FxVerif.Gen.C06.claimHashFields (vinit (init 1 [((0, 0), 100)] {}) [400, 300, 300] 1000) 0 1 100 .other).2.2 = none := by
  decide

/-- `released_means_no_longer_executable` for voted histories (the property's last sentence with the votes inside): from
an initial state, for any oracle set and any list of user operations and single votes whose resulting observations are
ones the bridge contract can have produced (`AdmissibleRun` of the trace), whatever fxcore has released can no longer be
executed on the external chain by any further admissible event -/
theorem released_means_no_longer_executable_voted (b0 : State) (h0 : IsInit b0) (powers : List Nat) (total : Nat)
    (ops : List VOp) (ha : AdmissibleRun b0 {} (trace (vinit b0 powers total) ops)) :
    let s := (vrun (vinit b0 powers total) ops).base
    let x := (runExt b0 {} (trace (vinit b0 powers total) ops)).2
    (∀ b ∈ x.created, b ∉ s.batches → ∀ h, ¬ admissible x (.observe h (.batch b.token b.nonce))) ∧
    (∀ c ∈ x.createdCalls, c ∉ s.calls → ∀ h ok, ¬ admissible x (.observe h (.result c.nonce ok))) := by
  intro s x
  have hs : s = run b0 (trace (vinit b0 powers total) ops) := voted_history_is_a_history b0 powers total ops
  rw [hs]
  exact released_means_no_longer_executable b0 h0 _ ha

/-- non-vacuity: the trace of an honest voted history (three oracles reporting the same claims) is an admissible run -/
example : AdmissibleRun (init 1 [((0, 0), 100)] {}) {}
    (trace (vinit (init 1 [((0, 0), 100)] {}) [400, 300, 300] 1000)
      [.vote 0 1 1000 .other, .vote 1 1 1000 .other, .vote 2 1 1000 .other,
       .base (.send 0 "0x0000000000000000000000000000000000000001" 0 5 2),
       .base (.reqBatch 0 1 0 "0x0000000000000000000000000000000000000002"),
       .vote 0 2 3000 (.batch 0 1), .vote 2 2 3000 (.batch 0 1)]) := by
  have ht : trace (vinit (init 1 [((0, 0), 100)] {}) [400, 300, 300] 1000)
      [.vote 0 1 1000 .other, .vote 1 1 1000 .other, .vote 2 1 1000 .other,
       .base (.send 0 "0x0000000000000000000000000000000000000001" 0 5 2),
       .base (.reqBatch 0 1 0 "0x0000000000000000000000000000000000000002"),
       .vote 0 2 3000 (.batch 0 1), .vote 2 2 3000 (.batch 0 1)] =
      [.observe 1000 .other, .send 0 "0x0000000000000000000000000000000000000001" 0 5 2,
       .reqBatch 0 1 0 "0x0000000000000000000000000000000000000002", .observe 3000 (.batch 0 1)] := by rfl
  rw [ht]
  simp only [AdmissibleRun, admissible]
  decide

/-- non-vacuity: three oracles (400 / 300 / 300 of 1000), one of them reports a far higher height; the event is observed
with the height the other two reported, once the second of them has voted -/
example : (vrun (vinit (init 1 [((0, 0), 100)] {}) [400, 300, 300] 1000)
      [.vote 0 1 100 .other, .vote 1 1 99999 .other, .vote 2 1 100 .other]).obsLog = [⟨1, 100, .other, [0, 2]⟩] := by decide

/-- the statement depends on the hash covering the height: with the coverage table of a `ClaimHash` that drops
`BlockHeight`, the same votes are summed into one attestation, the event is observed with the height only the second
voter (300 of the required 660) reported, and that voter's height is what the clean-ups compare with -/
example :
    (vrunWith tableWithoutHeight (vinit (init 1 [((0, 0), 100)] {}) [400, 300, 300] 1000)
      [.vote 0 1 100 .other, .vote 1 1 99999 .other, .vote 2 1 100 .other]).obsLog = [⟨1, 99999, .other, [0, 1]⟩] ∧
    (vrunWith tableWithoutHeight (vinit (init 1 [((0, 0), 100)] {}) [400, 300, 300] 1000)
      [.vote 0 1 100 .other, .vote 1 1 99999 .other, .vote 2 1 100 .other]).base.obsExt = 99999 ∧
    (⟨0, 1, 99999, .other⟩ : Vote) ∉ (vrunWith tableWithoutHeight (vinit (init 1 [((0, 0), 100)] {}) [400, 300, 300] 1000)
      [.vote 0 1 100 .other, .vote 1 1 99999 .other, .vote 2 1 100 .other]).voteLog := by decide

end votes

end FxVerif.Props.C06
