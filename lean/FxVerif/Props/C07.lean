import FxVerif.Proofs.C13Fits
import FxVerif.Model.C07
import FxVerif.Proofs.C07GovFit
import FxVerif.Proofs.C07Escrow
/-!
# C07 — block processing never halts: the crosschain `EndBlocker` half

(The x/gov end-blocker half is built with C15 and is to be added here as further theorems.)

`endBlock` is the model of `x/crosschain/keeper/abci.go: EndBlocker` = slashing (three loops → `SlashOracle`) +
`createOracleSetRequest` + `pruneOracleSet`; `.error site` is a panic.  The argument each loop passes to `SlashOracle`
is regenerated from the source; the theorems below stop compiling if a loop passes anything but the oracle address
(§6-C: `oracles[i].String()`), or if a new panic site becomes reachable from the end-blocker.
-/
namespace FxVerif.Props.C07
open FxVerif.Model.C13 FxVerif.Gen.C13 FxVerif.Proofs.C13 FxVerif.Model.C07 FxVerif.Gen.C07

/-- obligation over the regenerated loop shapes: every slashing loop hands `SlashOracle` the oracle address, skips
oracles that started later with `>`, slashes on a *missing* confirm, and the window comparisons are the expected ones -/
theorem slashing_code_facts : SlashCodeOk := by decide

/-- obligation over the regenerated shape of `isNeedOracleSetRequest`: the latest oracle set is nil-tested before the
power-difference step dereferences it, and the float64 difference is rendered with a fixed number of decimals (`%.8f`)
that `LegacyNewDecFromStr` always accepts — so the `panic` after the parse cannot fire -/
theorem refresh_code_facts : RefreshCodeOk := by decide

/-- obligation over the regenerated inventory: every panic / Must* / partial-arithmetic site reachable from the crosschain
end-blocker is one the model accounts for -/
theorem sites_covered : endBlockerSites.all isAccounted = true := by decide

/-- the sites that can fire are exactly the ones with an explicit outcome in the model -/
theorem modelled_sites :
    (accounted.filter (fun a => a.2 == Treatment.modelled)).map (·.1.what) =
      ["sdk.MustAccAddressFromBech32", "Uint64", "QuoUint64",
       "panic(fmt.Errorf(\"covert power diff to dec err, powerDiff: %"] := by decide

/-- **the crosschain end-blocker completes in every state** (reachable or not) whose total oracle power fits `uint64`:
any pending oracle sets / batches / bridge calls, any confirms, any ages past the signed window, any cursors -/
theorem endBlock_total (s : State) (h : Nat) (hf : PowerFits s) : ∃ s', endBlock s h = .ok s' :=
  FxVerif.Proofs.C13.endBlock_total slashing_code_facts refresh_code_facts s h hf

/-- … in particular in every state reachable through the C13 op alphabet (bond, delegate, re-delegate, edit, withdraw,
governance updates, unbond, object creation, confirms incl. oracles that stop confirming, blocks, validator slashing) -/
theorem endBlock_total_reachable (p : Params) (bals : Store Nat Nat) (ops : List Op)
    (hf : PowerFits (run (init p bals) ops)) :
    ∃ s', endBlock (run (init p bals) ops) (run (init p bals) ops).height = .ok s' :=
  endBlock_total _ _ hf

/-- only the ONLINE oracles enter the `uint64` sum: the hypothesis can be weakened to their power -/
theorem endBlock_total_online (s : State) (h : Nat) (hf : OnlinePowerFits s) : ∃ s', endBlock s h = .ok s' :=
  FxVerif.Proofs.C13.endBlock_total_online slashing_code_facts refresh_code_facts s h hf

/-- **no environment hypothesis on the state**: in every state reachable through the op alphabet the end-blocker completes,
provided the PARAMETERS satisfy `MaxOracleSize × (threshold × multiple / powerReduction) < 2^64` (`ParamsFit`; e.g. the
default 10 000 FX × 10 / 10^18 gives 10^7 ≪ 2^64).  Proof: online oracles are on the governance list, which has at most
`MaxOracleSize` entries, records have distinct addresses and every recorded stake is at most `threshold × multiple`
(invariant `FitInv`, by induction over the op list; the guards it needs are the regenerated `guard_code_facts`) -/
theorem endBlock_total_reachable_params (p : Params) (bals : Store Nat Nat) (ops : List Op) (hp : ParamsFit p) (h : Nat) :
    ∃ s', endBlock (run (init p bals) ops) h = .ok s' := by
  have hg : GuardCodeOk := by decide
  have hi := run_fit slashing_code_facts hg ops _ (init_fit p bals)
  have hpar : (run (init p bals) ops).p = p := run_params slashing_code_facts ops _
  exact endBlock_total_online _ h (onlineFits_of_fit _ hi (by rw [hpar]; exact hp))

/-- … so no reachable history can make a block panic in the crosschain end-blocker -/
theorem block_never_panics_reachable (p : Params) (bals : Store Nat Nat) (ops : List Op) (hp : ParamsFit p) (dt : Nat) :
    (block (run (init p bals) ops) dt).2 = .ok := by
  obtain ⟨s', hs'⟩ := endBlock_total_reachable_params p bals ops hp (run (init p bals) ops).height
  simp [block, hs']

/-- a block never panics: the `block` op answers `ok` -/
theorem block_never_panics (s : State) (dt : Nat) (hf : PowerFits s) : (block s dt).2 = .ok := by
  obtain ⟨s', hs'⟩ := endBlock_total s s.height hf
  simp [block, hs']

/-- the slashing phase alone needs no arithmetic hypothesis at all -/
theorem slashing_total (s : State) (h : Nat) : ∃ s', slashing s h = .ok s' := by
  obtain ⟨s', hs, _⟩ := slashing_rel slashing_code_facts s h
  exact ⟨s', hs⟩

/-- the `uint64` hypothesis is preserved by the end-blocker itself (it never changes a stake amount) -/
theorem endBlock_keeps_powerFits (s : State) (h : Nat) (s' : State) (he : endBlock s h = .ok s') (hf : PowerFits s) :
    PowerFits s' := by
  have hr := endBlock_rel slashing_code_facts s h s' he
  exact powerFits_of_recs s s' h hr.core.p hr.recs hf

/-! ## app level: the module manager's block pipeline -/

/-- obligation over the regenerated app wiring: every PreBlock / BeginBlock / EndBlock that an fx-core AppModule declares (or has
promoted from an embedded dependency module) is of a classified shape — a new begin/end-blocker in x/erc20, x/migrate, x/evm, x/gov,
x/staking or a chain module, or a changed body, fails here -/
theorem app_blockers_covered : fxAppBlockers.all (fun b => (blockerTreatment b).isSome) = true := by decide

/-- **the eight chain modules run ONE end-blocker**: exactly eth, bsc, polygon, avalanche, arbitrum, optimism, layer2 and tron declare
an `EndBlock` whose body is `am.keeper.EndBlocker(ctx); return nil` on a `crosschainkeeper.Keeper` (no wrapper keeper, no extra step,
no returned error) — so `endBlock_total…` below speak about each of them; each is in the module manager's end-blocker order, and no
fx-core module other than these and gov declares an end-blocker at all -/
theorem crosschain_end_blockers_uniform :
    crosschainEndBlockModules = ["arbitrum", "avalanche", "bsc", "eth", "layer2", "optimism", "polygon", "tron"] ∧
    crosschainEndBlockModules.all (fun m => orderEndBlockers.contains m) = true ∧
    ((fxAppBlockers.filter (fun b => b.declared && b.phase == "end")).map (·.module)).all
      (fun m => crosschainEndBlockModules.contains m || m == "gov") = true := by decide

/-- every blocker an fx-core module declares is actually scheduled: its module is in the order list of its phase (a declared
blocker that is not in the list would make `SetOrder…` panic at start-up), gov ends before staking and before the chain modules -/
theorem declared_blockers_are_ordered :
    (fxAppBlockers.filter (·.declared)).all (fun b => (orderOf b.phase).contains b.module) = true ∧
    orderPreBlockers = ["upgrade"] ∧
    (orderEndBlockers.takeWhile (· != "staking")).contains "gov" = true := by decide

/-- the fx-core modules without any begin/end-blocker of their own (x/erc20, x/migrate) really have none, and the only fx-core
begin-blocker is x/evm's, whose single error site is the cached block config read -/
theorem fx_begin_blockers :
    (fxAppBlockers.filter (fun b => b.module == "erc20" || b.module == "migrate")) = [] ∧
    (fxAppBlockers.filter (fun b => b.declared && b.phase == "begin")).map (·.module) = ["evm"] ∧
    (fxAppBlockers.filter (fun b => b.declared && b.phase == "pre")) = [] ∧
    evmBeginBlockSites = evmBeginAccounted := by decide

/-- … hence, for each of the eight chain modules, the end-blocker completes in every state whose online power fits `uint64`
(the statement is `endBlock_total_online` — the point is that `m` ranges over the REGENERATED list of modules) -/
theorem every_chain_module_endblock_total (m : String) (_hm : m ∈ crosschainEndBlockModules) (s : State) (h : Nat)
    (hf : OnlinePowerFits s) : ∃ s', endBlock s h = .ok s' :=
  FxVerif.Proofs.C13.endBlock_total_online slashing_code_facts refresh_code_facts s h hf

example : "tron" ∈ crosschainEndBlockModules ∧ "bsc" ∈ crosschainEndBlockModules := by decide

/-! ## reachability over the widened alphabet

`Op.event` is the effect of the C01 / C05 alphabets (an external event reaches its quorum and is executed: batch executed, earlier
batches cancelled, batches / bridge calls timed out, bridge-call result, oracle set observed) on the state the end-blocker reads; which
objects disappear is the environment's choice.  `endBlock_total_reachable_params` / `block_never_panics_reachable` quantify over op
lists that contain it. -/

/-- a history with real traffic: an aged, unconfirmed batch and bridge call are removed by an external event before the window
elapses for the next ones; the end-blocker completes after every prefix -/
example : ((run (init ⟨100, 10, 8 * 10 ^ 17, 2, 10, 100, 10 ^ 17, 2⟩ [(0, 5000)])
    [.gov [0], .bond 0 0 0 0 100, .mkcall, .mkbatch, .block 5, .event [1] [1] [1] (some none), .block 5, .mkbatch, .block 5, .block 5, .block 5]).oracles.map
      (fun p => (p.2.online, p.2.slashTimes))) = [(false, 1)] := by decide

/-! ## gov half: the proposal-tally path

`x/gov/abci.go: EndBlocker` returns whatever `Keeper.Tally` returns; an error or a panic there halts the chain.  The tally
arithmetic is modelled in `Model/C07Gov.lean`; its decision tail is the program `Gen.C07.tallyTail` REGENERATED from
`x/gov/keeper/tally.go` on every run.  (The queue / deposit half of the gov end-blocker is `gov_endblock_*` in Props/C15.) -/

open FxVerif.Model.C07Gov FxVerif.Proofs.C07Gov in
/-- obligation over the regenerated tail of `Tally`: zero bonded tokens is tested before the turnout division, "everyone
abstained" (`total − abstain = 0`) is tested before the veto and threshold divisions, in this order -/
theorem tally_tail_code_facts : tallyTail = FxVerif.Proofs.C07Gov.expectedTail := by decide

/-- obligation over the regenerated inventory of `.Quo(` calls in `Tally`: exactly the five divisions the model has -/
theorem tally_quo_sites_covered : tallyQuoDivisors = modelledQuoDivisors := by decide

/-- obligation over the regenerated inventory of error-return / panic sites of the gov end-blocker and `Tally` -/
theorem gov_sites_covered : govSites.all isGovAccounted = true := by decide

open FxVerif.Model.C07Gov FxVerif.Proofs.C07Gov in
/-- **the tally completes for every combination of votes, delegations, validators and parameters**: any number of voters
with any valid weighted votes (incl. all-abstain, zero-power voters, dust delegations), any bonded tokens (incl. zero), any
quorum / veto / threshold values — no `Quo` divides by zero.  Hypotheses are facts of the staking state, not of the votes:
bonded validators have positive delegator shares (`InOk`), and a validator's voting delegators do not hold more shares
than the validator has (`DeductionsFit`) -/
theorem gov_tally_total (i : TallyIn) (hi : InOk i) (hd : DeductionsFit i) : ∃ o, tally i = .ok o :=
  tally_total_of_tail tally_tail_code_facts i hi hd

open FxVerif.Model.C07Gov FxVerif.Proofs.C07Gov in
/-- … with the staking hypothesis stated on the tally INPUT only (`DelegationsFit`: for each bonded validator the shares
of its voting delegators add up to at most its delegator shares — a validator's shares ARE the sum of its delegations'
shares).  The harness evaluates `InOk` / `DelegationsFit` on the real staking state of every tally it drives. -/
theorem gov_tally_total_input (i : TallyIn) (hi : InOk i) (hd : DelegationsFit i) : ∃ o, tally i = .ok o :=
  gov_tally_total i hi (deductionsFit_of_input i hd)

open FxVerif.Model.C07Gov FxVerif.Proofs.C07Gov in
/-- with no voters at all the tally completes whatever the staking state is (not even `InOk` is needed for validators
that did not vote) -/
theorem gov_tally_total_no_votes (i : TallyIn) (hv : i.voters = []) (hn : ∀ v ∈ i.vals, v.vote = []) :
    ∃ o, tally i = .ok o := by
  have hskip : tallySkipsNonVotingValidators = true := by decide
  have hfold : ∀ (l : List GVal) (a : Acc), (∀ v ∈ l, v.vote = []) → foldE validatorStep a l = .ok a := by
    intro l
    induction l with
    | nil => intro a _; rfl
    | cons v vs ih =>
      intro a h
      have hv0 : v.vote = [] := h v (by simp)
      simp only [foldE, validatorStep, hskip, hv0, List.isEmpty_nil, Bool.and_self, if_true]
      exact ih a (fun x hx => h x (by simp [hx]))
  obtain ⟨r, hr⟩ := runTail_expected_total i {} 0 (by decide) (by decide)
  unfold tally
  rw [hv]
  simp only [foldE]
  rw [hfold i.vals _ hn]
  simp only
  rw [tally_tail_code_facts]
  have hr' : runTail { i := i, res := ({ vals := i.vals } : Acc).res, total := ({ vals := i.vals } : Acc).total } expectedTail = .ok r := hr
  rw [hr']
  exact ⟨_, rfl⟩

-- non-vacuity (gov): two validators of 100 tokens; both abstain with full weight → quorum reached, fails, nothing burned;
-- one yes + one abstain → passes
section
open FxVerif.Model.C07Gov FxVerif.Proofs.C07Gov
def oneE : Int := 10 ^ 18
def vEx (o : Opt) : GVal := { tokens := 100, shares := 100 * oneE, vote := [(o, oneE)] }
def iEx (a b : Opt) : TallyIn :=
  { bonded := 200, quorum := 4 * 10 ^ 17, vetoThr := 334 * 10 ^ 15, thr := 5 * 10 ^ 17, burnQ := false, burnV := true,
    vals := [vEx a, vEx b],
    voters := [{ opts := [(a, oneE)], dels := [(0, 100 * oneE)] }, { opts := [(b, oneE)], dels := [(1, 100 * oneE)] }] }
example : InOk (iEx .abstain .abstain) ∧ DelegationsFit (iEx .abstain .abstain) := by
  refine ⟨⟨?_, ?_⟩, ?_, ?_⟩
  · intro v hv; simp [iEx, vEx] at hv; subst hv; refine ⟨by decide, by decide, ?_, by decide⟩; intro e he; simp at he; subst he; decide
  · intro vt hvt; simp [iEx] at hvt
    rcases hvt with h | h <;> subst h <;> refine ⟨⟨?_, by decide⟩, ?_⟩ <;> intro e he <;> simp at he <;> subst he <;> decide
  · intro v hv; simp [iEx, vEx] at hv; subst hv; rfl
  · intro j v hj
    match j with
    | 0 => simp [iEx, vEx] at hj; subst hj; decide
    | 1 => simp [iEx, vEx] at hj; subst hj; decide
    | n + 2 => simp [iEx] at hj
example : (match tally (iEx .abstain .abstain) with | .ok o => some (o.passes, o.burn, o.res.abstain) | .error _ => none) =
    some (false, false, 200 * oneE) := by decide
example : (match tally (iEx .yes .abstain) with | .ok o => some (o.passes, o.burn) | .error _ => none) = some (true, false) := by decide
example : (match tally (iEx .veto .abstain) with | .ok o => some (o.passes, o.burn) | .error _ => none) = some (false, true) := by decide
end

-- non-vacuity: an aged, unconfirmed bridge call with an online oracle that did not confirm — the end-blocker slashes it
def pEx : Params := ⟨100, 10, 8 * 10 ^ 17, 2, 10, 100, 10 ^ 17, 2⟩
def sEx : State := run (init pEx [(0, 5000)]) [.gov [0], .bond 0 0 0 0 100, .mkcall, .block 5, .block 5]
example : PowerFits sEx := by decide
example : ParamsFit pEx := by decide
example : ParamsFit ⟨10000 * 10 ^ 18, 10, 8 * 10 ^ 17, 20000, 10 ^ 18, 1814400, 10 ^ 17, 20⟩ := by decide  -- mainnet-like
example : sEx.height = 3 ∧ (sEx.calls.map (·.height)) = [1] := by decide
example : ((block sEx 5).1.oracles.map (fun p => (p.2.online, p.2.slashTimes))) = [(false, 1)] ∧ (block sEx 5).2 = .ok := by decide
example : endBlockerSites.length ≥ 20 := by decide

/-! ## gov end-blocker: the deposit escrow (refund / burn cannot fail)

`Model.C07Escrow`: the gov module account, the deposit records, and the three things the end-blocker does to them — settle an
expired / rejected proposal, and for a passing proposal settle, run the messages (signer = the gov account) on a cache, commit
or discard.  A refund the account cannot pay is the error that halts the chain. -/
end FxVerif.Props.C07
namespace FxVerif.Props.C07
section escrow
open FxVerif.Model.C07Escrow FxVerif.Proofs.C07Escrow FxVerif.Model.C07

/-- obligation over the regenerated `AddDeposit` statement order: the gov module account is refused as depositor before
anything is transferred or recorded (fix 45d0bc2) -/
theorem add_deposit_code_facts : govEscrowCode.addDepositRefusesGov = true := by decide

/-- **with the escrow check in the pass branch the gov end-blocker never fails on a refund or burn**, for every history of
deposits, expiries, rejections and passed proposals carrying ANY messages (spending, depositing from the gov account,
failing …): the module account always covers the recorded deposits -/
theorem gov_escrow_guarded_never_halts (c : Code) (hc : c.passChecksEscrow = true) (ops : List Op) :
    (run c ops init).halted = false ∧ total (run c ops init).deps ≤ (run c ops init).bal :=
  let h := run_inv_guarded hc ops init inv_init
  ⟨h.2, h.1⟩

/-- the code after 45d0bc2 without the check: total as long as no proposal message pays out of the gov account -/
theorem gov_escrow_no_spend_never_halts (c : Code) (hc : c.addDepositRefusesGov = true) (ops : List Op)
    (hs : ops.all opSpendFree = true) :
    (run c ops init).halted = false ∧ total (run c ops init).deps ≤ (run c ops init).bal :=
  let h := run_inv_noSpend hc ops hs init inv_init
  ⟨h.2, h.1⟩

/-- for the regenerated code, whichever guards it has: histories without a paying message never halt -/
theorem gov_endblock_escrow_total_no_spend (ops : List Op) (hs : ops.all opSpendFree = true) :
    (run govEscrowCode ops init).halted = false :=
  (gov_escrow_no_spend_never_halts govEscrowCode add_deposit_code_facts ops hs).1

/-- **gov end-blocker totality for the code as it is (no escrow check in the pass branch) — PARTIAL**: the refunds and burns of
every history succeed under the hypothesis that the messages of no passed proposal leave the gov account with less than the open
deposits.  Missing for the full statement: that hypothesis is NOT guaranteed by the code — `gov_escrow_spend_halts_unguarded`
below is a history that violates it (known finding "gov escrow spent by a proposal message", fixes/C07-gov-escrow-spend.md);
with the proposed repair it becomes `gov_escrow_guarded_never_halts`, without hypothesis. -/
theorem gov_endblock_escrow_total_partial (ops : List Op) (h : PassesKeepCovered govEscrowCode ops init) :
    (run govEscrowCode ops init).halted = false ∧ total (run govEscrowCode ops init).deps ≤ (run govEscrowCode ops init).bal :=
  let r := run_inv_partial (c := govEscrowCode) (by decide) ops init inv_init h
  ⟨r.2, r.1⟩

/-- a refund fails exactly when the account holds less than the deposits of that proposal — the order in which the store
walk meets the records is irrelevant -/
theorem gov_refund_fails_iff (pid : Nat) (d : List (Nat × Nat)) (b : Nat) :
    settle pid d b = none ↔ b + total (without pid d) < total d := settle_none_iff pid d b

/-- the hypothesis of `gov_escrow_guarded_never_halts` cannot be dropped: WITHOUT the check a passed `bank.MsgSend{from: gov}`
halts the end-blocker when the next proposal ends (fixes/C07-gov-escrow-spend.md: proposal 1 with a 10000 deposit sends 1000,
proposal 2 holds a 1000 deposit) -/
theorem gov_escrow_spend_halts_unguarded :
    (run { addDepositRefusesGov := true, passChecksEscrow := false } [.deposit 1 10000, .deposit 2 1000, .pass 1 [.spend 1000], .settle 2] init).halted = true := by decide

/-- … and without the refusal in `AddDeposit` a passed `MsgDeposit{depositor: gov}` does (fixes/C07-gov-self-deposit.md) -/
theorem gov_escrow_self_deposit_halts_unguarded :
    (run { addDepositRefusesGov := false, passChecksEscrow := false } [.deposit 1 10000, .deposit 2 1000, .pass 1 [.govDeposit 2 500], .settle 2] init).halted = true := by decide

/-- obligation over the regenerated `case passes:` of gov.EndBlocker: nothing but the classified statements (cache context, message
list, message loop, the escrow check on the cache, `if err == nil { … writeCache() … } else { FAILED }`), and the only `writeCache()` sits
inside that `if`, after the message loop — what `passMsgs` models as "discard on failure" -/
theorem pass_branch_code_facts :
    FxVerif.Gen.C07.govPassBranch.all (fun w => ["cache", "getMsgs", "getMsgsFail", "msgLoop", "commitIfOk", "check:DepositsCovered"].contains w) = true ∧
      comesBefore "cache" "msgLoop" FxVerif.Gen.C07.govPassBranch = true ∧
      comesBefore "msgLoop" "commitIfOk" FxVerif.Gen.C07.govPassBranch = true := by decide

/-- obligation over the regenerated order of the tallied-proposal callback: the deposits are refunded / burned (unless an
expedited proposal is converted) BEFORE the outcome switch runs the messages -/
theorem settle_order_code_facts : govEscrowCode.settleBeforeMsgs = true := by decide

/-- the ORDER matters without the check: were the deposits settled only after the messages, a passing proposal's own message
could spend the proposal's own deposit and the refund would fail in the very same block (one proposal suffices) -/
theorem gov_escrow_settle_order_matters :
    (run { addDepositRefusesGov := true, passChecksEscrow := false, settleBeforeMsgs := false } [.deposit 1 1000, .pass 1 [.spend 1000]] init).halted = true ∧
    (run { addDepositRefusesGov := true, passChecksEscrow := false, settleBeforeMsgs := true } [.deposit 1 1000, .pass 1 [.spend 1000]] init).halted = false := by decide

-- non-vacuity: the same two histories complete under the check (the carrier proposal FAILS, nothing is written)
example : (run { addDepositRefusesGov := true, passChecksEscrow := true } [.deposit 1 10000, .deposit 2 1000, .pass 1 [.spend 1000], .settle 2] init) = { bal := 0, deps := [], halted := false } := by decide
example : (run { addDepositRefusesGov := false, passChecksEscrow := true } [.deposit 1 10000, .deposit 2 1000, .pass 1 [.govDeposit 2 500], .settle 2] init) = { bal := 0, deps := [], halted := false } := by decide
-- a spend that leaves the escrow covered is committed (the account holds 300 more than the deposits)
example : (run { addDepositRefusesGov := true, passChecksEscrow := true } [.deposit 1 100, .deposit 2 1000, .pass 1 [.payIn 300, .spend 200], .settle 2] init) = { bal := 100, deps := [], halted := false } := by decide
example : ([Op.deposit 1 5, .pass 1 [.noop, .payIn 3, .govDeposit 2 1], .settle 2] : List Op).all opSpendFree = true := by decide
-- the hypothesis of the partial theorem holds for a history whose passed proposal spends only a surplus …
example : PassesKeepCovered { addDepositRefusesGov := true, passChecksEscrow := false }
    [.deposit 1 100, .deposit 2 1000, .pass 1 [.payIn 300, .spend 200], .settle 2] init := by
  simp [PassesKeepCovered, step, init, settle, without, passMsgs, execMsgs, execMsg, total]
-- … and fails for the witness history (the spend reaches into proposal 2's deposit)
example : ¬ PassesKeepCovered { addDepositRefusesGov := true, passChecksEscrow := false }
    [.deposit 1 10000, .deposit 2 1000, .pass 1 [.spend 1000], .settle 2] init := by
  simp [PassesKeepCovered, step, init, settle, without, passMsgs, execMsgs, execMsg, total]
end escrow

end FxVerif.Props.C07
