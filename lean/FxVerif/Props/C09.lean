import FxVerif.Model.C09
import FxVerif.Proofs.C09
import FxVerif.Gen.C09
/-!
# C09 — a precompile call is all-or-nothing across Cosmos state and EVM state

Property theorems only.  Every theorem quantifies over ALL programs (call trees), all `fuel`, all `gas` (so every point at
which execution can be cut short), all gas costs carried by the program nodes, all native actions (arbitrary functions
that may fail after half-writing the native store and after emitting logs) and all entry states.  `N` (the native store)
is an arbitrary type.  The generated table `Gen.C09.methods` (re-read from `/repo` on every run) carries the obligation
that licenses instantiating the abstract action with each concrete precompile method.
-/
namespace FxVerif.Props.C09
open FxVerif.Model.C09 FxVerif.Proofs.C09

variable {N : Type}

/-- reverting the StateDB to the snapshot taken when a frame was entered restores that frame's entry state exactly —
EVM storage, native store, logs and journal — whatever the frame did and however it ended -/
theorem journal_undo (fuel : Nat) (ro : Bool) (gas : Nat) (p : List (Prog N)) (s : St N) :
    (exec fuel ro gas p s).2.1.revertTo s.journal.length = s :=
  revertTo_of_ext (exec_good fuel ro gas p s).1

/-- the journal machine (the fork's StateDB discipline) refines the declarative snapshot semantics: same outcome, same gas
left, and when the frame returns normally the same storage, native store and logs -/
theorem exec_refines_spec (fuel : Nat) (ro : Bool) (gas : Nat) (p : List (Prog N)) (s : St N) :
    (exec fuel ro gas p s).1 = (spec fuel ro gas p s.toView).1 ∧
    (exec fuel ro gas p s).2.2 = (spec fuel ro gas p s.toView).2.2 ∧
    ((exec fuel ro gas p s).1 = .ok → (exec fuel ro gas p s).2.1.toView = (spec fuel ro gas p s.toView).2.1) :=
  (exec_good fuel ro gas p s).2

/-- whole transactions: what is committed is exactly what the declarative semantics says -/
theorem tx_refines_spec (fuel gas : Nat) (p : List (Prog N)) (v : View N) :
    runTx fuel gas p v = specTx fuel gas p v := by
  have hg := exec_good fuel false gas p ({ toView := v, journal := [] } : St N)
  obtain ⟨hext, ho, hgas, hv⟩ := hg
  unfold runTx specTx
  simp only [commit]
  by_cases hok : (exec fuel false gas p ({ toView := v, journal := [] } : St N)).1 = .ok
  · have hok' := ho ▸ hok
    simp only [hok, hok', ↓reduceIte, hv hok, hgas]
  · have hok' : ¬ (spec fuel false gas p v).1 = .ok := fun h => hok (ho ▸ h)
    have hr := revertTo_of_ext hext
    simp only [List.length_nil] at hr
    simp only [hok, ↓reduceIte, hr, ← ho, hgas]

/-- atomicity at transaction level, for every program, fuel and gas limit:
* the transaction does not end normally (explicit revert, invalid opcode, a failing precompile, or gas running out at
  ANY point, in any frame) ⇒ nothing is committed: native store, EVM storage and logs are the initial ones;
* it ends normally ⇒ native store and EVM storage committed are the two halves of one and the same final state of the
  declarative semantics (all surviving effects together) -/
theorem atomicity (fuel gas : Nat) (p : List (Prog N)) (v : View N) :
    ((runTx fuel gas p v).1 ≠ .ok → (runTx fuel gas p v).2.1 = v) ∧
    ((runTx fuel gas p v).1 = .ok → (runTx fuel gas p v).2.1 = (spec fuel false gas p v).2.1) := by
  rw [tx_refines_spec]
  unfold specTx
  by_cases hok : (spec fuel false gas p v).1 = .ok <;> simp [hok]

/-- in particular the native (Cosmos) store after a transaction that failed for whatever reason is the initial one -/
theorem failed_tx_native_unchanged (fuel gas : Nat) (p : List (Prog N)) (v : View N)
    (h : (runTx fuel gas p v).1 ≠ .ok) : (runTx fuel gas p v).2.1.native = v.native := by
  rw [(atomicity fuel gas p v).1 h]

/-- atomicity at frame level, failure half: if a child frame does not return normally (it reverted, hit an invalid
opcode, a precompile inside failed and it bubbled up, or it ran out of gas anywhere), the caller continues — or itself
halts — in EXACTLY the state it had before the call: none of the child's EVM writes, native effects (including the
value transfer), logs or journal entries remain.  Swallowing the failure (`try/catch`) does not keep anything. -/
theorem frame_failure_restores (fuel : Nat) (ro : Bool) (gas : Nat) (h : CallHdr N) (body rest : List (Prog N)) (s : St N)
    (hpre : ¬ (gas < h.callc ∨ (ro = true ∧ h.xfer.isSome = true)))
    (hne : (exec fuel (ro || h.kind == .staticcall) (fwdGas h gas + h.stip) body (s.enter h)).1 ≠ .ok) :
    exec (fuel + 1) ro gas (.call h body :: rest) s =
      (let r := exec fuel (ro || h.kind == .staticcall) (fwdGas h gas + h.stip) body (s.enter h)
       let g3 := keepGas h gas + (if r.1 = .revert then r.2.2 else 0)
       if g3 < h.pFail then (.fail, s, 0)
       else if h.swallow then exec fuel ro (g3 - h.pFail) rest s else (.revert, s, g3 - h.pFail)) := by
  have hu := journal_undo fuel (ro || h.kind == .staticcall) (fwdGas h gas + h.stip) body (s.enter h)
  have hext : Ext s (exec fuel (ro || h.kind == .staticcall) (fwdGas h gas + h.stip) body (s.enter h)).2.1 :=
    (ext_enter s h).trans (exec_good _ _ _ _ _).1
  have hr := revertTo_of_ext hext
  simp only [exec, hpre, ↓reduceIte, resolve, hne, hr]
  generalize exec fuel (ro || h.kind == .staticcall) (fwdGas h gas + h.stip) body (s.enter h) = r
  by_cases h1 : keepGas h gas + (if r.1 = .revert then r.2.2 else 0) < h.pFail
  · simp [h1]
  · by_cases h2 : h.swallow = true <;> simp [h1, h2]

/-- atomicity at frame level, success half: if the child returns normally the caller goes on with the child's complete
final state — its EVM writes and its native effects together -/
theorem frame_success_keeps (fuel : Nat) (ro : Bool) (gas : Nat) (h : CallHdr N) (body rest : List (Prog N)) (s : St N)
    (hpre : ¬ (gas < h.callc ∨ (ro = true ∧ h.xfer.isSome = true)))
    (hok : (exec fuel (ro || h.kind == .staticcall) (fwdGas h gas + h.stip) body (s.enter h)).1 = .ok) :
    exec (fuel + 1) ro gas (.call h body :: rest) s =
      (let r := exec fuel (ro || h.kind == .staticcall) (fwdGas h gas + h.stip) body (s.enter h)
       if keepGas h gas + r.2.2 < h.pOk then (.fail, r.2.1, 0)
       else exec fuel ro (keepGas h gas + r.2.2 - h.pOk) rest r.2.1) := by
  simp only [exec, hpre, ↓reduceIte, resolve, hok]
  generalize exec fuel (ro || h.kind == .staticcall) (fwdGas h gas + h.stip) body (s.enter h) = r
  by_cases h1 : keepGas h gas + r.2.2 < h.pOk <;> simp [h1]

/-- a precompile call whose native action fails — after half-writing the native store (`(act _ _).2.1` arbitrary) and
after emitting any logs — or which cannot pay its `RequiredGas`, leaves no trace: the caller continues or halts in
exactly its pre-call state, and all forwarded gas is gone -/
theorem failed_native_action_leaves_no_trace (fuel : Nat) (ro : Bool) (gas : Nat) (h : CallHdr N) (req : Nat)
    (act : Action N) (rest : List (Prog N)) (s : St N)
    (hpre : ¬ (gas < h.callc ∨ (ro = true ∧ h.xfer.isSome = true)))
    (hfail : fwdGas h gas + h.stip < req ∨ (act (h.kind != .call) (s.enter h).native).1 = false) :
    exec (fuel + 1) ro gas (.pre h req act :: rest) s =
      (if keepGas h gas < h.pFail then (.fail, s, 0)
       else if h.swallow then exec fuel ro (keepGas h gas - h.pFail) rest s else (.revert, s, keepGas h gas - h.pFail)) := by
  have hg := runPre_good (h.kind != .call) (fwdGas h gas + h.stip) req act (s.enter h)
  have hext : Ext s (runPre (h.kind != .call) (fwdGas h gas + h.stip) req act (s.enter h)).2.1 :=
    (ext_enter s h).trans hg.1
  have hr := revertTo_of_ext hext
  have ho : (runPre (h.kind != .call) (fwdGas h gas + h.stip) req act (s.enter h)).1 = .fail := by
    unfold runPre
    rcases hfail with hlt | hact
    · simp [hlt]
    · by_cases hlt : fwdGas h gas + h.stip < req
      · simp [hlt]
      · simp [hlt, St.nativeAction, hact]
  simp only [exec, hpre, ↓reduceIte, resolve, ho, hr]
  simp only [reduceCtorEq, ↓reduceIte, Nat.add_zero]
  by_cases h1 : keepGas h gas < h.pFail
  · simp [h1]
  · by_cases h2 : h.swallow = true <;> simp [h1, h2]

/-- a precompile call that succeeds contributes exactly its action's result (and its logs) to the state the caller goes on
with, and is undone as one unit with the rest of the frame (`journal_undo`) -/
theorem successful_native_action_kept (fuel : Nat) (ro : Bool) (gas : Nat) (h : CallHdr N) (req : Nat)
    (act : Action N) (rest : List (Prog N)) (s : St N)
    (hpre : ¬ (gas < h.callc ∨ (ro = true ∧ h.xfer.isSome = true)))
    (hgas : ¬ fwdGas h gas + h.stip < req) (hact : (act (h.kind != .call) (s.enter h).native).1 = true)
    (hpost : ¬ keepGas h gas + (fwdGas h gas + h.stip - req) < h.pOk) :
    (exec (fuel + 1) ro gas (.pre h req act :: rest) s) =
      exec fuel ro (keepGas h gas + (fwdGas h gas + h.stip - req) - h.pOk) rest
        ((s.enter h).nativeAction (h.kind != .call) act).2 := by
  have h1 : ((s.enter h).nativeAction (h.kind != .call) act).1 = true := by simp [St.nativeAction, hact]
  simp only [exec, hpre, ↓reduceIte, resolve, runPre, hgas, h1, hpost]

/-! ## obligations over the regenerated method table (both precompiles, every method) -/
open FxVerif.Gen.C09

/-- every method with `IsReadonly() = false` performs its keeper calls only inside exactly one `ExecuteNativeAction`
closure, with the closure's ctx (never an outer `stateDB.Context()`), emits its logs inside that closure through
`EmitEvent`/`AddLog`, propagates the closure's error, and never turns an error into success -/
theorem writers_only_inside_native_action : methods.all (fun m => m.readonly || writerOk m) = true := by decide

/-- every helper that a closure hands its ctx to uses only that ctx for keeper calls -/
theorem helpers_use_their_ctx : helpers.all (fun h => h.outerCtx == 0) = true := by decide

/-- both dispatchers return a non-nil error for every failing path (so the interpreter reverts the call's snapshot) and
return the method's result otherwise -/
theorem dispatchers_return_errors : dispatchers.all dispatcherOk = true := by decide

/-- methods that declare themselves read-only contain no `ExecuteNativeAction` at all -/
theorem readers_have_no_native_action : methods.all (fun m => !m.readonly || m.nativeCalls == 0) = true := by decide

-- non-vacuity
example : (methods.filter (fun m => !m.readonly)).length ≥ 12 := by decide
example : methods.length ≥ 20 := by decide

/-- a concrete tree: SSTORE; CALL{ precompile(ok); SSTORE; REVERT } swallowed; precompile(ok) — only the last effect survives -/
def demoAct (id : Nat) : Action (List Nat) := fun _ n => (true, id :: n, [id])
def demoHdr (sw : Bool) : CallHdr (List Nat) :=
  { callc := 10, cap := 100000, stip := 0, kind := .call, xfer := none, swallow := sw, pOk := 5, pFail := 5 }
def demo : List (Prog (List Nat)) :=
  [.sstore 100 1 7, .call (demoHdr true) [.pre (demoHdr false) 50 (demoAct 1), .sstore 100 2 8, .revert 3],
   .pre (demoHdr false) 50 (demoAct 2)]
def demoV : View (List Nat) := { slots := fun _ => 0, native := [], logs := [] }

example : (runTx 10 1000000 demo demoV).1 = .ok := by decide
example : (runTx 10 1000000 demo demoV).2.1.native = [2] := by decide
example : (runTx 10 1000000 demo demoV).2.1.logs = [2] := by decide
example : (runTx 10 1000000 demo demoV).2.1.slots 1 = 7 ∧ (runTx 10 1000000 demo demoV).2.1.slots 2 = 0 := by decide
-- too little gas for the last precompile call: it fails, bubbles up, nothing at all is committed
-- too little gas (out of gas inside the last precompile call after the first SSTORE): nothing at all is committed
example : (runTx 10 300 demo demoV).1 = .fail ∧ (runTx 10 300 demo demoV).2.1.native = [] ∧
    (runTx 10 300 demo demoV).2.1.slots 1 = 0 := by decide

end FxVerif.Props.C09
