import FxVerif.Model.C09
import FxVerif.Model.C09Shape
import FxVerif.Model.C09Dep
import FxVerif.Model.C09Block
import FxVerif.Proofs.C09
import FxVerif.Proofs.C09Ext
import FxVerif.Gen.C09
/-!
# C09 — a precompile call is all-or-nothing across Cosmos state and EVM state

Property theorems only.  Every theorem quantifies over ALL programs (call trees), all `fuel`, all `gas` (so every point at
which execution can be cut short), all gas costs carried by the program nodes, all keeper parts of native actions
(arbitrary functions that may fail after half-writing the native store and after emitting logs, or panic), all EVM calls a
native action makes on the same StateDB (ERC-20 calls: arbitrary programs again) and all entry states.  `N` (the native
store) is an arbitrary type.

A precompile node carries the SHAPE of its method's `Run` (`RunShape`: keeper writes on `stateDB.Context()` before / after
`ExecuteNativeAction`, a deferred `recover()`, an EVM call that follows a keeper write inside the closure).  The positive
theorems hold for programs all of whose precompile nodes have the clean shape (`Clean p`); for each of the four ways a
shape can be unclean a theorem exhibits programs that break atomicity (so none of the conditions can be dropped, and the
ORDER of the statements in `Run` is what decides: the same write after the native action is harmless); and the
shape of every real method is regenerated from the Go AST on every run (`Gen.C09.runFacts`, `shapeOf`) and decided to be
clean (`table_shapes_clean`, `evm_calls_precede_keeper_writes`), which is what licenses instantiating the model with the
real methods (`FromTable`, `atomicity_of_table_programs`).
-/
namespace FxVerif.Props.C09
open FxVerif.Model.C09 FxVerif.Proofs.C09

variable {N : Type}

/-- reverting the StateDB to the snapshot taken when a frame was entered restores that frame's entry state exactly —
EVM storage, native store, logs and journal — whatever the frame did and however it ended (an unrecovered Go panic
excepted: then the whole transaction is dropped, see `atomicity`) -/
theorem journal_undo (fuel : Nat) (ro : Bool) (gas : Nat) (p : List (Prog N)) (s : St N) (hc : Clean p)
    (hna : (exec fuel ro gas p s).1 ≠ .abort) :
    (exec fuel ro gas p s).2.1.revertTo s.journal.length = s :=
  revertTo_of_ext ((exec_good fuel ro gas p s hc).2.2.1 hna)

/-- the journal machine (the fork's StateDB discipline) refines the declarative snapshot semantics: same outcome, same gas
left, and when the frame returns normally the same storage, native store and logs -/
theorem exec_refines_spec (fuel : Nat) (ro : Bool) (gas : Nat) (p : List (Prog N)) (s : St N) (hc : Clean p) :
    (exec fuel ro gas p s).1 = (spec fuel ro gas p s.toView).1 ∧
    (exec fuel ro gas p s).2.2 = (spec fuel ro gas p s.toView).2.2 ∧
    ((exec fuel ro gas p s).1 = .ok → (exec fuel ro gas p s).2.1.toView = (spec fuel ro gas p s.toView).2.1) :=
  ⟨(exec_good fuel ro gas p s hc).1, (exec_good fuel ro gas p s hc).2.1, (exec_good fuel ro gas p s hc).2.2.2⟩

/-- whole transactions: what is committed is exactly what the declarative semantics says -/
theorem tx_refines_spec (fuel gas : Nat) (p : List (Prog N)) (v : View N) (hc : Clean p) :
    runTx fuel gas p v = specTx fuel gas p v := by
  have hg := exec_good fuel false gas p ({ toView := v, journal := [] } : St N) hc
  obtain ⟨ho, hgas, hext, hv⟩ := hg
  unfold runTx specTx
  simp only [commit]
  by_cases hok : (exec fuel false gas p ({ toView := v, journal := [] } : St N)).1 = .ok
  · have hok' := ho ▸ hok
    simp only [hok, hok', ↓reduceIte, hv hok, hgas]
  · have hok' : ¬ (spec fuel false gas p v).1 = .ok := fun h => hok (ho ▸ h)
    by_cases hab : (exec fuel false gas p ({ toView := v, journal := [] } : St N)).1 = .abort
    · have hab' := ho ▸ hab
      simp [hab, hab']
    · have hr := revertTo_of_ext (hext hab)
      simp only [List.length_nil] at hr
      simp only [hok, hab, ↓reduceIte, hr, ← ho, hgas]

/-- atomicity at transaction level, for every program, fuel and gas limit:
* the transaction does not end normally (explicit revert, invalid opcode, a failing precompile, a panic, or gas running
  out at ANY point, in any frame) ⇒ nothing is committed: native store, EVM storage and logs are the initial ones;
* it ends normally ⇒ native store and EVM storage committed are the two halves of one and the same final state of the
  declarative semantics (all surviving effects together) -/
theorem atomicity (fuel gas : Nat) (p : List (Prog N)) (v : View N) (hc : Clean p) :
    ((runTx fuel gas p v).1 ≠ .ok → (runTx fuel gas p v).2.1 = v) ∧
    ((runTx fuel gas p v).1 = .ok → (runTx fuel gas p v).2.1 = (spec fuel false gas p v).2.1) := by
  rw [tx_refines_spec fuel gas p v hc]
  unfold specTx
  by_cases hok : (spec fuel false gas p v).1 = .ok <;> simp [hok]

/-- the same for a DIRECT call (the transaction's `to` is the precompile): what is committed is what the declarative
semantics says; a call that does not end normally — too little gas for `RequiredGas`, a failing keeper part after
half-writing, a failing ERC-20 call inside, a panic — commits exactly the initial state, the transaction's value included -/
theorem direct_call_atomic (fuel gas : Nat) (xfer : Option (N → N)) (req : Nat) (sh : RunShape) (out : N → N)
    (inner : List (Nat × List (Prog N))) (act : ActionX N) (v : View N) (hsh : sh.clean = true)
    (hinner : ∀ x ∈ inner, Clean x.2) :
    runTxPre fuel gas xfer req sh out inner act v = specTxPre fuel gas xfer req sh out inner act v ∧
    ((runTxPre fuel gas xfer req sh out inner act v).1 ≠ .ok → (runTxPre fuel gas xfer req sh out inner act v).2.1 = v) := by
  have hev : EvGood (exec fuel) (spec fuel) inner := fun x hx ro' s' => exec_good fuel ro' x.1 x.2 s' (hinner x hx)
  have key : ∀ (s1 : St N), Ext ({ toView := v, journal := [] } : St N) s1 →
      (let r := runPre (exec fuel) false false gas req sh out inner act s1
       (if r.1 = .ok then (Outcome.ok, commit r.2.1, r.2.2)
        else if r.1 = .abort then (.abort, v, 0)
        else (r.1, commit (r.2.1.revertTo 0), if r.1 = .revert then r.2.2 else 0))) =
      (let r := specPre (spec fuel) false false gas req sh out inner act s1.toView
       (if r.1 = .ok then (Outcome.ok, r.2.1, r.2.2) else (r.1, v, if r.1 = .revert then r.2.2 else 0))) := by
    intro s1 h1
    have hg := runPre_good (exec fuel) (spec fuel) false false gas req sh out inner act s1 hsh hev
    obtain ⟨ho, hgas, hext, hv⟩ := hg
    simp only [commit]
    by_cases hok : (runPre (exec fuel) false false gas req sh out inner act s1).1 = .ok
    · have hok' := ho ▸ hok
      simp only [hok, hok', ↓reduceIte, hv hok, hgas]
    · have hok' : ¬ (specPre (spec fuel) false false gas req sh out inner act s1.toView).1 = .ok := fun h => hok (ho ▸ h)
      by_cases hab : (runPre (exec fuel) false false gas req sh out inner act s1).1 = .abort
      · have hab' := ho ▸ hab
        simp [hab, hab']
      · have hr := revertTo_of_ext (h1.trans (hext hab))
        simp only [List.length_nil] at hr
        simp only [hok, hab, ↓reduceIte, hr, ← ho, hgas]
  have heq : runTxPre fuel gas xfer req sh out inner act v = specTxPre fuel gas xfer req sh out inner act v := by
    unfold runTxPre specTxPre
    cases xfer with
    | none => exact key _ (Ext.refl _)
    | some f =>
      exact key (({ toView := v, journal := [] } : St N).transfer f) (ext_transfer _ f)
  refine ⟨heq, ?_⟩
  rw [heq]
  unfold specTxPre
  exact tx_wrap_fail _ v

/-- in particular the native (Cosmos) store after a transaction that failed for whatever reason is the initial one -/
theorem failed_tx_native_unchanged (fuel gas : Nat) (p : List (Prog N)) (v : View N) (hc : Clean p)
    (h : (runTx fuel gas p v).1 ≠ .ok) : (runTx fuel gas p v).2.1.native = v.native := by
  rw [(atomicity fuel gas p v hc).1 h]

/-- atomicity at frame level, failure half: if a child frame does not return normally (it reverted, hit an invalid
opcode, a precompile inside failed and it bubbled up, or it ran out of gas anywhere), the caller continues — or itself
halts — in EXACTLY the state it had before the call: none of the child's EVM writes, native effects (including the
value transfer), logs or journal entries remain.  Swallowing the failure (`try/catch`) does not keep anything. -/
theorem frame_failure_restores (fuel : Nat) (ro : Bool) (gas : Nat) (h : CallHdr N) (body rest : List (Prog N)) (s : St N)
    (hc : Clean body)
    (hpre : ¬ (gas < h.callc ∨ (ro = true ∧ h.xfer.isSome = true))) (hfund : h.unfunded s.native = false)
    (hne : (exec fuel (ro || h.kind == .staticcall) (fwdGas h gas + h.stip) body (s.enter h)).1 ≠ .ok)
    (hna : (exec fuel (ro || h.kind == .staticcall) (fwdGas h gas + h.stip) body (s.enter h)).1 ≠ .abort) :
    exec (fuel + 1) ro gas (.call h body :: rest) s =
      (let r := exec fuel (ro || h.kind == .staticcall) (fwdGas h gas + h.stip) body (s.enter h)
       let g3 := keepGas h gas + (if r.1 = .revert then r.2.2 else 0)
       if g3 < h.pFail then (.fail, s, 0)
       else if h.swallow then exec fuel ro (g3 - h.pFail) rest s else (.revert, s, g3 - h.pFail)) := by
  have hext : Ext s (exec fuel (ro || h.kind == .staticcall) (fwdGas h gas + h.stip) body (s.enter h)).2.1 :=
    (ext_enter s h).trans ((exec_good _ _ _ _ _ hc).2.2.1 hna)
  have hr := revertTo_of_ext hext
  simp only [exec, hpre, hfund, Bool.false_eq_true, ↓reduceIte, resolve, hne, hna, hr]
  generalize exec fuel (ro || h.kind == .staticcall) (fwdGas h gas + h.stip) body (s.enter h) = r
  by_cases h1 : keepGas h gas + (if r.1 = .revert then r.2.2 else 0) < h.pFail
  · simp [h1]
  · by_cases h2 : h.swallow = true <;> simp [h1, h2]

/-- atomicity at frame level, success half: if the child returns normally the caller goes on with the child's complete
final state — its EVM writes and its native effects together -/
theorem frame_success_keeps (fuel : Nat) (ro : Bool) (gas : Nat) (h : CallHdr N) (body rest : List (Prog N)) (s : St N)
    (hpre : ¬ (gas < h.callc ∨ (ro = true ∧ h.xfer.isSome = true))) (hfund : h.unfunded s.native = false)
    (hok : (exec fuel (ro || h.kind == .staticcall) (fwdGas h gas + h.stip) body (s.enter h)).1 = .ok) :
    exec (fuel + 1) ro gas (.call h body :: rest) s =
      (let r := exec fuel (ro || h.kind == .staticcall) (fwdGas h gas + h.stip) body (s.enter h)
       if keepGas h gas + r.2.2 < h.pOk then (.fail, r.2.1, 0)
       else exec fuel ro (keepGas h gas + r.2.2 - h.pOk) rest r.2.1) := by
  simp only [exec, hpre, hfund, Bool.false_eq_true, ↓reduceIte, resolve, hok]
  generalize exec fuel (ro || h.kind == .staticcall) (fwdGas h gas + h.stip) body (s.enter h) = r
  by_cases h1 : keepGas h gas + r.2.2 < h.pOk <;> simp [h1]

/-- a call that attaches more value than the caller holds never starts: the caller goes on (or bubbles up) in exactly its
pre-call state and gets back all the gas it handed over, stipend included -/
theorem unfunded_call_leaves_no_trace (fuel : Nat) (ro : Bool) (gas : Nat) (h : CallHdr N) (body rest : List (Prog N)) (s : St N)
    (hpre : ¬ (gas < h.callc ∨ (ro = true ∧ h.xfer.isSome = true))) (hfund : h.unfunded s.native = true) :
    exec (fuel + 1) ro gas (.call h body :: rest) s =
      (let g3 := keepGas h gas + (fwdGas h gas + h.stip)
       if g3 < h.pFail then (.fail, s, 0)
       else if h.swallow then exec fuel ro (g3 - h.pFail) rest s else (.revert, s, g3 - h.pFail)) := by
  have hr := revertTo_of_ext (Ext.refl s)
  simp only [exec, hpre, hfund, ↓reduceIte, resolve, reduceCtorEq, hr]
  by_cases h1 : keepGas h gas + (fwdGas h gas + h.stip) < h.pFail
  · simp [h1]
  · by_cases h2 : h.swallow = true <;> simp [h1, h2]

/-- a panic that nothing recovers unwinds every frame; the transaction commits nothing -/
theorem panic_drops_transaction (fuel gas : Nat) (p : List (Prog N)) (v : View N)
    (h : (exec fuel false gas p { toView := v, journal := [] }).1 = .abort) : runTx fuel gas p v = (.abort, v, 0) := by
  simp [runTx, h]

/-- a precompile call of the clean shape that fails — it cannot pay `RequiredGas`, an EVM call made from inside the
native action (ERC-20 `transferFrom`, `burn`) does not return normally, or the keeper part returns an error after
half-writing the native store (arbitrary store left behind) and after emitting any logs — leaves no trace: the caller
continues or halts in exactly its pre-call state, and all forwarded gas is gone -/
theorem failed_precompile_call_leaves_no_trace (fuel : Nat) (ro : Bool) (gas : Nat) (h : CallHdr N) (req : Nat)
    (sh : RunShape) (out : N → N) (inner : List (Nat × List (Prog N))) (act : ActionX N) (rest : List (Prog N)) (s : St N)
    (hsh : sh.clean = true) (hinner : ∀ x ∈ inner, Clean x.2)
    (hpre : ¬ (gas < h.callc ∨ (ro = true ∧ h.xfer.isSome = true))) (hfund : h.unfunded s.native = false)
    (hfail : (runPre (exec fuel) ro (h.kind != .call) (fwdGas h gas + h.stip) req sh out inner act (s.enter h)).1 = .fail) :
    exec (fuel + 1) ro gas (.pre h req sh out inner act :: rest) s =
      (if keepGas h gas < h.pFail then (.fail, s, 0)
       else if h.swallow then exec fuel ro (keepGas h gas - h.pFail) rest s else (.revert, s, keepGas h gas - h.pFail)) := by
  have hev : EvGood (exec fuel) (spec fuel) inner := fun x hx ro' s' => exec_good fuel ro' x.1 x.2 s' (hinner x hx)
  have hg := runPre_good (exec fuel) (spec fuel) ro (h.kind != .call) (fwdGas h gas + h.stip) req sh out inner act
    (s.enter h) hsh hev
  have hna : (runPre (exec fuel) ro (h.kind != .call) (fwdGas h gas + h.stip) req sh out inner act (s.enter h)).1 ≠ .abort := by
    rw [hfail]; decide
  have hext := (ext_enter s h).trans (hg.2.2.1 hna)
  have hr := revertTo_of_ext hext
  simp only [exec, hpre, hfund, Bool.false_eq_true, ↓reduceIte, resolve, hfail, hr]
  simp only [reduceCtorEq, ↓reduceIte, Nat.add_zero]
  by_cases h1 : keepGas h gas < h.pFail
  · simp [h1]
  · by_cases h2 : h.swallow = true <;> simp [h1, h2]

/-- the same for a native action without EVM calls inside, with the failure spelled out: not enough gas for
`RequiredGas`, or the keeper part returns an error (after any writes and logs) -/
theorem failed_native_action_leaves_no_trace (fuel : Nat) (ro : Bool) (gas : Nat) (h : CallHdr N) (req : Nat)
    (sh : RunShape) (out : N → N) (act : ActionX N) (rest : List (Prog N)) (s : St N) (hsh : sh.clean = true)
    (hpre : ¬ (gas < h.callc ∨ (ro = true ∧ h.xfer.isSome = true))) (hfund : h.unfunded s.native = false)
    (hfail : fwdGas h gas + h.stip < req ∨
      (act (h.kind != .call) (fwdGas h gas + h.stip - req) (s.enter h).native).1 = .err) :
    exec (fuel + 1) ro gas (.pre h req sh out [] act :: rest) s =
      (if keepGas h gas < h.pFail then (.fail, s, 0)
       else if h.swallow then exec fuel ro (keepGas h gas - h.pFail) rest s else (.revert, s, keepGas h gas - h.pFail)) := by
  apply failed_precompile_call_leaves_no_trace fuel ro gas h req sh out [] act rest s hsh (by simp) hpre hfund
  have hb : sh.outerBefore = false ∧ sh.evmAfterWrite = false ∧ sh.dropsActionError = false ∧ sh.outerOnError = false := by
    simp only [RunShape.clean, Bool.and_eq_true, Bool.not_eq_true'] at hsh
    exact ⟨hsh.1.1.1.1, hsh.1.1.2, hsh.1.2, hsh.2⟩
  unfold runPre
  rcases hfail with hlt | hact
  · simp [hlt]
  · by_cases hlt : fwdGas h gas + h.stip < req
    · simp [hlt]
    · simp [hlt, hb.1, hb.2.1, hb.2.2.1, hb.2.2.2, runClosure, runInner, St.keeper, hact]

/-- a precompile call (clean shape, no EVM calls inside) that succeeds contributes exactly its action's result (and its
logs) to the state the caller goes on with — journaled, so that it is undone as one unit with the rest of the frame
(`journal_undo`) -/
theorem successful_native_action_kept (fuel : Nat) (ro : Bool) (gas : Nat) (h : CallHdr N) (req : Nat)
    (sh : RunShape) (out : N → N) (act : ActionX N) (rest : List (Prog N)) (s : St N) (hsh : sh.clean = true)
    (hpre : ¬ (gas < h.callc ∨ (ro = true ∧ h.xfer.isSome = true))) (hfund : h.unfunded s.native = false)
    (hgas : ¬ fwdGas h gas + h.stip < req)
    (hact : (act (h.kind != .call) (fwdGas h gas + h.stip - req) (s.enter h).native).1 = .ok)
    (hpost : ¬ keepGas h gas + (fwdGas h gas + h.stip - req) < h.pOk) :
    (exec (fuel + 1) ro gas (.pre h req sh out [] act :: rest) s) =
      exec fuel ro (keepGas h gas + (fwdGas h gas + h.stip - req) - h.pOk) rest
        (let a := act (h.kind != .call) (fwdGas h gas + h.stip - req) (s.enter h).native
         let t := (s.enter h).addLogs a.2.2
         { t with native := if sh.outerAfter then out a.2.1 else a.2.1, journal := .native (s.enter h).native :: t.journal }) := by
  have hb : sh.outerBefore = false ∧ sh.evmAfterWrite = false := by
    simp only [RunShape.clean, Bool.and_eq_true, Bool.not_eq_true'] at hsh
    exact ⟨hsh.1.1.1.1, hsh.1.1.2⟩
  cases hoa : sh.outerAfter <;>
  simp [exec, hpre, hfund, resolve, runPre, hgas, hb.1, hb.2, runClosure, runInner, St.keeper,
    hact, hpost, hoa, St.poke]

/-! ## none of the three shape conditions can be dropped, and the order of the statements decides

Each theorem builds, for an arbitrary native store and arbitrary writes, a transaction in which every frame that touched
the native store was dropped by the EVM — and the store that is committed is nevertheless the written one. -/

def hdr0 (sw : Bool) : CallHdr N :=
  { callc := 0, cap := 1000, stip := 0, kind := .call, xfer := none, funded := fun _ => true, swallow := sw, pOk := 0, pFail := 0 }
def okAct (f : N → N) : ActionX N := fun _ _ n => (.ok, f n, [])
def errAct : ActionX N := fun _ _ n => (.err, n, [])
def panicAct (f : N → N) : ActionX N := fun _ _ n => (.panic, f n, [])

/-- `outerBefore`: a keeper write on `stateDB.Context()` AHEAD of the native action (the allowance spent before the
transfer is attempted): the action fails, the call fails, the transaction fails — and the write is committed -/
theorem outer_write_survives_failed_tx (v : View N) (out : N → N) :
    runTx 5 1000 [.pre (hdr0 false) 0 { RunShape.tidy with outerBefore := true } out [] errAct] v =
      (.revert, { v with native := out v.native }, 15) := by
  simp [runTx, exec, resolve, CallHdr.unfunded, runPre, runClosure, runInner, St.keeper, St.poke, St.enter, hdr0, errAct, fwdGas, keepGas,
    St.revertTo, undoAll, commit, St.addLogs, RunShape.tidy]

/-- … and also when the action succeeds and an enclosing frame reverts, caught by its caller: the transaction succeeds,
the action's own effect `f` is undone, the earlier write stays -/
theorem outer_write_survives_caught_revert (v : View N) (f out : N → N) :
    runTx 5 1000 [.call (hdr0 true) [.pre (hdr0 false) 0 { RunShape.tidy with outerBefore := true } out [] (okAct f),
        .revert 0]] v = (.ok, { v with native := out v.native }, 1000) := by
  simp [runTx, exec, resolve, CallHdr.unfunded, runPre, runClosure, runInner, St.keeper, St.poke, St.enter, hdr0, okAct, fwdGas, keepGas,
    St.revertTo, undoAll, undo, commit, St.addLogs, RunShape.tidy]

/-- the SAME write made AFTER the native action is undone together with it: only the order of the two statements of
`Run` differs from `outer_write_survives_caught_revert` -/
theorem outer_write_after_action_is_undone (v : View N) (f out : N → N) :
    runTx 5 1000 [.call (hdr0 true) [.pre (hdr0 false) 0 { RunShape.tidy with outerAfter := true } out [] (okAct f),
        .revert 0]] v = (.ok, v, 1000) := by
  simp [runTx, exec, resolve, CallHdr.unfunded, runPre, runClosure, runInner, St.keeper, St.poke, St.enter, hdr0, okAct, fwdGas, keepGas,
    St.revertTo, undoAll, undo, commit, St.addLogs, RunShape.tidy]

/-- `outerOnError` (round 4): a keeper write on `stateDB.Context()` in the ERROR branch after `ExecuteNativeAction` ("drop
the claim that cannot be executed"): the snapshot has been put back, the write that follows is not journaled, and the
failing call's frame holds no native journal entry that would restore it — the call FAILS, its caller tolerates that,
the transaction succeeds, and the write of the failed call is committed -/
theorem outer_write_on_error_path_survives_failed_call (v : View N) (f out : N → N) :
    runTx 5 1000 [.pre (hdr0 true) 0 { RunShape.tidy with outerOnError := true } out [] (fun _ _ n => (.err, f n, []))] v =
      (.ok, { v with native := out v.native }, 15) := by
  simp [runTx, exec, resolve, CallHdr.unfunded, runPre, runClosure, runInner, St.keeper, St.poke, St.enter, hdr0, fwdGas, keepGas,
    St.revertTo, undoAll, commit, St.addLogs, RunShape.tidy]

/-- … and the same write is harmless when the call carries a value: the frame's `Transfer` entry holds a snapshot of the
whole native store from before the call, and reverting the failed frame restores it (why such a defect needs msg.value = 0) -/
theorem outer_write_on_error_path_is_undone_by_the_value_transfer (v : View N) (f out t : N → N) :
    runTx 5 1000 [.pre { (hdr0 true : CallHdr N) with xfer := some t } 0 { RunShape.tidy with outerOnError := true } out []
      (fun _ _ n => (.err, f n, []))] v = (.ok, v, 15) := by
  simp [runTx, exec, resolve, CallHdr.unfunded, runPre, runClosure, runInner, St.keeper, St.poke, St.enter, St.transfer, hdr0, fwdGas,
    keepGas, St.revertTo, undoAll, undo, commit, St.addLogs, RunShape.tidy]

/-- `recovers`: the keeper part panics after half-writing the store (a store gas meter running out, say); a deferred
`recover()` in `Run` turns the panic into an error return — but the panic went THROUGH `ExecuteNativeAction`, which
neither restored its snapshot nor journaled it: the call fails, the transaction fails, the half-written store is committed -/
theorem recovered_panic_survives_failed_tx (v : View N) (f : N → N) :
    runTx 5 1000 [.pre (hdr0 false) 0 { RunShape.tidy with recovers := true } id [] (panicAct f)] v =
      (.revert, { v with native := f v.native }, 15) := by
  simp [runTx, exec, resolve, CallHdr.unfunded, runPre, runClosure, runInner, St.keeper, St.enter, hdr0, panicAct, fwdGas, keepGas,
    St.revertTo, undoAll, commit, St.addLogs, RunShape.tidy]

/-- without the `recover()` the same panic drops the whole transaction -/
theorem unrecovered_panic_commits_nothing (v : View N) (f : N → N) :
    runTx 5 1000 [.pre (hdr0 false) 0 RunShape.tidy id [] (panicAct f)] v = (.abort, v, 0) := by
  simp [runTx, exec, resolve, CallHdr.unfunded, runPre, runClosure, runInner, St.keeper, St.enter, hdr0, panicAct, fwdGas,
    St.addLogs, RunShape.tidy]

/-- `evmAfterWrite`: the closure first writes through its keepers (`f`) and THEN makes an EVM call on the same StateDB
whose callee moves value (any native action inside does): that inner action's journal entry — holding a snapshot that
already contains `f` — sits BELOW the entry of the enclosing action, so a revert restores the outer snapshot first and the
inner one last.  The frame reverts, its caller catches it, the transaction succeeds: `f` is committed although every
frame that ran it was dropped (the moved value `t` is undone) -/
theorem evm_call_after_keeper_write_survives_caught_revert (v : View N) (f t : N → N) :
    runTx 6 1000 [.call (hdr0 true)
        [.pre (hdr0 false) 0 { RunShape.tidy with evmAfterWrite := true } id
            [(500, [.call { (hdr0 false : CallHdr N) with xfer := some t } []])] (okAct f),
         .revert 0]] v = (.ok, { v with native := f v.native }, 1000) := by
  simp [runTx, exec, resolve, CallHdr.unfunded, runPre, runClosure, runInner, St.keeper, St.enter, St.transfer, hdr0, okAct, fwdGas,
    keepGas, St.revertTo, undoAll, undo, commit, St.addLogs, RunShape.tidy]

/-- `dropsActionError`: the keeper part fails after writing `f`; `ExecuteNativeAction` puts the snapshot back and returns the
error — which `Run` overwrites before looking at it (`data, topic, err := …` on the next line), so `Run` goes on, emits
its log and returns `true`.  The transaction SUCCEEDS and the EVM keeps the frame of a call none of whose Cosmos-side
effects exist: the committed store is the initial one -/
theorem dropped_action_error_keeps_frame_without_effects (v : View N) (f : N → N) :
    runTx 5 1000 [.pre (hdr0 false) 0 { RunShape.tidy with dropsActionError := true } id [] (fun _ _ n => (.err, f n, []))] v =
      (.ok, v, 1000) ∧
    -- whereas with the error handed on the same call fails, and the transaction with it
    (runTx 5 1000 [.pre (hdr0 false) 0 RunShape.tidy id [] (fun _ _ n => (.err, f n, []))] v).1 = .revert := by
  constructor <;>
  simp [runTx, exec, resolve, CallHdr.unfunded, runPre, runClosure, runInner, St.keeper, St.enter, hdr0, fwdGas, keepGas,
    St.revertTo, undoAll, commit, St.addLogs, RunShape.tidy]

/-- the SAME EVM call made BEFORE the keeper write (the order `handlerERC20Token` has: `transferFrom`, `burn`, then the
bank moves) is covered by `atomicity`: nothing survives -/
theorem evm_call_before_keeper_write_is_undone (v : View N) (f t : N → N) :
    runTx 6 1000 [.call (hdr0 true)
        [.pre (hdr0 false) 0 RunShape.tidy id
            [(500, [.call { (hdr0 false : CallHdr N) with xfer := some t } []])] (okAct f),
         .revert 0]] v = (.ok, v, 1000) := by
  simp [runTx, exec, resolve, CallHdr.unfunded, runPre, runClosure, runInner, St.keeper, St.enter, St.transfer, hdr0, okAct, fwdGas,
    keepGas, St.revertTo, undoAll, undo, commit, St.addLogs, RunShape.tidy]

/-! ## round 3 — the two dependencies the frame model stands for, REGENERATED and interpreted

`Gen/C09Dep.lean` carries the statement lists of the ethermint fork's `(*StateDB).ExecuteNativeAction` and of the
go-ethereum fork's `EVM.Call / CallCode / DelegateCall / StaticCall` as the module cache has them now.  `Model/C09Dep.lean`
interprets them over the model's StateDB; the theorems below say that the interpretation IS the function `exec` / `runPre`
are built from, for every closure / callee / state / gas, and that the ORDER of the statements is what the result rests on. -/
section Dep
open FxVerif.Gen.C09Dep

/-- `ExecuteNativeAction` as the fork has it now, statement by statement, on ANY closure (keeper writes, EVM calls on the
same StateDB, logs, in any order; returning nil, an error, or panicking) and ANY StateDB: snapshot the native store; on
error put it back and return the error; on success push the snapshot on the journal ABOVE everything the closure
journaled; a panic passes through with neither — exactly `naModel` -/
theorem native_action_program_as_modelled (clo : St N → Res × St N) (s0 : St N) :
    runNA nativeActionProg clo s0 = some (naModel clo s0) := by
  unfold runNA nativeActionProg naModel
  rcases h : clo s0 with ⟨r, s1⟩
  cases r <;> simp [execNA, stepNA, h]

/-- … and `naModel` is literally what the frame model's precompile node does around its closure: `runPre` = charge
`RequiredGas`, the write `Run` makes ahead of the action (if its shape has one), `ExecuteNativeAction`, then what `Run`
does with the three possible results -/
theorem runPre_is_fork_native_action (ev : Eval N) (roCtx roCall : Bool) (gas req : Nat) (sh : RunShape) (out : N → N)
    (inner : List (Nat × List (Prog N))) (act : ActionX N) (s : St N) :
    runPre ev roCtx roCall gas req sh out inner act s =
      if gas < req then (.fail, s, 0) else
      match naModel (runClosure ev roCtx roCall (gas - req) sh inner act) (if sh.outerBefore then s.poke out else s) with
      | (.ok, s2) => (.ok, if sh.outerAfter then s2.poke out else s2, gas - req)
      | (.err, s2) => if sh.dropsActionError then (.ok, s2, gas - req)
                      else (.fail, if sh.outerOnError then s2.poke out else s2, 0)
      | (.panic, s1) => if sh.recovers then (.fail, s1, 0) else (.abort, s1, 0) := by
  unfold runPre naModel
  by_cases hg : gas < req
  · simp [hg]
  · simp only [hg, ↓reduceIte]
    rcases h : runClosure ev roCtx roCall (gas - req) sh inner act (if sh.outerBefore then s.poke out else s) with ⟨r, s1⟩
    cases r <;> simp

/-- `EVM.Call` as the fork has it now, statement by statement, for ANY callee (precompile or contract code; returning
normally, REVERTing, failing, or unwinding with a Go panic), header, StateDB and gas: the balance check returns before
any snapshot with all the gas; Snapshot; value Transfer; run the callee; on error RevertToSnapshot and, unless the error
is ErrExecutionReverted, burn the gas — exactly `callModel` -/
theorem evm_call_program_as_modelled (h : CallHdr N) (callee : St N → Outcome × St N × Nat) (s : St N) (gas : Nat) :
    runCall progCall h callee s gas = some (callModel h callee s gas) := by
  unfold runCall progCall callModel
  by_cases hf : h.unfunded s.native
  · simp [execC, stepC, hf]
  · rcases hc : callee (s.enter h) with ⟨o, s1, g1⟩
    cases o <;> simp [execC, stepC, hf, hc]

/-- the same for all FOUR call kinds when no value moves (`DelegateCall` / `StaticCall` cannot carry one; `CallCode` checks
the balance but moves nothing).  Round 4: the statement now also covers CALLCODE WITH a value (`checkOnly = true`, any
`funded`): the fork's `CallCode` has the balance check and no `Transfer`, so it is `callModel` of a header without `xfer` -/
theorem evm_valueless_call_programs_as_modelled (k : Kind) (h : CallHdr N) (hx : h.xfer = none)
    (hk : k = .callcode ∨ h.checkOnly = false)
    (callee : St N → Outcome × St N × Nat) (s : St N) (gas : Nat) :
    runCall (progOf k) h callee s gas = some (callModel h callee s gas) := by
  have he : s.enter h = s := by simp [St.enter, hx]
  unfold runCall callModel
  rcases hc : callee s with ⟨o, s1, g1⟩
  rcases hk with hk | hk
  · subst hk
    by_cases hf : h.unfunded s.native
    · simp [progOf, progCallCode, execC, stepC, hf]
    · cases o <;> simp [progOf, progCallCode, execC, stepC, hf, he, hc]
  · have hf : h.unfunded s.native = false := by simp [CallHdr.unfunded, hx, hk]
    cases k <;> cases o <;>
      simp [progOf, progCall, progCallCode, progDelegateCall, progStaticCall, execC, stepC, hf, he, hc]
example : (hdr0 true : CallHdr Nat).xfer = none ∧ (hdr0 true : CallHdr Nat).checkOnly = false := ⟨rfl, rfl⟩

/-- CALLCODE with a value as the fork has it now (round 4; was a journaled ghost in the driver): for ANY header — even one
that names a transfer — `EVM.CallCode` consults the balance and then runs the callee on the StateDB AS IT IS: no `Transfer`
statement, hence no native journal entry and nothing to give back.  Stated over the regenerated `progCallCode`: a fork
that made CallCode move the value breaks this -/
theorem evm_callcode_checks_balance_moves_nothing (h : CallHdr N) (callee : St N → Outcome × St N × Nat) (s : St N) (gas : Nat) :
    runCall progCallCode h callee s gas =
      some (if h.unfunded s.native then (.revert, s, gas) else
            if (callee s).1 = .abort ∨ (callee s).1 = .ok then callee s
            else ((callee s).1, (callee s).2.1.revertTo s.journal.length, if (callee s).1 = .revert then (callee s).2.2 else 0)) := by
  unfold runCall progCallCode
  by_cases hf : h.unfunded s.native
  · simp [execC, stepC, hf]
  · rcases hc : callee s with ⟨o, s1, g1⟩
    cases o <;> simp [execC, stepC, hf, hc]

/-- a CALLCODE whose value the executing account cannot cover never starts: the state is untouched and ALL the gas handed
over (stipend included) comes back — while the same header passes a STATIC context (no write-protection test in
`opCallCode`, the frame model's guard looks at `xfer` only) -/
theorem unfunded_callcode_value_leaves_no_trace (fuel : Nat) (ro : Bool) (gas : Nat) (h : CallHdr N) (body rest : List (Prog N)) (s : St N)
    (hx : h.xfer = none) (hc : h.checkOnly = true) (hg : ¬ gas < h.callc) (hfund : h.funded s.native = false) :
    exec (fuel + 1) ro gas (.call h body :: rest) s =
      (let g3 := keepGas h gas + (fwdGas h gas + h.stip)
       if g3 < h.pFail then (.fail, s, 0)
       else if h.swallow then exec fuel ro (g3 - h.pFail) rest s else (.revert, s, g3 - h.pFail)) := by
  have hu : h.unfunded s.native = true := by simp [CallHdr.unfunded, hc, hfund]
  exact unfunded_call_leaves_no_trace fuel ro gas h body rest s (by simp [hx, hg]) hu
example : ({ (hdr0 true : CallHdr Nat) with checkOnly := true, funded := fun _ => false }).xfer = none ∧
    ({ (hdr0 true : CallHdr Nat) with checkOnly := true, funded := fun _ => false }).checkOnly = true ∧
    ({ (hdr0 true : CallHdr Nat) with checkOnly := true, funded := fun _ => false }).funded 0 = false := ⟨rfl, rfl, rfl⟩

/-- `(*EVM).create` (CREATE / CREATE2: a constructor frame) as the fork has it now: the same discipline as `Call` — balance
check before any snapshot, Snapshot, endowment Transfer, run the init code, on error RevertToSnapshot and burn the gas unless
it REVERTed — for ANY init-code program, header, StateDB and gas.  (The creator's nonce bump before the snapshot and the
new account's nonce / code are EVM-side account state, not part of the model's View; the constructor returns no runtime
code, so the code-size, 0xEF and deposit checks are vacuous.)  Hence a constructor that calls a precompile is a `call`
node of the frame model, and every theorem above applies to it -/
theorem evm_create_program_as_modelled (h : CallHdr N) (callee : St N → Outcome × St N × Nat) (s : St N) (gas : Nat) :
    runCall progCreate h callee s gas = some (callModel h callee s gas) := by
  unfold runCall progCreate callModel
  by_cases hf : h.unfunded s.native
  · simp [execC, stepC, hf]
  · rcases hc : callee (s.enter h) with ⟨o, s1, g1⟩
    cases o <;> simp [execC, stepC, hf, hc]

/-- CREATE2 (round 5: salted constructors are part of the generated programs): the fork's two entry points of contract
creation — `(*EVM).Create` (opCreate) and `(*EVM).Create2` (opCreate2), regenerated from the module cache — are exactly the
reviewed ones: each computes the new contract's address (nonce-derived / salted hash of the init code) and then, as its
LAST statement, returns whatever `evm.create` returns, calling no StateDB method before that except the nonce read of
`Create`.  So a CREATE2 frame runs the very program `progCreate` of `evm_create_program_as_modelled` — same balance check,
Snapshot, endowment Transfer, init code, RevertToSnapshot — and only the address differs; a fork that gave `Create2` its
own snapshot handling (or touched the StateDB before handing over) breaks this obligation -/
theorem create2_runs_the_create_program :
    createEntries = reviewedCreateEntries ∧ createEntries.all createEntryOk = true ∧
    createEntries.map (·.1) = ["Create", "Create2"] ∧ createEntries.map (·.2.2.2.1) = ["CREATE", "CREATE2"] := by decide

/-! ### round 5 — the transaction inside a block (`Model/C09Block.lean`: baseapp around the message server, hand-modelled) -/

/-- a transaction the ante handler refuses changes nothing at all: no store, no nonce, no fee -/
theorem block_refused_changes_nothing (signersOk : Bool) (fuel gas price : Nat) (p : List (Prog N)) (c : Chain N) :
    deliver false signersOk fuel gas price p c = (.refused, c) := by simp [deliver]

/-- a delivered transaction whose message is dropped after it ran — a panic that nothing recovered, or (pinned tree) the
post-processing of the result failing — keeps the ante handler's effects and NOTHING of the message, whatever the program
did before (no shape condition): EVM storage, native stores and logs are the ones before the block, the nonce moved by
one, the whole gas limit is paid (the refund is part of the dropped message) -/
theorem block_dropped_keeps_only_ante_effects (signersOk : Bool) (fuel gas price : Nat) (p : List (Prog N)) (c : Chain N)
    (h : (deliver true signersOk fuel gas price p c).1 = .dropped) :
    (deliver true signersOk fuel gas price p c).2 = { c with nonce := c.nonce + 1, paid := c.paid + gas * price } := by
  simp only [deliver, Bool.not_true, Bool.false_eq_true, ↓reduceIte] at h ⊢
  split at h
  · rename_i hc; simp [hc]
  · cases h
example : (deliver true false 5 100 7 ([] : List (Prog Nat)) ⟨⟨fun _ => 0, 0, []⟩, 3, 0⟩).1 = .dropped := by decide

/-- on a tree where the codec cannot name the signer of `MsgEthereumTx` (`signersOk = false`: the pinned one) EVERY
accepted transaction is dropped: no program, gas limit or fuel commits anything through a block -/
theorem block_without_signers_commits_no_message (fuel gas price : Nat) (p : List (Prog N)) (c : Chain N) :
    (deliver true false fuel gas price p c).1 = .dropped ∧ (deliver true false fuel gas price p c).2.view = c.view := by
  simp [deliver]

/-- block-level atomicity (`atomicity` lifted through `deliver`), every clean program, fuel, gas limit, gas price and
chain state: a delivered transaction whose EVM execution does not end normally commits the state before the block (plus
nonce and the fee for the gas used); one that ends normally commits exactly the final state of the declarative
semantics — Cosmos-side and EVM-side effects of the surviving frames together -/
theorem block_atomicity (fuel gas price : Nat) (p : List (Prog N)) (c : Chain N) (hc : Clean p) (o : Outcome)
    (h : (deliver true true fuel gas price p c).1 = .executed o) :
    (o ≠ .ok → (deliver true true fuel gas price p c).2.view = c.view) ∧
    (o = .ok → (deliver true true fuel gas price p c).2.view = (spec fuel false gas p c.view).2.1) ∧
    (deliver true true fuel gas price p c).2.nonce = c.nonce + 1 ∧ o ≠ .abort := by
  have hat := atomicity fuel gas p c.view hc
  simp only [deliver, Bool.not_true, Bool.false_eq_true, ↓reduceIte, Bool.or_false, decide_eq_true_eq] at h ⊢
  split at h
  · cases h
  · rename_i hab
    have ho : (runTx fuel gas p c.view).1 = o := by injection h
    simp only [hab, ↓reduceIte]
    exact ⟨fun hne => hat.1 (ho ▸ hne), fun heq => hat.2 (ho.trans heq), trivial, fun e => hab (ho.trans e)⟩
example : Clean ([] : List (Prog Nat)) ∧
    (deliver true true 5 100 7 ([] : List (Prog Nat)) ⟨⟨fun _ => 0, 0, []⟩, 3, 0⟩).1 = .executed .ok := ⟨.nil, by decide⟩

/-- any list of deliveries by one sender: the nonce counts exactly the transactions the ante handler accepted — failed
and dropped ones included — and nothing else moves it -/
theorem block_nonce_counts_accepted (signersOk : Bool) (fuel price : Nat) (txs : List (Bool × Nat × List (Prog N))) (c : Chain N) :
    (deliverAll signersOk fuel price txs c).nonce = c.nonce + (txs.filter (·.1)).length := by
  induction txs generalizing c with
  | nil => simp [deliverAll]
  | cons t rest ih =>
    obtain ⟨a, g, p⟩ := t
    simp only [deliverAll]
    rw [ih]
    cases a
    · simp [deliver]
    · have : (deliver true signersOk fuel g price p c).2.nonce = c.nonce + 1 := by
        simp only [deliver, Bool.not_true, Bool.false_eq_true, ↓reduceIte]
        split <;> rfl
      simp [this]; omega

/-- the frame model's `resolve` = the caller's side (`post`) applied to what `evm.Call` returned -/
theorem resolve_is_post_of_fork_call (h : CallHdr N) (callee : St N → Outcome × St N × Nat) (s : St N) (keep gas : Nat) :
    resolve h s.journal.length keep (if h.unfunded s.native then (.revert, s, gas) else callee (s.enter h)) =
      post h keep (callModel h callee s gas) := by
  unfold callModel
  by_cases hf : h.unfunded s.native
  · have hr := revertTo_of_ext (Ext.refl s)
    simp [hf, resolve, post, hr]
  · rcases hc : callee (s.enter h) with ⟨o, s1, g1⟩
    cases o <;> simp [hf, resolve, post]

/-- hence a CALL-family instruction of the frame model is: the gas / static-context guard, `evm.Call` of the fork on the
callee program (`callModel`, by `evm_call_program_as_modelled`), the caller's continuation — for every program -/
theorem exec_call_is_fork_call (fuel : Nat) (ro : Bool) (gas : Nat) (h : CallHdr N) (body rest : List (Prog N)) (s : St N) :
    exec (fuel + 1) ro gas (.call h body :: rest) s =
      if gas < h.callc ∨ (ro = true ∧ h.xfer.isSome = true) then (.fail, s, 0) else
      match post h (keepGas h gas)
          (callModel h (exec fuel (ro || h.kind == .staticcall) (fwdGas h gas + h.stip) body) s (fwdGas h gas + h.stip)) with
      | .inl x => exec fuel ro x.2 rest x.1
      | .inr r => r := by
  rw [← resolve_is_post_of_fork_call]
  simp only [exec]
  split <;> rfl

/-- … and a call to a precompile is `evm.Call` of the fork on `runPre`, i.e. (`runPre_is_fork_native_action`) on
`RequiredGas` + the method's `Run` around the fork's `ExecuteNativeAction` -/
theorem exec_pre_is_fork_call (fuel : Nat) (ro : Bool) (gas : Nat) (h : CallHdr N) (req : Nat) (sh : RunShape) (out : N → N)
    (inner : List (Nat × List (Prog N))) (act : ActionX N) (rest : List (Prog N)) (s : St N) :
    exec (fuel + 1) ro gas (.pre h req sh out inner act :: rest) s =
      if gas < h.callc ∨ (ro = true ∧ h.xfer.isSome = true) then (.fail, s, 0) else
      match post h (keepGas h gas)
          (callModel h (runPre (exec fuel) ro (h.kind != .call) (fwdGas h gas + h.stip) req sh out inner act) s
            (fwdGas h gas + h.stip)) with
      | .inl x => exec fuel ro x.2 rest x.1
      | .inr r => r := by
  rw [← resolve_is_post_of_fork_call]
  simp only [exec]
  split <;> rfl

/-- the single facts of the StateDB / journal / `runPrecompiledContract` sources the model relies on (Snapshot = journal
length; journal.Revert newest-first down to the snapshot, then truncation; nativeChange.Revert restores the snapshot;
Clone / Restore; `Context()` returns the very `s.ctx` native actions run on; Commit writes the native store before the
dirty EVM storage; Transfer is a native action; AddLog is journaled; RequiredGas is charged before Run) -/
theorem statedb_facts_as_modelled : stateDBFacts = expectedStateDBFacts := by rfl


/-! ### round 4 — the translator's "neutral" classification is data, compared with the reviewed list -/

/-- every statement of `ExecuteNativeAction`, `EVM.Call / CallCode / DelegateCall / StaticCall` and `create` that the
dependency translator took as neutral is, character for character, one of the REVIEWED statements (`reviewedNeutral`), in
the same order, with the same StateDB methods inside: a new statement kind, a changed tracer block, a new early return in
either fork makes this obligation fail instead of being absorbed by a prefix match -/
theorem dependency_neutral_statements_are_the_reviewed_ones : neutralStmts = reviewedNeutral := by rfl

/-- no neutral step of the interpreted programs is missing from that list: per function, the programs `stepC` / `stepNA`
skip over exactly as many steps as there are recorded statements -/
theorem dependency_neutral_steps_all_recorded :
    (∀ p ∈ depProgs, (p.2.filter cNeutral).length = (neutralOf p.1 neutralStmts).length) ∧
    (nativeActionProg.filter naNeutral).length = (neutralOf "ExecuteNativeAction" neutralStmts).length ∧
    (neutralStmts.all fun n => n.1 == "ExecuteNativeAction" || depProgs.any (fun p => p.1 == n.1)) = true := by
  decide

/-- the StateDB methods reachable from neutral statements are account bookkeeping only — none of Snapshot,
RevertToSnapshot, ExecuteNativeAction, Transfer, SetState, AddLog, Context, Commit -/
theorem dependency_neutral_statements_only_do_account_bookkeeping :
    ∀ n ∈ neutralStmts, ∀ m ∈ n.2.2.1, m ∈ accountBookkeeping := by decide

/-- a neutral statement that can RETURN from `EVM.Call*` / `create` stands before the value transfer and before the callee
runs (nothing has changed since the snapshot, or no snapshot exists yet), in every one of the five programs; and
`ExecuteNativeAction` has no returning neutral statement at all -/
theorem dependency_neutral_returns_precede_every_effect :
    (∀ p ∈ depProgs, ∀ i ∈ returningIdx (neutralOf p.1 neutralStmts), i < neutralBeforeEffect p.2) ∧
    returningIdx (neutralOf "ExecuteNativeAction" neutralStmts) = [] := by decide
-- non-vacuity: there ARE returning neutral statements (Call: the non-existent-account shortcut; create: nonce overflow, collision)
example : returningIdx (neutralOf "Call" neutralStmts) = [2] ∧ returningIdx (neutralOf "create" neutralStmts) = [1, 5] := by decide

/-! ### the order of the statements is what decides (each pair differs from the regenerated program in ONE swap) -/

def journalFirstProg : List NAStep := [.snapshot, .journal, .run, .onErr .restore, .onErr .retErr, .retNil]
/-- a closure that writes through a keeper (`f`) and THEN makes an EVM call that moves value (`t`, a native action) -/
def writeThenMove (f t : N → N) : St N → Res × St N := fun s => (.ok, ({ s with native := f s.native } : St N).transfer t)

/-- `s.journal.append(nativeChange{…})` comes AFTER `action(…)` in the fork: the entry of an EVM call made by the closure
after a keeper write sits below it and, on a revert of the enclosing frame, is undone LAST — the keeper write `f` is put
back (this is `evm_call_after_keeper_write_survives_caught_revert`, and why `evmAfterWrite` must be a shape condition).
Were the entry pushed BEFORE the action, the same revert would restore the entry state -/
theorem journal_entry_order_decides (s0 : St N) (f t : N → N) :
    (runNA nativeActionProg (writeThenMove f t) s0).map (fun r => (r.2.revertTo s0.journal.length).native) = some (f s0.native) ∧
    (runNA journalFirstProg (writeThenMove f t) s0).map (fun r => (r.2.revertTo s0.journal.length).native) = some s0.native := by
  have h2 : s0.journal.length + 1 + 1 - s0.journal.length = 2 := by omega
  constructor <;>
  simp [runNA, nativeActionProg, journalFirstProg, execNA, stepNA, writeThenMove, St.transfer, St.revertTo, h2, undoAll, undo]

def returnFirstProg : List NAStep := [.snapshot, .run, .onErr .retErr, .onErr .restore, .journal, .retNil]

/-- `revertNativeStateToSnapshot` comes BEFORE `return err`: a closure that fails after half-writing leaves the entry
store; with the two statements swapped it would leave whatever the closure wrote -/
theorem restore_precedes_error_return (clo : St N → Res × St N) (s0 : St N) (he : (clo s0).1 = .err) :
    (runNA nativeActionProg clo s0).map (fun r => r.2.native) = some s0.native ∧
    (runNA returnFirstProg clo s0).map (fun r => r.2.native) = some (clo s0).2.native := by
  rcases h : clo s0 with ⟨r, s1⟩
  rw [h] at he
  simp at he
  subst he
  constructor <;> simp [runNA, nativeActionProg, returnFirstProg, execNA, stepNA, h]
example : ((fun (s : St Nat) => (Res.err, { s with native := 7 })) ⟨⟨fun _ => 0, 1, []⟩, []⟩).1 = .err := rfl

def transferFirstProg : List CStep :=
  [.depthCheck, .fundCheck, .transfer, .snapshot, .runCallee, .onErr .revert, .onErr .burnGasUnlessReverted, .ret]
def failing : St N → Outcome × St N × Nat := fun s => (.fail, s, 0)

/-- `Snapshot()` comes BEFORE the value `Transfer` in `EVM.Call`: the value of a call whose callee fails goes back to
the caller; with the two statements swapped the callee's account would keep it -/
theorem snapshot_precedes_value_transfer (h : CallHdr N) (t : N → N) (hx : h.xfer = some t) (s : St N)
    (hf : h.funded s.native = true) (gas : Nat) :
    (runCall progCall h failing s gas).map (fun r => (r.1, r.2.1.native)) = some (.fail, s.native) ∧
    (runCall transferFirstProg h failing s gas).map (fun r => (r.1, r.2.1.native)) = some (.fail, t s.native) := by
  have hu : h.unfunded s.native = false := by simp [CallHdr.unfunded, hx, hf]
  constructor <;>
  simp [runCall, progCall, transferFirstProg, execC, stepC, failing, hu, St.enter, hx, St.transfer, St.revertTo, undoAll, undo]
example : ({ (hdr0 true : CallHdr Nat) with xfer := some (· + 1) }).xfer = some (· + 1) ∧
    ({ (hdr0 true : CallHdr Nat) with xfer := some (· + 1) }).funded 0 = true := ⟨rfl, rfl⟩

end Dep

/-! ## round 3 — what a dropped action error can and cannot break

`dropped_action_error_keeps_frame_without_effects` shows the SUCCESS half failing for a `Run` that loses the error of its
native action.  The FAILURE half of the property does not need that condition: for every program whose precompile nodes
have the three other shape conditions (`Restoring`: no keeper write ahead of the action, no `recover()`, no EVM call after
a keeper write) — action errors dropped or not — the journal discipline holds and a transaction that does not end
normally commits nothing. -/

/-- `journal_undo` under the weaker shape condition -/
theorem journal_undo_even_if_action_errors_are_dropped (fuel : Nat) (ro : Bool) (gas : Nat) (p : List (Prog N)) (s : St N)
    (hr : Restoring p) (hna : (exec fuel ro gas p s).1 ≠ .abort) :
    (exec fuel ro gas p s).2.1.revertTo s.journal.length = s :=
  revertTo_of_ext (exec_inv fuel ro gas p s hr hna)

/-- the failure half of `atomicity` under the weaker shape condition: explicit revert, invalid opcode, a failing
precompile, a panic, or gas running out at ANY point ⇒ native store, EVM storage and logs committed are the initial ones -/
theorem failed_tx_commits_nothing_even_if_action_errors_are_dropped (fuel gas : Nat) (p : List (Prog N)) (v : View N)
    (hr : Restoring p) (h : (runTx fuel gas p v).1 ≠ .ok) : (runTx fuel gas p v).2.1 = v := by
  unfold runTx at h ⊢
  by_cases hok : (exec fuel false gas p ({ toView := v, journal := [] } : St N)).1 = .ok
  · simp [hok] at h
  · by_cases hab : (exec fuel false gas p ({ toView := v, journal := [] } : St N)).1 = .abort
    · simp [hab]
    · have hrv := revertTo_of_ext (exec_inv fuel false gas p ({ toView := v, journal := [] } : St N) hr hab)
      simp only [List.length_nil] at hrv
      simp [hok, hab, hrv, commit]

/-- every clean program is restoring (so the two theorems above extend `journal_undo` / `atomicity`'s first half) -/
theorem clean_is_restoring {p : List (Prog N)} (h : Clean p) : Restoring p := restoring_of_cleanProg h

-- non-vacuity: the witness program of `dropped_action_error_keeps_frame_without_effects` is restoring and not clean
example : Restoring (N := Nat) [.pre (hdr0 false) 0 { RunShape.tidy with dropsActionError := true } id [] (fun _ _ n => (.err, n + 1, []))] :=
  .pre (by decide) (by simp) .nil
example : ({ RunShape.tidy with dropsActionError := true } : RunShape).clean = false := by decide

/-! ## programs whose keeper parts never panic (in particular the two-valued actions of the first version of this model) -/

/-- no panic anywhere ⇒ no frame ever aborts -/
theorem no_abort_without_panics (fuel : Nat) (ro : Bool) (gas : Nat) (p : List (Prog N)) (s : St N) (hnp : NoPanic p) :
    (exec fuel ro gas p s).1 ≠ .abort := exec_ne_abort fuel ro gas p s hnp

/-- `journal_undo` without the side condition -/
theorem journal_undo_no_panic (fuel : Nat) (ro : Bool) (gas : Nat) (p : List (Prog N)) (s : St N) (hc : Clean p)
    (hnp : NoPanic p) : (exec fuel ro gas p s).2.1.revertTo s.journal.length = s :=
  journal_undo fuel ro gas p s hc (exec_ne_abort fuel ro gas p s hnp)

theorem clean_preA {h : CallHdr N} {req : Nat} {act : Action N} {rest : List (Prog N)} (hr : Clean rest) :
    Clean (Prog.preA h req act :: rest) := Clean.pre (by decide) (by simp) hr

theorem noPanic_preA {h : CallHdr N} {req : Nat} {act : Action N} {rest : List (Prog N)} (hr : NoPanic rest) :
    NoPanic (Prog.preA h req act :: rest) := by
  refine NoPanic.pre (fun ro g n => ?_) (by simp) hr
  simp only [Action.lift]
  split <;> simp

/-! ## obligations over the regenerated tables (both precompiles, every method) -/
open FxVerif.Gen.C09

/-- every method with `IsReadonly() = false` performs its keeper calls only inside exactly one `ExecuteNativeAction`
closure, with the closure's ctx (never an outer `stateDB.Context()`), emits its logs inside that closure through
`EmitEvent`/`AddLog`, propagates the closure's error, and never turns an error into success -/
theorem writers_only_inside_native_action : methods.all (fun m => m.readonly || writerOk m) = true := by decide

/-- every helper that a closure hands its ctx to uses only that ctx for keeper calls -/
theorem helpers_use_their_ctx : helpers.all (fun h => h.outerCtx == 0) = true := by decide

/-- both dispatchers return a non-nil error for every failing path (so the interpreter reverts the call's snapshot) and
return the method's result otherwise -/
theorem dispatchers_return_errors : dispatchers.all dispatcherOk = true := by decide

/-- methods that declare themselves read-only contain no `ExecuteNativeAction` at all -/
theorem readers_have_no_native_action : methods.all (fun m => !m.readonly || m.nativeCalls == 0) = true := by decide

/-- the `Run` of EVERY method of both precompiles — the views included — has the clean shape: no keeper write on
`stateDB.Context()` ahead of (or without) a native action, no `recover()`, and on no path through the closure an EVM
call on the same StateDB after a keeper write (statement order regenerated from the AST, helpers expanded) -/
theorem table_shapes_clean : runFacts.all (fun rf => (shapeOf rf).clean) = true := by decide

/-- spelled out for the order inside the closures: on every path every EVM call (`ERC20Call.TransferFrom/Burn`) precedes
every keeper write, and no path enumeration was cut short -/
theorem evm_calls_precede_keeper_writes :
    runFacts.all (fun rf => !rf.pathsTruncated && rf.paths.all (fun p => !evmAfterW p)) = true := by decide

/-- in every method the error `ExecuteNativeAction` returns is tested (or returned) before the variable holding it is
assigned again or shadowed, and is never discarded (def-use over the statements of `Run`, regenerated) -/
theorem native_action_error_propagates : runFacts.all (fun rf => rf.actionErrorDropped == 0) = true := by decide

/-- no method wraps its native action in `recover()`, re-binds a ctx (gas meter, multistore, …; a cache branch whose
write-back function is discarded excepted) or consumes contract gas on its own: the price of a call is exactly
`RequiredGas` and nothing inside the native action can be cut short by a meter -/
theorem no_recover_no_rebinding :
    runFacts.all (fun rf => rf.recovers == 0 && rf.ctxRebinds.all (· == "CacheContext") && rf.useGas == 0) = true := by
  decide

/-- neither dispatcher defers, recovers or panics: a panic raised inside a native action reaches baseapp (which drops the
transaction) instead of being turned into an EVM-level failure above the un-restored store -/
theorem dispatchers_do_not_recover : dispatcherDefers.all (fun d => d.2.1 == 0 && d.2.2.1 == 0 && d.2.2.2 == 0) = true ∧
    dispatcherDefers.length = dispatchers.length := by decide

/-- the two regenerated tables describe the same methods, in the same order -/
theorem tables_agree : methods.map (·.abiName) = runFacts.map (·.abiName) := by decide

/-- every precompile node of the program carries the regenerated shape of some method of the two precompiles -/
inductive FromTable : List (Prog N) → Prop
  | nil : FromTable []
  | sstore {c k v rest} : FromTable rest → FromTable (.sstore c k v :: rest)
  | revert {c rest} : FromTable (.revert c :: rest)
  | stop {c rest} : FromTable (.stop c :: rest)
  | invalid {rest} : FromTable (.invalid :: rest)
  | call {h body rest} : FromTable body → FromTable rest → FromTable (.call h body :: rest)
  | pre {h req sh out inner act rest} : (∃ rf ∈ runFacts, sh = shapeOf rf) → (∀ x ∈ inner, FromTable x.2) → FromTable rest →
      FromTable (.pre h req sh out inner act :: rest)

theorem fromTable_clean {p : List (Prog N)} (h : FromTable p) : Clean p := by
  induction h with
  | nil => exact .nil
  | sstore _ ih => exact .sstore ih
  | revert => exact .revert
  | stop => exact .stop
  | invalid => exact .invalid
  | call _ _ ihb ihr => exact .call ihb ihr
  | pre hsh _ _ ihi ihr =>
    obtain ⟨rf, hmem, rfl⟩ := hsh
    exact .pre (List.all_eq_true.mp table_shapes_clean rf hmem) ihi ihr

/-- the property for the code as it is now: call trees over the real methods (each node with the shape regenerated from
its `Run`, any keeper behaviour, any ERC-20 callee programs) are all-or-nothing, at every gas limit -/
theorem atomicity_of_table_programs (fuel gas : Nat) (p : List (Prog N)) (v : View N) (h : FromTable p) :
    ((runTx fuel gas p v).1 ≠ .ok → (runTx fuel gas p v).2.1 = v) ∧
    ((runTx fuel gas p v).1 = .ok → (runTx fuel gas p v).2.1 = (spec fuel false gas p v).2.1) :=
  atomicity fuel gas p v (fromTable_clean h)

/-- … and for a direct call of any real method by an externally owned account -/
theorem direct_call_of_table_method_atomic (fuel gas : Nat) (xfer : Option (N → N)) (req : Nat) (rf : RunFacts)
    (hrf : rf ∈ runFacts) (out : N → N) (inner : List (Nat × List (Prog N))) (act : ActionX N) (v : View N)
    (hinner : ∀ x ∈ inner, FromTable x.2) :
    (runTxPre fuel gas xfer req (shapeOf rf) out inner act v).1 ≠ .ok →
    (runTxPre fuel gas xfer req (shapeOf rf) out inner act v).2.1 = v :=
  (direct_call_atomic fuel gas xfer req (shapeOf rf) out inner act v (List.all_eq_true.mp table_shapes_clean rf hrf)
    (fun x hx => fromTable_clean (hinner x hx))).2

-- non-vacuity
example : (methods.filter (fun m => !m.readonly)).length ≥ 12 := by decide
example : methods.length ≥ 20 := by decide
example : (runFacts.filter (fun rf => rf.paths.any (fun p => p.contains .E))).length ≥ 2 := by decide
example : (runFacts.map (fun rf => rf.paths.length)).sum ≥ 100 := by decide

/-- a concrete tree: SSTORE; CALL{ precompile(ok); SSTORE; REVERT } swallowed; precompile(ok) — only the last effect survives -/
def demoAct (id : Nat) : Action (List Nat) := fun _ n => (true, id :: n, [id])
def demoHdr (sw : Bool) : CallHdr (List Nat) :=
  { callc := 10, cap := 100000, stip := 0, kind := .call, xfer := none, funded := fun _ => true, swallow := sw, pOk := 5, pFail := 5 }
def demo : List (Prog (List Nat)) :=
  [.sstore 100 1 7, .call (demoHdr true) [.preA (demoHdr false) 50 (demoAct 1), .sstore 100 2 8, .revert 3],
   .preA (demoHdr false) 50 (demoAct 2)]
def demoV : View (List Nat) := { slots := fun _ => 0, native := [], logs := [] }

example : Clean demo ∧ NoPanic demo :=
  ⟨.sstore (.call (clean_preA (.sstore .revert)) (clean_preA .nil)),
   .sstore (.call (noPanic_preA (.sstore .revert)) (noPanic_preA .nil))⟩
-- every real method's shape can sit in a program, with an ERC-20 callee program inside its native action that calls a
-- precompile again (a native action inside a native action): such programs are `FromTable`, hence all-or-nothing
example : ∀ rf ∈ runFacts, FromTable (N := List Nat)
    [.call (demoHdr true)
      [.pre (demoHdr false) 50 (shapeOf rf) id [(30000000, [.pre (demoHdr false) 50 (shapeOf rf) id [] (demoAct 7).lift, .sstore 100 3 9])]
        (demoAct 1).lift, .revert 3]] :=
  fun rf hrf => .call (.pre ⟨rf, hrf, rfl⟩
      (by intro x hx; simp at hx; subst hx; exact .pre ⟨rf, hrf, rfl⟩ (by simp) (.sstore .nil)) .revert) .nil
example : (runTx 10 1000000 demo demoV).1 = .ok := by decide
example : (runTx 10 1000000 demo demoV).2.1.native = [2] := by decide
example : (runTx 10 1000000 demo demoV).2.1.logs = [2] := by decide
example : (runTx 10 1000000 demo demoV).2.1.slots 1 = 7 ∧ (runTx 10 1000000 demo demoV).2.1.slots 2 = 0 := by decide
-- too little gas (out of gas inside the last precompile call after the first SSTORE): nothing at all is committed
example : (runTx 10 300 demo demoV).1 = .fail ∧ (runTx 10 300 demo demoV).2.1.native = [] ∧
    (runTx 10 300 demo demoV).2.1.slots 1 = 0 := by decide

end FxVerif.Props.C09
