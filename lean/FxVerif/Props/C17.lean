import FxVerif.Model.C17
import FxVerif.Model.C17Proc
import FxVerif.Model.C17Machine
import FxVerif.Model.C17Float
import FxVerif.Model.C17Sort
import FxVerif.Model.C17Ack
import FxVerif.Model.C17Cache
import FxVerif.Model.C17Hist
import FxVerif.Proofs.C17
import FxVerif.Proofs.C17Ack
import FxVerif.Proofs.C17Cache
import FxVerif.Proofs.C17Hist
import FxVerif.Proofs.C17Float
import FxVerif.Proofs.C17Sort
/-!
# C17 — deterministic block execution (the part a Lean model can carry)

(a) every map iteration / float / clock / goroutine site of the state-affecting fx-core packages is in the reviewed
inventory with a class consistent with what the typed translator saw (`inventory_covered`, re-decided on every run);
(b) for each class, the modelled computation is independent of the iteration order (permutation of the entries), hence
of Go's randomised map order.  IEEE-754 exactness of integer sums below 2^53 is the named assumption for `permSum`.
(c) every write to process-level memory (package variables, long-lived struct fields, sync / cache types) found by the
typed translator is in the reviewed allow-list with an admissible class (`no_process_state`); for the node model (chain
state on disk, memory in the process; block transactions, CheckTx / simulations / queries, restarts) the observations of
the block history do not depend on the process history when memory cannot influence state and output
(`process_history_irrelevant`, corollaries for construction-time wiring and unmetered memo tables), and do depend on it for
a cache whose hit is cheaper than its miss (`cached_gas_breaks_determinism`).
(d) the block machine of `Model/C17Machine.lean` (the anchored map-consuming steps with an adversarial schedule of map
iteration orders) ends in the same state with the same outputs for all schedules and all operation lists
(`run_schedule_independent`); the variant of `UpdateProposalOracles` that collects the oracles to unbond by ranging over a
map does not (`mapFed_unbond_schedule_dependent`); which variant the source has is regenerated (`unbond_order_from_store`).
(h) a JSON oneof is resolved by the dependency in MAP order (regenerated fact): every JSON decode into a oneof-carrying message
is followed by the canonical-encoding check (`decode_sites_covered`); the REGENERATED statement program of the IBC middleware's
acknowledgement callback, interpreted under adversarial schedules, gives the same state, gas and result for all schedules and all
byte strings (`ack_canonical_first_schedule_independent`, `ack_source_schedule_independent`), and does not without the check or
with the check after the inner call (`ack_unchecked_schedule_dependent`, `ack_check_after_inner_gas_dependent`).
(i) caches of STATE-DERIVED data: the node theorem for invariants relating memory and state, with the hypothesis about discarded
executions explicit (`coherent_cache_process_history_irrelevant`); the write-through cache of the seeded shape is invisible exactly
as long as nothing it executed is discarded (`writeThrough_cache_invisible_without_discards`, `writeThrough_cache_breaks_determinism`).
(j) reads at ANOTHER HEIGHT: an archive node also executes reads on discarded branches of OLDER versions; the node theorem for
invariants relating memory and the latest state with the hypothesis about such reads explicit
(`versioned_coherent_cache_process_history_irrelevant`); the REGENERATED read-path programs of the keepers touch no process memory
(`reader_programs_memory_free`), an interpreted program without memory steps is a function of the context's store
(`memFree_programs_process_history_irrelevant`, `switch_params_source_process_history_irrelevant` for the regenerated programs of
`GetSwitchParams` / `SetSwitchParams`); the unkeyed read-through cache of the seeded shape is what the interpreter makes of the
cached programs (`cached_programs_are_read_through`), it is invisible as long as every read is at the latest height
(`readThrough_cache_invisible_without_foreign_reads`) and visible after a restart followed by a read at an older height
(`readThrough_historical_read_breaks_determinism`); a derived structure cached under a fingerprint that determines it is invisible
(`fingerprint_cache_process_history_irrelevant`), under the length of the list it is not (`length_fingerprint_breaks_determinism`).
Scheduler-, allocator- and dependency-level nondeterminism is outside the model: validated by repeated-process runs.
-/
namespace FxVerif.Props.C17
open FxVerif.Gen.C17 FxVerif.Model.C17 List

/-- obligation over the regenerated inventory -/
theorem inventory_covered : sites.all covered = true := by decide

/-- no wall-clock, goroutine, select, random-number or process-specific-value use on a state-affecting path: every site
of the regenerated inventory is a map range or a float operation, except the individually reviewed clock wrappers /
process values that the translator now also reports (metrics of the gov end blocker, state export, default node home)
— each of which `inventory_covered` admits only in its own class -/
theorem no_clock_goroutine_random :
    sites.all (fun s => s.kind == "mapRange" || s.kind == "float" ||
      (s.kind == "timeNow" && (classify s == some .telemetry || classify s == some .exportOnly)) ||
      (s.kind == "envRead" && classify s == some .nodeConfig)) = true := by decide

/-- no process-specific value (stack trace, goroutine / cpu count, pid), no printed address (`%p`, `%v` of a value that
contains a pointer, reflect / unsafe pointer values), no random number — directly or through a dependency wrapper — and no
environment read outside the package initialisation of `types` anywhere in the scanned packages -/
theorem no_pointer_format_no_process_value :
    sites.all (fun s => s.kind != "pointerFormat" && s.kind != "procValue" && s.kind != "rand" && s.kind != "go" && s.kind != "select" &&
      (s.kind != "envRead" || (s.pkg == "types" && s.func == "init"))) = true := by decide

/-- no clock / random / environment / process-value source — nor a dependency wrapper of one — is used as a function VALUE
(stored in a field, passed as an argument, returned) anywhere in the module packages; the only such use is the reviewed
query entry point in the node wiring of `app` -/
theorem source_function_values_reviewed :
    valueSites.all valueCovered = true ∧ valueSites.all (fun s => s.pkg == "app") = true := by decide

/-- the statement as it was before wrappers and process values were inventoried: no direct `time.Now/Since/Until`, no
goroutine, `select` or random-number call at all -/
theorem no_direct_clock_goroutine_random :
    sites.all (fun s => s.kind != "go" && s.kind != "select" && s.kind != "rand" &&
      !(s.kind == "timeNow" && (s.expr == "time.Now" || s.expr == "time.Since" || s.expr == "time.Until"))) = true := by decide

/-- PowerDiff: the sum of absolute differences does not depend on the map iteration order -/
theorem absSum_perm {l₁ l₂ : List Int} (h : l₁.Perm l₂) : absSum l₁ = absSum l₂ := by
  unfold absSum
  exact (h.map _).sum_nat

/-- PowerDiff: every partial sum is an integer below 2^53 (so each float64 addition is exact, in any order), when the
per-member differences are at most 2^32 (normalised powers) and there are at most 2^20 members -/
theorem prefix_sums_exact (l : List Int) (hb : ∀ v ∈ l, v.natAbs ≤ 2 ^ 32) (hn : l.length ≤ 2 ^ 20) (k : Nat) :
    absSum (l.take k) < 2 ^ 53 := by
  have key : ∀ (m : List Int), (∀ v ∈ m, v.natAbs ≤ 2 ^ 32) → absSum m ≤ m.length * 2 ^ 32 := by
    intro m
    induction m with
    | nil => intro _; simp [absSum]
    | cons a t ih =>
      intro hm
      have h1 := hm a (by simp)
      have h2 := ih (fun v hv => hm v (by simp [hv]))
      simp only [absSum, map_cons, sum_cons, length_cons] at *
      omega
  have hlen : (l.take k).length ≤ 2 ^ 20 := by
    rw [length_take]; omega
  have := key (l.take k) (fun v hv => hb v (mem_of_mem_take hv))
  have h3 : (l.take k).length * 2 ^ 32 ≤ 2 ^ 20 * 2 ^ 32 := Nat.mul_le_mul_right _ hlen
  omega

/-- PowerDiff, with the float arithmetic modelled (`round53`, `fadd`): accumulating the absolute differences in ANY
iteration order gives exactly the integer sum, when the per-member differences are at most 2^32 and there are at most
2^20 members — no rounding ever happens -/
theorem fsumAbs_exact (l : List Int) (hb : ∀ v ∈ l, v.natAbs ≤ 2 ^ 32) (hn : l.length ≤ 2 ^ 20) : fsumAbs l = absSum l := by
  have h1 := FxVerif.Proofs.C17.absSum_le_of_bound l hb
  have h3 : l.length * 2 ^ 32 ≤ 2 ^ 20 * 2 ^ 32 := Nat.mul_le_mul_right _ hn
  have := FxVerif.Proofs.C17.foldl_fadd_exact l 0 (by omega)
  simpa [fsumAbs] using this

/-- … hence the float the loop computes is the same for every iteration order of the map -/
theorem fsumAbs_perm {l₁ l₂ : List Int} (h : l₁.Perm l₂) (hb : ∀ v ∈ l₁, v.natAbs ≤ 2 ^ 32) (hn : l₁.length ≤ 2 ^ 20) :
    fsumAbs l₁ = fsumAbs l₂ := by
  rw [fsumAbs_exact l₁ hb hn, fsumAbs_exact l₂ (fun v hv => hb v (h.mem_iff.mpr hv)) (by rw [← h.length_eq]; exact hn)]
  exact absSum_perm h

/-- the magnitude bound is needed: beyond 2^53 float accumulation depends on the order -/
theorem fsumAbs_order_matters_beyond_2_53 : fsumAbs [2 ^ 53, 1, 1] ≠ fsumAbs [1, 1, 2 ^ 53] := by decide

/-- collect-then-sort with distinct keys: any two strictly sorted arrangements of the same entries are equal, so the
result of *any* correct sort (Go's unstable `sort.Slice` included) is independent of the collection order -/
theorem sorted_perm_unique {α : Type} (lt : α → α → Prop) (asymm : ∀ a b, lt a b → ¬ lt b a) :
    ∀ (l₁ l₂ : List α), l₁.Perm l₂ → l₁.Pairwise lt → l₂.Pairwise lt → l₁ = l₂ := by
  intro l₁
  induction l₁ with
  | nil => intro l₂ h _ _; exact (h.symm.eq_nil).symm
  | cons a t ih =>
    intro l₂ h s₁ s₂
    cases l₂ with
    | nil => exact absurd h.eq_nil (by simp)
    | cons b u =>
      have hab : a = b := by
        have ha : a ∈ b :: u := h.subset (by simp)
        have hb : b ∈ a :: t := h.symm.subset (by simp)
        rcases mem_cons.mp ha with h1 | h1
        · exact h1
        · rcases mem_cons.mp hb with h2 | h2
          · exact h2.symm
          · have r1 := (pairwise_cons.mp s₂).1 a h1
            have r2 := (pairwise_cons.mp s₁).1 b h2
            exact absurd r1 (asymm _ _ r2)
      subst hab
      have ht : t.Perm u := (perm_cons a).mp h
      rw [ih u ht (pairwise_cons.mp s₁).2 (pairwise_cons.mp s₂).2]

/-- corollary in the shape used: a sort that returns a strictly sorted permutation of its input gives the same list for
every iteration order of the same (distinct-key) entries -/
theorem sort_output_order_independent {α : Type} (lt : α → α → Prop) (asymm : ∀ a b, lt a b → ¬ lt b a)
    (sort : List α → List α) (hs : ∀ l, (sort l).Perm l) (hsorted : ∀ l, l.Nodup → (sort l).Pairwise lt)
    (l₁ l₂ : List α) (h : l₁.Perm l₂) (hn : l₁.Nodup) : sort l₁ = sort l₂ :=
  sorted_perm_unique lt asymm _ _ ((hs l₁).trans (h.trans (hs l₂).symm)) (hsorted l₁ hn) (hsorted l₂ (h.nodup_iff.mp hn))

/-- gov tally: accumulating the validators' contributions with exact addition is order-independent -/
theorem tally_perm {l₁ l₂ : List Vec5} (h : l₁.Perm l₂) : tally l₁ = tally l₂ := by
  unfold tally
  apply h.foldl_eq'
  intro x _ y _ z
  simp only [vadd, Prod.mk.injEq]
  omega

/-- map copy: the resulting map (as a lookup function) is the same for every insertion order of distinct keys -/
theorem lookup_perm {l₁ l₂ : List (String × Nat)} (h : l₁.Perm l₂) (hn : (l₁.map (·.1)).Nodup) (k : String) :
    mapLookup l₁ k = mapLookup l₂ k := by
  unfold mapLookup
  induction h with
  | nil => rfl
  | cons x _ ih =>
    simp only [find?_cons]
    split
    · rfl
    · exact ih (by simp only [map_cons, nodup_cons] at hn; exact hn.2)
  | swap x y l =>
    simp only [find?_cons]
    simp only [map_cons, nodup_cons, mem_cons, not_or] at hn
    by_cases hx : x.1 == k <;> by_cases hy : y.1 == k <;> simp [hx, hy]
    have : x.1 = y.1 := by rw [beq_iff_eq.mp hx, beq_iff_eq.mp hy]
    exact absurd this.symm hn.1.1
  | trans p₁ _ ih₁ ih₂ =>
    rw [ih₁ hn, ih₂ ((p₁.map _).nodup_iff.mp hn)]

/-- batch fees: the totals accumulated per token (fee sum, amount sum, tx count) do not depend on the order in which the
pool entries are visited / the map is filled -/
theorem tokenTotals_perm {l₁ l₂ : List (String × Nat × Nat)} (h : l₁.Perm l₂) (t : String) :
    tokenTotals l₁ t = tokenTotals l₂ t := by
  unfold tokenTotals
  have hf := h.filter (fun e => e.1 == t)
  simp only [Prod.mk.injEq]
  exact ⟨(hf.map _).sum_nat, (hf.map _).sum_nat, hf.length_eq⟩

/-! ## (c) process-level mutable state -/

/-- obligation over the regenerated inventory of process-level mutable state -/
theorem no_process_state : procSites.all psCovered = true := by decide

/-- a node's state and the outputs of its delivered transactions depend only on the block history — not on restarts,
served CheckTx / simulations / queries, or the memory it started with — whenever there is an invariant of process memory
that holds after construction, is preserved by every handler, and under which state effect and output of a handler do not
depend on the memory content -/
theorem process_history_irrelevant {M S I O : Type} (h : Handler M S I O) (m₀ : M) (Inv : M → Prop) (hinit : Inv m₀)
    (hpres : ∀ m s i, Inv m → Inv (h m s i).1)
    (hindep : ∀ m m' s i, Inv m → Inv m' → (h m s i).2 = (h m' s i).2)
    (evs₁ evs₂ : List (Ev I)) (hb : blocksOf evs₁ = blocksOf evs₂) (n₁ n₂ : Node M S) (hs : n₁.st = n₂.st)
    (h₁ : Inv n₁.mem) (h₂ : Inv n₂.mem) :
    (runEvs h m₀ n₁ evs₁).1.st = (runEvs h m₀ n₂ evs₂).1.st ∧ (runEvs h m₀ n₁ evs₁).2 = (runEvs h m₀ n₂ evs₂).2 := by
  have r₁ := FxVerif.Proofs.C17.run_eq_pure h m₀ Inv hinit hpres hindep evs₁ n₁ h₁
  have r₂ := FxVerif.Proofs.C17.run_eq_pure h m₀ Inv hinit hpres hindep evs₂ n₂ h₂
  rw [r₁.1, r₁.2, r₂.1, r₂.2, hb, hs]
  exact ⟨rfl, rfl⟩

/-- class `wiring`: memory that is only written by construction (`m₀`, a function of nothing) and read-only for every
handler cannot make two nodes disagree, whatever their process histories -/
theorem wiring_process_history_irrelevant {M S I O : Type} (h : Handler M S I O) (m₀ : M)
    (hro : ∀ m s i, (h m s i).1 = m) (evs₁ evs₂ : List (Ev I)) (hb : blocksOf evs₁ = blocksOf evs₂) (s : S) :
    (runEvs h m₀ ⟨m₀, s⟩ evs₁).1.st = (runEvs h m₀ ⟨m₀, s⟩ evs₂).1.st ∧
    (runEvs h m₀ ⟨m₀, s⟩ evs₁).2 = (runEvs h m₀ ⟨m₀, s⟩ evs₂).2 :=
  process_history_irrelevant h m₀ (fun m => m = m₀) rfl (fun m s i hm => by rw [hro]; exact hm)
    (fun m m' s i hm hm' => by rw [hm, hm']) evs₁ evs₂ hb _ _ rfl rfl rfl

/-- an unmetered memo table of a pure function is invisible: nodes with arbitrary (valid) table contents agree -/
theorem memo_process_history_irrelevant (f : String → Nat) (evs₁ evs₂ : List (Ev String)) (hb : blocksOf evs₁ = blocksOf evs₂)
    (mem₁ mem₂ : List (String × Nat)) (v₁ : ∀ e ∈ mem₁, e.2 = f e.1) (v₂ : ∀ e ∈ mem₂, e.2 = f e.1) (s : Nat) :
    (runEvs (memoHandler f) [] ⟨mem₁, s⟩ evs₁).1.st = (runEvs (memoHandler f) [] ⟨mem₂, s⟩ evs₂).1.st ∧
    (runEvs (memoHandler f) [] ⟨mem₁, s⟩ evs₁).2 = (runEvs (memoHandler f) [] ⟨mem₂, s⟩ evs₂).2 := by
  have key : ∀ (m : List (String × Nat)) (s : Nat) (k : String), (∀ e ∈ m, e.2 = f e.1) →
      (memoHandler f m s k).2 = (s + f k, f k) ∧ (∀ e ∈ (memoHandler f m s k).1, e.2 = f e.1) := by
    intro m s k hm
    unfold memoHandler
    split
    · rename_i e he
      have hmem := mem_of_find?_eq_some he
      have hk : e.1 = k := by simpa using find?_some he
      rw [hm e hmem, hk]
      exact ⟨rfl, hm⟩
    · refine ⟨rfl, ?_⟩
      intro e he
      rcases mem_cons.mp he with h1 | h1
      · rw [h1]
      · exact hm e h1
  exact process_history_irrelevant (memoHandler f) [] (fun m => ∀ e ∈ m, e.2 = f e.1) (by simp)
    (fun m s i hm => (key m s i hm).2)
    (fun m m' s i hm hm' => by rw [(key m s i hm).1, (key m' s i hm').1]) evs₁ evs₂ hb _ _ rfl v₁ v₂

/-- two replicas running different binaries of the same code (`h₁`, `h₂`) with their own memories and process histories
agree on final state and delivered outputs whenever the block histories are equal and the handlers agree on state effect
and output under the memory invariants -/
theorem replicas_agree {M₁ M₂ S I O : Type} (r₁ : Replica M₁ S I O) (r₂ : Replica M₂ S I O)
    (Inv₁ : M₁ → Prop) (Inv₂ : M₂ → Prop) (i₁ : Inv₁ r₁.m₀) (i₂ : Inv₂ r₂.m₀)
    (p₁ : ∀ m s i, Inv₁ m → Inv₁ (r₁.h m s i).1) (p₂ : ∀ m s i, Inv₂ m → Inv₂ (r₂.h m s i).1)
    (hag : ∀ m₁ m₂ s i, Inv₁ m₁ → Inv₂ m₂ → (r₁.h m₁ s i).2 = (r₂.h m₂ s i).2)
    (hb : blocksOf r₁.evs = blocksOf r₂.evs) (s : S) : r₁.run s = r₂.run s := by
  have a₁ := FxVerif.Proofs.C17.run_eq_pure r₁.h r₁.m₀ Inv₁ i₁ p₁
    (fun m m' s i hm hm' => (hag m r₂.m₀ s i hm i₂).trans (hag m' r₂.m₀ s i hm' i₂).symm) r₁.evs ⟨r₁.m₀, s⟩ i₁
  have a₂ := FxVerif.Proofs.C17.run_eq_pure r₂.h r₂.m₀ Inv₂ i₂ p₂
    (fun m m' s i hm hm' => (hag r₁.m₀ m s i i₁ hm).symm.trans (hag r₁.m₀ m' s i i₁ hm')) r₂.evs ⟨r₂.m₀, s⟩ i₂
  have c := FxVerif.Proofs.C17.runPure_congr r₁.h r₂.h r₁.m₀ r₂.m₀ (fun s i => hag r₁.m₀ r₂.m₀ s i i₁ i₂) (blocksOf r₂.evs) s
  unfold Replica.run
  simp only [a₁.1, a₁.2, a₂.1, a₂.2, hb]
  rw [c]

/-- the seeded shape: a keeper-level cache whose hit costs less gas than its miss.  The same block history gives
different transaction results on a node that was restarted in between, and on a node that served a simulation first -/
theorem cached_gas_breaks_determinism :
    (∃ evs₁ evs₂ : List (Ev String), blocksOf evs₁ = blocksOf evs₂ ∧
      (runEvs gasCacheHandler [] ⟨[], 0⟩ evs₁).2 ≠ (runEvs gasCacheHandler [] ⟨[], 0⟩ evs₂).2) ∧
    (runEvs gasCacheHandler [] ⟨[], 0⟩ [.deliver "a", .deliver "a"]).2 ≠
      (runEvs gasCacheHandler [] ⟨[], 0⟩ [.deliver "a", .restart, .deliver "a"]).2 ∧
    (runEvs gasCacheHandler [] ⟨[], 0⟩ [.deliver "a"]).2 ≠ (runEvs gasCacheHandler [] ⟨[], 0⟩ [.serve "a", .deliver "a"]).2 :=
  ⟨⟨[.deliver "a", .deliver "a"], [.deliver "a", .restart, .deliver "a"], rfl, by decide⟩, by decide, by decide⟩

/-! ## (e) the tail of `PowerDiff`: one binary64 division, `%.8f`, comparison — as functions of the exact integer sum -/

/-- the regenerated shape: exactly one float division outside the map loop, by `math.MaxUint32`, rendered with `%.8f` -/
theorem powerDiff_tail_shape : powerDiffDivisions = 1 ∧ powerDiffDivisor = 2 ^ 32 - 1 ∧ powerDiffPrecision = 8 := by decide

/-- binary64 division (the model `fdiv`): the returned dyadic `m / 2^k` is within half a unit in the last place of the
exact quotient `n / d` — it IS the exact rational rounded, whatever produced `n` -/
theorem fdiv_half_ulp (n d : Nat) (hn : 0 < n) (hd : 0 < d) :
    2 * ((fdiv n d).m * d) ≤ 2 * (n * 2 ^ (fdiv n d).k) + d ∧ 2 * (n * 2 ^ (fdiv n d).k) ≤ 2 * ((fdiv n d).m * d) + d :=
  FxVerif.Proofs.C17.fdiv_half_ulp n d hn hd

/-- `%.pf` (the model `fmtFixed`): within half a unit of `10^-p` of the binary64 value, and monotone in its numerator -/
theorem fmtFixed_half_unit (p : Nat) (v : Dy) :
    2 * (fmtFixed p v * 2 ^ v.k) ≤ 2 * (v.m * 10 ^ p) + 2 ^ v.k ∧ 2 * (v.m * 10 ^ p) ≤ 2 * (fmtFixed p v * 2 ^ v.k) + 2 ^ v.k :=
  FxVerif.Proofs.C17.rhe_half _ _ (Nat.pos_of_ne_zero (by simp))

theorem fmtFixed_mono (p k m₁ m₂ : Nat) (h : m₁ ≤ m₂) : fmtFixed p ⟨m₁, k⟩ ≤ fmtFixed p ⟨m₂, k⟩ :=
  FxVerif.Proofs.C17.rhe_mono _ _ _ (Nat.pos_of_ne_zero (by simp)) (Nat.mul_le_mul_right _ h)

/-- the rendered power difference is the exact rational `n / (2^32-1)` up to LESS than one unit of the eighth decimal, for
every integer sum the accumulation can produce: both roundings together (53-bit quotient, 8 decimals) never move the
result by a full unit.  `render n` is a function of the integer `n` alone. -/
theorem render_within_one_unit (n : Nat) (h0 : 0 < n) (h : n < 2 ^ 53) :
    render n * powerDiffDivisor < n * 10 ^ powerDiffPrecision + powerDiffDivisor ∧
    n * 10 ^ powerDiffPrecision < render n * powerDiffDivisor + powerDiffDivisor := by
  have hk := FxVerif.Proofs.C17.fdiv_k_ge n h0 h
  have a1 := FxVerif.Proofs.C17.fdiv_half_ulp n powerDiffDivisor h0 (by decide)
  have hK : 2 ^ 31 ≤ 2 ^ (fdiv n powerDiffDivisor).k := Nat.pow_le_pow_right (by decide) hk
  have a2 := FxVerif.Proofs.C17.rhe_half ((fdiv n powerDiffDivisor).m * 10 ^ powerDiffPrecision) (2 ^ (fdiv n powerDiffDivisor).k) (by omega)
  have hKpos : 0 < 2 ^ (fdiv n powerDiffDivisor).k := by omega
  unfold render fmtFixed
  generalize rhe ((fdiv n powerDiffDivisor).m * 10 ^ powerDiffPrecision) (2 ^ (fdiv n powerDiffDivisor).k) = R at *
  generalize (fdiv n powerDiffDivisor).m = m at *
  generalize 2 ^ (fdiv n powerDiffDivisor).k = K at *
  have hp : powerDiffPrecision = 8 := rfl
  have hd : powerDiffDivisor = 4294967295 := rfl
  simp only [hp, hd] at a1 a2 ⊢
  generalize hX : R * K = X at *
  generalize hY : n * K = Y at *
  constructor
  · apply Nat.lt_of_mul_lt_mul_right (a := K)
    have e1 : R * 4294967295 * K = 4294967295 * X := by rw [← hX]; ac_rfl
    have e2 : (n * 10 ^ 8 + 4294967295) * K = 10 ^ 8 * Y + 4294967295 * K := by rw [← hY, Nat.add_mul]; ac_rfl
    rw [e1, e2]
    omega
  · apply Nat.lt_of_mul_lt_mul_right (a := K)
    have e1 : (R * 4294967295 + 4294967295) * K = 4294967295 * X + 4294967295 * K := by rw [← hX, Nat.add_mul]; ac_rfl
    have e2 : n * 10 ^ 8 * K = 10 ^ 8 * Y := by rw [← hY]; ac_rfl
    rw [e1, e2]
    omega

/-- normalisation of the model's binary64 quotient: the significand lies in [2^52, 2^53] (so `fdiv` really rounds to 53
significant bits, for every numerator and divisor whose quotient is below 2^53) -/
theorem fdiv_normal (n d : Nat) (hn : 0 < n) (hd : 0 < d) (hnd : n < 2 ^ 53 * d) :
    2 ^ 52 ≤ (fdiv n d).m ∧ (fdiv n d).m ≤ 2 ^ 53 :=
  FxVerif.Proofs.C17.fdiv_normal n d hn hd hnd

/-- binary64 division is monotone in the numerator (as dyadic rationals `m / 2^k`, across changes of the exponent) -/
theorem fdiv_mono (n₁ n₂ d : Nat) (h0 : 0 < n₁) (h : n₁ ≤ n₂) (hd : 0 < d) (hnd : n₂ < 2 ^ 53 * d) :
    (fdiv n₁ d).m * 2 ^ (fdiv n₂ d).k ≤ (fdiv n₂ d).m * 2 ^ (fdiv n₁ d).k :=
  FxVerif.Proofs.C17.fdiv_mono n₁ n₂ d h0 h hd hnd

/-- the rendered power difference is monotone in the exact integer sum, over the whole range of the accumulation -/
theorem render_mono (n₁ n₂ : Nat) (h : n₁ ≤ n₂) (hb : n₂ < 2 ^ 53) : render n₁ ≤ render n₂ := by
  unfold render
  by_cases h0 : n₁ = 0
  · subst h0
    have : fmtFixed powerDiffPrecision (fdiv 0 powerDiffDivisor) = 0 := by decide
    rw [this]
    exact Nat.zero_le _
  · apply FxVerif.Proofs.C17.fmtFixed_mono_value
    apply FxVerif.Proofs.C17.fdiv_mono n₁ n₂ powerDiffDivisor (by omega) h (by decide)
    have : powerDiffDivisor = 4294967295 := rfl
    rw [this]
    omega

/-- … so the decision has a single cut-off: once a power difference triggers an oracle-set request, every larger one does -/
theorem needsOracleSet_mono (n₁ n₂ pct : Nat) (h : n₁ ≤ n₂) (hb : n₂ < 2 ^ 53) (h1 : needsOracleSet n₁ pct = true) :
    needsOracleSet n₂ pct = true := by
  unfold needsOracleSet at *
  simp only [ge_iff_le, decide_eq_true_eq] at *
  exact Nat.le_trans h1 (Nat.mul_le_mul_right _ (render_mono n₁ n₂ h hb))

/-- hence the decision of `isNeedOracleSetRequest` is the comparison of the EXACT rational with the threshold whenever the
two are at least `10^-8` apart (`percentRaw`: the parameter as an 18-decimal integer, capped at 1 by the code) -/
theorem needsOracleSet_exact_outside_band (n percentRaw : Nat) (h0 : 0 < n) (h : n < 2 ^ 53) :
    ((min percentRaw (10 ^ 18) + 10 ^ 10) * powerDiffDivisor ≤ n * 10 ^ 18 → needsOracleSet n percentRaw = true) ∧
    (n * 10 ^ 18 + 10 ^ 10 * powerDiffDivisor ≤ min percentRaw (10 ^ 18) * powerDiffDivisor → needsOracleSet n percentRaw = false) := by
  have r := render_within_one_unit n h0 h
  have hp : powerDiffPrecision = 8 := rfl
  have hd : powerDiffDivisor = 4294967295 := rfl
  unfold needsOracleSet
  simp only [hp, hd] at r ⊢
  generalize render n = R at *
  generalize min percentRaw (10 ^ 18) = T at *
  constructor
  · intro hge
    simp only [ge_iff_le, decide_eq_true_eq]
    omega
  · intro hle
    simp only [ge_iff_le, decide_eq_false_iff_not]
    omega

/-- the whole step — float accumulation in map order, division, rendering, comparison — gives the same result for every
iteration order of the merged power map -/
theorem powerDiffStep_perm {l₁ l₂ : List Int} (hp : l₁.Perm l₂) (pct : Nat) : powerDiffStep l₁ pct = powerDiffStep l₂ pct := by
  unfold powerDiffStep
  have hall : l₁.all (fun v => decide (v.natAbs ≤ 2 ^ 32)) = l₂.all (fun v => decide (v.natAbs ≤ 2 ^ 32)) := by
    rw [Bool.eq_iff_iff]
    simp only [all_eq_true]
    exact ⟨fun h x hx => h x (hp.mem_iff.mpr hx), fun h x hx => h x (hp.mem_iff.mp hx)⟩
  rw [← hall, ← hp.length_eq]
  split
  · rename_i hc
    simp only [Bool.and_eq_true, all_eq_true, decide_eq_true_eq] at hc
    rw [fsumAbs_perm hp hc.1 hc.2]
  · rfl

/-- … and, inside the range of the keeper, it is the function `render` / `needsOracleSet` of the EXACT integer sum -/
theorem powerDiffStep_exact (l : List Int) (pct : Nat) (hb : ∀ v ∈ l, v.natAbs ≤ 2 ^ 32) (hn : l.length ≤ 2 ^ 20) :
    powerDiffStep l pct = some (render (absSum l), needsOracleSet (absSum l) pct) := by
  unfold powerDiffStep
  have hc : (l.all (fun v => decide (v.natAbs ≤ 2 ^ 32)) && decide (l.length ≤ 2 ^ 20)) = true := by
    simp only [Bool.and_eq_true, all_eq_true, decide_eq_true_eq]
    exact ⟨hb, hn⟩
  rw [if_pos hc, fsumAbs_exact l hb hn]

/-! ## (d) the block machine: all schedules of map iteration give the same execution -/

/-- regenerated order source of the unbonding loop of `UpdateProposalOracles`: the store iteration, not a map -/
theorem unbond_order_from_store : unbondFedByMap = false ∧ unbondFedByStore = true := by decide

/-- no locally collected slice that is then ranged over with effects is appended to inside a range over a map (unless it
is sorted afterwards) -/
theorem effect_slices_not_fed_by_maps : sliceFeeders.all (fun f => f.kind != "map" || f.sorted) = true := by decide

/-- one operation: final state and output are the same for any two schedules -/
theorem exec_schedule_independent (σ₁ σ₂ : Sched) (st : St) (op : Op) : execP false σ₁ st op = execP false σ₂ st op := by
  cases op with
  | updateOracles new => rfl
  | tally vals =>
    have hp : (σ₁.pick st.ranges _ vals).Perm (σ₂.pick st.ranges _ vals) := (σ₁.perm _ _ _).trans (σ₂.perm _ _ _).symm
    simp only [execP, rangeMap]
    rw [tally_perm (hp.map _)]
  | batchFees pool mx base =>
    simp only [execP, getAllBatchFees, rangeMap]
    have hn := FxVerif.Proofs.C17.nodup_createBatchFees pool mx base
    have hp : (σ₁.pick st.ranges _ (createBatchFees pool mx base)).Perm (σ₂.pick st.ranges _ (createBatchFees pool mx base)) :=
      (σ₁.perm _ _ _).trans (σ₂.perm _ _ _).symm
    have heq := FxVerif.Proofs.C17.mergeSort_eq_of_perm feeLe
      (fun a b c => FxVerif.Proofs.C17.strLe_trans a.1 b.1 c.1) (fun a b => FxVerif.Proofs.C17.strLe_total a.1 b.1) hp
      (fun a b ha hb h1 h2 => FxVerif.Proofs.C17.eq_of_key_eq _ hn a b ((σ₁.perm _ _ _).mem_iff.mp ha) ((σ₁.perm _ _ _).mem_iff.mp hb)
        (FxVerif.Proofs.C17.strLe_antisymm _ _ h1 h2))
    rw [heq]
  | powerDiff cur latest =>
    have hp : (σ₁.pick st.ranges _ (mergePowers cur latest)).Perm (σ₂.pick st.ranges _ (mergePowers cur latest)) :=
      (σ₁.perm _ _ _).trans (σ₂.perm _ _ _).symm
    simp only [execP, rangeMap]
    rw [absSum_perm (hp.map _)]
  | supportChains reg =>
    have hp : (σ₁.pick st.ranges _ reg).Perm (σ₂.pick st.ranges _ reg) := (σ₁.perm _ _ _).trans (σ₂.perm _ _ _).symm
    simp only [execP, rangeMap, sortChains]
    rw [FxVerif.Proofs.C17.mergeSort_eq_of_perm strLe FxVerif.Proofs.C17.strLe_trans FxVerif.Proofs.C17.strLe_total hp
      (fun a b _ _ => FxVerif.Proofs.C17.strLe_antisymm a b)]
  | needOracleSet cur latest pct =>
    have hp : (σ₁.pick st.ranges _ (mergePowers cur latest)).Perm (σ₂.pick st.ranges _ (mergePowers cur latest)) :=
      (σ₁.perm _ _ _).trans (σ₂.perm _ _ _).symm
    simp only [execP, rangeMap]
    rw [powerDiffStep_perm (hp.map _) pct]

/-- all histories: for every list of operations, from every state, any two schedules of map iteration orders produce the
same final state (hence the same application hash) and the same outputs, operation by operation -/
theorem run_schedule_independent (σ₁ σ₂ : Sched) : ∀ (ops : List Op) (st : St), runP false σ₁ st ops = runP false σ₂ st ops := by
  intro ops
  induction ops with
  | nil => intro st; rfl
  | cons op rest ih =>
    intro st
    simp only [runP]
    rw [exec_schedule_independent σ₁ σ₂ st op, ih]

/-- … and this is the machine of the source as it is now (the order source is regenerated) -/
theorem run_schedule_independent_source (σ₁ σ₂ : Sched) (ops : List Op) (st : St) : run σ₁ st ops = run σ₂ st ops := by
  unfold run
  rw [unbond_order_from_store.1]
  exact run_schedule_independent σ₁ σ₂ ops st

/-- the property for the modelled steps, both dimensions at once: two replicas of the block machine with different
map-iteration schedules `σ₁ σ₂` AND different process histories (restarts, served CheckTx / simulations / queries — the
machine keeps nothing in process memory) that were given the same blocks end in the same state with the same outputs -/
theorem machine_replicas_agree (σ₁ σ₂ : Sched) (evs₁ evs₂ : List (Ev Op)) (hb : blocksOf evs₁ = blocksOf evs₂) (st : St) :
    (Replica.run ⟨fun (_ : Unit) s op => ((), exec σ₁ s op), (), evs₁⟩ st) =
    (Replica.run ⟨fun (_ : Unit) s op => ((), exec σ₂ s op), (), evs₂⟩ st) := by
  apply replicas_agree _ _ (fun _ => True) (fun _ => True) trivial trivial (fun _ _ _ _ => trivial) (fun _ _ _ _ => trivial) _ hb
  intro _ _ s op _ _
  show (((), exec σ₁ s op) : Unit × St × Out).2 = (((), exec σ₂ s op) : Unit × St × Out).2
  simp only [exec]
  rw [unbond_order_from_store.1, exec_schedule_independent σ₁ σ₂ s op]

/-- a tally loop that is left early (`accumulate+exit`) depends on the iteration order: the reviewed classes rightly do not
accept it -/
theorem early_exit_tally_schedule_dependent :
    ∃ (l₁ l₂ : List Vec5), l₁.Perm l₂ ∧ tallyUntil 5 (0, 0, 0, 0, 0) l₁ ≠ tallyUntil 5 (0, 0, 0, 0, 0) l₂ :=
  ⟨[(6, 0, 0, 0, 6), (0, 0, 3, 0, 3)], [(0, 0, 3, 0, 3), (6, 0, 0, 0, 6)], Perm.swap _ _ _, by decide⟩

/-- the order of the two steps matters: unbonding is not commutative (unbonding ids, queue order, events) -/
theorem unbond_order_observable :
    ∃ (st : St) (a b : Oracle), unbondAll st [a, b] ≠ unbondAll st [b, a] :=
  ⟨⟨[⟨"o1", 1, true, 5⟩, ⟨"o2", 1, true, 5⟩], ["o1", "o2"], 7, [], [], 0⟩, ⟨"o1", 1, true, 5⟩, ⟨"o2", 1, true, 5⟩, by decide⟩

/-- if the list of oracles to unbond is collected by ranging over a map (the seeded variant), two schedules give
different states for the same proposal: the property fails -/
theorem mapFed_unbond_schedule_dependent :
    ∃ (st : St) (new : List String),
      execP true Sched.id st (.updateOracles new) ≠ execP true Sched.rev st (.updateOracles new) :=
  ⟨⟨[⟨"o1", 1, true, 5⟩, ⟨"o2", 1, true, 5⟩, ⟨"o3", 10, true, 5⟩], ["o1", "o2", "o3"], 7, [], [], 0⟩, ["o3"], by decide⟩

/-- in the source's variant the oracles are unbonded in store order: the unbonded addresses form a sublist of the store
iteration -/
theorem unbondList_store_order (σ : Sched) (st : St) (new : List String) :
    ((unbondList false σ st new).1.map (·.addr)).Sublist (st.oracles.map (·.addr)) := by
  simp only [unbondList, Bool.false_eq_true, if_false]
  exact (filter_sublist).map _

/-! ## (f) sorting: unique results for separating comparators, algorithm-defined results for ties -/

/-- obligation over the regenerated sort sites: every one is reviewed, its comparator program is the reviewed one, and
the class fits what the translator saw -/
theorem sort_sites_covered : sortSites.all sortCovered = true := by decide

/-- no sort with a comparator that leaves ties is fed by a range over a map (or by anything the translator cannot see
through), outside query servers -/
theorem tie_sorts_not_fed_by_maps :
    sortSites.all (fun s => (sortClassify s).map (·.1) != some .tiesFixedAlgorithm || !fedByMap s) = true := by decide

/-- ANY two sorting algorithms, applied to ANY two arrangements of the same elements, return the same list when the
comparator separates distinct elements: unstable sorts, different toolchains and map-ordered inputs are all harmless then -/
theorem sorter_unique {α : Type} (le : α → α → Bool) (s₁ s₂ : Sorter α le) {l₁ l₂ : List α} (hp : l₁.Perm l₂)
    (anti : ∀ a b, a ∈ l₁ → b ∈ l₁ → le a b = true → le b a = true → a = b) : s₁.sort l₁ = s₂.sort l₂ := by
  apply FxVerif.Proofs.C17.perm_sorted_eq le
  · exact (s₁.perm l₁).trans (hp.trans (s₂.perm l₂).symm)
  · exact s₁.sorted l₁
  · exact s₂.sorted l₂
  · intro a b ha hb
    exact anti a b ((s₁.perm l₁).mem_iff.mp ha) ((s₁.perm l₁).mem_iff.mp hb)

/-- the generic statement behind class `wholeElement`: a comparator program (ANY key list, interpreted by `cmpRec` on records
with arbitrarily many fields of kind unsigned / big number, text, signed number, boolean or byte string) whose keys cover every field of the element type cannot leave two distinct
elements unseparated -/
theorem cover_separates (keys : List SortKey) (fields : List String) (a b : Rec) (ha : a.map (·.1) = fields)
    (hb : b.map (·.1) = fields) (hn : fields.Nodup) (hcov : ∀ f ∈ fields, ∃ k ∈ keys, k.field = f)
    (h : cmpRec keys a b = .eq) : a = b :=
  FxVerif.Proofs.C17.cover_separates keys fields a b ha hb hn hcov h

/-- decided over the regenerated sites: every `wholeElement` site's keys cover its element type's (distinct) fields -/
theorem whole_sites_ok : sortSites.all (fun s => (sortClassify s).map (·.1) != some .wholeElement || wholeOk s) = true := by decide

/-- … hence EVERY sort site of class `wholeElement` — with the comparator program and the element fields as regenerated —
separates distinct elements … -/
theorem wholeElement_sites_separate (s : SortSite) (hs : s ∈ sortSites) (hc : (sortClassify s).map (·.1) = some .wholeElement)
    (a b : Rec) (ha : a.map (·.1) = s.elemFields) (hb : b.map (·.1) = s.elemFields) (h : cmpRec s.keys a b = .eq) : a = b := by
  have h1 := all_eq_true.mp whole_sites_ok s hs
  simp only [hc, bne_self_eq_false, Bool.false_or] at h1
  unfold wholeOk at h1
  simp only [Bool.and_eq_true, all_eq_true, any_eq_true, beq_iff_eq, decide_eq_true_eq] at h1
  exact cover_separates s.keys s.elemFields a b ha hb h1.2 (fun f hf => h1.1 f hf) h

/-- … and its result is the same for any two sorting algorithms and any two arrangements of the same elements -/
theorem wholeElement_sites_sort_unique (s : SortSite) (hs : s ∈ sortSites) (hc : (sortClassify s).map (·.1) = some .wholeElement)
    (s₁ s₂ : Sorter Rec (leRec s.keys)) {l₁ l₂ : List Rec} (hp : l₁.Perm l₂) (hl : ∀ a ∈ l₁, a.map (·.1) = s.elemFields) :
    s₁.sort l₁ = s₂.sort l₂ := by
  apply FxVerif.Proofs.C17.perm_sorted_eq (leRec s.keys)
  · exact (s₁.perm l₁).trans (hp.trans (s₂.perm l₂).symm)
  · exact s₁.sorted l₁
  · exact s₂.sorted l₂
  · intro a b ha hb h1 h2
    have ha' := (s₁.perm l₁).mem_iff.mp ha
    have hb' := (s₁.perm l₁).mem_iff.mp hb
    exact wholeElement_sites_separate s hs hc a b (hl a ha') (hl b hb') (FxVerif.Proofs.C17.leRec_antisymm s.keys a b h1 h2)

/-- `NewOracleSet`: the regenerated comparator program of `BridgeValidators.Less` (power descending, then external address)
separates any two distinct members, so the stored member order — hence the checkpoint every oracle signs — is the same
for every sort algorithm and every order in which the members were collected -/
theorem oracleSet_order_unique (s₁ s₂ : Sorter NS memberLe) {l₁ l₂ : List NS} (hp : l₁.Perm l₂) : s₁.sort l₁ = s₂.sort l₂ :=
  sorter_unique memberLe s₁ s₂ hp (fun a b _ _ => FxVerif.Proofs.C17.memberLe_antisymm a b)

/-- … in particular it is what the model's `sortMembers` computes (the function the driver runs against the real code) -/
theorem oracleSet_order_is_sortMembers (s : Sorter NS memberLe) (l : List NS) : s.sort l = sortMembers l :=
  oracleSet_order_unique s (FxVerif.Proofs.C17.insertSorter memberLe FxVerif.Proofs.C17.memberLe_trans FxVerif.Proofs.C17.memberLe_total) (Perm.refl l)

/-- both adversaries at once: the members collected by ranging over a map under ANY two schedules (the shape of
`GetCurrentOracleSet` if it gathered the oracles through a map) and sorted by ANY two algorithms give the same oracle set -/
theorem oracleSet_schedule_and_algorithm_independent (σ₁ σ₂ : Sched) (s₁ s₂ : Sorter NS memberLe) (st : St) (members : List NS) :
    s₁.sort (rangeMap σ₁ st members).1 = s₂.sort (rangeMap σ₂ st members).1 :=
  oracleSet_order_unique s₁ s₂ ((σ₁.perm _ _ _).trans (σ₂.perm _ _ _).symm)

/-- the staking precompile's `validatorList(missed)`: the regenerated comparator looks at the missed-block counter only,
so two correct sorting algorithms may return different lists for the same input … -/
theorem ties_algorithm_dependent :
    ∃ (s₁ s₂ : Sorter NS missedLe) (l : List NS), s₁.sort l ≠ s₂.sort l :=
  ⟨FxVerif.Proofs.C17.insertSorter missedLe FxVerif.Proofs.C17.missedLe_trans FxVerif.Proofs.C17.missedLe_total,
   FxVerif.Proofs.C17.revInsertSorter missedLe FxVerif.Proofs.C17.missedLe_trans FxVerif.Proofs.C17.missedLe_total,
   [⟨0, "val-a"⟩, ⟨0, "val-b"⟩], by decide⟩

/-- … and ONE algorithm returns different lists for two arrangements of the same validators: were the input collected by
ranging over a map, the result would depend on the schedule (`tie_sorts_not_fed_by_maps` excludes it) -/
theorem ties_input_order_dependent :
    ∃ (s : Sorter NS missedLe) (l₁ l₂ : List NS), l₁.Perm l₂ ∧ s.sort l₁ ≠ s.sort l₂ :=
  ⟨FxVerif.Proofs.C17.insertSorter missedLe FxVerif.Proofs.C17.missedLe_trans FxVerif.Proofs.C17.missedLe_total,
   [⟨0, "val-a"⟩, ⟨0, "val-b"⟩], [⟨0, "val-b"⟩, ⟨0, "val-a"⟩], Perm.swap _ _ _, by decide⟩

theorem pairwiseB_iff {α : Type} (le : α → α → Bool) : ∀ l : List α, pairwiseB le l = true ↔ l.Pairwise (fun a b => le a b = true) := by
  intro l
  induction l with
  | nil => simp [pairwiseB]
  | cons a t ih => simp only [pairwiseB, Bool.and_eq_true, all_eq_true, pairwise_cons, ih]

/-- the executable check the driver applies to the real `validatorList(missed)` output is exactly the sort contract -/
theorem meetsSortContract_iff {α : Type} [BEq α] [LawfulBEq α] (le : α → α → Bool) (inp out : List α) :
    meetsSortContract le inp out = true ↔ out.Perm inp ∧ out.Pairwise (fun a b => le a b = true) := by
  unfold meetsSortContract
  rw [Bool.and_eq_true, isPerm_iff, pairwiseB_iff]

/-- … and every algorithm meeting the contract passes it -/
theorem sorter_meets_contract {α : Type} [BEq α] [LawfulBEq α] (le : α → α → Bool) (s : Sorter α le) (l : List α) :
    meetsSortContract le l (s.sort l) = true :=
  (meetsSortContract_iff le l (s.sort l)).mpr ⟨s.perm l, s.sorted l⟩

/-- what remains true for a comparator with ties: replicas that run the same algorithm on an input that is itself
schedule-independent (the bonded validators in store order) agree, whatever their map schedules -/
theorem fixed_algorithm_agrees {α β : Type} (srt : List α → List α) (collect : Sched → β → List α)
    (hc : ∀ σ₁ σ₂ st, collect σ₁ st = collect σ₂ st) (σ₁ σ₂ : Sched) (st : β) : srt (collect σ₁ st) = srt (collect σ₂ st) := by
  rw [hc σ₁ σ₂ st]

/-! ## (g) values of the process environment -/

/-- class `nodeConfig` / `envRead`: replicas whose construction-time memory differs ARBITRARILY (a default home directory
computed from `$HOME`, anything else read from the environment at start-up) agree on state and outputs for equal block
histories, provided no handler's state effect or output depends on that memory -/
theorem env_read_at_init_irrelevant {M S I O : Type} (h : Handler M S I O) (m₁ m₂ : M)
    (hign : ∀ m m' s i, (h m s i).2 = (h m' s i).2)
    (evs₁ evs₂ : List (Ev I)) (hb : blocksOf evs₁ = blocksOf evs₂) (s : S) :
    (Replica.run ⟨h, m₁, evs₁⟩ s) = (Replica.run ⟨h, m₂, evs₂⟩ s) :=
  replicas_agree ⟨h, m₁, evs₁⟩ ⟨h, m₂, evs₂⟩ (fun _ => True) (fun _ => True) trivial trivial (fun _ _ _ _ => trivial)
    (fun _ _ _ _ => trivial) (fun m m' s i _ _ => hign m m' s i) hb s

/-- a handler that writes a process-specific value (an address, a stack trace, an environment variable) into state or
output makes two replicas with equal block histories disagree: why `pointerFormat` / `procValue` have no admissible class -/
theorem env_value_in_output_breaks_determinism :
    ∃ (m₁ m₂ : Nat), (Replica.run ⟨envLeakHandler, m₁, [Ev.deliver "tx"]⟩ 0) ≠ (Replica.run ⟨envLeakHandler, m₂, [Ev.deliver "tx"]⟩ 0) :=
  ⟨0xc000012340, 0xc000456780, by decide⟩

/-! ## (h) a JSON oneof decoded in map order: the acknowledgement callback of the IBC middleware -/

theorem decode_sites_covered : decodeSites.all decodeCovered = true := by decide

theorem jsonpb_oneof_order_is_map : jsonpbOneofOrder = "map" := by decide

theorem ack_program_canonical_first : ackSteps.take 2 = [.decode, .canon] ∧ ackSteps.all (· != .other) = true := by decide

theorem ack_canonical_first_schedule_independent (rest : List AStep) (σ₁ σ₂ : Sched) (st : ASt) (amount : Nat) (raw : Raw) :
    runAck (.decode :: .canon :: rest) σ₁ st amount raw = runAck (.decode :: .canon :: rest) σ₂ st amount raw := by
  unfold runAck
  simp only [runSteps, stepAck]
  cases h₁ : decodeAck σ₁ st.ranges raw with
  | none =>
    have h₂ := (FxVerif.Proofs.C17.decode_isNone σ₁ σ₂ st.ranges st.ranges raw).mp h₁
    simp only [h₂]
  | some d₁ =>
    cases h₂ : decodeAck σ₂ st.ranges raw with
    | none =>
      have := (FxVerif.Proofs.C17.decode_isNone σ₂ σ₁ st.ranges st.ranges raw).mp h₂
      rw [h₁] at this
      exact absurd this (by simp)
    | some d₂ =>
      simp only []
      by_cases hc : raw = canonOf d₁
      · have hd : d₂ = d₁ := by
          rw [hc, FxVerif.Proofs.C17.decode_canon] at h₂
          exact (Option.some.inj h₂).symm
        subst hd
        simp only [hc, if_true]
        rw [FxVerif.Proofs.C17.runSteps_canon σ₁ σ₂ d₂ amount rest]
      · have hc₂ : ¬ raw = canonOf d₂ := by
          intro h
          rw [h, FxVerif.Proofs.C17.decode_canon] at h₁
          exact hc (by rw [h, Option.some.inj h₁])
        simp only [hc, hc₂, if_false]


/-- … hence the callback of the source as it is now: same state, same gas, same result for every schedule of map iteration
orders and every acknowledgement byte string -/
theorem ack_source_schedule_independent (σ₁ σ₂ : Sched) (st : ASt) (amount : Nat) (raw : Raw) :
    runAck ackSteps σ₁ st amount raw = runAck ackSteps σ₂ st amount raw := by
  have h : ackSteps = .decode :: .canon :: ackSteps.drop 2 := by decide
  rw [h]
  exact ack_canonical_first_schedule_independent _ σ₁ σ₂ st amount raw

/-- the callback as it was before the check: the wrapped application and the middleware each decode an acknowledgement that
carries both arms in map order — two schedules give different states for the same bytes -/
theorem ack_unchecked_schedule_dependent :
    runAck [.inner, .decode, .dataDecode, .hook, .ret] Sched.id ⟨0, 0, 0, 0, 0⟩ 5 bothArms ≠
    runAck [.inner, .decode, .dataDecode, .hook, .ret] Sched.rev ⟨0, 0, 0, 0, 0⟩ 5 bothArms := by decide

/-- … and within ONE execution the two decoders can disagree: the ICS-20 application refunds the escrow (error arm) while
the middleware's hook takes the same bytes for a success (the shape of the defect repaired by the canonical check) -/
theorem ack_unchecked_arms_disagree_within_one_call :
    (runAck [.inner, .decode, .dataDecode, .hook, .ret] Sched.alt ⟨0, 0, 0, 0, 0⟩ 5 bothArms).1.bankRefund = 5 ∧
    (runAck [.inner, .decode, .dataDecode, .hook, .ret] Sched.alt ⟨0, 0, 0, 0, 0⟩ 5 bothArms).1.hookRefund = 0 ∧
    (runAck [.inner, .decode, .dataDecode, .hook, .ret] Sched.alt ⟨0, 0, 0, 0, 0⟩ 5 bothArms).1.hookSuccess = 1 := by decide

/-- the ORDER of the statements matters: with the check after the inner call the acknowledgement transaction fails under
both schedules — but the wrapped application has already run on the arm its own decode picked, so the gas the failed
transaction reports (part of the results hash) differs -/
theorem ack_check_after_inner_gas_dependent :
    (runAck [.decode, .inner, .canon, .dataDecode, .hook, .ret] Sched.id ⟨0, 0, 0, 0, 0⟩ 5 bothArms).2 = some "not-canonical" ∧
    (runAck [.decode, .inner, .canon, .dataDecode, .hook, .ret] Sched.rev ⟨0, 0, 0, 0, 0⟩ 5 bothArms).2 = some "not-canonical" ∧
    (runAck [.decode, .inner, .canon, .dataDecode, .hook, .ret] Sched.id ⟨0, 0, 0, 0, 0⟩ 5 bothArms).1.gas ≠
    (runAck [.decode, .inner, .canon, .dataDecode, .hook, .ret] Sched.rev ⟨0, 0, 0, 0, 0⟩ 5 bothArms).1.gas := by decide

/-! ## (i) caches of state-derived data -/

theorem coherent_cache_process_history_irrelevant {M S I O : Type} (h : Handler M S I O) (m₀ : M) (Inv : M → S → Prop)
    (hinit : ∀ s, Inv m₀ s)
    (hdel : ∀ m s i, Inv m s → Inv (h m s i).1 (h m s i).2.1)
    (hserve : ∀ m s i, Inv m s → Inv (h m s i).1 s)
    (hindep : ∀ m m' s i, Inv m s → Inv m' s → (h m s i).2 = (h m' s i).2)
    (evs₁ evs₂ : List (Ev I)) (hb : blocksOf evs₁ = blocksOf evs₂) (n₁ n₂ : Node M S) (hs : n₁.st = n₂.st)
    (h₁ : Inv n₁.mem n₁.st) (h₂ : Inv n₂.mem n₂.st) :
    (runEvs h m₀ n₁ evs₁).1.st = (runEvs h m₀ n₂ evs₂).1.st ∧ (runEvs h m₀ n₁ evs₁).2 = (runEvs h m₀ n₂ evs₂).2 := by
  have r₁ := FxVerif.Proofs.C17.run_eq_pure_coherent h m₀ Inv hinit hdel hserve hindep evs₁ n₁ h₁
  have r₂ := FxVerif.Proofs.C17.run_eq_pure_coherent h m₀ Inv hinit hdel hserve hindep evs₂ n₂ h₂
  rw [r₁.1, r₁.2, r₂.1, r₂.2, hb, hs]
  exact ⟨rfl, rfl⟩

/-- a cache that is validated against the store record on every use (content-addressed memo of a pure decoder) is invisible -/
theorem validated_cache_process_history_irrelevant (dec : Nat → Nat) (evs₁ evs₂ : List (Ev PairMsg)) (hb : blocksOf evs₁ = blocksOf evs₂)
    (mem₁ mem₂ : List (Nat × Nat)) (v₁ : ∀ e ∈ mem₁, e.2 = dec e.1) (v₂ : ∀ e ∈ mem₂, e.2 = dec e.1) (s : Pairs) :
    (runEvs (validatedHandler dec) [] ⟨mem₁, s⟩ evs₁).1.st = (runEvs (validatedHandler dec) [] ⟨mem₂, s⟩ evs₂).1.st ∧
    (runEvs (validatedHandler dec) [] ⟨mem₁, s⟩ evs₁).2 = (runEvs (validatedHandler dec) [] ⟨mem₂, s⟩ evs₂).2 := by
  have key : ∀ (m : List (Nat × Nat)) (st : Pairs) (i : PairMsg), (∀ e ∈ m, e.2 = dec e.1) →
      (validatedHandler dec m st i).2 = (noCacheDec dec st i) ∧ (∀ e ∈ (validatedHandler dec m st i).1, e.2 = dec e.1) := by
    intro m st i hm
    cases i with
    | register k v ok => exact ⟨rfl, hm⟩
    | remove k ok => exact ⟨rfl, hm⟩
    | use k =>
      simp only [validatedHandler, noCacheDec]
      cases hg : pget st k with
      | none => exact ⟨rfl, hm⟩
      | some raw =>
        simp only []
        cases hf : m.find? (fun e => e.1 == raw) with
        | none =>
          refine ⟨rfl, ?_⟩
          intro e he
          rcases mem_cons.mp he with h1 | h1
          · rw [h1]
          · exact hm e h1
        | some e =>
          have hmem := mem_of_find?_eq_some hf
          have hk : e.1 = raw := by simpa using find?_some hf
          simp only []
          rw [hm e hmem, hk]
          exact ⟨rfl, hm⟩
  exact coherent_cache_process_history_irrelevant (validatedHandler dec) [] (fun m _ => ∀ e ∈ m, e.2 = dec e.1) (by simp)
    (fun m s i hm => (key m s i hm).2) (fun m s i hm => (key m s i hm).2)
    (fun m m' s i hm hm' => by rw [(key m s i hm).1, (key m' s i hm').1]) evs₁ evs₂ hb _ _ rfl v₁ v₂


/-- the seeded shape (a process-local map written through by the setters): a registration executed on a DISCARDED branch —
a served simulation, or a delivered transaction that fails after the write — stays in the map; nodes with equal block
histories then answer a use of the pair differently (from the map vs from the store), also with a stale value -/
theorem writeThrough_cache_breaks_determinism :
    (runEvs writeThroughHandler [] ⟨[], []⟩ [.serve (.register "p" 7 true), .deliver (.use "p")]).2 ≠
      (runEvs writeThroughHandler [] ⟨[], []⟩ [.deliver (.use "p")]).2 ∧
    (runEvs writeThroughHandler [] ⟨[], []⟩ [.deliver (.register "p" 7 false), .deliver (.use "p")]).2 ≠
      (runEvs writeThroughHandler [] ⟨[], []⟩ [.deliver (.register "p" 7 false), .restart, .deliver (.use "p")]).2 ∧
    (runEvs writeThroughHandler [] ⟨[], [("p", 7)]⟩ [.serve (.register "p" 9 true), .deliver (.use "p")]).2 ≠
      (runEvs writeThroughHandler [] ⟨[], [("p", 7)]⟩ [.deliver (.use "p")]).2 := by decide

/-- it is hypothesis (3) of `coherent_cache_process_history_irrelevant` that the write-through cache violates: a discarded
execution leaves memory that no longer mirrors the (unchanged) state -/
theorem writeThrough_violates_discard_hypothesis :
    ¬ (∀ (m s : Pairs) (i : PairMsg), coherent m s → coherent (writeThroughHandler m s i).1 s) := by
  intro h
  have := h [] [] (.register "p" 7 true) (by intro k v hk; simp [pget] at hk) "p" 7 (by decide)
  simp [pget] at this

/-- … and ONLY discarded executions expose it: on process histories in which every executed write is committed (delivered
transactions that succeed, lookups — delivered or served —, restarts; no served / failing registration or removal) the
write-through cache is invisible: nodes with any coherent caches and equal block histories agree on state and outputs -/
theorem writeThrough_cache_invisible_without_discards (evs₁ evs₂ : List (Ev PairMsg))
    (c₁ : ∀ e ∈ evs₁, committing e = true) (c₂ : ∀ e ∈ evs₂, committing e = true) (hb : blocksOf evs₁ = blocksOf evs₂)
    (m₁ m₂ s : Pairs) (h₁ : coherent m₁ s) (h₂ : coherent m₂ s) :
    (runEvs writeThroughHandler [] ⟨m₁, s⟩ evs₁).1.st = (runEvs writeThroughHandler [] ⟨m₂, s⟩ evs₂).1.st ∧
    (runEvs writeThroughHandler [] ⟨m₁, s⟩ evs₁).2 = (runEvs writeThroughHandler [] ⟨m₂, s⟩ evs₂).2 := by
  have hinit : ∀ s : Pairs, coherent [] s := by intro s k v hk; simp [pget] at hk
  have hdel : ∀ (m s : Pairs) (i : PairMsg), committing (.deliver i) = true → coherent m s →
      coherent (writeThroughHandler m s i).1 (writeThroughHandler m s i).2.1 := by
    intro m s i hc hm
    cases i with
    | register k v ok =>
      simp only [committing] at hc; subst hc
      exact FxVerif.Proofs.C17.coherent_pset m s k v hm
    | remove k ok =>
      simp only [committing] at hc; subst hc
      exact FxVerif.Proofs.C17.coherent_pdel m s k hm
    | use k =>
      have := FxVerif.Proofs.C17.writeThrough_use m s k hm
      rw [this.1]; exact this.2
  have hserve : ∀ (m s : Pairs) (i : PairMsg), committing (.serve i) = true → coherent m s → coherent (writeThroughHandler m s i).1 s := by
    intro m s i hc hm
    cases i with
    | register k v ok => simp [committing] at hc
    | remove k ok => simp [committing] at hc
    | use k => exact (FxVerif.Proofs.C17.writeThrough_use m s k hm).2
  have hindep : ∀ (m m' s : Pairs) (i : PairMsg), coherent m s → coherent m' s →
      (writeThroughHandler m s i).2 = (writeThroughHandler m' s i).2 := by
    intro m m' s i hm hm'
    cases i with
    | register k v ok => rfl
    | remove k ok => rfl
    | use k => rw [(FxVerif.Proofs.C17.writeThrough_use m s k hm).1, (FxVerif.Proofs.C17.writeThrough_use m' s k hm').1]
  have r₁ := FxVerif.Proofs.C17.run_eq_pure_coherent_on writeThroughHandler [] coherent (fun e => committing e = true)
    hinit hdel hserve hindep evs₁ ⟨m₁, s⟩ c₁ h₁
  have r₂ := FxVerif.Proofs.C17.run_eq_pure_coherent_on writeThroughHandler [] coherent (fun e => committing e = true)
    hinit hdel hserve hindep evs₂ ⟨m₂, s⟩ c₂ h₂
  rw [r₁.1, r₁.2, r₂.1, r₂.2, hb]
  exact ⟨rfl, rfl⟩


/-! ## (j) reads at another height; the regenerated read-path programs of the keepers -/

/-- obligation over the regenerated read / write paths of the keepers: no step reads or writes process memory -/
theorem reader_programs_memory_free : readerProgs.all readerCovered = true := by decide

/-- the two entry points through which block execution consults the switch parameters — `GetDisabledMsgs` (ante
`DisableMsgDecorator`) and `CheckDisabledPrecompiles` (`Contract.Run` of the crosschain and staking precompiles) — are in the
regenerated list, reach `GetSwitchParams` by a call within the keeper, and everything they call within the keeper (to depth 4) is
in the list and free of process-memory steps -/
theorem switch_entry_points_closed :
    ((readerOf "x/gov/keeper" "Keeper.GetDisabledMsgs").map (callsClosed 4)) = some true ∧
    ((readerOf "x/gov/keeper" "Keeper.CheckDisabledPrecompiles").map (callsClosed 4)) = some true ∧
    ((readerOf "x/gov/keeper" "Keeper.GetDisabledMsgs").map (fun r => r.steps.any (fun s => s.kind == "call" && s.arg == "GetSwitchParams"))) = some true ∧
    ((readerOf "x/gov/keeper" "Keeper.CheckDisabledPrecompiles").map (fun r => r.steps.any (fun s => s.kind == "call" && s.arg == "GetSwitchParams"))) = some true := by
  decide

/-- the archive-node theorem: state and delivered outputs depend on the block history only — not on restarts, state syncs,
served executions at the latest height or reads at ANY older height — whenever an invariant relating memory and the LATEST state
is established by construction for every state, kept by delivered transactions with the new state, kept with the latest state by
every execution whose effect is discarded, on whatever state it ran (`hforeign`; `s' = s` is the round-4 hypothesis about served
executions), and state effect and output do not depend on the memory under it -/
theorem versioned_coherent_cache_process_history_irrelevant {M S I O : Type} (h : Handler M S I O) (m₀ : M) (Inv : M → S → Prop)
    (hinit : ∀ s, Inv m₀ s)
    (hdel : ∀ m s i, Inv m s → Inv (h m s i).1 (h m s i).2.1)
    (hforeign : ∀ m s s' i, Inv m s → Inv (h m s' i).1 s)
    (hindep : ∀ m m' s i, Inv m s → Inv m' s → (h m s i).2 = (h m' s i).2)
    (evs₁ evs₂ : List (VEv I)) (hb : blocksOfV evs₁ = blocksOfV evs₂) (n₁ n₂ : VNode M S) (hs : n₁.st = n₂.st)
    (h₁ : Inv n₁.mem n₁.st) (h₂ : Inv n₂.mem n₂.st) :
    (runV h m₀ n₁ evs₁).1.st = (runV h m₀ n₂ evs₂).1.st ∧ (runV h m₀ n₁ evs₁).2 = (runV h m₀ n₂ evs₂).2 := by
  have r₁ := FxVerif.Proofs.C17.runV_eq_pure_on h m₀ Inv (fun _ => True) hinit (fun m s i _ => hdel m s i)
    (fun m s i _ => hforeign m s s i) (fun m s s' _ i _ => hforeign m s s' i) hindep evs₁ n₁ (fun _ _ => trivial) h₁
  have r₂ := FxVerif.Proofs.C17.runV_eq_pure_on h m₀ Inv (fun _ => True) hinit (fun m s i _ => hdel m s i)
    (fun m s i _ => hforeign m s s i) (fun m s s' _ i _ => hforeign m s s' i) hindep evs₂ n₂ (fun _ _ => trivial) h₂
  rw [r₁.1, r₁.2, r₂.1, r₂.2, hb, hs]
  exact ⟨rfl, rfl⟩

/-- EVERY getter program without memory steps (with any setter program), interpreted: nodes with ANY memories and ANY older versions agree
on state and outputs for all process histories with equal block histories — including reads at older heights -/
theorem memFree_programs_process_history_irrelevant (get set : List RStep) (hg : memFree get = true)
    (evs₁ evs₂ : List (VEv ParMsg)) (hb : blocksOfV evs₁ = blocksOfV evs₂) (n₁ n₂ : VNode (Option Params) ParStore)
    (hs : n₁.st = n₂.st) :
    (runV (progHandler get set) none n₁ evs₁).1.st = (runV (progHandler get set) none n₂ evs₂).1.st ∧
    (runV (progHandler get set) none n₁ evs₁).2 = (runV (progHandler get set) none n₂ evs₂).2 := by
  have hindep : ∀ (m m' : Option Params) (s : ParStore) (i : ParMsg), (progHandler get set m s i).2 = (progHandler get set m' s i).2 := by
    intro m m' s i
    cases i with
    | update p ok => rfl
    | use name =>
      simp only [progHandler]
      rw [FxVerif.Proofs.C17.runGetter_memFree get hg m s, FxVerif.Proofs.C17.runGetter_memFree get hg m' s]
  exact versioned_coherent_cache_process_history_irrelevant (progHandler get set) none (fun _ _ => True) (fun _ => trivial)
    (fun _ _ _ _ => trivial) (fun _ _ _ _ _ => trivial) (fun m m' s i _ _ => hindep m m' s i) evs₁ evs₂ hb n₁ n₂ hs trivial trivial

/-- … in particular the REGENERATED programs of `GetSwitchParams` / `SetSwitchParams` -/
theorem switch_params_source_process_history_irrelevant (evs₁ evs₂ : List (VEv ParMsg)) (hb : blocksOfV evs₁ = blocksOfV evs₂)
    (n₁ n₂ : VNode (Option Params) ParStore) (hs : n₁.st = n₂.st) :
    (runV (progHandler switchGet switchSet) none n₁ evs₁).1.st = (runV (progHandler switchGet switchSet) none n₂ evs₂).1.st ∧
    (runV (progHandler switchGet switchSet) none n₁ evs₁).2 = (runV (progHandler switchGet switchSet) none n₂ evs₂).2 :=
  memFree_programs_process_history_irrelevant switchGet switchSet (by decide) evs₁ evs₂ hb n₁ n₂ hs

/-- … and they compute what the cache-free handler computes (the interpretation of the source programs is the code as it is) -/
theorem switch_params_source_is_noCache (mem : Option Params) (store : ParStore) (m : ParMsg) :
    progHandler switchGet switchSet mem store m = noCacheParHandler mem store m := by
  cases m with
  | update p ok => rfl
  | use name =>
    cases store with
    | none => cases mem <;> rfl
    | some p => cases mem <;> rfl

/-- the interpreter turns the programs of the seeded change into the unkeyed read-through cache -/
theorem cached_programs_are_read_through (mem : Option Params) (store : ParStore) (m : ParMsg) :
    progHandler cachedGet cachedSet mem store m = readThroughHandler mem store m := by
  cases m with
  | update p ok => rfl
  | use name =>
    cases mem with
    | some p => rfl
    | none => cases store <;> rfl

/-- the seeded shape needs BOTH a restart and a read at an older height before the next use: after the parameters changed, a
restarted node that first answers a query for the old height refuses / admits differently from a node that did not — while a
restart alone, or the historical read alone (memory already filled), changes nothing -/
theorem readThrough_historical_read_breaks_determinism :
    (runV readThroughHandler none ⟨none, none, []⟩ [.deliver (.update ["send"] true), .deliver (.use "send")]).2 ≠
      (runV readThroughHandler none ⟨none, none, []⟩
        [.deliver (.update ["send"] true), .restart, .serveAt 0 (.use "x"), .deliver (.use "send")]).2 ∧
    (runV readThroughHandler none ⟨none, none, []⟩ [.deliver (.update ["send"] true), .deliver (.use "send")]).2 =
      (runV readThroughHandler none ⟨none, none, []⟩ [.deliver (.update ["send"] true), .restart, .deliver (.use "send")]).2 ∧
    (runV readThroughHandler none ⟨none, none, []⟩ [.deliver (.update ["send"] true), .deliver (.use "send")]).2 =
      (runV readThroughHandler none ⟨none, none, []⟩ [.deliver (.update ["send"] true), .serveAt 0 (.use "x"), .deliver (.use "send")]).2 ∧
    (runV noCacheParHandler none ⟨none, none, []⟩ [.deliver (.update ["send"] true), .deliver (.use "send")]).2 =
      (runV noCacheParHandler none ⟨none, none, []⟩
        [.deliver (.update ["send"] true), .restart, .serveAt 0 (.use "x"), .deliver (.use "send")]).2 := by decide

/-- reads at the LATEST height keep the unkeyed cache coherent (hypothesis (3) of the round-4 theorem holds for them — which is why
replicas that only serve the latest state never see this cache); it is the hypothesis about reads on ANOTHER state that fails -/
theorem readThrough_violates_exactly_the_foreign_read_hypothesis :
    (∀ (m : Option Params) (s : ParStore) (name : String), cohP m s → cohP (readThroughHandler m s (.use name)).1 s) ∧
    ¬ (∀ (m : Option Params) (s s' : ParStore) (i : ParMsg), cohP m s → cohP (readThroughHandler m s' i).1 s) := by
  constructor
  · intro m s name hm
    cases m with
    | some p => exact hm
    | none => intro p hp; simp only [readThroughHandler, Option.some.injEq] at hp; exact hp.symm
  · intro h
    have := h none (some ["send"]) none (.use "x") (by intro p hp; cases hp) [] rfl
    simp [paramsOf] at this

/-- on process histories whose every read is at the latest height and whose every executed update is committed, the unkeyed
read-through cache cannot be observed: nodes with any coherent memories, any older versions and equal block histories agree -/
theorem readThrough_cache_invisible_without_foreign_reads (evs₁ evs₂ : List (VEv ParMsg))
    (c₁ : ∀ e ∈ evs₁, latestOnly e = true) (c₂ : ∀ e ∈ evs₂, latestOnly e = true) (hb : blocksOfV evs₁ = blocksOfV evs₂)
    (n₁ n₂ : VNode (Option Params) ParStore) (hs : n₁.st = n₂.st) (h₁ : cohP n₁.mem n₁.st) (h₂ : cohP n₂.mem n₂.st) :
    (runV readThroughHandler none n₁ evs₁).1.st = (runV readThroughHandler none n₂ evs₂).1.st ∧
    (runV readThroughHandler none n₁ evs₁).2 = (runV readThroughHandler none n₂ evs₂).2 := by
  have hinit : ∀ s : ParStore, cohP none s := by intro s p hp; cases hp
  have huse : ∀ (m : Option Params) (s : ParStore) (name : String), cohP m s →
      readThroughHandler m s (.use name) = (some (paramsOf s), s, (paramsOf s).contains name) := by
    intro m s name hm
    cases m with
    | none => rfl
    | some p => have := hm p rfl; subst this; rfl
  have hdel : ∀ (m : Option Params) (s : ParStore) (i : ParMsg), latestOnly (.deliver i) = true → cohP m s →
      cohP (readThroughHandler m s i).1 (readThroughHandler m s i).2.1 := by
    intro m s i hc hm
    cases i with
    | update p ok =>
      simp only [latestOnly] at hc; subst hc
      intro q hq; simp only [readThroughHandler, Option.some.injEq] at hq; simp [readThroughHandler, paramsOf, hq]
    | use name => rw [huse m s name hm]; intro q hq; simp only [Option.some.injEq] at hq; exact hq.symm
  have hserve : ∀ (m : Option Params) (s : ParStore) (i : ParMsg), latestOnly (.serve i) = true → cohP m s →
      cohP (readThroughHandler m s i).1 s := by
    intro m s i hc hm
    cases i with
    | update p ok => simp [latestOnly] at hc
    | use name => rw [huse m s name hm]; intro q hq; simp only [Option.some.injEq] at hq; exact hq.symm
  have hforeign : ∀ (m : Option Params) (s s' : ParStore) (k : Nat) (i : ParMsg), latestOnly (.serveAt k i) = true → cohP m s →
      cohP (readThroughHandler m s' i).1 s := by
    intro m s s' k i hc; simp [latestOnly] at hc
  have hindep : ∀ (m m' : Option Params) (s : ParStore) (i : ParMsg), cohP m s → cohP m' s →
      (readThroughHandler m s i).2 = (readThroughHandler m' s i).2 := by
    intro m m' s i hm hm'
    cases i with
    | update p ok => rfl
    | use name => rw [huse m s name hm, huse m' s name hm']
  have r₁ := FxVerif.Proofs.C17.runV_eq_pure_on readThroughHandler none cohP (fun e => latestOnly e = true)
    hinit hdel hserve hforeign hindep evs₁ n₁ c₁ h₁
  have r₂ := FxVerif.Proofs.C17.runV_eq_pure_on readThroughHandler none cohP (fun e => latestOnly e = true)
    hinit hdel hserve hforeign hindep evs₂ n₂ c₂ h₂
  rw [r₁.1, r₁.2, r₂.1, r₂.2, hb, hs]
  exact ⟨rfl, rfl⟩

/-- a derived structure cached under an INJECTIVE fingerprint of the parameters (the parameters themselves, a collision-free
digest) is invisible: all process histories — restarts, state syncs, served executions, reads at older heights — with equal block
histories give equal states and outputs, from any memories of that form -/
theorem fingerprint_cache_process_history_irrelevant {F D : Type} [DecidableEq F] (fp : Params → F) (derive : Params → D)
    (ask : D → String → Bool) (hinj : ∀ p q, fp p = fp q → derive p = derive q)
    (evs₁ evs₂ : List (VEv ParMsg)) (hb : blocksOfV evs₁ = blocksOfV evs₂) (n₁ n₂ : VNode (Option (F × D)) ParStore)
    (hs : n₁.st = n₂.st) (h₁ : fingerInv fp derive n₁.mem) (h₂ : fingerInv fp derive n₂.mem) :
    (runV (fingerHandler fp derive ask) none n₁ evs₁).1.st = (runV (fingerHandler fp derive ask) none n₂ evs₂).1.st ∧
    (runV (fingerHandler fp derive ask) none n₁ evs₁).2 = (runV (fingerHandler fp derive ask) none n₂ evs₂).2 := by
  have key : ∀ (m : Option (F × D)) (s : ParStore) (i : ParMsg), fingerInv fp derive m →
      (fingerHandler fp derive ask m s i).2 = derivePure derive ask s i ∧ fingerInv fp derive (fingerHandler fp derive ask m s i).1 := by
    intro m s i hm
    cases i with
    | update p ok => exact ⟨rfl, hm⟩
    | use name =>
      have fresh : fingerInv fp derive (some (fp (paramsOf s), derive (paramsOf s))) := by
        intro f d h; simp only [Option.some.injEq, Prod.mk.injEq] at h; exact ⟨paramsOf s, h.1.symm, h.2.symm⟩
      cases m with
      | none => exact ⟨rfl, fresh⟩
      | some fd =>
        obtain ⟨f, d⟩ := fd
        simp only [fingerHandler, derivePure]
        by_cases hf : f = fp (paramsOf s)
        · simp only [hf, if_true]
          obtain ⟨p, hp, hd⟩ := hm f d rfl
          have : derive p = derive (paramsOf s) := hinj _ _ (hp.symm.trans hf)
          refine ⟨by rw [hd, this], ?_⟩
          rw [← hf]; exact hm
        · simp only [hf, if_false]
          exact ⟨trivial, fresh⟩
  have hindep : ∀ (m m' : Option (F × D)) (s : ParStore) (i : ParMsg), fingerInv fp derive m → fingerInv fp derive m' →
      (fingerHandler fp derive ask m s i).2 = (fingerHandler fp derive ask m' s i).2 :=
    fun m m' s i hm hm' => by rw [(key m s i hm).1, (key m' s i hm').1]
  have r₁ := FxVerif.Proofs.C17.runV_eq_pure_on (fingerHandler fp derive ask) none (fun m _ => fingerInv fp derive m) (fun _ => True)
    (fun _ f d h => by cases h) (fun m s i _ hm => (key m s i hm).2) (fun m s i _ hm => (key m s i hm).2)
    (fun m _ s' _ i _ hm => (key m s' i hm).2) hindep evs₁ n₁ (fun _ _ => trivial) h₁
  have r₂ := FxVerif.Proofs.C17.runV_eq_pure_on (fingerHandler fp derive ask) none (fun m _ => fingerInv fp derive m) (fun _ => True)
    (fun _ f d h => by cases h) (fun m s i _ hm => (key m s i hm).2) (fun m s i _ hm => (key m s i hm).2)
    (fun m _ s' _ i _ hm => (key m s' i hm).2) hindep evs₂ n₂ (fun _ _ => trivial) h₂
  rw [r₁.1, r₁.2, r₂.1, r₂.2, hb, hs]
  exact ⟨rfl, rfl⟩

/-- the LENGTH of the list is not such a fingerprint: after a second governance change to a list of the same length, a node that
kept its process answers from the structure built for the first list, a restarted node from the second — no read at another
height is needed, two cooperating changes are -/
theorem length_fingerprint_breaks_determinism :
    (runV (fingerHandler List.length id (fun d n => d.contains n)) none ⟨none, none, []⟩
      [.deliver (.update ["a"] true), .deliver (.use "b"), .deliver (.update ["b"] true), .deliver (.use "b")]).2 ≠
    (runV (fingerHandler List.length id (fun d n => d.contains n)) none ⟨none, none, []⟩
      [.deliver (.update ["a"] true), .deliver (.use "b"), .deliver (.update ["b"] true), .restart, .deliver (.use "b")]).2 ∧
    (runV (fingerHandler List.length id (fun d n => d.contains n)) none ⟨none, none, []⟩
      [.deliver (.update ["a"] true), .deliver (.use "b"), .deliver (.update ["b", "c"] true), .deliver (.use "b")]).2 =
    (runV (fingerHandler List.length id (fun d n => d.contains n)) none ⟨none, none, []⟩
      [.deliver (.update ["a"] true), .deliver (.use "b"), .deliver (.update ["b", "c"] true), .restart, .deliver (.use "b")]).2 := by decide

-- non-vacuity
example : committing (.deliver (.register "p" 7 true)) = true ∧ committing (.serve (.register "p" 7 true)) = false ∧
    committing (.deliver (.register "p" 7 false)) = false ∧ committing (.serve (.use "p")) = true := by decide
example : procSites.length ≥ 5 := by decide
example : sliceFeeders.length ≥ 2 := by decide
example : (run Sched.id ⟨[⟨"o1", 1, true, 5⟩, ⟨"o2", 1, true, 5⟩, ⟨"o3", 10, true, 5⟩], ["o1", "o2", "o3"], 7, [], [], 0⟩
    [.updateOracles ["o3"], .powerDiff [("a", 5), ("b", 7)] [("b", 2), ("c", 4)]]).2 = [.unbonded [("o1", 7), ("o2", 8)], .num 14] := by decide
example : createBatchFees [⟨"b", 5, 10⟩, ⟨"a", 1, 5⟩, ⟨"b", 3, 7⟩, ⟨"b", 2, 1⟩] 2 [("a", 2)] = [("b", 8, 17, 2)] := by decide
example : sites.length ≥ 20 := by decide
example : sortSites.length ≥ 5 := by decide
example : meetsSortContract missedLe [⟨0, "a"⟩, ⟨3, "b"⟩, ⟨0, "c"⟩] [⟨3, "b"⟩, ⟨0, "c"⟩, ⟨0, "a"⟩] = true ∧
    meetsSortContract missedLe [⟨0, "a"⟩, ⟨3, "b"⟩] [⟨0, "a"⟩, ⟨3, "b"⟩] = false := by decide
example : (sortSites.filter (fun s => (sortClassify s).map (·.1) == some .wholeElement)).length ≥ 3 := by decide
example : cmpRec [⟨"Online", true, "bool"⟩, ⟨"Key", false, "bytes"⟩, ⟨"Delta", false, "int"⟩] [("Online", .bool true), ("Key", .bytes [1, 2]), ("Delta", .int (-3))]
    [("Online", .bool false), ("Key", .bytes [0]), ("Delta", .int 4)] = .lt ∧
  cmpRec [⟨"Online", true, "bool"⟩, ⟨"Key", false, "bytes"⟩, ⟨"Delta", false, "int"⟩] [("Online", .bool true), ("Key", .bytes [1, 2]), ("Delta", .int (-3))]
    [("Online", .bool true), ("Key", .bytes [1, 2]), ("Delta", .int 4)] = .lt := by decide
example : cmpRec oracleSetKeys (memberRec 5 "0xa") (memberRec 5 "0xb") = .lt ∧ cmpRec oracleSetKeys (memberRec 5 "0xa") (memberRec 7 "0x0") = .gt := by decide
example : sortMemberRecs [memberRec 5 "0xb", memberRec 7 "0xc", memberRec 5 "0xa"] = [memberRec 7 "0xc", memberRec 5 "0xa", memberRec 5 "0xb"] := by decide
example : render (2 ^ 32 - 1) = 10 ^ 8 ∧ showFixed 8 (render 123456789012) = "28.74452366" := by decide
example : needsOracleSet 429496709 (10 ^ 17) = true ∧ needsOracleSet 429496708 (10 ^ 17) = false := by decide
example : powerDiffStep [3, -4, 0] (10 ^ 17) = some (0, false) := by decide
example : (fdiv 1 powerDiffDivisor) = ⟨4503599628419072, 84⟩ ∧ render 429496708 < render 429496709 := by decide
example : sortMembers [⟨5, "0xb"⟩, ⟨7, "0xc"⟩, ⟨5, "0xa"⟩] = [⟨7, "0xc"⟩, ⟨5, "0xa"⟩, ⟨5, "0xb"⟩] := by decide
example : powerDiffStep [2 ^ 31, 5, -4] (10 ^ 17) = some (50000000, true) := by decide
example : absSum [3, -4, 0] = 7 := by decide
example : powerDiffNumerator [("a", 5), ("b", 7)] [("b", 2), ("c", 4)] = 5 + 5 + 4 := by decide
example : tokenTotals [("b", 2, 10), ("a", 1, 5), ("b", 3, 7)] "b" = (5, 17, 2) := by decide
example : tally [(1, 0, 0, 0, 1), (0, 2, 0, 0, 2)] = (1, 2, 0, 0, 3) := by decide
example : decodeSites.length ≥ 4 ∧ (decodeSites.filter (fun d => !d.oneofs.isEmpty)).length ≥ 1 := by decide
example : ackSteps = [.decode, .canon, .inner, .dataDecode, .hook, .ret] := by decide
example : runAck ackSteps Sched.rev ⟨0, 0, 0, 0, 0⟩ 5 bothArms = (⟨0, 0, 0, 0, 1⟩, some "not-canonical") := by decide
example : runAck ackSteps Sched.rev ⟨0, 0, 0, 0, 0⟩ 5 (canonOf (some (.error "x"))) = (⟨5, 5, 0, 10, 2⟩, none) := by decide
example : runAck ackSteps Sched.id ⟨0, 0, 0, 0, 0⟩ 5 (canonOf (some (.result "AQ=="))) = (⟨0, 0, 1, 1, 2⟩, none) := by decide
example : runAck ackSteps Sched.id ⟨0, 0, 0, 0, 0⟩ 5 ⟨[("result", "AQ==")], 1⟩ = (⟨0, 0, 0, 0, 1⟩, some "not-canonical") := by decide
example : (runEvs (validatedHandler (· + 1)) [] ⟨[], [("p", 7)]⟩ [.serve (.register "p" 9 true), .deliver (.use "p"), .deliver (.use "q")]).2 = [some 8, none] := by decide
example : coherent [("p", 7)] [("p", 7)] := fun _ _ h => h

set_option maxRecDepth 8000 in
example : readerProgs.length ≥ 100 ∧ (readerProgs.filter (fun r => r.steps.any (fun s => s.kind == "store"))).length ≥ 40 := by decide
example : switchGet = [.store, .retIfNil, .decode, .ret] ∧ memFree switchGet = true ∧ memFree switchSet = true ∧ memFree cachedGet = false := by decide
example : switchGetOp (some ["stale"]) (some ["send"]) = ["send"] ∧ switchGetOp none none = [] ∧
    (runGetter cachedGet (some ["stale"]) (some ["send"])).2 = ["stale"] ∧ (runGetter cachedGet none (some ["send"])) = (some ["send"], ["send"]) := by decide
example : latestOnly (.deliver (.update ["a"] true)) = true ∧ latestOnly (.serveAt 0 (.use "a")) = false ∧ latestOnly (.serve (.use "a")) = true := by decide
example : cohP (some ["a"]) (some ["a"]) ∧ cohP none (some ["a"]) := ⟨fun p hp => by cases hp; rfl, fun p hp => by cases hp⟩
example : (runV (progHandler switchGet switchSet) none ⟨some ["stale"], none, []⟩
    [.deliver (.update ["send"] true), .restart, .serveAt 0 (.use "x"), .deliver (.use "send"), .sync, .serveAt 0 (.use "y"), .deliver (.use "other")]).2 = [false, true, false] := by decide
example : fingerInv (fun p : Params => p) (fun p => p.length) (some (["a"], 1)) := fun f d h => by
  simp only [Option.some.injEq, Prod.mk.injEq] at h; exact ⟨["a"], h.1.symm, h.2.symm⟩
end FxVerif.Props.C17
