import FxVerif.Model.C17
/-!
# C17 — deterministic block execution (the part a Lean model can carry)

(a) every map iteration / float / clock / goroutine site of the state-affecting fx-core packages is in the reviewed
inventory with a class consistent with what the typed translator saw (`inventory_covered`, re-decided on every run);
(b) for each class, the modelled computation is independent of the iteration order (permutation of the entries), hence
of Go's randomised map order.  IEEE-754 exactness of integer sums below 2^53 is the named assumption for `permSum`.
Process-, scheduler- and dependency-level nondeterminism is outside the model: validated by repeated-process runs.
-/
namespace FxVerif.Props.C17
open FxVerif.Gen.C17 FxVerif.Model.C17 List

/-- obligation over the regenerated inventory -/
theorem inventory_covered : sites.all covered = true := by decide

/-- no wall-clock, goroutine, select or random-number use on a state-affecting path -/
theorem no_clock_goroutine_random :
    sites.all (fun s => s.kind == "mapRange" || s.kind == "float") = true := by decide

/-- PowerDiff: the sum of absolute differences does not depend on the map iteration order -/
theorem absSum_perm {l₁ l₂ : List Int} (h : l₁.Perm l₂) : absSum l₁ = absSum l₂ := by
  unfold absSum
  exact (h.map _).sum_nat

/-- PowerDiff: every partial sum is an integer below 2^53 (so each float64 addition is exact, in any order), when the
per-member differences are at most 2^32 (normalised powers) and there are at most 2^20 members -/
theorem prefix_sums_exact (l : List Int) (hb : ∀ v ∈ l, v.natAbs ≤ 2 ^ 32) (hn : l.length ≤ 2 ^ 20) (k : Nat) :
    absSum (l.take k) < 2 ^ 53 := by
  have key : ∀ (m : List Int), (∀ v ∈ m, v.natAbs ≤ 2 ^ 32) → absSum m ≤ m.length * 2 ^ 32 := by
    intro m
    induction m with
    | nil => intro _; simp [absSum]
    | cons a t ih =>
      intro hm
      have h1 := hm a (by simp)
      have h2 := ih (fun v hv => hm v (by simp [hv]))
      simp only [absSum, map_cons, sum_cons, length_cons] at *
      omega
  have hlen : (l.take k).length ≤ 2 ^ 20 := by
    rw [length_take]; omega
  have := key (l.take k) (fun v hv => hb v (mem_of_mem_take hv))
  have h3 : (l.take k).length * 2 ^ 32 ≤ 2 ^ 20 * 2 ^ 32 := Nat.mul_le_mul_right _ hlen
  omega

/-- collect-then-sort with distinct keys: any two strictly sorted arrangements of the same entries are equal, so the
result of *any* correct sort (Go's unstable `sort.Slice` included) is independent of the collection order -/
theorem sorted_perm_unique {α : Type} (lt : α → α → Prop) (asymm : ∀ a b, lt a b → ¬ lt b a) :
    ∀ (l₁ l₂ : List α), l₁.Perm l₂ → l₁.Pairwise lt → l₂.Pairwise lt → l₁ = l₂ := by
  intro l₁
  induction l₁ with
  | nil => intro l₂ h _ _; exact (h.symm.eq_nil).symm
  | cons a t ih =>
    intro l₂ h s₁ s₂
    cases l₂ with
    | nil => exact absurd h.eq_nil (by simp)
    | cons b u =>
      have hab : a = b := by
        have ha : a ∈ b :: u := h.subset (by simp)
        have hb : b ∈ a :: t := h.symm.subset (by simp)
        rcases mem_cons.mp ha with h1 | h1
        · exact h1
        · rcases mem_cons.mp hb with h2 | h2
          · exact h2.symm
          · have r1 := (pairwise_cons.mp s₂).1 a h1
            have r2 := (pairwise_cons.mp s₁).1 b h2
            exact absurd r1 (asymm _ _ r2)
      subst hab
      have ht : t.Perm u := (perm_cons a).mp h
      rw [ih u ht (pairwise_cons.mp s₁).2 (pairwise_cons.mp s₂).2]

/-- corollary in the shape used: a sort that returns a strictly sorted permutation of its input gives the same list for
every iteration order of the same (distinct-key) entries -/
theorem sort_output_order_independent {α : Type} (lt : α → α → Prop) (asymm : ∀ a b, lt a b → ¬ lt b a)
    (sort : List α → List α) (hs : ∀ l, (sort l).Perm l) (hsorted : ∀ l, l.Nodup → (sort l).Pairwise lt)
    (l₁ l₂ : List α) (h : l₁.Perm l₂) (hn : l₁.Nodup) : sort l₁ = sort l₂ :=
  sorted_perm_unique lt asymm _ _ ((hs l₁).trans (h.trans (hs l₂).symm)) (hsorted l₁ hn) (hsorted l₂ (h.nodup_iff.mp hn))

/-- gov tally: accumulating the validators' contributions with exact addition is order-independent -/
theorem tally_perm {l₁ l₂ : List Vec5} (h : l₁.Perm l₂) : tally l₁ = tally l₂ := by
  unfold tally
  apply h.foldl_eq'
  intro x _ y _ z
  simp only [vadd, Prod.mk.injEq]
  omega

/-- map copy: the resulting map (as a lookup function) is the same for every insertion order of distinct keys -/
theorem lookup_perm {l₁ l₂ : List (String × Nat)} (h : l₁.Perm l₂) (hn : (l₁.map (·.1)).Nodup) (k : String) :
    mapLookup l₁ k = mapLookup l₂ k := by
  unfold mapLookup
  induction h with
  | nil => rfl
  | cons x _ ih =>
    simp only [find?_cons]
    split
    · rfl
    · exact ih (by simp only [map_cons, nodup_cons] at hn; exact hn.2)
  | swap x y l =>
    simp only [find?_cons]
    simp only [map_cons, nodup_cons, mem_cons, not_or] at hn
    by_cases hx : x.1 == k <;> by_cases hy : y.1 == k <;> simp [hx, hy]
    have : x.1 = y.1 := by rw [beq_iff_eq.mp hx, beq_iff_eq.mp hy]
    exact absurd this.symm hn.1.1
  | trans p₁ _ ih₁ ih₂ =>
    rw [ih₁ hn, ih₂ ((p₁.map _).nodup_iff.mp hn)]

/-- batch fees: the totals accumulated per token (fee sum, amount sum, tx count) do not depend on the order in which the
pool entries are visited / the map is filled -/
theorem tokenTotals_perm {l₁ l₂ : List (String × Nat × Nat)} (h : l₁.Perm l₂) (t : String) :
    tokenTotals l₁ t = tokenTotals l₂ t := by
  unfold tokenTotals
  have hf := h.filter (fun e => e.1 == t)
  simp only [Prod.mk.injEq]
  exact ⟨(hf.map _).sum_nat, (hf.map _).sum_nat, hf.length_eq⟩

-- non-vacuity
example : sites.length ≥ 20 := by decide
example : absSum [3, -4, 0] = 7 := by decide
example : powerDiffNumerator [("a", 5), ("b", 7)] [("b", 2), ("c", 4)] = 5 + 5 + 4 := by decide
example : tokenTotals [("b", 2, 10), ("a", 1, 5), ("b", 3, 7)] "b" = (5, 17, 2) := by decide
example : tally [(1, 0, 0, 0, 1), (0, 2, 0, 0, 2)] = (1, 2, 0, 0, 3) := by decide

end FxVerif.Props.C17
