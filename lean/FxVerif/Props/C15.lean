import FxVerif.Model.C15
import FxVerif.Proofs.C15
/-!
# C15 — governance deposits are conserved and proposals follow their message-type rules

Property theorems only.  The model (`FxVerif.Model.C15`) is driven by `FxVerif.Gen.C15`, regenerated from `/repo` on every
run: which url `getProposalMsgType` / the EGF rule read, which duration the expedited→regular conversion adds, where the
tally quorum comes from, the comparison used for activation, how the EGF share is combined with the default minimum, the
refund/burn guards, cached execution.  The facts the proofs need are taken by `rfl`/`decide` from those definitions, so a
change of the source that invalidates one of them stops the corresponding theorem from checking.

`run init ops` is the state after an arbitrary history; theorems that hold in *every* state are stated for every state
(and therefore also between any two changes of the custom parameters).
-/
namespace FxVerif.Props.C15
open FxVerif.Gen.C15 FxVerif.Model.C15 FxVerif.Proofs.C15

/-! ## specification-side definitions (independent of the Gen-driven choice points) -/

/-- the proposal's message type: the type url of its (first) message -/
def typeOf (msgs : List Msg) : Ty := match msgs with | [] => [] | m :: _ => m.ty

/-- voting period configured for a message type at this moment -/
def specPeriod (pr : Params) (custom : List (Ty × Custom)) (msgs : List Msg) (expedited : Bool) : Nat :=
  match getCustom custom (typeOf msgs) with
  | some c => c.votingPeriod
  | none => if expedited then pr.expVotingPeriod else pr.votingPeriod

/-- quorum configured for a message type at this moment -/
def specQuorum (pr : Params) (custom : List (Ty × Custom)) (msgs : List Msg) : Nat :=
  match getCustom custom (typeOf msgs) with
  | some c => c.quorum
  | none => pr.quorum

def isSpendType (t : Ty) : Bool := lowerAscii t == lowerAscii egfUrl.toList

/-- requested community-pool amount in the deposit denom when every message is a community-pool spend -/
def specRequest : List Msg → Option Nat
  | [] => some 0
  | m :: r =>
    if isSpendType m.ty then
      match specRequest r, m.act with
      | some a, .credit fx _ _ => some (a + fx)
      | some a, _ => some a
      | none, _ => none
    else none

/-- the minimum deposit applicable to the messages: the default, or the configured share of the requested amount when
that is larger -/
def specMin (custom : List (Ty × Custom)) (dflt : Nat) (msgs : List Msg) : Nat :=
  match specRequest msgs, getCustom custom egfUrl.toList with
  | some req, some c => max dflt (mulRound req c.depositRatio)
  | _, _ => dflt

/-! ## conservation -/

/-- **every history**: the gov module account holds exactly the deposits of the proposals that are still in their
deposit or voting period (and there are no other deposit records) -/
theorem module_balance_eq_open_deposits (ops : List Op) :
    let s := run init ops
    s.gov = sumAmt (s.deps.filter (fun d => isOpenId s.props d.pid)) ∧
    s.deps.all (fun d => isOpenId s.props d.pid) = true := by
  intro s
  have hi : Inv s := run_inv rfl rfl rfl ops init init_inv
  have hall : s.deps.all (fun d => isOpenId s.props d.pid) = true := by
    rw [List.all_eq_true]; exact hi.recs
  refine ⟨?_, hall⟩
  rw [List.filter_eq_self.mpr (by simpa [List.all_eq_true] using hall)]
  exact hi.bal

/-- refund: the module pays out exactly the recorded deposits of the proposal, the records are deleted, nothing else of
the deposit book-keeping changes — in a state that satisfies the invariant it cannot fail -/
theorem each_deposit_settled_once_refund (ops : List Op) (pid : Nat) :
    let s := run init ops
    ∃ s', refundDeposits pid s = .ok s' ∧ s'.gov + sumAmt (depsOf s.deps pid) = s.gov ∧ s'.deps = depsNot s.deps pid ∧
      depsOf s'.deps pid = [] ∧
      s'.settled = s.settled ++ (depsOf s.deps pid).map (fun d => ⟨d.pid, d.who, d.amt, .refund⟩) := by
  intro s
  have hi : Inv s := run_inv rfl rfl rfl ops init init_inv
  obtain ⟨s', h⟩ := refundDeposits_total (pid := pid) hi.bal
  have sp := refundDeposits_spec hi.bal h
  refine ⟨s', h, ?_, sp.2.1, ?_, ?_⟩
  · have := sumAmt_split s.deps pid; have := hi.bal; rw [sp.1, sp.2.1]; omega
  · rw [sp.2.1]; simp [depsOf, depsNot, List.filter_filter]
  · unfold refundDeposits at h
    split at h
    · cases h
    · cases h; rfl

/-- burn: the same for `DeleteAndBurnDeposits`; the burnt amount is exactly the sum of the records, no account is credited -/
theorem each_deposit_settled_once_burn (ops : List Op) (pid : Nat) :
    let s := run init ops
    ∃ s', burnDeposits pid s = .ok s' ∧ s'.gov + sumAmt (depsOf s.deps pid) = s.gov ∧ s'.deps = depsNot s.deps pid ∧
      depsOf s'.deps pid = [] ∧ s'.bal = s.bal ∧ s'.burned = s.burned + sumAmt (depsOf s.deps pid) := by
  intro s
  have hi : Inv s := run_inv rfl rfl rfl ops init init_inv
  obtain ⟨s', h⟩ := burnDeposits_total (pid := pid) hi.bal
  have sp := burnDeposits_spec hi.bal h
  refine ⟨s', h, ?_, sp.2.1, ?_, ?_⟩
  · have := sumAmt_split s.deps pid; have := hi.bal; rw [sp.1, sp.2.1]; omega
  · rw [sp.2.1]; simp [depsOf, depsNot, List.filter_filter]
  · unfold burnDeposits at h
    simp only at h
    split at h
    · cases h
    · cases h; exact ⟨rfl, rfl⟩

/-- the refund loop credits every depositor exactly the amount of each of its records, once -/
theorem refund_credits_each_once : ∀ (ds : List Dep) (g : Nat) (b : List (Addr × Nat)) (g' : Nat) (b' : List (Addr × Nat)),
    refundLoop ds g b = .ok (g', b') → b' = ds.foldl (fun b d => credit b d.who d.amt) b := by
  intro ds
  induction ds with
  | nil => intro g b g' b' h; simp [refundLoop] at h; simp [h.2]
  | cons d r ih =>
    intro g b g' b' h
    simp only [refundLoop] at h
    split at h
    · cases h
    · simpa using ih _ _ _ _ h

/-- never twice, never both: in every reachable state a deposit record exists only for a proposal that is still open, so
a proposal that has ended (or was deleted) has no record left that a second refund or burn could pay out — a second
settlement of the same proposal moves nothing -/
theorem each_deposit_settled_once (ops : List Op) (pid : Nat) :
    let s := run init ops
    isOpenId s.props pid = false → depsOf s.deps pid = [] ∧ sumAmt (depsOf s.deps pid) = 0 := by
  intro s hclosed
  have hi : Inv s := run_inv rfl rfl rfl ops init init_inv
  have : depsOf s.deps pid = [] := by
    simp only [depsOf, List.filter_eq_nil_iff]
    intro d hd hpid
    have := hi.recs d hd
    simp only [beq_iff_eq] at hpid
    rw [hpid, hclosed] at this
    cases this
  exact ⟨this, by rw [this]; rfl⟩

/-! ## activation needs the minimum deposit -/

theorem egfRequest_eq_spec : ∀ msgs : List Msg, egfRequest msgs = (specRequest msgs).map (fun a => (a, (egfRequest msgs).elim 0 (·.2))) := by
  intro msgs
  induction msgs with
  | nil => simp [egfRequest, specRequest]
  | cons m r ih =>
    have h1 : egfSeenUrl m = m.ty := by simp [egfSeenUrl, show egfUrlIsMessageUrl = true from rfl]
    have h2 : isEgf m.ty = isSpendType m.ty := by simp [isEgf, isSpendType, show egfTypeCmp = "strings.EqualFold" from rfl]
    simp only [egfRequest, specRequest, h1, h2]
    by_cases hs : isSpendType m.ty = true
    · simp only [hs, if_true]
      rw [ih]
      cases hr : specRequest r with
      | none => simp
      | some a => cases m.act <;> simp
    · simp [hs]

/-- `reaches total (minimum computed by the code)` implies `specMin ≤ total`: the default minimum, and for community-pool
spends the configured share of the requested amount when that is larger — including requests in a non-deposit denom -/
theorem reaches_imp_specMin (custom : List (Ty × Custom)) (dflt total : Nat) (msgs : List Msg)
    (h : reaches total (minForMsgs custom dflt msgs) = true) : specMin custom dflt msgs ≤ total := by
  have hA : activationCmp = "IsAllGTE" := rfl
  have hB : egfCombine = "max" := rfl
  have hC : activationUsesMsgMin = true := rfl
  have hD : egfRounding = "RoundInt" := rfl
  have hreq := egfRequest_eq_spec msgs
  unfold minForMsgs at h
  simp only [hC, Bool.not_true, Bool.false_eq_true, if_false] at h
  unfold specMin
  cases hs : specRequest msgs with
  | none =>
    rw [hs] at hreq
    simp only [Option.map_none] at hreq
    simp only [hreq] at h
    simp only [reaches, hA] at h
    simp at h
    simp; exact h.2
  | some req =>
    rw [hs] at hreq
    simp only [Option.map_some] at hreq
    rw [hreq] at h
    simp only at h
    cases hc : getCustom custom egfUrl.toList with
    | none =>
      simp only [hc] at h
      simp only [reaches, hA] at h
      simp at h
      simp; exact h.2
    | some c =>
      simp only [hc] at h
      split at h
      · -- zero ratio: default; the share is 0
        rename_i hz
        simp only [reaches, hA] at h
        simp at h
        have hz' : c.depositRatio = 0 := by simpa [show egfZeroRatioIsDefault = true from rfl] using hz
        simp only [hz', mulRound, roundHalfEven, DEC]
        simp; exact h.2
      · have hne : ¬ ("max" == "share-unless-IsAllLT-default") = true := by decide
        simp only [hB, hne, if_false, beq_self_eq_true, if_true] at h
        simp only [reaches, hA] at h
        simp only [egfShare, hD] at h
        simp at h
        by_cases hr0 : req = 0
        · subst hr0
          simp only [if_true, Option.getD_none] at h
          have h0 : mulRound 0 c.depositRatio = 0 := by simp [mulRound, roundHalfEven, DEC]
          show max dflt (mulRound 0 c.depositRatio) ≤ total
          rw [h0]; exact Nat.max_le.mpr ⟨by omega, by omega⟩
        · simp only [hr0, if_false, Option.getD_some] at h
          show max dflt (mulRound req c.depositRatio) ≤ total
          exact Nat.max_le.mpr ⟨by omega, by omega⟩

/-- **activation ⇒ minimum deposit**: a successful `AddDeposit` (from `MsgDeposit` or the initial deposit of
`MsgSubmitProposal`) moves a proposal from its deposit period into voting only if its total deposit reaches the minimum
applicable to its message type (`specMin`), whatever the history, the parameters and the custom parameters are -/
theorem voting_requires_min_deposit (s : State) (p : Proposal) (who : Addr) (amt : Nat)
    (hdep : p.status = .deposit) (hfound : findProp s.props p.id = some p) :
    match findProp (depositEffect s p who amt).props p.id with
    | some p' => p'.status = .voting → specMin s.custom (if p.expedited then s.params.expMinDeposit else s.params.minDeposit) p.msgs ≤ p'.total
    | none => True := by
  unfold depositEffect
  simp only [hdep, beq_self_eq_true, Bool.true_and]
  by_cases hact : reaches (p.total + amt) (minForMsgs s.custom (defaultMin s p.expedited) p.msgs) = true
  · have := reaches_imp_specMin _ _ _ _ hact
    simp only [hact, if_true, activate, findProp_putProp, hfound, Option.map_some]
    intro _
    simpa [defaultMin] using this
  · simp only [hact, Bool.false_eq_true, if_false, findProp_putProp, hfound, if_true, Option.map_some]
    intro h; cases h

/-! ## period and quorum by message type -/

theorem activation_period_by_type (s : State) (p : Proposal) :
    activationPeriod s p = specPeriod s.params s.custom p.msgs p.expedited := by
  have h1 : activationUsesCustomPeriod = true := rfl
  have h2 : customPeriodLookupOk = true := rfl
  have h3 : activationDefaultByExpedited = true := rfl
  have h4 : propTypeIsMessageUrl = true := rfl
  have ht : propType p.msgs = typeOf p.msgs := by cases h : p.msgs <;> simp [propType, typeOf, h4]
  simp only [activationPeriod, specPeriod, h1, h2, h3, ht, Bool.and_self, if_true, Bool.true_and]
  cases getCustom s.custom (typeOf p.msgs) <;> cases p.expedited <;> simp

theorem conversion_period_by_type (s : State) (p : Proposal) :
    conversionPeriod s p = specPeriod s.params s.custom p.msgs false := by
  have h1 : conversionUsesCustomPeriod = true := rfl
  have h2 : customPeriodLookupOk = true := rfl
  have h4 : propTypeIsMessageUrl = true := rfl
  have ht : propType p.msgs = typeOf p.msgs := by cases h : p.msgs <;> simp [propType, typeOf, h4]
  simp only [conversionPeriod, specPeriod, h1, h2, ht, Bool.and_self, if_true]
  cases getCustom s.custom (typeOf p.msgs) <;> simp

theorem tally_quorum_by_type (s : State) (p : Proposal) : quorumFor s p = specQuorum s.params s.custom p.msgs := by
  have h1 : tallyQuorumByType = true := rfl
  have h2 : customQuorumLookupOk = true := rfl
  have h4 : propTypeIsMessageUrl = true := rfl
  have ht : propType p.msgs = typeOf p.msgs := by cases h : p.msgs <;> simp [propType, typeOf, h4]
  simp only [quorumFor, specQuorum, h1, h2, ht, Bool.and_self, if_true]
  rfl

/-- **period and quorum by type**, in every state (so also right after custom parameters were added, changed or
removed): (1) when voting starts the stored voting end is start + the period configured for the message type at that
moment; (2) a proposal fails for lack of quorum exactly when the turnout is below the quorum configured for its type at
that moment; (3) when a failed expedited proposal is converted, its new voting end is start + the *regular* period
configured for its type at that moment -/
theorem period_and_quorum_by_type (s : State) (p : Proposal) (e : TallyEnv) (pid : Nat) (s' : State) :
    (∀ q, findProp (activate s p).props p.id = some q → findProp s.props p.id = some p →
        q.votingStart = s.time ∧ q.votingEnd = s.time + specPeriod s.params s.custom p.msgs p.expedited ∧ q.status = .voting) ∧
    (e.bondedZero = false → e.pct < specQuorum s.params s.custom p.msgs → tally s p e = (false, s.params.burnVoteQuorum)) ∧
    (findProp s.props pid = some p → p.expedited = true → (tally s p e).1 = false → tallyOne e pid s = .ok s' →
        ∃ q, findProp s'.props pid = some q ∧ q.expedited = false ∧ q.status = p.status ∧ q.votingStart = p.votingStart ∧
          q.votingEnd = p.votingStart + specPeriod s.params s.custom p.msgs false) := by
  refine ⟨?_, ?_, ?_⟩
  · intro q hq hp
    simp only [activate, findProp_putProp, hp, if_true, Option.map_some, Option.some.injEq] at hq
    subst hq
    simp [activation_period_by_type]
  · intro hb hq
    rw [← tally_quorum_by_type s p] at hq
    simp [tally, hb, show tallyQuorumCmp = "LT" from rfl, hq]
  · intro hp hexp hfail h
    have hpid : p.id = pid := findProp_id hp
    unfold tallyOne at h
    simp only [hp] at h
    generalize htl : tally s p e = tl at h hfail
    obtain ⟨passes, burn⟩ := tl
    simp only at hfail
    subst hfail
    simp only [show settleShapeOk = true from rfl, hexp, if_true, Bool.not_false, Bool.and_self, Bool.not_true,
      Bool.false_eq_true, if_false] at h
    cases h
    simp only [findProp_putProp, hpid, hp, if_true, Option.map_some, Option.some.injEq, exists_eq_left']
    simp [conversion_period_by_type, specPeriod]

/-! ## one message type per proposal -/

/-- a submission is accepted only if all its messages have the same type url (compared like `strings.EqualFold`;
registered urls are unique up to case — checked on the real registry by the harness) -/
theorem single_type (s s' : State) (who : Addr) (msgs : List Msg) (initial : Nat) (exp : Bool)
    (h : submit s who msgs initial exp = .ok s') : ∀ a ∈ msgs, ∀ b ∈ msgs, lowerAscii a.ty = lowerAscii b.ty := by
  have hc : checkMsgs msgs = true := by
    unfold submit at h
    split at h
    · cases h
    · rename_i hc; simpa using hc
  cases msgs with
  | nil => intro a ha; cases ha
  | cons m r =>
    have key := lowerAscii_eq_of_checkMsgs rfl r m hc
    have all : ∀ x ∈ m :: r, lowerAscii x.ty = lowerAscii m.ty := by
      intro x hx
      rcases List.mem_cons.mp hx with hx | hx
      · rw [hx]
      · exact key x hx
    intro a ha b hb
    rw [all a ha, all b hb]

/-! ## all or nothing -/

/-- the messages of a passed proposal run on a cache: if one handler fails, the state is exactly the state before the
first message (none of the earlier messages' writes remain); otherwise all of them took effect in order -/
theorem messages_all_or_nothing (msgs : List Msg) (s : State) :
    ((runProposalMsgs msgs s).2 = false → (runProposalMsgs msgs s).1 = s) ∧
    ((runProposalMsgs msgs s).2 = true → execMsgs msgs s = some (runProposalMsgs msgs s).1) := by
  unfold runProposalMsgs
  simp only [show execInCacheCtx = true from rfl, if_true]
  cases h : execMsgs msgs s <;> simp

/-! ## gov half of C07: the end-blocker does not fail on refunds / burns -/

/-- in every reachable state the module account covers the refund or burn of any proposal's deposits: processing an
inactive-queue entry of a stored proposal succeeds -/
theorem gov_endblock_inactive_total (ops : List Op) (pid : Nat) (p : Proposal) :
    let s := run init ops
    findProp s.props pid = some p → ∃ s', dropInactive pid s = .ok s' := by
  intro s hp
  have hi : Inv s := run_inv rfl rfl rfl ops init init_inv
  unfold dropInactive
  simp only [hp, show inactiveSettleShapeOk = true from rfl, if_true]
  split
  · exact refundDeposits_total (by simpa using hi.bal)
  · exact burnDeposits_total (by simpa using hi.bal)

/-- … and so does the tally of an active-queue entry of a stored proposal, whatever the votes are and whether or not its
messages succeed (handler errors and panics are caught: `execMsg = none`) -/
theorem gov_endblock_active_total (ops : List Op) (pid : Nat) (p : Proposal) (e : TallyEnv) :
    let s := run init ops
    findProp s.props pid = some p → ∃ s', tallyOne e pid s = .ok s' := by
  intro s hp
  have hi : Inv s := run_inv rfl rfl rfl ops init init_inv
  unfold tallyOne
  simp only [hp, show settleShapeOk = true from rfl, if_true]
  generalize tally s p e = tl
  obtain ⟨passes, burn⟩ := tl
  simp only
  by_cases hk : (p.expedited && !passes) = true
  · simp only [hk, Bool.not_true, Bool.false_eq_true, if_false]
    split
    · exact ⟨_, rfl⟩
    · split <;> exact ⟨_, rfl⟩
  · have hk' : (p.expedited && !passes) = false := by simpa using hk
    simp only [hk', Bool.not_false, if_true]
    have : ∃ s1, (if burn = true then burnDeposits pid s else refundDeposits pid s) = .ok s1 := by
      split
      · exact burnDeposits_total hi.bal
      · exact refundDeposits_total hi.bal
    obtain ⟨s1, h1⟩ := this
    rw [h1]
    simp only
    split
    · exact ⟨_, rfl⟩
    · split <;> exact ⟨_, rfl⟩

/-- the end-blocker preserves the deposit invariant, so the two theorems above apply again in the next block; the only
error the modelled end-blocker can return in a reachable state is a queue entry without a stored proposal
(`…_partial`: that the queues only hold ids of stored proposals, each once, is compared with the real queues by the
harness on every step but not proved here) -/
theorem gov_endblock_total_partial (ops : List Op) (envs : List (Nat × TallyEnv)) (s' : State) :
    let s := run init ops
    endBlock envs s = .ok s' → Inv s' := by
  intro s h
  exact endBlock_inv rfl rfl rfl (run_inv rfl rfl rfl ops init init_inv) h

/-! ## non-vacuity -/

def egf : Ty := egfUrl.toList
def spend (fx other : Nat) : Msg := ⟨egf, true, true, .credit fx other 1⟩
def demoOps : List Op :=
  [ .mint 0 100000, .mint 1 100000,
    .updateCustom egf (some ⟨100000000000000000, 30, 400000000000000000⟩),
    .submit 0 [spend 20000 0] 1999 false,          -- share 2000 > default 1000: not yet
    .deposit 1 1 1,                                 -- reaches 2000: voting, period 30 (custom)
    .submit 0 [spend 0 4] 1 false,                  -- dust in another denom: still needs the default 1000
    .submit 1 [⟨"/fx.erc20.v1.MsgToggleTokenConversion".toList, true, true, .noop⟩] 5000 true,
    .endBlock 50 [(1, ⟨false, 500000000000000000, false, false, true, true⟩), (3, ⟨false, 500000000000000000, false, false, false, false⟩)] ]

example : ((run init demoOps).props.map (fun p => (p.id, p.status, p.total, p.votingEnd, p.expedited))) =
    [(1, .voting, 2000, 30, false), (2, .deposit, 1, 0, false), (3, .voting, 5000, 50, true)] := by decide

example : (run init demoOps).gov = 7001 ∧ (run init demoOps).time = 50 := by decide

example : specMin (run init demoOps).custom 1000 [spend 20000 0] = 2000 ∧ specMin (run init demoOps).custom 1000 [spend 0 4] = 1000 := by
  decide

example : ∃ s', submit init 0 [spend 1 0, spend 2 0] 0 false = .ok s' := ⟨_, rfl⟩
example : (step init (.submit 0 [spend 1 0, ⟨"/fx.gov.v1.MsgUpdateStore".toList, true, true, .noop⟩] 0 false)).2 = "err:type" := by decide

example : (runProposalMsgs [⟨[], true, true, .cas 0 0 5⟩, ⟨[], true, true, .cas 1 9 1⟩] init).2 = false ∧
    (runProposalMsgs [⟨[], true, true, .cas 0 0 5⟩, ⟨[], true, true, .cas 1 9 1⟩] init).1.kv = [] ∧
    (execMsg ⟨[], true, true, .cas 0 0 5⟩ init).map (·.kv) = some [(0, 5)] := by decide

end FxVerif.Props.C15
