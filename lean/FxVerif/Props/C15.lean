import FxVerif.Model.C15
namespace FxVerif.Props.C15
open FxVerif.Gen.C15 FxVerif.Model.C15

/-- placeholder while the harness is brought up; replaced below -/
theorem init_gov_zero : init.gov = 0 := rfl

end FxVerif.Props.C15
