import FxVerif.Model.C15
import FxVerif.Proofs.C15
import FxVerif.Proofs.C15Queue
import FxVerif.Proofs.C15Tally
import FxVerif.Proofs.C15Run
import FxVerif.Proofs.C15Step
import FxVerif.Proofs.C15Staking
import FxVerif.Proofs.C15Ledger
import FxVerif.Proofs.C15Sdk
import FxVerif.Proofs.C15Custom
import FxVerif.Proofs.C15Counts
import FxVerif.Proofs.C15Lookup
/-!
# C15 — governance deposits are conserved and proposals follow their message-type rules

Property theorems only.  The model (`FxVerif.Model.C15`) is driven by `FxVerif.Gen.C15`, regenerated from `/repo` on every
run: which url `getProposalMsgType` / the EGF rule read, which duration the expedited→regular conversion adds, where the
tally quorum comes from, the comparison used for activation, how the EGF share is combined with the default minimum, the
refund/burn guards, cached execution, and — for the tally — the decision sequence of `Tally` in source order (tests,
comparison operators, parameters, returned values), the voting-power expressions, the deduction of voting delegators,
the removal of counted votes.  The facts the proofs need are taken by `rfl`/`decide` from those definitions, so a
change of the source that invalidates one of them stops the corresponding theorem from checking.

`run init ops` is the state after an arbitrary history; theorems that hold in *every* state are stated for every state
(and therefore also between any two changes of the custom parameters).
-/
namespace FxVerif.Props.C15
open FxVerif.Gen.C15 FxVerif.Model.C15 FxVerif.Proofs.C15

/-! ## specification-side definitions (independent of the Gen-driven choice points) -/

/-- the proposal's message type: the type url of its (first) message — of the message itself, also when that is a
`MsgExecLegacyContent` wrapping a v1beta1 content (custom parameters are configured per message type url) -/
def typeOf (msgs : List Msg) : Ty := match msgs with | [] => [] | m :: _ => m.ty

/-- voting period configured for a message type at this moment -/
def specPeriod (pr : Params) (custom : List (Ty × Custom)) (msgs : List Msg) (expedited : Bool) : Nat :=
  match getCustom custom (typeOf msgs) with
  | some c => c.votingPeriod
  | none => if expedited then pr.expVotingPeriod else pr.votingPeriod

/-- quorum configured for a message type at this moment -/
def specQuorum (pr : Params) (custom : List (Ty × Custom)) (msgs : List Msg) : Nat :=
  match getCustom custom (typeOf msgs) with
  | some c => c.quorum
  | none => pr.quorum

def isSpendType (t : Ty) : Bool := lowerAscii t == lowerAscii egfUrl.toList

/-- requested community-pool amount in the deposit denom when every message is a community-pool spend -/
def specRequest : List Msg → Option Nat
  | [] => some 0
  | m :: r =>
    if isSpendType m.ty then
      match specRequest r, m.act with
      | some a, .credit fx _ _ => some (a + fx)
      | some a, _ => some a
      | none, _ => none
    else none

/-- the minimum deposit applicable to the messages: the default, or the configured share of the requested amount when
that is larger -/
def specMin (custom : List (Ty × Custom)) (dflt : Nat) (msgs : List Msg) : Nat :=
  match specRequest msgs, getCustom custom egfUrl.toList with
  | some req, some c => max dflt (mulRound req c.depositRatio)
  | _, _ => dflt

/-! ## conservation -/

/-- **every history**: the gov module account holds exactly the deposits of the proposals that are still in their
deposit or voting period (and there are no other deposit records) -/
theorem module_balance_eq_open_deposits (ops : List Op) (hc : NoGovSpend ops = true) :
    let s := run init ops
    s.gov = sumAmt (s.deps.filter (fun d => isOpenId s.props d.pid)) ∧
    s.deps.all (fun d => isOpenId s.props d.pid) = true := by
  intro s
  have hi : Inv s := run_inv rfl rfl rfl ops hc init init_inv
  have hall : s.deps.all (fun d => isOpenId s.props d.pid) = true := by
    rw [List.all_eq_true]; exact hi.recs
  refine ⟨?_, hall⟩
  rw [List.filter_eq_self.mpr (by simpa [List.all_eq_true] using hall)]
  exact hi.bal

/-- refund: the module pays out exactly the recorded deposits of the proposal, the records are deleted, nothing else of
the deposit book-keeping changes — in a state that satisfies the invariant it cannot fail -/
theorem each_deposit_settled_once_refund (ops : List Op) (hc : NoGovSpend ops = true) (pid : Nat) :
    let s := run init ops
    ∃ s', refundDeposits pid s = .ok s' ∧ s'.gov + sumAmt (depsOf s.deps pid) = s.gov ∧ s'.deps = depsNot s.deps pid ∧
      depsOf s'.deps pid = [] ∧
      s'.settled = s.settled ++ (depsOf s.deps pid).map (fun d => ⟨d.pid, d.who, d.amt, .refund⟩) := by
  intro s
  have hi : Inv s := run_inv rfl rfl rfl ops hc init init_inv
  obtain ⟨s', h⟩ := refundDeposits_total (pid := pid) hi.bal
  have sp := refundDeposits_spec hi.bal h
  refine ⟨s', h, ?_, sp.2.1, ?_, ?_⟩
  · have := sumAmt_split s.deps pid; have := hi.bal; rw [sp.1, sp.2.1]; omega
  · rw [sp.2.1]; simp [depsOf, depsNot, List.filter_filter]
  · unfold refundDeposits at h
    split at h
    · cases h
    · cases h; rfl

/-- burn: the same for `DeleteAndBurnDeposits`; the burnt amount is exactly the sum of the records, no account is credited -/
theorem each_deposit_settled_once_burn (ops : List Op) (hc : NoGovSpend ops = true) (pid : Nat) :
    let s := run init ops
    ∃ s', burnDeposits pid s = .ok s' ∧ s'.gov + sumAmt (depsOf s.deps pid) = s.gov ∧ s'.deps = depsNot s.deps pid ∧
      depsOf s'.deps pid = [] ∧ s'.bal = s.bal ∧ s'.burned = s.burned + sumAmt (depsOf s.deps pid) := by
  intro s
  have hi : Inv s := run_inv rfl rfl rfl ops hc init init_inv
  obtain ⟨s', h⟩ := burnDeposits_total (pid := pid) hi.bal
  have sp := burnDeposits_spec hi.bal h
  refine ⟨s', h, ?_, sp.2.1, ?_, ?_⟩
  · have := sumAmt_split s.deps pid; have := hi.bal; rw [sp.1, sp.2.1]; omega
  · rw [sp.2.1]; simp [depsOf, depsNot, List.filter_filter]
  · unfold burnDeposits at h
    simp only at h
    split at h
    · cases h
    · cases h; exact ⟨rfl, rfl⟩

/-- the refund loop credits every depositor exactly the amount of each of its records, once -/
theorem refund_credits_each_once : ∀ (ds : List Dep) (g : Nat) (b : List (Addr × Nat)) (g' : Nat) (b' : List (Addr × Nat)),
    refundLoop ds g b = .ok (g', b') → b' = ds.foldl (fun b d => credit b d.who d.amt) b := by
  intro ds
  induction ds with
  | nil => intro g b g' b' h; simp [refundLoop] at h; simp [h.2]
  | cons d r ih =>
    intro g b g' b' h
    simp only [refundLoop] at h
    split at h
    · cases h
    · simpa using ih _ _ _ _ h

/-- never twice, never both: in every reachable state a deposit record exists only for a proposal that is still open, so
a proposal that has ended (or was deleted) has no record left that a second refund or burn could pay out — a second
settlement of the same proposal moves nothing -/
theorem each_deposit_settled_once (ops : List Op) (hc : NoGovSpend ops = true) (pid : Nat) :
    let s := run init ops
    isOpenId s.props pid = false → depsOf s.deps pid = [] ∧ sumAmt (depsOf s.deps pid) = 0 := by
  intro s hclosed
  have hi : Inv s := run_inv rfl rfl rfl ops hc init init_inv
  have : depsOf s.deps pid = [] := by
    simp only [depsOf, List.filter_eq_nil_iff]
    intro d hd hpid
    have := hi.recs d hd
    simp only [beq_iff_eq] at hpid
    rw [hpid, hclosed] at this
    cases this
  exact ⟨this, by rw [this]; rfl⟩

/-! ## activation needs the minimum deposit -/

theorem egfRequest_eq_spec : ∀ msgs : List Msg, egfRequest msgs = (specRequest msgs).map (fun a => (a, (egfRequest msgs).elim 0 (·.2))) := by
  intro msgs
  induction msgs with
  | nil => simp [egfRequest, specRequest]
  | cons m r ih =>
    have h1 : egfSeenUrl m = m.ty := by simp [egfSeenUrl, show egfUrlIsMessageUrl = true from rfl]
    have h2 : isEgf m.ty = isSpendType m.ty := by simp [isEgf, isSpendType, show egfTypeCmp = "strings.EqualFold" from rfl]
    simp only [egfRequest, specRequest, h1, h2]
    by_cases hs : isSpendType m.ty = true
    · simp only [hs, if_true]
      rw [ih]
      cases hr : specRequest r with
      | none => simp
      | some a => cases m.act <;> simp
    · simp [hs]

/-- `reaches total (minimum computed by the code)` implies `specMin ≤ total`: the default minimum, and for community-pool
spends the configured share of the requested amount when that is larger — including requests in a non-deposit denom -/
theorem reaches_imp_specMin (custom : List (Ty × Custom)) (dflt total : Nat) (msgs : List Msg)
    (h : reaches total (minForMsgs custom dflt msgs) = true) : specMin custom dflt msgs ≤ total := by
  have hA : activationCmp = "IsAllGTE" := rfl
  have hB : egfCombine = "max" := rfl
  have hC : activationUsesMsgMin = true := rfl
  have hD : egfRounding = "RoundInt" := rfl
  have hreq := egfRequest_eq_spec msgs
  unfold minForMsgs at h
  simp only [hC, Bool.not_true, Bool.false_eq_true, if_false] at h
  unfold specMin
  cases hs : specRequest msgs with
  | none =>
    rw [hs] at hreq
    simp only [Option.map_none] at hreq
    simp only [hreq] at h
    simp only [reaches, hA] at h
    simp at h
    simp; exact h.2
  | some req =>
    rw [hs] at hreq
    simp only [Option.map_some] at hreq
    rw [hreq] at h
    simp only at h
    cases hc : getCustom custom egfUrl.toList with
    | none =>
      simp only [hc] at h
      simp only [reaches, hA] at h
      simp at h
      simp; exact h.2
    | some c =>
      simp only [hc] at h
      split at h
      · -- zero ratio: default; the share is 0
        rename_i hz
        simp only [reaches, hA] at h
        simp at h
        have hz' : c.depositRatio = 0 := by simpa [show egfZeroRatioIsDefault = true from rfl] using hz
        simp only [hz', mulRound, roundHalfEven, DEC]
        simp; exact h.2
      · have hne : ¬ ("max" == "share-unless-IsAllLT-default") = true := by decide
        simp only [hB, hne, if_false, beq_self_eq_true, if_true] at h
        simp only [reaches, hA] at h
        simp only [egfShare, hD] at h
        simp at h
        by_cases hr0 : req = 0
        · subst hr0
          simp only [if_true, Option.getD_none] at h
          have h0 : mulRound 0 c.depositRatio = 0 := by simp [mulRound, roundHalfEven, DEC]
          show max dflt (mulRound 0 c.depositRatio) ≤ total
          rw [h0]; exact Nat.max_le.mpr ⟨by omega, by omega⟩
        · simp only [hr0, if_false, Option.getD_some] at h
          show max dflt (mulRound req c.depositRatio) ≤ total
          exact Nat.max_le.mpr ⟨by omega, by omega⟩

/-- **activation ⇒ minimum deposit**: a successful `AddDeposit` (from `MsgDeposit` or the initial deposit of
`MsgSubmitProposal`) moves a proposal from its deposit period into voting only if its total deposit reaches the minimum
applicable to its message type (`specMin`), whatever the history, the parameters and the custom parameters are -/
theorem voting_requires_min_deposit (s : State) (p : Proposal) (who : Addr) (amt : Nat)
    (hdep : p.status = .deposit) (hfound : findProp s.props p.id = some p) :
    match findProp (depositEffect s p who amt).props p.id with
    | some p' => p'.status = .voting → specMin s.custom (if p.expedited then s.params.expMinDeposit else s.params.minDeposit) p.msgs ≤ p'.total
    | none => True := by
  unfold depositEffect
  simp only [hdep, beq_self_eq_true, Bool.true_and]
  by_cases hact : reaches (p.total + amt) (minForMsgs s.custom (defaultMin s p.expedited) p.msgs) = true
  · have := reaches_imp_specMin _ _ _ _ hact
    simp only [hact, if_true, activate, findProp_putProp, hfound, Option.map_some]
    intro _
    simpa [defaultMin] using this
  · simp only [hact, Bool.false_eq_true, if_false, findProp_putProp, hfound, if_true, Option.map_some]
    intro h; cases h

/-! ## period and quorum by message type -/

theorem activation_period_by_type (s : State) (p : Proposal) :
    activationPeriod s p = specPeriod s.params s.custom p.msgs p.expedited := by
  have h1 : activationUsesCustomPeriod = true := rfl
  have h3 : activationDefaultByExpedited = true := rfl
  have h4 : periodLookupType = "first-message-url" := rfl
  have ht : propTypeP p.msgs = typeOf p.msgs := by cases h : p.msgs <;> simp [propTypeP, typeUrlBy, typeOf, h4]
  simp only [activationPeriod, customPeriodOf_eq, specPeriod, h1, h3, ht, Bool.and_self, if_true, Bool.true_and]
  cases getCustom s.custom (typeOf p.msgs) <;> cases p.expedited <;> simp

theorem conversion_period_by_type (s : State) (p : Proposal) :
    conversionPeriod s p = specPeriod s.params s.custom p.msgs false := by
  have h1 : conversionUsesCustomPeriod = true := rfl
  have h4 : periodLookupType = "first-message-url" := rfl
  have ht : propTypeP p.msgs = typeOf p.msgs := by cases h : p.msgs <;> simp [propTypeP, typeUrlBy, typeOf, h4]
  simp only [conversionPeriod, customPeriodOf_eq, specPeriod, h1, ht, Bool.and_self, if_true]
  cases getCustom s.custom (typeOf p.msgs) <;> simp

theorem tally_quorum_by_type (s : State) (p : Proposal) : quorumFor s p = specQuorum s.params s.custom p.msgs := by
  have h1 : tallyQuorumByType = true := rfl
  have h4 : quorumLookupType = "first-message-url" := rfl
  have ht : propTypeQ p.msgs = typeOf p.msgs := by cases h : p.msgs <;> simp [propTypeQ, typeUrlBy, typeOf, h4]
  simp only [quorumFor, customQuorumOf_eq, specQuorum, h1, ht, Bool.and_self, if_true]
  rfl

/-- turnout as `Tally` computes it: total voting power / total bonded tokens, a `LegacyDec` quotient -/
def specShare (a b : Nat) : Nat := roundHalfEven (DEC * DEC * a / b) DEC

/-- the outcome the property asks for, from the per-option sums: quorum of the message type, veto threshold, yes
threshold by kind of proposal -/
def specPasses (pr : Params) (quorum : Nat) (expedited : Bool) (n : Nums) : Bool :=
  n.bonded != 0 && !decide (specShare n.total (DEC * n.bonded) < quorum) && n.total != n.abstain &&
  !decide (pr.vetoThreshold < specShare n.veto n.total) &&
  decide ((if expedited then pr.expThreshold else pr.threshold) < specShare n.yes (n.total - n.abstain))

/-- … and whether the deposits are burnt: quorum missed (`BurnVoteQuorum`) or vetoed (`BurnVoteVeto`) -/
def specBurn (pr : Params) (quorum : Nat) (n : Nums) : Bool :=
  n.bonded != 0 &&
  (if specShare n.total (DEC * n.bonded) < quorum then pr.burnVoteQuorum
   else n.total != n.abstain && decide (pr.vetoThreshold < specShare n.veto n.total) && pr.burnVoteVeto)

theorem cmpDec_LT (a b : Nat) : cmpDec "LT" a b = decide (a < b) := by simp [cmpDec]
theorem cmpDec_GT (a b : Nat) : cmpDec "GT" a b = decide (b < a) := by simp [cmpDec]

/-- **the tally decision, by message type**: whatever the per-option sums are (abstain ≤ total, which holds for every
tally of stored votes, see `tally_never_divides_by_zero`), the decision sequence read from `Tally` returns exactly the
specified outcome — turnout against the quorum *configured for the proposal's message type at that moment*, all-abstain,
veto share against the veto threshold, yes share of the non-abstaining power against the threshold of the proposal's
kind (strict comparisons), and the burn flags -/
theorem tally_outcome_by_type (s : State) (p : Proposal) (n : Nums) (hj : n.abstain ≤ n.total) :
    tally s p n = .ok (specPasses s.params (specQuorum s.params s.custom p.msgs) p.expedited n,
                       specBurn s.params (specQuorum s.params s.custom p.msgs) n) := by
  rw [tally_unfold]
  unfold tallyForm specPasses specBurn
  rw [tally_quorum_by_type]
  have hv : paramDec s.params "params.VetoThreshold" = s.params.vetoThreshold := by simp [paramDec]
  have hy : yesThreshold s p = if p.expedited then s.params.expThreshold else s.params.threshold := by
    simp only [yesThreshold, show tallyThresholdExpedited = "params.GetExpeditedThreshold()" from rfl,
      show tallyThresholdRegular = "params.GetThreshold()" from rfl]
    cases p.expedited <;> simp [paramDec]
  have hb1 : paramBool s.params "false" = false := by simp [paramBool]
  have hb2 : paramBool s.params "params.BurnVoteQuorum" = s.params.burnVoteQuorum := by simp [paramBool]
  have hb3 : paramBool s.params "params.BurnVoteVeto" = s.params.burnVoteVeto := by simp [paramBool]
  have hf1 : tallyFinalPasses = false := rfl
  have hf2 : paramBool s.params tallyFinalBurn = false := by
    simp [paramBool, show tallyFinalBurn = "false" from rfl]
  rw [hv, hy, hb1, hb2, hb3, hf1, hf2]
  by_cases hb : n.bonded = 0
  · simp [hb]
  · have hb' : (n.bonded == 0) = false := by simpa using hb
    have hbn : (n.bonded != 0) = true := by simpa using hb
    rw [decQuo_of_pos (Nat.mul_ne_zero (by decide) hb)]
    simp only [hb', hbn, Bool.false_eq_true, if_false, cmpDec_LT, cmpDec_GT, specShare, Bool.true_and]
    by_cases hq : roundHalfEven (DEC * DEC * n.total / (DEC * n.bonded)) DEC < specQuorum s.params s.custom p.msgs
    · simp [hq]
    · simp only [hq, decide_false, Bool.false_eq_true, if_false, Bool.not_false, Bool.true_and]
      by_cases ha : n.total = n.abstain
      · simp [ha]
      · have ha' : (n.total == n.abstain) = false := by simpa using ha
        have han : (n.total != n.abstain) = true := by simpa using ha
        rw [decQuo_of_pos (a := n.veto) (b := n.total) (by omega), decQuo_of_pos (a := n.yes) (b := n.total - n.abstain) (by omega)]
        simp only [ha', han, Bool.false_eq_true, if_false, Bool.true_and]
        by_cases hvt : s.params.vetoThreshold < roundHalfEven (DEC * DEC * n.veto / n.total) DEC
        · simp [hvt]
        · simp only [hvt, decide_false, Bool.false_eq_true, if_false, Bool.not_false, Bool.true_and, Bool.false_and]
          by_cases hyes : (if p.expedited = true then s.params.expThreshold else s.params.threshold) <
              roundHalfEven (DEC * DEC * n.yes / (n.total - n.abstain)) DEC
          · simp [hyes]
          · simp [hyes]

/-- **period and quorum by type**, in every state (so also right after custom parameters were added, changed or
removed): (1) when voting starts the stored voting end is start + the period configured for the message type at that
moment; (2) a proposal fails for lack of quorum exactly when the turnout is below the quorum configured for its type at
that moment; (3) when a failed expedited proposal is converted, its new voting end is start + the *regular* period
configured for its type at that moment -/
theorem period_and_quorum_by_type (s : State) (p : Proposal) (n : Nums) (pid : Nat) (s' : State) (burn : Bool)
    (res : Nat × Nat × Nat × Nat) :
    (∀ q, findProp (activate s p).props p.id = some q → findProp s.props p.id = some p →
        q.votingStart = s.time ∧ q.votingEnd = s.time + specPeriod s.params s.custom p.msgs p.expedited ∧ q.status = .voting) ∧
    (n.bonded ≠ 0 → specShare n.total (DEC * n.bonded) < specQuorum s.params s.custom p.msgs →
        tally s p n = .ok (false, s.params.burnVoteQuorum)) ∧
    (findProp s.props pid = some p → p.expedited = true → finishTally false burn res p pid s = .ok s' →
        ∃ q, findProp s'.props pid = some q ∧ q.expedited = false ∧ q.status = p.status ∧ q.votingStart = p.votingStart ∧
          q.votingEnd = p.votingStart + specPeriod s.params s.custom p.msgs false) := by
  refine ⟨?_, ?_, ?_⟩
  · intro q hq hp
    simp only [activate, findProp_putProp, hp, if_true, Option.map_some, Option.some.injEq] at hq
    subst hq
    simp [activation_period_by_type]
  · intro hb hq
    rw [tally_unfold]
    unfold tallyForm
    have hb' : (n.bonded == 0) = false := by simpa using hb
    rw [decQuo_of_pos (Nat.mul_ne_zero (by decide) hb)]
    rw [← tally_quorum_by_type s p] at hq
    simp only [hb', Bool.false_eq_true, if_false, cmpDec_LT]
    have : paramBool s.params "params.BurnVoteQuorum" = s.params.burnVoteQuorum := by simp [paramBool]
    simp [specShare] at hq
    simp [hq, this]
  · intro hp hexp h
    have hpid : p.id = pid := findProp_id hp
    unfold finishTally at h
    simp only [refundRun_eq, burnRun_eq] at h
    simp only [show settleShapeOk = true from rfl, Bool.not_true, Bool.false_and, Bool.false_eq_true, if_false] at h
    simp only [show settleShapeOk = true from rfl, hexp, if_true, Bool.not_false, Bool.and_self, Bool.not_true,
      Bool.false_eq_true, if_false] at h
    cases h
    simp only [findProp_putProp, hpid, hp, if_true, Option.map_some, Option.some.injEq, exists_eq_left']
    simp [conversion_period_by_type, specPeriod]

/-! ## one message type per proposal -/

/-- a submission is accepted only if all its messages have the same type url (compared like `strings.EqualFold`;
registered urls are unique up to case — checked on the real registry by the harness) -/
theorem single_type (s s' : State) (who : Addr) (msgs : List Msg) (initial : Nat) (exp : Bool)
    (h : submit s who msgs initial exp = .ok s') : ∀ a ∈ msgs, ∀ b ∈ msgs, lowerAscii a.ty = lowerAscii b.ty := by
  have hc : checkMsgs msgs = true := by
    rw [submit_eq] at h
    unfold submitSpec at h
    split at h
    · cases h
    · rename_i hc; simpa using hc
  cases msgs with
  | nil => intro a ha; cases ha
  | cons m r =>
    have key := lowerAscii_eq_of_checkMsgs rfl r m hc
    have all : ∀ x ∈ m :: r, lowerAscii x.ty = lowerAscii m.ty := by
      intro x hx
      rcases List.mem_cons.mp hx with hx | hx
      · rw [hx]
      · exact key x hx
    intro a ha b hb
    rw [all a ha, all b hb]

/-! ## all or nothing -/

/-- the messages of a passed proposal run on a cache, and the test that decides on `writeCache()` sees the error of the
handler that failed (regenerated: the loop ASSIGNS `err`): if one handler fails, the state is exactly the state before
the first message (none of the earlier messages' writes remain) and the proposal is FAILED; otherwise all of them took
effect in order -/
theorem messages_all_or_nothing (msgs : List Msg) (s : State) :
    ((runProposalMsgs msgs s).2 = false → (runProposalMsgs msgs s).1 = s) ∧
    ((runProposalMsgs msgs s).2 = true → execMsgs msgs s = some (runProposalMsgs msgs s).1) := by
  unfold runProposalMsgs
  simp only [show execInCacheCtx = true from rfl, show execErrVisible = true from rfl, if_true]
  cases h : execMsgs msgs s <;> simp

/-- a proposal is PASSED exactly when every one of its messages succeeded (in order, each on the state the previous ones
left), otherwise FAILED: the status the end-blocker stores is `if ok then passed else failed` with this `ok` -/
theorem passed_iff_every_message_succeeded (msgs : List Msg) (s : State) :
    (runProposalMsgs msgs s).2 = true ↔ ∃ s', execMsgs msgs s = some s' := by
  unfold runProposalMsgs
  simp only [show execInCacheCtx = true from rfl, show execErrVisible = true from rfl, if_true]
  cases h : execMsgs msgs s <;> simp

/-! ## gov half of C07: the end-blocker does not fail on refunds / burns -/

/-- in every reachable state the module account covers the refund or burn of any proposal's deposits: processing an
inactive-queue entry of a stored proposal succeeds -/
theorem gov_endblock_inactive_total (ops : List Op) (hc : NoGovSpend ops = true) (pid : Nat) (p : Proposal) :
    let s := run init ops
    findProp s.props pid = some p → ∃ s', dropInactive pid s = .ok s' := by
  intro s hp
  have hi : Inv s := run_inv rfl rfl rfl ops hc init init_inv
  rw [dropInactive_eq]
  unfold dropInactiveSpec
  simp only [hp, show inactiveSettleShapeOk = true from rfl, if_true]
  split
  · exact refundDeposits_total (by simpa using hi.bal)
  · exact burnDeposits_total (by simpa using hi.bal)

/-- … and so does the tally of an active-queue entry of a stored proposal, whatever the outcome of the tally is and
whether or not its messages succeed (handler errors and panics are caught: `execMsg = none`) -/
theorem gov_endblock_finish_total (ops : List Op) (hc : NoGovSpend ops = true) (pid : Nat) (p : Proposal) (passes burn : Bool) (res : Nat × Nat × Nat × Nat) :
    let s := run init ops
    findProp s.props pid = some p → ∃ s', finishTally passes burn res p pid s = .ok s' := by
  intro s _
  have hi : Inv s := run_inv rfl rfl rfl ops hc init init_inv
  unfold finishTally
  simp only [refundRun_eq, burnRun_eq]
  simp only [show settleShapeOk = true from rfl, Bool.not_true, Bool.false_and, Bool.false_eq_true, if_false]
  simp only [show settleShapeOk = true from rfl, if_true]
  by_cases hk : (p.expedited && !passes) = true
  · simp only [hk, Bool.not_true, Bool.false_eq_true, if_false]
    split
    · exact ⟨_, rfl⟩
    · split <;> exact ⟨_, rfl⟩
  · have hk' : (p.expedited && !passes) = false := by simpa using hk
    simp only [hk', Bool.not_false, if_true]
    have : ∃ s1, (if burn = true then burnDeposits pid s else refundDeposits pid s) = .ok s1 := by
      split
      · exact burnDeposits_total hi.bal
      · exact refundDeposits_total hi.bal
    obtain ⟨s1, h1⟩ := this
    rw [h1]
    simp only
    split
    · exact ⟨_, rfl⟩
    · split <;> exact ⟨_, rfl⟩

/-- the staking numbers handed to the end-blocker are those of a staking state: every bonded validator has delegator
shares (a validator without shares has no tokens and is not bonded).  Only the totality statements need it, and only for
the block in question: the invariants hold after every history whatever numbers earlier blocks were given. -/
abbrev stakingOk := FxVerif.Proofs.C15.stakingOk

/-- **the sums of `Tally` never divide by zero**, in every reachable state, for every proposal and whatever the staking
numbers are: every stored vote passed the `MsgVoteWeighted` validation (invariant), so its weights are at most 1 and no
option occurs twice, hence abstain ≤ total; and with the decision sequence in the order of the source — zero bonded
before the turnout, all-abstain (which includes "no votes") before the veto and yes shares — no divisor is zero -/
theorem tally_never_divides_by_zero (ops : List Op) (hc : NoGovSpend ops = true) (stk : Staking) (hs : stakingOk stk) (pid : Nat) :
    let s := run init ops
    ∃ n, tallyNums (votesOf s.votes pid) stk = some n ∧ n.abstain ≤ n.total ∧ n.bonded = stk.totalBonded ∧
      ∀ p, ∃ r, tally s p n = .ok r := by
  intro s
  have ha : All s := run_all rfl rfl rfl rfl ops hc init init_all
  obtain ⟨n, h1, h2, h3⟩ := tallyNums_ok (votes := votesOf s.votes pid) (stk := stk)
    (fun v hv => ha.both.v.valid v (mem_votesOf.mp hv).1) hs rfl
  exact ⟨n, h1, h2, h3, fun p => tally_ok s p h2⟩

/-- … and so does the tally of an active-queue entry of a stored proposal, whatever the votes and the staking numbers are -/
theorem gov_endblock_active_total (ops : List Op) (hc : NoGovSpend ops = true) (pid : Nat) (p : Proposal) (stk : Staking)
    (hs : stakingOk stk) :
    let s := run init ops
    findProp s.props pid = some p → ∃ s', tallyOne stk pid s = .ok s' := by
  intro s hp
  obtain ⟨n, h1, _, _, h4⟩ := tally_never_divides_by_zero ops hc stk hs pid
  obtain ⟨⟨passes, burn⟩, hr⟩ := h4 p
  have h1' : tallyNums (votesOf s.votes pid) stk = some n := h1
  have hr' : tally s p n = .ok (passes, burn) := hr
  have hi : Inv s := run_inv rfl rfl rfl ops hc init init_inv
  unfold tallyOne
  simp only [hp, h1', hr']
  -- the state handed to `finishTally` differs only in the votes
  have key : ∀ (s0 : State), s0.gov = sumAmt s0.deps →
      ∃ s', finishTally passes burn (n.yes / DEC, n.abstain / DEC, n.no / DEC, n.veto / DEC) p pid s0 = .ok s' := by
    intro s0 hb
    unfold finishTally
    simp only [refundRun_eq, burnRun_eq]
    simp only [show settleShapeOk = true from rfl, Bool.not_true, Bool.false_and, Bool.false_eq_true, if_false]
    simp only [show settleShapeOk = true from rfl, if_true]
    by_cases hk : (p.expedited && !passes) = true
    · simp only [hk, Bool.not_true, Bool.false_eq_true, if_false]
      split
      · exact ⟨_, rfl⟩
      · split <;> exact ⟨_, rfl⟩
    · have hk' : (p.expedited && !passes) = false := by simpa using hk
      simp only [hk', Bool.not_false, if_true]
      have : ∃ s1, (if burn = true then burnDeposits pid s0 else refundDeposits pid s0) = .ok s1 := by
        split
        · exact burnDeposits_total hb
        · exact refundDeposits_total hb
      obtain ⟨s1, h1'⟩ := this
      rw [h1']
      simp only
      split
      · exact ⟨_, rfl⟩
      · split <;> exact ⟨_, rfl⟩
  exact key _ hi.bal

/-- the end-blocker preserves the deposit invariant (kept from the first round: it is now a corollary of
`gov_endblock_total`, which no longer assumes anything about the queues) -/
theorem gov_endblock_total_partial (ops : List Op) (hc : NoGovSpend ops = true) (stk : Staking) (s' : State) :
    let s := run init ops
    endBlock stk s = .ok s' → Inv s' := by
  intro s h
  exact endBlock_inv rfl rfl rfl (run_inv rfl rfl rfl ops hc init init_inv) h

/-! ## queue consistency, proved: the end-blocker is total -/

/-- **queue consistency in every reachable state**: the inactive queue holds exactly the `(deposit end, id)` of the stored
proposals in their deposit period, the active queue exactly the `(voting end, id)` of those in their voting period, both
strictly sorted (every entry once) — so every open proposal is due at its end time and will be settled, and no entry
lacks its proposal -/
theorem queue_consistency (ops : List Op) (hc : NoGovSpend ops = true) :
    let s := run init ops
    (∀ t id, (t, id) ∈ s.inactive ↔ ∃ p, findProp s.props id = some p ∧ p.status = .deposit ∧ p.depositEnd = t) ∧
    (∀ t id, (t, id) ∈ s.active ↔ ∃ p, findProp s.props id = some p ∧ p.status = .voting ∧ p.votingEnd = t) ∧
    s.inactive.Pairwise qlt ∧ s.active.Pairwise qlt ∧ s.inactive.Nodup ∧ s.active.Nodup := by
  intro s
  have ha : All s := run_all rfl rfl rfl rfl ops hc init init_all
  have q := ha.both.q
  refine ⟨?_, ?_, q.inactSorted, q.actSorted, nodup_of_sorted q.inactSorted, nodup_of_sorted q.actSorted⟩
  · intro t id
    exact ⟨q.inactSound t id, fun ⟨p, hp, hs, ht⟩ => ht ▸ q.inactComplete id p hp hs⟩
  · intro t id
    exact ⟨q.actSound t id, fun ⟨p, hp, hs, ht⟩ => ht ▸ q.actComplete id p hp hs⟩

/-- **the gov end-blocker never fails**: after every history, with the staking numbers of any staking state, the modelled
`EndBlocker` returns no error — every refund and burn is covered (deposit invariant), every queue entry has its proposal
(queue consistency), no tally divides by zero (vote-store invariant and the order of the tests) — and all invariants
hold again -/
theorem gov_endblock_total (ops : List Op) (hc : NoGovSpend ops = true) (stk : Staking) (hs : stakingOk stk) :
    ∃ s', endBlock stk (run init ops) = .ok s' ∧ Inv s' ∧ QInv s' ∧ VInv s' := by
  have ha : All (run init ops) := run_all rfl rfl rfl rfl ops hc init init_all
  obtain ⟨s', h, a'⟩ := endBlock_total rfl rfl rfl rfl rfl ha hs
  exact ⟨s', h, a'.inv, a'.both.q, a'.both.v⟩

/-- no history halts: a step of the model never answers `halt:` -/
theorem no_halt (ops : List Op) (hc : NoGovSpend ops = true) (dt : Nat) (stk : Staking) (hs : stakingOk stk) :
    (step (run init ops) (.endBlock dt stk)).2 = "ok" := by
  obtain ⟨s', h, _⟩ := gov_endblock_total ops hc stk hs
  simp [step, h]

/-! ## the vote store -/

/-- **votes in every reachable state**: every stored vote passed the validation of `MsgVoteWeighted` (weights in (0, 1],
no option twice, weights adding up to 1), belongs to a stored proposal that is in its voting period, and there is at
most one per (proposal, voter) -/
theorem votes_valid_and_current (ops : List Op) (hc : NoGovSpend ops = true) :
    let s := run init ops
    (∀ v ∈ s.votes, optsValid v.opts = true ∧ ∃ p, findProp s.props v.pid = some p ∧ p.status = .voting) ∧
    s.votes.Pairwise (fun a b => ¬ (a.pid = b.pid ∧ a.voter = b.voter)) := by
  intro s
  have ha : All s := run_all rfl rfl rfl rfl ops hc init init_all
  exact ⟨fun v hv => ⟨ha.both.v.valid v hv, ha.both.v.voting v hv⟩, ha.both.v.uniq⟩

/-- **a tally consumes the votes it counted**: after the tally of a proposal none of its votes is stored, whatever the
outcome — in particular a failed expedited proposal starts its regular voting period without votes, and no vote is
counted by two tallies -/
theorem tally_consumes_votes (stk : Staking) (pid : Nat) (s s' : State) (h : tallyOne stk pid s = .ok s') :
    votesOf s'.votes pid = [] ∧ ∀ v, v ∈ s'.votes ↔ (v ∈ s.votes ∧ v.pid ≠ pid) := by
  unfold tallyOne at h
  split at h
  · cases h
  · rename_i p hp
    split at h
    · cases h
    · rename_i n hn
      split at h
      · cases h
      · rename_i passes burn hr
        simp only [show tallyRemovesVotes = true from rfl, if_true] at h
        have hv : s'.votes = votesNot s.votes pid := by
          unfold finishTally at h
          simp only [refundRun_eq, burnRun_eq] at h
          simp only [show settleShapeOk = true from rfl, Bool.not_true, Bool.false_and, Bool.false_eq_true, if_false] at h
          simp only [show settleShapeOk = true from rfl, if_true] at h
          have settle : ∀ s1 : State,
              (if (!(p.expedited && !passes)) = true then (if burn = true then burnDeposits pid { s with votes := votesNot s.votes pid }
                else refundDeposits pid { s with votes := votesNot s.votes pid }) else Except.ok { s with votes := votesNot s.votes pid }) = .ok s1 →
              s1.votes = votesNot s.votes pid := by
            intro s1 hx
            split at hx
            · split at hx
              · unfold burnDeposits at hx
                simp only at hx
                split at hx
                · cases hx
                · cases hx; rfl
              · unfold refundDeposits at hx
                split at hx
                · cases hx
                · cases hx; rfl
            · cases hx; rfl
          split at h
          · cases h
          · rename_i s1 hx
            have e1 := settle s1 hx
            split at h
            · generalize hr' : runProposalMsgs p.msgs { s1 with active := removeQ (p.votingEnd, pid) s1.active } = rr at h
              obtain ⟨s3, ok⟩ := rr
              simp only at h
              cases h
              have : s3.votes = s1.votes := by
                have e3 : s3 = (runProposalMsgs p.msgs { s1 with active := removeQ (p.votingEnd, pid) s1.active }).1 := by rw [hr']
                rw [e3]
                exact (runProposalMsgs_same rfl p.msgs { s1 with active := removeQ (p.votingEnd, pid) s1.active }).2.2.2.2.2.2.2.2
              show s3.votes = _
              rw [this, e1]
            · split at h <;> (cases h; exact e1)
        rw [hv]
        refine ⟨?_, fun v => mem_votesNot⟩
        simp [votesOf, votesNot, List.filter_filter]

/-- **no stake is counted twice**: the shares of every delegation held by an account that voted are deducted from the
validator before the validator's own vote is weighted (regenerated: `val.DelegatorDeductions = ….Add(delegation.GetShares())`
in the first loop, `DelegatorShares.Sub(DelegatorDeductions)` in the second), a delegation counts only towards a bonded
validator, a validator that did not vote adds nothing, and each voter's options are weighted with `Mul` -/
theorem tally_counts_each_stake_once (votes : List Vote) (dels : List Del) (v : Val) :
    deductions votes dels v.op = sumShares (dels.filter (fun d => d.val == v.op && votes.any (fun x => x.voter == d.who))) ∧
    valPower v (deductions votes dels v.op) =
      decQuo ((v.shares - sumShares (dels.filter (fun d => d.val == v.op && votes.any (fun x => x.voter == d.who)))) * v.bonded) v.shares ∧
    (∀ shares, delPower v shares = decQuo (shares * v.bonded) v.shares) ∧
    (∀ n r, voteOf votes v.op = none → valLoop votes dels (v :: r) n = valLoop votes dels r n) := by
  have h1 : tallyDeductsDelegatorShares = true := rfl
  have h2 : tallyValidatorPower = "sharesAfterDeductions.MulInt(val.BondedTokens).Quo(val.DelegatorShares)" := rfl
  have h3 : tallySharesAfterDeductions = "val.DelegatorShares.Sub(val.DelegatorDeductions)" := rfl
  have h4 : tallyDelegatorPower = "delegation.GetShares().MulInt(val.BondedTokens).Quo(val.DelegatorShares)" := rfl
  have h5 : tallySkipsSilentValidators = true := rfl
  have h6 : tallyRecordsValidatorVote = true := rfl
  refine ⟨by simp [deductions, h1], by simp [valPower, deductions, h1, h2, h3], fun shares => by simp [delPower, h4], ?_⟩
  intro n r hv
  simp [valLoop, h5, h6, hv]

/-- … and **no stake is counted for more than it is worth**: for a bonded validator with delegator shares `S > 0` and bonded
tokens `B`, the voting powers `Tally` gives to any voting delegators of it (delegations `ds`, together at most `S` — the
staking module's invariant) plus the power it leaves to the validator itself never exceed `B` by more than one unit of
10^-18 per term (the half-even roundings of `Quo`) -/
theorem tally_power_bounded_by_stake (v : Val) (hS : 0 < v.shares) (ds : List Nat) (hsum : sumNat ds ≤ v.shares) :
    ∃ pv, valPower v (sumNat ds) = some pv ∧ (∀ d ∈ ds, delPower v d = some (quoVal (d * v.bonded) v.shares)) ∧
      sumNat (ds.map (fun d => quoVal (d * v.bonded) v.shares)) + pv ≤ DEC * v.bonded + ds.length + 1 := by
  have h2 : tallyValidatorPower = "sharesAfterDeductions.MulInt(val.BondedTokens).Quo(val.DelegatorShares)" := rfl
  have h3 : tallySharesAfterDeductions = "val.DelegatorShares.Sub(val.DelegatorDeductions)" := rfl
  have h4 : tallyDelegatorPower = "delegation.GetShares().MulInt(val.BondedTokens).Quo(val.DelegatorShares)" := rfl
  refine ⟨quoVal ((v.shares - sumNat ds) * v.bonded) v.shares, ?_, ?_, stake_counted_once v.bonded v.shares hS ds hsum⟩
  · simp [valPower, h2, h3, decQuo_eq_quoVal hS]
  · intro d _
    simp [delPower, h4, decQuo_eq_quoVal hS]

/-! ## multi-message proposals: one type, and the community-pool minimum over the SUM of the spends -/

/-- **every stored proposal, after every history, has messages of one type** (they passed `checkProposalMsgs` at
submission and the messages of a stored proposal never change) -/
theorem stored_proposals_single_type (ops : List Op) (hc : NoGovSpend ops = true) (pid : Nat) (p : Proposal) :
    let s := run init ops
    findProp s.props pid = some p → ∀ a ∈ p.msgs, ∀ b ∈ p.msgs, lowerAscii a.ty = lowerAscii b.ty := by
  intro s hp
  have ha : All s := run_all rfl rfl rfl rfl ops hc init init_all
  have hc : checkMsgs p.msgs = true := ha.both.q.typed pid p hp
  cases hm : p.msgs with
  | nil => intro a ha'; cases ha'
  | cons m r =>
    rw [hm] at hc
    have key := lowerAscii_eq_of_checkMsgs rfl r m hc
    have all : ∀ x ∈ m :: r, lowerAscii x.ty = lowerAscii m.ty := by
      intro x hx
      rcases List.mem_cons.mp hx with hx | hx
      · rw [hx]
      · exact key x hx
    intro a ha' b hb
    rw [all a ha', all b hb]

/-- the amount a community-pool spend requests in the deposit denom -/
def spendAmount (m : Msg) : Nat := match m.act with | .credit fx _ _ => fx | _ => 0

def sumSpends : List Msg → Nat
  | [] => 0
  | m :: r => spendAmount m + sumSpends r

/-- the requested amount of a proposal whose messages are all community-pool spends is the SUM over its messages -/
theorem specRequest_is_sum : ∀ msgs : List Msg,
    specRequest msgs = if msgs.all (fun m => isSpendType m.ty) then some (sumSpends msgs) else none := by
  intro msgs
  induction msgs with
  | nil => simp [specRequest, sumSpends]
  | cons m r ih =>
    simp only [specRequest, List.all_cons, sumSpends]
    by_cases hs : isSpendType m.ty = true
    · simp only [hs, if_true, Bool.true_and]
      rw [ih]
      by_cases hr : (r.all fun m => isSpendType m.ty) = true
      · cases hm : m.act <;> simp [hr, spendAmount, hm, Nat.add_comm]
      · cases hm : m.act <;> simp [hr]
    · simp [hs]

/-- **minimum deposit over the sum of the spends**: a proposal made of several community-pool spends enters voting
only when its total deposit reaches the configured share (rounded half to even) of the SUM of the requested amounts, or
the default minimum when that is larger -/
theorem min_deposit_over_sum_of_spends (s : State) (p : Proposal) (who : Addr) (amt : Nat) (c : Custom)
    (hdep : p.status = .deposit) (hfound : findProp s.props p.id = some p)
    (hall : p.msgs.all (fun m => isSpendType m.ty) = true) (hc : getCustom s.custom egfUrl.toList = some c) :
    match findProp (depositEffect s p who amt).props p.id with
    | some p' => p'.status = .voting →
        max (if p.expedited then s.params.expMinDeposit else s.params.minDeposit) (mulRound (sumSpends p.msgs) c.depositRatio) ≤ p'.total
    | none => True := by
  have h := voting_requires_min_deposit s p who amt hdep hfound
  have e : specMin s.custom (if p.expedited then s.params.expMinDeposit else s.params.minDeposit) p.msgs =
      max (if p.expedited then s.params.expMinDeposit else s.params.minDeposit) (mulRound (sumSpends p.msgs) c.depositRatio) := by
    unfold specMin
    rw [specRequest_is_sum, hall, hc]
    simp
  rw [e] at h
  exact h

/-! ## round 3: activation ⇔ minimum deposit, and voting ends exactly at the queue time — over every history -/

/-- requested community-pool amounts (deposit denom, other denom) when every message is a community-pool spend -/
def specRequest2 : List Msg → Option (Nat × Nat)
  | [] => some (0, 0)
  | m :: r =>
    if isSpendType m.ty then
      match specRequest2 r, m.act with
      | some (a, b), .credit fx other _ => some (a + fx, b + other)
      | some (a, b), _ => some (a, b)
      | none, _ => none
    else none

theorem egfRequest_eq_spec2 : ∀ msgs : List Msg, egfRequest msgs = specRequest2 msgs := by
  intro msgs
  induction msgs with
  | nil => rfl
  | cons m r ih =>
    have h1 : egfSeenUrl m = m.ty := by simp [egfSeenUrl, show egfUrlIsMessageUrl = true from rfl]
    have h2 : isEgf m.ty = isSpendType m.ty := by simp [isEgf, isSpendType, show egfTypeCmp = "strings.EqualFold" from rfl]
    simp only [egfRequest, specRequest2, h1, h2, ih]
    by_cases hs : isSpendType m.ty = true
    · simp only [hs, if_true]
      cases specRequest2 r with
      | none => rfl
      | some ab => obtain ⟨a, b⟩ := ab; cases m.act <;> rfl
    · simp [hs]

theorem specRequest_eq_fst : ∀ msgs : List Msg, specRequest msgs = (specRequest2 msgs).map (·.1) := by
  intro msgs
  induction msgs with
  | nil => rfl
  | cons m r ih =>
    simp only [specRequest, specRequest2, ih]
    by_cases hs : isSpendType m.ty = true
    · simp only [hs, if_true]
      cases specRequest2 r with
      | none => rfl
      | some ab => obtain ⟨a, b⟩ := ab; cases m.act <;> rfl
    · simp [hs]

/-- the configured share of the amount requested in a denomination that cannot be deposited (deposits are made in the one
denomination of `params.MinDeposit`): when it is positive, no deposit can ever reach the minimum -/
def specOtherShare (custom : List (Ty × Custom)) (msgs : List Msg) : Nat :=
  match specRequest2 msgs, getCustom custom egfUrl.toList with
  | some (_, other), some c => mulRound other c.depositRatio
  | _, _ => 0

/-- **the activation test the property asks for**: the total deposit reaches the minimum applicable to the message type -/
def specActivates (custom : List (Ty × Custom)) (dflt : Nat) (msgs : List Msg) (total : Nat) : Bool :=
  decide (specMin custom dflt msgs ≤ total) && total != 0 && specOtherShare custom msgs == 0

theorem mulRound_zero_left (r : Nat) : mulRound 0 r = 0 := by simp [mulRound, roundHalfEven, DEC]
theorem mulRound_zero_right (a : Nat) : mulRound a 0 = 0 := by simp [mulRound, roundHalfEven, DEC]

/-- the test `AddDeposit` performs (comparison, EGF rule, rounding and combination all read from the source) IS the
specified one — both directions -/
theorem reaches_eq_specActivates (custom : List (Ty × Custom)) (dflt total : Nat) (msgs : List Msg) :
    reaches total (minForMsgs custom dflt msgs) = specActivates custom dflt msgs total := by
  have hA : activationCmp = "IsAllGTE" := rfl
  have hB : egfCombine = "max" := rfl
  have hC : activationUsesMsgMin = true := rfl
  have hD : egfRounding = "RoundInt" := rfl
  have hZ : egfZeroRatioIsDefault = true := rfl
  have plain : reaches total ⟨some dflt, none⟩ = (decide (dflt ≤ total) && total != 0 && true) := by
    simp only [reaches, hA]
    by_cases h1 : dflt ≤ total <;> by_cases h2 : total = 0 <;> simp [h1, h2]
  unfold minForMsgs specActivates specMin specOtherShare
  simp only [hC, Bool.not_true, Bool.false_eq_true, if_false]
  rw [egfRequest_eq_spec2, specRequest_eq_fst]
  cases hs : specRequest2 msgs with
  | none => simpa using plain
  | some ab =>
    obtain ⟨a, b⟩ := ab
    simp only [Option.map_some]
    cases hc : getCustom custom egfUrl.toList with
    | none => simpa using plain
    | some c =>
      simp only
      by_cases hz : c.depositRatio = 0
      · simp only [hZ, hz, beq_self_eq_true, Bool.and_self, if_true, mulRound_zero_right]
        simpa using plain
      · have hz' : (c.depositRatio == 0) = false := by simpa using hz
        have hne : ¬ ("max" == "share-unless-IsAllLT-default") = true := by decide
        simp only [hz', Bool.and_false, Bool.false_eq_true, if_false, hB, hne, beq_self_eq_true, if_true, egfShare, hD]
        have hfx : (if (a == 0) = true then (none : Option Nat) else some (mulRound a c.depositRatio)).getD 0 = mulRound a c.depositRatio := by
          by_cases ha : a = 0
          · subst ha; simp [mulRound_zero_left]
          · simp [ha]
        rw [hfx]
        simp only [reaches, hA]
        by_cases hb : b = 0
        · subst hb
          simp only [beq_self_eq_true, if_true, mulRound_zero_left]
          by_cases h1 : max dflt (mulRound a c.depositRatio) ≤ total <;> by_cases h2 : total = 0 <;> simp [h1, h2]
        · have hb' : (b == 0) = false := by simpa using hb
          simp only [hb', Bool.false_eq_true, if_false]
          cases hx : mulRound b c.depositRatio with
          | zero =>
            by_cases h1 : max dflt (mulRound a c.depositRatio) ≤ total <;> by_cases h2 : total = 0 <;> simp [h1, h2]
          | succ y =>
            by_cases h1 : max dflt (mulRound a c.depositRatio) ≤ total <;> by_cases h2 : total = 0 <;> simp [h1, h2]

/-- **the order of the statements of `AddDeposit`, as written in the source now** (regenerated list, interpreted by the
model): the coins are sent and the total is updated and stored before the minimum of the message type replaces the default
and before the activation test, which therefore sees the NEW total and the type's minimum; the deposit record is written
last.  With this order the interpreted run is the one-piece effect the theorems above and below speak about; with any
other order (test hoisted above the update, minimum computed after the test, …) this obligation stops checking. -/
theorem add_deposit_statement_order :
    addDepositSteps =
      ["getProposal", "statusCheck", "depositorNotModule:gov", "getParams", "defaultMin", "getRatio", "denomCheck", "ratioCheck", "sendCoins", "addTotal",
       "setProposal", "msgMin", "flag", "activate", "getDeposit", "mergeDeposit", "hooks", "sdkCtx", "event", "setDeposit", "return"] ∧
    ∀ (s : State) (p : Proposal) (who : Addr) (amt : Nat), depositRun s p who amt = depositEffect s p who amt :=
  ⟨addDepositSteps_order, depositRun_eq⟩

/-- **activation ⇔ minimum deposit, in every state**: a successful `AddDeposit` on a proposal in its deposit period moves
it into voting if AND ONLY IF its new total reaches the minimum applicable to its message type — the default for its kind,
or the configured share of the requested community-pool amount when that is larger (and nothing is requested in a
denomination that cannot be deposited) -/
theorem activation_iff_min_deposit (s : State) (p : Proposal) (who : Addr) (amt : Nat)
    (hdep : p.status = .deposit) (hfound : findProp s.props p.id = some p) :
    ∃ p', findProp (depositEffect s p who amt).props p.id = some p' ∧ p'.total = p.total + amt ∧
      (p'.status = .voting ↔
        specActivates s.custom (if p.expedited then s.params.expMinDeposit else s.params.minDeposit) p.msgs (p.total + amt) = true) ∧
      (p'.status = .voting ∨ p'.status = .deposit) := by
  rw [findProp_depositEffect s p who amt hfound]
  simp only [if_true]
  have e := reaches_eq_specActivates s.custom (defaultMin s p.expedited) (p.total + amt) p.msgs
  have ed : defaultMin s p.expedited = if p.expedited then s.params.expMinDeposit else s.params.minDeposit := rfl
  rw [ed] at e
  by_cases hact : reaches (p.total + amt) (minForMsgs s.custom (defaultMin s p.expedited) p.msgs) = true
  · have ha : (afterDeposit s p amt).status = .voting ∧ (afterDeposit s p amt).total = p.total + amt := by
      simp [afterDeposit, hdep, hact]
    refine ⟨_, rfl, ha.2, ⟨fun _ => ?_, fun _ => ha.1⟩, Or.inl ha.1⟩
    rw [← e]; exact hact
  · have hact' : reaches (p.total + amt) (minForMsgs s.custom (defaultMin s p.expedited) p.msgs) = false := by simpa using hact
    have ha : afterDeposit s p amt = { p with total := p.total + amt } := by
      simp [afterDeposit, hact']
    rw [ha]
    refine ⟨_, rfl, rfl, ⟨fun h => ?_, fun h => ?_⟩, Or.inr hdep⟩
    · have h' : p.status = .voting := h
      rw [hdep] at h'; cases h'
    · rw [← e] at h; exact absurd (h.symm.trans hact') (by decide)

theorem run_snoc : ∀ (ops : List Op) (s : State) (op : Op), run s (ops ++ [op]) = (step (run s ops) op).1 := by
  intro ops
  induction ops with
  | nil => intro s op; rfl
  | cons o r ih => intro s op; simp only [List.cons_append, run]; exact ih _ op

theorem afterDeposit_facts (s : State) (p : Proposal) (amt : Nat) (hdep : p.status = .deposit) :
    (afterDeposit s p amt).total = p.total + amt ∧ (afterDeposit s p amt).msgs = p.msgs ∧
    (afterDeposit s p amt).expedited = p.expedited ∧
    ((afterDeposit s p amt).status = .voting ↔ specActivates s.custom (defaultMin s p.expedited) p.msgs (p.total + amt) = true) ∧
    ((afterDeposit s p amt).status = .voting ∨ (afterDeposit s p amt).status = .deposit) ∧
    ((afterDeposit s p amt).status = .voting → (afterDeposit s p amt).votingStart = s.time ∧
        (afterDeposit s p amt).votingEnd = s.time + specPeriod s.params s.custom p.msgs p.expedited) := by
  have e := reaches_eq_specActivates s.custom (defaultMin s p.expedited) (p.total + amt) p.msgs
  have t1 : (afterDeposit s p amt).total = p.total + amt := by unfold afterDeposit; split <;> rfl
  have t2 : (afterDeposit s p amt).msgs = p.msgs := by unfold afterDeposit; split <;> rfl
  have t3 : (afterDeposit s p amt).expedited = p.expedited := by unfold afterDeposit; split <;> rfl
  refine ⟨t1, t2, t3, ?_⟩
  by_cases hact : reaches (p.total + amt) (minForMsgs s.custom (defaultMin s p.expedited) p.msgs) = true
  · have c : (p.status == .deposit && reaches (p.total + amt) (minForMsgs s.custom (defaultMin s p.expedited) p.msgs)) = true := by
      simp [hdep, hact]
    have u1 : (afterDeposit s p amt).status = .voting := by unfold afterDeposit; rw [if_pos c]
    have u2 : (afterDeposit s p amt).votingStart = s.time := by unfold afterDeposit; rw [if_pos c]
    have u3 : (afterDeposit s p amt).votingEnd = s.time + activationPeriod s { p with total := p.total + amt } := by
      unfold afterDeposit; rw [if_pos c]
    refine ⟨⟨fun _ => (by rw [← e]; exact hact), fun _ => u1⟩, Or.inl u1, fun _ => ⟨u2, ?_⟩⟩
    rw [u3, activation_period_by_type]
  · have hact' : reaches (p.total + amt) (minForMsgs s.custom (defaultMin s p.expedited) p.msgs) = false := by simpa using hact
    have c : ¬ (p.status == .deposit && reaches (p.total + amt) (minForMsgs s.custom (defaultMin s p.expedited) p.msgs)) = true := by
      simp [hact']
    have u1 : (afterDeposit s p amt).status = .deposit := by unfold afterDeposit; rw [if_neg c]; exact hdep
    refine ⟨⟨fun h => (by rw [u1] at h; cases h), fun h => ?_⟩, Or.inr u1, fun h => (by rw [u1] at h; cases h)⟩
    rw [← e] at h; exact absurd (h.symm.trans hact') (by decide)

theorem afterDeposit_voting (s : State) (p : Proposal) (amt : Nat) (hv : p.status = .voting) :
    afterDeposit s p amt = { p with total := p.total + amt } := by
  simp [afterDeposit, hv]

/-- **the active-queue keys are the stored voting ends** (two sites that have to agree, both read from the source): both
`ActivateVotingPeriod` and the expedited→regular conversion write the proposal into the active queue under the very
`VotingEndTime` they store in it — so the time the tally happens (`voting_ends_exactly_at_period_end`) is the time the
proposal shows -/
theorem queue_keys_are_the_stored_voting_end (s : State) (p : Proposal) :
    activationQueueKeyIsVotingEnd = true ∧ conversionQueueKeyIsVotingEnd = true ∧
    activationQueueTime s p = s.time + specPeriod s.params s.custom p.msgs p.expedited := by
  refine ⟨rfl, rfl, ?_⟩
  simp only [activationQueueTime, show activationQueueKeyIsVotingEnd = true from rfl, if_true, activation_period_by_type]

/-- **a proposal enters voting exactly when a deposit brings its total to the minimum of its message type — after every
history, for every next operation**.  With `s` the state after any operation list and `s'` the state after one more
operation: (1) a stored proposal in its deposit period is in its voting period afterwards if AND ONLY IF its total changed
(the operation was an accepted deposit on it) and the new total reaches the minimum applicable to its message type with the
parameters and custom parameters of that moment; when it does, voting starts now, ends at now + the period configured for
its message type at that moment, and that end time is its entry in the active queue; its messages and kind never change;
(2) the same for a proposal that is stored by this very operation (submission with its initial deposit); (3) a proposal
that has ended is never touched again (in particular it never re-enters voting). -/
theorem enters_voting_exactly_when_min_reached (ops : List Op) (hc : NoGovSpend ops = true) (op : Op) (hop : opNoGovSpend op = true) (pid : Nat) :
    let s := run init ops
    let s' := (step s op).1
    (∀ p, findProp s.props pid = some p → p.status = .deposit → ∀ p', findProp s'.props pid = some p' →
        (p'.status = .voting ↔ (p'.total ≠ p.total ∧ specActivates s.custom (defaultMin s p.expedited) p.msgs p'.total = true)) ∧
        (p'.status = .voting → p'.votingStart = s.time ∧ p'.votingEnd = s.time + specPeriod s.params s.custom p.msgs p.expedited ∧
            (p'.votingEnd, pid) ∈ s'.active) ∧
        (p'.status = .voting ∨ p'.status = .deposit) ∧ p'.msgs = p.msgs ∧ p'.expedited = p.expedited) ∧
    (findProp s.props pid = none → ∀ p', findProp s'.props pid = some p' →
        (p'.status = .voting ↔ specActivates s.custom (defaultMin s p'.expedited) p'.msgs p'.total = true) ∧
        (p'.status = .voting → p'.votingStart = s.time ∧ p'.votingEnd = s.time + specPeriod s.params s.custom p'.msgs p'.expedited ∧
            (p'.votingEnd, pid) ∈ s'.active) ∧
        (p'.status = .voting ∨ p'.status = .deposit)) ∧
    (∀ p, findProp s.props pid = some p → isOpenSt p.status = false → findProp s'.props pid = some p) := by
  intro s s'
  have ha : All s := run_all rfl rfl rfl rfl ops hc init init_all
  have ha' : All s' := step_all rfl rfl rfl rfl op hop ha
  have inq : ∀ p', findProp s'.props pid = some p' → p'.status = .voting → (p'.votingEnd, pid) ∈ s'.active :=
    fun p' h1 h2 => ha'.both.q.actComplete pid p' h1 h2
  by_cases hE : ∃ dt stk, op = .endBlock dt stk
  · obtain ⟨dt, stk, rfl⟩ := hE
    have hs' : s' = (step s (.endBlock dt stk)).1 := rfl
    simp only [step] at hs'
    cases hb : endBlock stk s with
    | error e =>
      have e' : s' = s := by rw [hs', hb]
      rw [e']
      refine ⟨fun p hp hd p' hp' => ?_, fun hn p' hp' => ?_, fun p hp _ => hp⟩
      · rw [hp] at hp'; cases hp'
        refine ⟨⟨fun h => (by rw [hd] at h; cases h), fun h => absurd rfl h.1⟩, fun h => (by rw [hd] at h; cases h), Or.inr hd, rfl, rfl⟩
      · rw [hn] at hp'; cases hp'
    | ok s1 =>
      have e' : s'.props = s1.props := by rw [hs', hb]
      rw [e']
      refine ⟨fun p hp hd p' hp' => ?_, fun hn p' hp' => ?_, fun p hp hc => ?_⟩
      · have dd := endBlock_deposit rfl rfl rfl rfl ha hb hp hd
        by_cases hlt : s.time < p.depositEnd
        · rw [dd.1 hlt] at hp'; cases hp'
          refine ⟨⟨fun h => (by rw [hd] at h; cases h), fun h => absurd rfl h.1⟩, fun h => (by rw [hd] at h; cases h), Or.inr hd, rfl, rfl⟩
        · rw [dd.2 (by omega)] at hp'; cases hp'
      · have := endBlock_closed rfl rfl rfl rfl ha hb (pid := pid) (fun p hp => by rw [hn] at hp; cases hp)
        rw [this, hn] at hp'; cases hp'
      · have := endBlock_closed rfl rfl rfl rfl ha hb (pid := pid) (fun q hq => by rw [hp] at hq; cases hq; exact hc)
        rw [this]; exact hp
  · have hne : ∀ dt stk, op ≠ .endBlock dt stk := fun dt stk e => hE ⟨dt, stk, e⟩
    have sh := step_findProp s op hne ha.both.q pid
    refine ⟨fun p hp hd p' hp' => ?_, fun hn p' hp' => ?_, fun p hp hc => ?_⟩
    · rcases sh with sh | ⟨q, who, amt, hq, _, _, hamt, hr⟩ | ⟨who, q, _, _, _, hr⟩ | ⟨who, msgs, initial, exp, _, _, hnone, _, _⟩
      · have : findProp s'.props pid = findProp s.props pid := sh
        rw [this, hp] at hp'; cases hp'
        refine ⟨⟨fun h => (by rw [hd] at h; cases h), fun h => absurd rfl h.1⟩, fun h => (by rw [hd] at h; cases h), Or.inr hd, rfl, rfl⟩
      · rw [hp] at hq; cases hq
        have hr' : findProp s'.props pid = some (afterDeposit s p amt) := hr
        rw [hr'] at hp'; cases hp'
        obtain ⟨f1, f2, f3, f4, f5, f6⟩ := afterDeposit_facts s p amt hd
        refine ⟨⟨fun h => ⟨(by rw [f1]; omega), (by rw [f1]; exact f4.mp h)⟩, fun h => f4.mpr (by rw [← f1]; exact h.2)⟩,
          fun h => ⟨(f6 h).1, (f6 h).2, inq _ hr' h⟩, f5, f2, f3⟩
      · have hr' : findProp s'.props pid = none := hr
        rw [hr'] at hp'; cases hp'
      · rw [hp] at hnone; cases hnone
    · rcases sh with sh | ⟨q, who, amt, hq, _⟩ | ⟨who, q, _, hq, _⟩ | ⟨who, msgs, initial, exp, _, _, _, _, hr⟩
      · have : findProp s'.props pid = findProp s.props pid := sh
        rw [this, hn] at hp'; cases hp'
      · rw [hn] at hq; cases hq
      · rw [hn] at hq; cases hq
      · have hr' : findProp s'.props pid = some (afterDeposit s (newProp s who msgs exp) initial) := hr
        rw [hr'] at hp'; cases hp'
        obtain ⟨f1, f2, f3, f4, f5, f6⟩ := afterDeposit_facts s (newProp s who msgs exp) initial rfl
        have f1' : (afterDeposit s (newProp s who msgs exp) initial).total = initial := by rw [f1]; simp [newProp]
        refine ⟨?_, fun h => ⟨(f6 h).1, ?_, inq _ hr' h⟩, f5⟩
        · rw [f2, f3, f1']
          have : (newProp s who msgs exp).total + initial = initial := by simp [newProp]
          rw [this] at f4
          exact f4
        · rw [f2, f3]; exact (f6 h).2
    · rcases sh with sh | ⟨q, who, amt, hq, ho, _⟩ | ⟨who, q, _, hq, ho, _⟩ | ⟨who, msgs, initial, exp, _, _, hnone, _, _⟩
      · have : findProp s'.props pid = findProp s.props pid := sh
        rw [this]; exact hp
      · rw [hp] at hq; cases hq; rw [hc] at ho; cases ho
      · rw [hp] at hq; cases hq; rw [hc] at ho; cases ho
      · rw [hp] at hnone; cases hnone

/-- **voting ends exactly at the queue time, with the period and quorum of the message type — after every history, for
every next operation**.  With `s` the state after any operation list, `p` a stored proposal in its voting period and `s'` the
state after one more operation: (1) unless that operation is a block whose time has reached `p`'s voting end (or the
proposer cancels it), the proposal stays in its voting period with the same start, end, kind and messages, and its end time
stays its entry in the active queue — nothing ends it early, nothing moves its end; (2) a block whose time has reached its
voting end (staking numbers of any staking state) tallies it in that very block: there is a moment `sm` of the end-blocker
walk — same clock and parameters, the proposal exactly as the block found it — at which the stored votes are summed and the
decision is the specified one with the quorum configured for its message type at that moment; if it passes it becomes PASSED
or FAILED, if not a regular proposal is REJECTED and an expedited one is converted: it stays in voting, is no longer
expedited, and its new end is its START + the regular period configured for its message type at that moment, which is its
new entry in the active queue. -/
theorem voting_ends_exactly_at_period_end (ops : List Op) (hc : NoGovSpend ops = true) (op : Op) (hop : opNoGovSpend op = true) (pid : Nat) (p : Proposal) :
    let s := run init ops
    let s' := (step s op).1
    findProp s.props pid = some p → p.status = .voting →
    ((¬ ∃ dt stk, op = .endBlock dt stk ∧ p.votingEnd ≤ s.time) → (∀ who, op ≠ .cancel pid who) →
        ∃ p', findProp s'.props pid = some p' ∧ p'.status = .voting ∧ p'.votingStart = p.votingStart ∧
          p'.votingEnd = p.votingEnd ∧ p'.expedited = p.expedited ∧ p'.msgs = p.msgs ∧ (p.votingEnd, pid) ∈ s'.active) ∧
    (∀ dt stk, op = .endBlock dt stk → stakingOk stk → p.votingEnd ≤ s.time →
        ∃ (sm : State) (n : Nums) (q : Proposal), sm.params = s.params ∧ sm.time = s.time ∧ findProp sm.props pid = some p ∧
          tallyNums (votesOf sm.votes pid) stk = some n ∧ n.bonded = stk.totalBonded ∧
          findProp s'.props pid = some q ∧ q.msgs = p.msgs ∧ q.votingStart = p.votingStart ∧
          (specPasses s.params (specQuorum s.params sm.custom p.msgs) p.expedited n = true →
              q.status = .passed ∨ q.status = .failed) ∧
          (specPasses s.params (specQuorum s.params sm.custom p.msgs) p.expedited n = false → p.expedited = false →
              q.status = .rejected) ∧
          (specPasses s.params (specQuorum s.params sm.custom p.msgs) p.expedited n = false → p.expedited = true →
              q.status = .voting ∧ q.expedited = false ∧
              q.votingEnd = p.votingStart + specPeriod s.params sm.custom p.msgs false ∧ (q.votingEnd, pid) ∈ s'.active)) := by
  intro s s' hp hv
  have ha : All s := run_all rfl rfl rfl rfl ops hc init init_all
  have ha' : All s' := step_all rfl rfl rfl rfl op hop ha
  have inq : ∀ p', findProp s'.props pid = some p' → p'.status = .voting → (p'.votingEnd, pid) ∈ s'.active :=
    fun p' h1 h2 => ha'.both.q.actComplete pid p' h1 h2
  refine ⟨fun hnd hnc => ?_, fun dt stk hop hs hle => ?_⟩
  · have same : findProp s'.props pid = some p → ∃ p', findProp s'.props pid = some p' ∧ p'.status = .voting ∧
        p'.votingStart = p.votingStart ∧ p'.votingEnd = p.votingEnd ∧ p'.expedited = p.expedited ∧ p'.msgs = p.msgs ∧
        (p.votingEnd, pid) ∈ s'.active := fun h => ⟨p, h, hv, rfl, rfl, rfl, rfl, inq p h hv⟩
    by_cases hE : ∃ dt stk, op = .endBlock dt stk
    · obtain ⟨dt, stk, rfl⟩ := hE
      have hlt : s.time < p.votingEnd := by
        have : ¬ p.votingEnd ≤ s.time := fun h => hnd ⟨dt, stk, rfl, h⟩
        omega
      have hs' : s' = (step s (.endBlock dt stk)).1 := rfl
      simp only [step] at hs'
      cases hb : endBlock stk s with
      | error e =>
        have e' : s' = s := by rw [hs', hb]
        exact same (by rw [e']; exact hp)
      | ok s1 =>
        have e' : s'.props = s1.props := by rw [hs', hb]
        exact same (by rw [e']; exact (endBlock_voting rfl rfl rfl rfl ha hb hp hv).1 hlt)
    · have hne : ∀ dt stk, op ≠ .endBlock dt stk := fun dt stk e => hE ⟨dt, stk, e⟩
      rcases step_findProp s op hne ha.both.q pid with sh | ⟨q, who, amt, hq, _, _, _, hr⟩ | ⟨who, q, hc, _⟩ |
          ⟨who, msgs, initial, exp, _, _, hnone, _, _⟩
      · have : findProp s'.props pid = findProp s.props pid := sh
        exact same (by rw [this]; exact hp)
      · rw [hp] at hq; cases hq
        have hr' : findProp s'.props pid = some (afterDeposit s p amt) := hr
        rw [afterDeposit_voting s p amt hv] at hr'
        exact ⟨{ p with total := p.total + amt }, hr', hv, rfl, rfl, rfl, rfl, inq { p with total := p.total + amt } hr' hv⟩
      · exact absurd hc (hnc who)
      · rw [hp] at hnone; cases hnone
  · subst hop
    obtain ⟨s1, hb, _⟩ := endBlock_total rfl rfl rfl rfl rfl ha hs
    have hs' : s' = (step s (.endBlock dt stk)).1 := rfl
    simp only [step, hb] at hs'
    have e' : s'.props = s1.props := by rw [hs']
    obtain ⟨sm, q, n, passes, burn, hsm, hpar, htime, hpm, hn, hr, hq, hend⟩ :=
      (endBlock_voting rfl rfl rfl rfl ha hb hp hv).2 hle
    obtain ⟨n', hn', hj, hbond⟩ := tallyNums_ok (votes := votesOf sm.votes pid) (stk := stk)
      (fun v hv' => hsm.both.v.valid v (mem_votesOf.mp hv').1) hs rfl
    rw [hn] at hn'; cases hn'
    have hout := tally_outcome_by_type sm p n hj
    rw [hr, hpar] at hout
    have hpass : passes = specPasses s.params (specQuorum s.params sm.custom p.msgs) p.expedited n := by
      cases hout; rfl
    have hq' : findProp s'.props pid = some q := by rw [e']; exact hq
    obtain ⟨e1, e2, _, _, e5⟩ := hend
    refine ⟨sm, n, q, hpar, htime, hpm, hn, hbond, hq', e1, e2, fun h => ?_, fun h hx => ?_, fun h hx => ?_⟩
    · rcases e5 with e5 | e5 | e5
      · exact e5.2
      · rw [hpass, h] at e5; cases e5.1
      · rw [hpass, h] at e5; cases e5.1
    · rcases e5 with e5 | e5 | e5
      · rw [hpass, h] at e5; cases e5.1
      · rw [hx] at e5; cases e5.2.1
      · exact e5.2.2
    · rcases e5 with e5 | e5 | e5
      · rw [hpass, h] at e5; cases e5.1
      · have hst : q.status = .voting := by rw [e5.2.2.1]; exact hv
        have hend' : q.votingEnd = p.votingStart + specPeriod s.params sm.custom p.msgs false := by
          rw [e5.2.2.2.2, conversion_period_by_type, hpar]
        exact ⟨hst, e5.2.2.2.1, hend', inq q hq' hst⟩
      · rw [hx] at e5; cases e5.2.1

/-- **the deposit period ends exactly at the deposit end**: after every history, a block (staking numbers of any staking
state) leaves a proposal in its deposit period untouched while the block time is before its deposit end, and from its
deposit end on deletes it in that very block — and none of its deposit records is left (they were refunded or burnt, see
`each_deposit_settled_once_refund` / `_burn`, and the module balance is again the sum of the open deposits) -/
theorem deposit_period_ends_exactly_at_deposit_end (ops : List Op) (hc : NoGovSpend ops = true) (dt : Nat) (stk : Staking) (hs : stakingOk stk)
    (pid : Nat) (p : Proposal) :
    let s := run init ops
    let s' := (step s (.endBlock dt stk)).1
    findProp s.props pid = some p → p.status = .deposit →
    (s.time < p.depositEnd → findProp s'.props pid = some p) ∧
    (p.depositEnd ≤ s.time → findProp s'.props pid = none ∧ depsOf s'.deps pid = []) := by
  intro s s' hp hd
  have ha : All s := run_all rfl rfl rfl rfl ops hc init init_all
  obtain ⟨s1, hb, _⟩ := endBlock_total rfl rfl rfl rfl rfl ha hs
  have hs' : s' = (step s (.endBlock dt stk)).1 := rfl
  simp only [step, hb] at hs'
  have e' : s'.props = s1.props := by rw [hs']
  have dd := endBlock_deposit rfl rfl rfl rfl ha hb hp hd
  refine ⟨fun h => by rw [e']; exact dd.1 h, fun h => ?_⟩
  have hnone : findProp s'.props pid = none := by rw [e']; exact dd.2 h
  refine ⟨hnone, ?_⟩
  have hrun : s' = run init (ops ++ [.endBlock dt stk]) := (run_snoc ops init _).symm
  have := each_deposit_settled_once (ops ++ [.endBlock dt stk]) (noGovSpend_snoc hc rfl) pid
  simp only at this
  rw [← hrun] at this
  exact (this (by simp [isOpenId, hnone])).1

/-! ## round 3: the staking numbers of a block are STATE of a small staking model, not an input

`wstep` (`Model/C15Staking.lean`) runs the gov model next to a staking state — genesis validators with their delegations,
`MsgDelegate` (shares issued at the validator's exchange rate), `Keeper.Slash` at the current height (tokens burnt, shares
kept) — and hands every end-blocker the numbers of that state (`viewOf`).  The hypotheses `stakingOk` and "delegations to a
validator add up to at most its shares", which the round-2 theorems had to assume about the block input, are invariants here. -/

/-- the gov component of the combined machine is a state of the gov machine: every theorem about `run init ops` above
holds for it -/
theorem world_gov_is_reachable (ops : List WOp) : ∃ gops, (wrun winit ops).gov = run init gops :=
  wrun_gov ops winit ⟨[], rfl⟩

/-- … and when no proposal of the history spends from the gov module account, neither does one of that gov history -/
theorem world_gov_is_reachable_clean (ops : List WOp) (hc : WNoGovSpend ops = true) :
    ∃ gops, (wrun winit ops).gov = run init gops ∧ NoGovSpend gops = true :=
  wrun_gov_clean ops hc winit ⟨[], rfl, rfl⟩

/-- **after every history of gov operations, delegations and slashes** every bonded validator has delegator shares … -/
theorem staking_numbers_always_ok (ops : List WOp) : stakingOk (viewOf (wrun winit ops).stk) := by
  have h := wrun_sok ops winit (fun v hv => by simp [winit] at hv)
  intro v hv
  exact h v (List.mem_filter.mp hv).1

/-- … no operator occurs twice and the recorded delegations to a validator never exceed its delegator shares -/
theorem delegations_within_shares (ops : List WOp) :
    ∀ v ∈ (viewOf (wrun winit ops).stk).vals, delSum (viewOf (wrun winit ops).stk).dels v.op ≤ v.shares := by
  have h := (wrun_dok ops winit ⟨rfl, fun v hv => by simp [winit] at hv⟩).within
  intro v hv
  exact h v (List.mem_filter.mp hv).1

/-- **the end-blocker never halts, with no assumption left about the staking numbers**: after every history of the
combined machine a block answers `ok` (the numbers written on the op are ignored — the tallies read the modelled state) -/
theorem no_halt_closed (ops : List WOp) (hc : WNoGovSpend ops = true) (dt : Nat) (stk : Staking) :
    (wstep (wrun winit ops) (.gov (.endBlock dt stk))).2 = "ok" := by
  obtain ⟨gops, hg, hcl⟩ := world_gov_is_reachable_clean ops hc
  have := no_halt gops hcl dt (viewOf (wrun winit ops).stk) (staking_numbers_always_ok ops)
  simp only [wstep, hg]
  exact this

theorem sumNat_map_shares : ∀ ds : List Del, sumNat (ds.map (·.shares)) = sumShares ds := by
  intro ds
  induction ds with
  | nil => rfl
  | cons d r ih => simp only [List.map_cons, sumNat, sumShares, ih]

/-- **no stake is counted for more than it is worth, closed**: for every validator of every reachable staking state, the
voting powers `Tally` gives to ALL recorded delegations to it plus the power it leaves to the validator itself exceed its
bonded tokens by at most one unit of 10^-18 per term -/
theorem tally_power_bounded_closed (ops : List WOp) (v : Val) (hv : v ∈ (viewOf (wrun winit ops).stk).vals) :
    let ds := ((viewOf (wrun winit ops).stk).dels.filter (fun d => d.val == v.op)).map (·.shares)
    ∃ pv, valPower v (sumNat ds) = some pv ∧
      sumNat (ds.map (fun d => quoVal (d * v.bonded) v.shares)) + pv ≤ DEC * v.bonded + ds.length + 1 := by
  intro ds
  have hS := staking_numbers_always_ok ops v hv
  have hsum : sumNat ds ≤ v.shares := by
    have := delegations_within_shares ops v hv
    simpa [ds, sumNat_map_shares, delSum] using this
  obtain ⟨pv, h1, _, h3⟩ := tally_power_bounded_by_stake v hS ds hsum
  exact ⟨pv, h1, h3⟩

/-! ## round 3: the deposit ledger over whole histories -/

/-- **every coin paid in for a proposal is held or has been settled — exactly once — after every history**: per proposal,
the sum of everything ever deposited for it (initial deposits and `MsgDeposit`s, ghost log `paid`) equals the sum of its
deposit records still stored plus the sum of its settlements (refund, burn, or refund-and-charge of a cancellation, ghost
log `settled`, one entry per deposit record at the moment it was deleted).  Once the proposal is no longer open nothing is
held, so exactly what was paid in has been settled: nothing twice, nothing left behind. -/
theorem deposits_paid_equal_held_plus_settled (ops : List Op) (pid : Nat) :
    let s := run init ops
    sumAmt (depsOf s.paid pid) = sumAmt (depsOf s.deps pid) + sumSettled (settledOf s.settled pid) ∧
    (NoGovSpend ops = true → isOpenId s.props pid = false → sumAmt (depsOf s.paid pid) = sumSettled (settledOf s.settled pid)) := by
  intro s
  have hl : Ledger s := run_ledger rfl rfl rfl ops init init_ledger
  refine ⟨hl pid, fun hcl hc => ?_⟩
  have h0 : sumAmt (depsOf s.deps pid) = 0 := (each_deposit_settled_once ops hcl pid hc).2
  have h := hl pid
  rw [h0] at h
  simpa using h

/-! ## round 4: the SDK keeper functions regenerated, the custom parameters a tally sees, counts = votes × stakes -/

/-- **`CancelProposal` of the SDK version `/repo/go.mod` selects, as written there now**: its statement list (regenerated from
the module cache) is the expected one — look-up, proposer, open status, voting end not passed, THEN `ChargeDeposit`, the
votes deleted if voting had started, `DeleteProposal` last — and so are those of `DeleteProposal`, `ChargeDeposit` (its loop
body, its destination switch); the model's `step` runs them tag by tag (`cancelRun`), and that run IS the one-piece `cancel`
every history theorem above is proved about, in every state, for every id and sender -/
theorem sdk_cancel_statement_order :
    sdkCancelSteps = ["sdkCtx", "getProposal", "needProposer", "checkProposer", "checkOpen", "checkNotEnded", "getParams",
      "chargeDeposit", "deleteVotesIfStarted", "deleteProposal", "log", "return"] ∧
    sdkDeleteProposalSteps = ["getProposal", "removeInactive", "removeActive", "removeProposal"] ∧
    sdkChargeSteps = ["rate", "charges0", "getDeposits", "depositLoop", "payCharges", "return"] ∧
    sdkChargeBody = ["depositor", "remaining0", "coinLoop", "refundRemaining", "removeDeposit"] ∧
    sdkChargeCoin = ["burnAmount=trunc(amount*rate)", "remaining+=amount-burnAmount", "charges+=burnAmount"] ∧
    (∀ (s : State) (pid : Nat) (who : Addr), cancelRun s pid who = cancel s pid who) ∧
    (∀ (s : State) (pid : Nat) (who : Addr), (step s (.cancel pid who)).1 = (ofExcept s (cancel s pid who)).1) ∧
    (∀ (s : State) (pid : Nat) (p : Proposal), findProp s.props pid = some p →
      deleteProposalRun pid s = { s with inactive := removeQ (p.depositEnd, pid) s.inactive,
                                         active := removeQ (p.votingEnd, pid) s.active, props := dropProp s.props pid }) :=
  ⟨rfl, rfl, rfl, rfl, rfl, cancelRun_eq, fun s pid who => by simp only [step, cancelRun_eq],
   fun _ _ _ hp => deleteProposalRun_eq hp⟩

/-- **the statements of `ActivateVotingPeriod`, as written in the source now** (regenerated list, interpreted by the model —
`AddDeposit`'s activation step runs `activateRun`): the start is the block time, the period is the default of the kind
replaced by the custom period of the message type, the end is START + period, the proposal is stored with start, end and
status, its inactive-queue entry is removed and its active-queue entry written under the stored end — and this run is the
one-piece `activate` of the history theorems, in every state -/
theorem activate_statement_order :
    activateSteps = ["sdkCtx", "startTime=blockTime", "setVotingStart", "var", "getParams", "periodByExpedited", "customPeriod",
      "endTime=start+period", "setVotingEnd", "setStatusVoting", "setProposal", "removeInactive", "setActive:votingEnd"] ∧
    ∀ (s : State) (p : Proposal), activateRun s p = activate s p :=
  ⟨rfl, activateRun_eq⟩

/-- **`Keeper.SubmitProposal` of that SDK version, and the inactive-queue step of the end-blocker**: the regenerated statement list
of `SubmitProposal` is the expected one — the message loop with `ValidateBasic`, exactly one signer, that signer the gov account,
a routed handler and the dry run of a legacy content; then the id is `ProposalID.Next`, the deposit end is the block time +
`MaxDepositPeriod`, the proposal is stored and entered into the inactive queue under that deposit end — and its interpreted run
(`sdkSubmitRun`, which the model's `submit` calls between the fx checks and `AddDeposit`) does exactly that, for every state and
submission; `submit` is the one-piece `submitSpec`, `dropInactive` — `DeleteProposal`, then `RefundAndDeleteDeposits` or
`DeleteAndBurnDeposits`, all three interpreted — is the one-piece `dropInactiveSpec` of the history theorems, and the SDK's `AddVote`
(refused unless the id is in the `VotingPeriodProposals` index, then `Votes.Set` under (proposal, voter)), interpreted by the model's
`vote` after the message server's validation of the options, is the one-piece `voteSpec` -/
theorem sdk_submit_statement_order :
    sdkSubmitSteps = ["sdkCtx", "assertMetadata", "assertSummary", "assertTitle", "msgsStr0", "msgLoop", "nextId", "getParams",
      "submitTime=blockTime", "depositPeriod=maxDepositPeriod", "newProposal(depositEnd=submitTime+depositPeriod)", "setProposal",
      "inactiveQueueSet:depositEnd", "hooks", "event", "return"] ∧
    sdkSubmitLoop = ["msgsStr+=", "validateBasic", "getSigners", "oneSigner", "signerIsGov", "handler", "routable", "legacyDryRun"] ∧
    (∀ (s : State) (proposer : Addr) (msgs : List Msg) (expedited : Bool),
      sdkSubmitRun s proposer msgs expedited =
        if !msgs.all (·.wellFormed) then .error "err:msg" else
        .ok ({ s with nextId := s.nextId + 1,
                      props := s.props ++ [{ id := s.nextId, msgs := msgs, proposer := proposer, status := .deposit, total := 0,
                                             depositEnd := s.time + s.params.maxDepositPeriod, votingStart := 0, votingEnd := 0,
                                             expedited := expedited }],
                      inactive := insertQ (s.time + s.params.maxDepositPeriod, s.nextId) s.inactive }, s.nextId)) ∧
    (∀ (s : State) (proposer : Addr) (msgs : List Msg) (initial : Nat) (expedited : Bool),
      submit s proposer msgs initial expedited = submitSpec s proposer msgs initial expedited) ∧
    (∀ (pid : Nat) (s : State), dropInactive pid s = dropInactiveSpec pid s) ∧
    sdkAddVoteSteps = ["inVotingPeriod=VotingPeriodProposals.Has", "rejectUnlessVoting", "assertMetadata", "optionsValid", "newVote",
      "votesSet", "hooks", "sdkCtx", "event", "return"] ∧
    (∀ (s : State) (pid : Nat) (voter : Addr) (opts : List (Opt × Nat)), vote s pid voter opts = voteSpec s pid voter opts) :=
  ⟨rfl, rfl, sdkSubmitRun_eq, submit_eq, dropInactive_eq, rfl, vote_eq⟩

/-- **`RefundAndDeleteDeposits` and `DeleteAndBurnDeposits` of that SDK version**: the callback of the refund walk sends the
deposit to its depositor and removes the record; the burn walk adds the amount to `coinsToBurn` and removes the record, one
`BurnCoins` of the sum follows the walk.  Interpreted (`refundRun`, `burnRun`), they are the `refundDeposits` /
`burnDeposits` of the model in every state, and the model's end-blocker (`dropInactive`, `finishTally`) RUNS the interpreted
ones — so `each_deposit_settled_once_refund` / `_burn` speak about the SDK code as written now -/
theorem sdk_settlement_statements :
    sdkRefundCallback = ["depositor", "send", "remove", "return:return false, err"] ∧
    sdkBurnSteps = ["sum0", "walk", "burnSum"] ∧ sdkBurnCallback = ["accumulate", "remove"] ∧
    (∀ (pid : Nat) (s : State), refundRun pid s = refundDeposits pid s) ∧
    (∀ (pid : Nat) (s : State), burnRun pid s = burnDeposits pid s) :=
  ⟨rfl, rfl, rfl, refundRun_eq, burnRun_eq⟩

/-- **the tally of a block uses the period and quorum configured at the START of the block**, after every history, unless
a proposal tallied BEFORE it in the same block rewrites them: with `s` the state after any operation list and `p` a stored
proposal whose voting end has been reached, if no stored proposal whose voting end has been reached and which PRECEDES `p` in
queue order (earlier voting end, or the same end and a smaller id — the order of the end-blocker's walk) carries a
`MsgUpdateCustomParams`, then the moment `sm` of `voting_ends_exactly_at_period_end` has the custom parameters of `s`: the
outcome is the specified one with the quorum configured for the message type in `s`, and a failed expedited proposal is
converted with the regular period configured for its type in `s`.  (Without the hypothesis the tally sees the parameters as
rewritten by the proposals executed before it in queue order — `example` below; that is the code's behaviour, and the
property's "configured for its message type" is then read at that moment.) -/
theorem tally_uses_block_start_custom (ops : List Op) (hc : NoGovSpend ops = true) (dt : Nat) (stk : Staking) (pid : Nat) (p : Proposal) :
    let s := run init ops
    let s' := (step s (.endBlock dt stk)).1
    findProp s.props pid = some p → p.status = .voting → stakingOk stk → p.votingEnd ≤ s.time →
    (∀ id q, findProp s.props id = some q → q.status = .voting → q.votingEnd ≤ s.time →
      (q.votingEnd < p.votingEnd ∨ (q.votingEnd = p.votingEnd ∧ id < pid)) → noSetCustom q.msgs = true) →
    ∃ (sm : State) (n : Nums) (q : Proposal), sm.params = s.params ∧ sm.time = s.time ∧ sm.custom = s.custom ∧
      findProp sm.props pid = some p ∧ tallyNums (votesOf sm.votes pid) stk = some n ∧
      findProp s'.props pid = some q ∧
      (specPasses s.params (specQuorum s.params s.custom p.msgs) p.expedited n = true → q.status = .passed ∨ q.status = .failed) ∧
      (specPasses s.params (specQuorum s.params s.custom p.msgs) p.expedited n = false → p.expedited = false → q.status = .rejected) ∧
      (specPasses s.params (specQuorum s.params s.custom p.msgs) p.expedited n = false → p.expedited = true →
          q.status = .voting ∧ q.expedited = false ∧ q.votingEnd = p.votingStart + specPeriod s.params s.custom p.msgs false) := by
  intro s s' hp hv hs hle hno
  have ha : All s := run_all rfl rfl rfl rfl ops hc init init_all
  obtain ⟨s1, hb, _⟩ := endBlock_total rfl rfl rfl rfl rfl ha hs
  have hs' : s' = (step s (.endBlock dt stk)).1 := rfl
  simp only [step, hb] at hs'
  have e' : s'.props = s1.props := by rw [hs']
  obtain ⟨sm, q, n, passes, burn, hsm, hpar, htime, hcus, hpm, hn, hr, hq, hend⟩ :=
    endBlock_voting_custom rfl rfl rfl rfl rfl ha hb hp hv hle (fun id q h1 h2 h3 h4 => hno id q h1 h2 h3 h4)
  obtain ⟨n', hn', hj, _⟩ := tallyNums_ok (votes := votesOf sm.votes pid) (stk := stk)
    (fun v hv' => hsm.both.v.valid v (mem_votesOf.mp hv').1) hs rfl
  rw [hn] at hn'; cases hn'
  have hout := tally_outcome_by_type sm p n hj
  rw [hr, hpar, hcus] at hout
  have hpass : passes = specPasses s.params (specQuorum s.params s.custom p.msgs) p.expedited n := by
    cases hout; rfl
  have hq' : findProp s'.props pid = some q := by rw [e']; exact hq
  obtain ⟨_, _, _, _, e5⟩ := hend
  refine ⟨sm, n, q, hpar, htime, hcus, hpm, hn, hq', fun h => ?_, fun h hx => ?_, fun h hx => ?_⟩
  · rcases e5 with e5 | e5 | e5
    · exact e5.2
    · rw [hpass, h] at e5; cases e5.1
    · rw [hpass, h] at e5; cases e5.1
  · rcases e5 with e5 | e5 | e5
    · rw [hpass, h] at e5; cases e5.1
    · rw [hx] at e5; cases e5.2.1
    · exact e5.2.2
  · rcases e5 with e5 | e5 | e5
    · rw [hpass, h] at e5; cases e5.1
    · have hst : q.status = .voting := by rw [e5.2.2.1]; exact hv
      refine ⟨hst, e5.2.2.2.1, ?_⟩
      rw [e5.2.2.2.2, conversion_period_by_type, hpar, hcus]
    · rw [hx] at e5; cases e5.2.1

/-- **the per-option counts are votes × stakes, for all inputs**: whatever the stored votes and the staking numbers are, when
the sums of `Tally` are defined the count of every option is the sum over the votes of (power of each delegation of the voter
to a bonded validator) × (weight given to the option) plus the sum over the bonded validators whose operator voted of (power
of the shares left after the deductions) × (weight), the total is the sum of exactly those powers, and the turnout is taken
against the total bonded tokens of the block -/
theorem tally_counts_are_stake_times_weight (votes : List Vote) (stk : Staking) (n : Nums) (h : tallyNums votes stk = some n) :
    (∀ o : Opt, getOpt n o = voteCount o stk votes + valCount o votes stk.dels stk.vals) ∧
    n.total = voteTotal stk votes + valTotal votes stk.dels stk.vals ∧ n.bonded = stk.totalBonded :=
  ⟨fun o => (tallyNums_counts votes stk n h o).1, (tallyNums_counts votes stk n h .yes).2.1, (tallyNums_counts votes stk n h .yes).2.2⟩

/-- **the final tally result a block stores is votes × stakes — after every history**: with `s` the state after any operation
list and `p` a stored proposal whose voting end has been reached, a block (staking numbers of any staking state) stores as
the proposal's `FinalTallyResult`, per option, the whole tokens (`TruncateInt`) of the sum over the votes stored for it at the
moment `sm` of its tally of (power of each delegation of the voter to a bonded validator) × (weight) plus the sum over the
bonded validators whose operator voted of (power left after the deductions) × (weight) — whatever the outcome is (passed,
failed, rejected, or an expedited proposal converted to a regular one) -/
theorem stored_tally_result_is_votes_times_stakes (ops : List Op) (hc : NoGovSpend ops = true) (dt : Nat) (stk : Staking) (pid : Nat) (p : Proposal) :
    let s := run init ops
    let s' := (step s (.endBlock dt stk)).1
    findProp s.props pid = some p → p.status = .voting → stakingOk stk → p.votingEnd ≤ s.time →
    ∃ (sm : State) (q : Proposal), sm.params = s.params ∧ sm.time = s.time ∧ findProp sm.props pid = some p ∧
      findProp s'.props pid = some q ∧
      q.tallyRes =
        ((voteCount .yes stk (votesOf sm.votes pid) + valCount .yes (votesOf sm.votes pid) stk.dels stk.vals) / DEC,
         (voteCount .abstain stk (votesOf sm.votes pid) + valCount .abstain (votesOf sm.votes pid) stk.dels stk.vals) / DEC,
         (voteCount .no stk (votesOf sm.votes pid) + valCount .no (votesOf sm.votes pid) stk.dels stk.vals) / DEC,
         (voteCount .veto stk (votesOf sm.votes pid) + valCount .veto (votesOf sm.votes pid) stk.dels stk.vals) / DEC) := by
  intro s s' hp hv hs hle
  have ha : All s := run_all rfl rfl rfl rfl ops hc init init_all
  obtain ⟨s1, hb, _⟩ := endBlock_total rfl rfl rfl rfl rfl ha hs
  have hs' : s' = (step s (.endBlock dt stk)).1 := rfl
  simp only [step, hb] at hs'
  have e' : s'.props = s1.props := by rw [hs']
  obtain ⟨sm, q, n, _, hpar, htime, hpm, hn, hq, hres⟩ := endBlock_voting_res rfl rfl rfl rfl ha hb hp hv hle
  have c := fun o => (tallyNums_counts (votesOf sm.votes pid) stk n hn o).1
  refine ⟨sm, q, hpar, htime, hpm, by rw [e']; exact hq, ?_⟩
  rw [hres, ← c .yes, ← c .abstain, ← c .no, ← c .veto]
  rfl

/-! ## the gov module account as depositor (fix 45d0bc2) -/

/-- a proposal message that deposits FROM the gov module account: `MsgDeposit{depositor: gov}` or `MsgSubmitProposal{proposer: gov}` -/
def isGovFunded (m : Msg) : Bool := match m.act with | .govDeposit _ _ => true | .govSubmit _ _ => true | _ => false

theorem execMsgs_none_of_fails : ∀ (ms : List Msg) (s : State), (∃ m ∈ ms, ∀ t, execMsg m t = none) → execMsgs ms s = none := by
  intro ms
  induction ms with
  | nil => intro s ⟨m, hm, _⟩; cases hm
  | cons a r ih =>
    intro s ⟨m, hm, hf⟩
    simp only [execMsgs]
    cases ha : execMsg a s with
    | none => rfl
    | some s1 =>
      rcases List.mem_cons.mp hm with e | e
      · subst e; rw [hf s] at ha; cases ha
      · exact ih s1 ⟨m, e, hf⟩

/-- **the gov module account cannot be a depositor** — over the statement list of `AddDeposit` as written now: the guard that
refuses the module account stands BEFORE the first write (`depositGuardsModule`, read off `addDepositSteps`), so in every state
`AddDeposit` from the gov account fails, a `MsgSubmitProposal` of the gov account fails with it, and a passed proposal that
carries such a message anywhere among its messages ends FAILED with nothing written.  This is what makes
`module_balance_eq_open_deposits`, `each_deposit_settled_once`, `gov_endblock_total` and `no_halt` — which quantify over ALL
operation lists, hence over proposals carrying these messages — true of such histories. -/
theorem gov_account_cannot_deposit :
    depositGuardsModule = true ∧
    (∀ (s : State) (pid amt : Nat), addDepositGov s pid amt = none) ∧
    (∀ (s : State) (initial : Nat) (exp : Bool), submitGov s initial exp = none) ∧
    (∀ (msgs : List Msg) (s : State), (∃ m ∈ msgs, isGovFunded m = true) → runProposalMsgs msgs s = (s, false)) := by
  have hg : depositGuardsModule = true := rfl
  refine ⟨hg, fun s pid amt => by simp [addDepositGov, hg], fun s i e => by simp [submitGov, hg], ?_⟩
  intro msgs s ⟨m, hm, hgf⟩
  have hf : ∀ t, execMsg m t = none := by
    intro t
    unfold execMsg
    split
    · rfl
    · cases ha : m.act with
      | govDeposit pid amt => simp [addDepositGov, hg]
      | govSubmit i e => simp [submitGov, hg]
      | noop => simp [isGovFunded, ha] at hgf
      | cas k o n => simp [isGovFunded, ha] at hgf
      | credit a b c => simp [isGovFunded, ha] at hgf
      | setCustom u c => simp [isGovFunded, ha] at hgf
      | govSpend a t => simp [isGovFunded, ha] at hgf
  have := execMsgs_none_of_fails msgs s ⟨m, hm, hf⟩
  simp [runProposalMsgs, show execInCacheCtx = true from rfl, show execErrVisible = true from rfl, this]

/-- a reachable state with an open proposal: account 0 deposited 500 of the 1000 needed -/
def govDepOps : List Op := [.mint 0 2000, .submit 0 [⟨"/fx.erc20.v1.MsgToggleTokenConversion".toList, true, true, .noop, []⟩] 500 false]

/-- **without the guard the property is false** (the defect repaired by 45d0bc2, as a theorem about the unguarded writes): in a
reachable state, `AddDeposit` of 100 from the gov module account on the open proposal 1 succeeds, moves no coin and leaves a
deposit record — the module account holds 500 against 600 of recorded deposits (`module_balance_eq_open_deposits` broken) —
and when the deposit period ends the refund of the records fails for lack of funds: the inactive-queue step, and with it the
whole end-blocker, returns an error (block processing halts) -/
theorem without_the_guard_deposits_are_not_conserved :
    ∃ s', addDepositGovUnguarded (run init govDepOps) 1 100 = some s' ∧
      s'.gov = 500 ∧ sumAmt s'.deps = 600 ∧ isOpenId s'.props 1 = true ∧
      (match dropInactive 1 { s' with time := 40 } with | .error _ => true | .ok _ => false) = true ∧
      (match endBlock {} { s' with time := 100 } with | .error _ => true | .ok _ => false) = true := by
  refine ⟨_, rfl, ?_, ?_, ?_, ?_, ?_⟩ <;> decide

/-! ## non-vacuity -/

-- the examples below evaluate whole histories by `decide`; the interpreted statement lists (string tags) need a deeper recursion
set_option maxRecDepth 16384

def egf : Ty := egfUrl.toList
def spend (fx other : Nat) : Msg := ⟨egf, true, true, .credit fx other 1, []⟩
def toggle : Msg := ⟨"/fx.erc20.v1.MsgToggleTokenConversion".toList, true, true, .noop, []⟩
/-- a legacy text proposal: the message is a `MsgExecLegacyContent`; custom parameters for the wrapped content's type
url do not apply to it -/
def legacyText : Msg := ⟨legacyUrl.toList, true, true, .noop, "/cosmos.gov.v1beta1.TextProposal".toList⟩
example : specPeriod {} [("/cosmos.gov.v1beta1.TextProposal".toList, ⟨0, 45, 0⟩), (legacyUrl.toList, ⟨0, 25, 0⟩)] [legacyText] false = 25 ∧
    activationPeriod { custom := [("/cosmos.gov.v1beta1.TextProposal".toList, ⟨0, 45, 0⟩), (legacyUrl.toList, ⟨0, 25, 0⟩)] }
      { id := 1, msgs := [legacyText], proposer := 0, status := .deposit, total := 0, depositEnd := 0, votingStart := 0,
        votingEnd := 0, expedited := false } = 25 := by decide
/-- three validators (operators 100, 101, 102) with 100 tokens each; account 0 holds half of validator 100's shares -/
def demoStk : Staking :=
  { vals := [⟨100, 200, 200 * DEC⟩, ⟨101, 100, 100 * DEC⟩, ⟨102, 100, 100 * DEC⟩],
    dels := [⟨0, 100, 100 * DEC⟩, ⟨100, 100, 100 * DEC⟩, ⟨101, 101, 100 * DEC⟩, ⟨102, 102, 100 * DEC⟩], totalBonded := 400 }
def demoOps : List Op :=
  [ .mint 0 100000, .mint 1 100000,
    .updateCustom egf (some ⟨100000000000000000, 30, 400000000000000000⟩),
    .submit 0 [spend 20000 0] 1999 false,          -- share 2000 > default 1000: not yet
    .deposit 1 1 1,                                 -- reaches 2000: voting, period 30 (custom)
    .submit 0 [spend 0 4] 1 false,                  -- dust in another denom: still needs the default 1000
    .submit 1 [toggle] 5000 true,                   -- expedited, period 50
    .submit 1 [spend 12000 0, spend 8000 0] 1999 false,  -- two spends: the share is taken of the sum 20000
    .vote 1 100 [(.yes, DEC)],                      -- validator 100: 200 tokens, of which …
    .vote 1 0 [(.no, 700000000000000000), (.abstain, 300000000000000000)],  -- … 100 are overridden by account 0
    .vote 3 101 [(.yes, DEC)],
    .vote 2 101 [(.yes, DEC)],                      -- proposal 2 is not in its voting period
    .vote 1 101 [(.yes, 600000000000000000), (.yes, 400000000000000000)],   -- an option twice
    .endBlock 50 demoStk, .endBlock 1 demoStk ]

example : ((run init demoOps).props.map (fun p => (p.id, p.status, p.total, p.votingEnd, p.expedited))) =
    [(1, .passed, 2000, 30, false), (2, .deposit, 1, 0, false), (3, .voting, 5000, 100, false), (4, .deposit, 1999, 0, false)] := by
  decide

example : ((run init demoOps).props.map (fun p => p.tallyRes)) = [(100, 30, 70, 0), (0, 0, 0, 0), (100, 0, 0, 0), (0, 0, 0, 0)] := by
  decide

example : (run init demoOps).gov = 5000 + 1 + 1999 ∧ (run init demoOps).time = 51 ∧ (run init demoOps).votes = [] := by decide

example : (demoOps.map (fun o => (step (run init (demoOps.take 11)) o).2)).drop 11 = ["err:inactive", "err:vote", "ok", "ok"] := by
  decide

example : stakingOk demoStk := by
  intro v hv; simp [demoStk] at hv; rcases hv with rfl | rfl | rfl <;> decide

example : specMin (run init demoOps).custom 1000 [spend 20000 0] = 2000 ∧ specMin (run init demoOps).custom 1000 [spend 0 4] = 1000 ∧
    specMin (run init demoOps).custom 1000 [spend 12000 0, spend 8000 0] = 2000 := by
  decide

example : ∃ s', submit init 0 [spend 1 0, spend 2 0] 0 false = .ok s' := ⟨_, rfl⟩
example : (step init (.submit 0 [spend 1 0, ⟨"/fx.gov.v1.MsgUpdateStore".toList, true, true, .noop, []⟩] 0 false)).2 = "err:type" := by decide

example : (runProposalMsgs [⟨[], true, true, .cas 0 0 5, []⟩, ⟨[], true, true, .cas 1 9 1, []⟩] init).2 = false ∧
    (runProposalMsgs [⟨[], true, true, .cas 0 0 5, []⟩, ⟨[], true, true, .cas 1 9 1, []⟩] init).1.kv = [] ∧
    (execMsg ⟨[], true, true, .cas 0 0 5, []⟩ init).map (·.kv) = some [(0, 5)] := by decide

/-! non-vacuity of the round-3 theorems -/
def demoCustom : List (Ty × Custom) := [(egf, ⟨100000000000000000, 30, 400000000000000000⟩)]
example : specActivates demoCustom 1000 [spend 20000 0] 1999 = false ∧ specActivates demoCustom 1000 [spend 20000 0] 2000 = true ∧
    specActivates demoCustom 1000 [spend 0 4] 1000 = true ∧ specActivates demoCustom 1000 [spend 0 40] 1000000 = false ∧
    specActivates demoCustom 1000 [toggle] 999 = false ∧ specActivates demoCustom 1000 [toggle] 1000 = true ∧
    specActivates demoCustom 0 [toggle] 0 = false := by decide
-- `activation_iff_min_deposit` / `enters_voting_exactly_when_min_reached` (1): proposal 1 is in its deposit period after the
-- first four operations, the fifth (a deposit of 1) brings it to 2000 and into voting until 0 + 30
example : ((findProp (run init (demoOps.take 4)).props 1).map (fun p => (p.status, p.total, p.id))) = some (.deposit, 1999, 1) ∧
    ((findProp (step (run init (demoOps.take 4)) (.deposit 1 1 1)).1.props 1).map (fun p => (p.status, p.total, p.votingEnd))) =
      some (.voting, 2000, 30) := by decide
-- (2): an id that is not stored, created in voting by a submission with a sufficient initial deposit
example : findProp (run init (demoOps.take 6)).props 3 = none ∧
    ((findProp (step (run init (demoOps.take 6)) (.submit 1 [toggle] 5000 true)).1.props 3).map (fun p => (p.status, p.votingEnd))) =
      some (.voting, 50) := by decide
-- `voting_ends_exactly_at_period_end` (2) / `deposit_period_ends_exactly_at_deposit_end`: at block time 50 proposal 1 (voting
-- end 30) and the expedited proposal 3 (voting end 50) are due, proposal 2 (deposit end 100) is not
example : (run init (demoOps.take 14)).time = 50 ∧
    ((run init (demoOps.take 14)).props.map (fun p => (p.id, p.status, p.depositEnd, p.votingEnd, p.expedited))) =
      [(1, .voting, 100, 30, false), (2, .deposit, 100, 0, false), (3, .voting, 100, 50, true), (4, .deposit, 100, 0, false)] := by
  decide

/-! the combined machine: three genesis validators, a delegation at a slashed validator's exchange rate, blocks -/
def demoGenesis : StakingSt :=
  { vals := [⟨100, 100, 100 * DEC⟩, ⟨101, 100, 100 * DEC⟩, ⟨102, 100, 100 * DEC⟩],
    dels := [⟨100, 100, 100 * DEC⟩, ⟨101, 101, 100 * DEC⟩, ⟨102, 102, 100 * DEC⟩], reduction := 10 }
def demoWOps : List WOp :=
  [ .genesis demoGenesis, .gov (.mint 0 100000), .slash 100 500000000000000000,
    .delegate 0 100 50,            -- validator 100 has 50 tokens for 100 shares: 50 tokens buy 100 shares
    .gov (.submit 0 [toggle] 1000 false), .gov (.vote 1 0 [(.yes, DEC)]), .gov (.vote 1 101 [(.no, DEC)]),
    .gov (.endBlock 100 {}), .gov (.endBlock 1 {}) ]
example : genesisOk demoGenesis = true := by decide
example : (viewOf (wrun winit demoWOps).stk).vals = [⟨100, 100, 200 * DEC⟩, ⟨101, 100, 100 * DEC⟩, ⟨102, 100, 100 * DEC⟩] ∧
    (viewOf (wrun winit demoWOps).stk).totalBonded = 300 ∧
    (viewOf (wrun winit demoWOps).stk).dels.map (fun d => (d.who, d.val, d.shares / DEC)) = [(100, 100, 100), (101, 101, 100), (102, 102, 100), (0, 100, 100)] := by
  decide
-- account 0 holds half of validator 100's shares = 50 tokens, validator 101 its 100: turnout 150/300, yes 50 : no 100
example : (wrun winit demoWOps).gov.props.map (fun p => (p.status, p.tallyRes)) = [(.rejected, (50, 0, 100, 0))] := by decide
example : (wstep winit (.genesis { vals := [⟨100, 5, 0⟩] })).2 = "err:genesis" := by decide
-- a validator slashed below one unit of consensus power leaves the bonded set at the end of the block, and comes back
-- once a delegation lifts it again
example : (viewOf (wrun winit [.genesis demoGenesis, .slash 101 950000000000000000, .gov (.endBlock 1 {})]).stk).vals.map (·.op) = [100, 102] ∧
    (viewOf (wrun winit [.genesis demoGenesis, .gov (.mint 0 100), .slash 101 950000000000000000, .gov (.endBlock 1 {}), .delegate 0 101 5,
      .gov (.endBlock 1 {})]).stk).vals.map (fun v => (v.op, v.bonded)) = [(100, 100), (101, 10), (102, 100)] := by decide

-- the ledger on the demo history: proposal 1 (passed, refunded) was paid 1999 + 1 and settled 1999 + 1; proposal 3 (open) holds 5000
example : sumAmt (depsOf (run init demoOps).paid 1) = 2000 ∧ sumSettled (settledOf (run init demoOps).settled 1) = 2000 ∧
    sumAmt (depsOf (run init demoOps).deps 1) = 0 ∧ sumAmt (depsOf (run init demoOps).deps 3) = 5000 ∧
    sumSettled (settledOf (run init demoOps).settled 3) = 0 := by decide

/-! ### round 4 -/

/-- non-vacuity of `tally_uses_block_start_custom`: after `demoOps.take 14` the clock is 50, proposal 1 (end 30) and
proposal 3 (expedited, end 50) are due in the next block, and no stored proposal carries a `MsgUpdateCustomParams` -/
example : (run init (demoOps.take 14)).time = 50 ∧
    (findProp (run init (demoOps.take 14)).props 1).map (fun p => (p.status, p.votingEnd)) = some (.voting, 30) ∧
    (run init (demoOps.take 14)).props.all (fun q => noSetCustom q.msgs) = true ∧ stakingOk demoStk := by
  refine ⟨by decide, by decide, by decide, ?_⟩
  intro v hv
  simp [demoStk] at hv
  rcases hv with rfl | rfl | rfl <;> simp [DEC]

def toggleUrl : Ty := "/fx.erc20.v1.MsgToggleTokenConversion".toList
/-- a `MsgUpdateCustomParams` that sets the quorum of the toggle type to 90 % -/
def setQ : Msg := ⟨"/fx.gov.v1.MsgUpdateCustomParams".toList, true, true, .setCustom toggleUrl (some ⟨0, 20, 900000000000000000⟩), []⟩
/-- two proposals end in the same block; the first in queue order rewrites the quorum of the second one's type -/
def sameBlockOps : List Op :=
  [ .mint 0 100000,
    .submit 0 [setQ] 1000 false,
    .submit 0 [toggle] 1000 false,
    .vote 1 100 [(.yes, DEC)], .vote 1 101 [(.yes, DEC)], .vote 1 102 [(.yes, DEC)],
    .vote 2 100 [(.yes, DEC)],
    .endBlock 100 demoStk ]

/-- … and the hypothesis of `tally_uses_block_start_custom` is needed: with the parameters of the block start (no custom
entry, quorum 40 %, turnout 50 %, all yes) proposal 2 passes, but it is tallied AFTER proposal 1 (same voting end, smaller id:
it precedes 2 in queue order) has set the quorum of its
type to 90 % in the same end-blocker walk, and is rejected -/
example : noSetCustom [setQ] = false ∧
    ((run init sameBlockOps).props.map (fun p => (p.id, p.votingEnd))) = [(1, 100), (2, 100)] ∧
    (let s := run init sameBlockOps
     (tallyNums (votesOf s.votes 2) demoStk).map (fun n => specPasses s.params (specQuorum s.params s.custom [toggle]) false n) = some true) ∧
    (run init (sameBlockOps ++ [.endBlock 1 demoStk])).props.map (fun p => (p.id, p.status)) = [(1, .passed), (2, .rejected)] := by
  refine ⟨by decide, by decide, by decide, by decide⟩

/-- non-vacuity of `tally_counts_are_stake_times_weight`: proposal 1 of `demoOps` — validator 100 (200 tokens, half of its
shares held by account 0) votes yes, account 0 votes 70 % no / 30 % abstain: yes = 100 (the validator's own delegation),
no = 70, abstain = 30, total 200, nothing is left to the validator after the deductions -/
example : (tallyNums (votesOf (run init (demoOps.take 13)).votes 1) demoStk).map
      (fun n => (getOpt n .yes, getOpt n .no, getOpt n .abstain, n.total)) = some (100 * DEC, 70 * DEC, 30 * DEC, 200 * DEC) ∧
    voteCount .no demoStk (votesOf (run init (demoOps.take 13)).votes 1) = 70 * DEC ∧
    valCount .yes (votesOf (run init (demoOps.take 13)).votes 1) demoStk.dels demoStk.vals = 0 := by
  refine ⟨by decide, by decide, by decide⟩

/-- the interpreted `CancelProposal`: the proposer of proposal 1 (deposits 1999 + 1, cancel ratio 1/2, charges burnt) gets
1000 back, 999 + 0 are burnt, the proposal and its queue entry are gone; anyone else is refused, an unknown id too -/
example : ((cancelRun (run init (demoOps.take 5)) 1 0).toOption.map (fun t => (t.gov, t.props.length, t.burned, t.active))) =
      some (0, 0, 999, []) ∧
    (step (run init (demoOps.take 5)) (.cancel 1 1)).2 = "err:proposer" ∧
    (step (run init (demoOps.take 5)) (.cancel 9 1)).2 = "err:notfound" := by
  refine ⟨by decide, by decide, by decide⟩

/-- non-vacuity of `stored_tally_result_is_votes_times_stakes` (hypotheses: the first `example` of this section): the block at
time 50 stores (100, 30, 70, 0) for proposal 1 — the whole tokens of the sums of the previous `example` -/
example : (findProp (run init (demoOps.take 14 ++ [.endBlock 1 demoStk])).props 1).map (·.tallyRes) = some (100, 30, 70, 0) := by
  decide

/-- the fixed code on such a history: proposal 1 (passed by all validators) carries `MsgDeposit{depositor: gov}` on the open
proposal 2 — it ends FAILED, proposal 2 keeps total 500 = its one record, the module holds exactly 500, and the block that ends
proposal 2's deposit period refunds it without error -/
def govCarrierOps : List Op :=
  [ .mint 0 5000,
    .submit 0 [⟨"/cosmos.gov.v1.MsgDeposit".toList, true, true, .govDeposit 2 100, []⟩] 1000 false,
    .vote 1 100 [(.yes, DEC)], .vote 1 101 [(.yes, DEC)], .vote 1 102 [(.yes, DEC)],
    .endBlock 100 demoStk,
    .submit 0 [toggle] 500 false,
    .endBlock 10 demoStk,
    .endBlock 100 demoStk,
    .endBlock 1 demoStk ]
example : (run init (govCarrierOps.take 8)).props.map (fun p => (p.id, p.status, p.total)) = [(1, .failed, 1000), (2, .deposit, 500)] ∧
    (run init (govCarrierOps.take 8)).gov = 500 ∧ (run init (govCarrierOps.take 8)).deps = [⟨2, 0, 500⟩] ∧
    (govCarrierOps.map (fun o => (step (run init (govCarrierOps.take 8)) o).2)).drop 8 = ["ok", "ok"] ∧
    (run init govCarrierOps).gov = 0 ∧ (run init govCarrierOps).props.map (·.id) = [1] := by
  refine ⟨by decide, by decide, by decide, by decide, by decide, by decide⟩

/-! ## round 5: messages of passed proposals that spend from the gov module account (`Act.govSpend`)

Fix 45d0bc2 closed ONE way in which a proposal message can make the gov module account's balance differ from the escrowed
deposits (the account as its own depositor).  The general class is wider: every message whose only signer is the gov account
and whose handler moves coins out of it — bank `MsgSend` / `MsgMultiSend`, `MsgFundCommunityPool`, `MsgDelegate` … — is a
legal proposal message, and the account holds nothing BUT the escrow.  The model's message alphabet now contains the abstract
`govSpend amt to`; `execMsg` lets it succeed whenever the balance covers it, as the bank does.  The conservation and
totality theorems above (`module_balance_eq_open_deposits`, `each_deposit_settled_once*`, `gov_endblock_*`, `no_halt`, `queue_consistency`,
…) therefore carry the hypothesis `NoGovSpend ops` — no proposal of the history carries such a message — explicitly; on the
message alphabet of rounds 1–4 it is vacuous, so no statement got weaker.  Below: the hypothesis is exactly what is needed. -/

theorem refundLoop_short : ∀ (ds : List Dep) (g : Nat) (b : List (Addr × Nat)), g < sumAmt ds → ∃ e, refundLoop ds g b = .error e := by
  intro ds
  induction ds with
  | nil => intro g b h; simp [sumAmt] at h
  | cons d r ih =>
    intro g b h
    simp only [refundLoop]
    split
    · exact ⟨_, rfl⟩
    · rename_i hge
      simp only [sumAmt] at h
      exact ih _ _ (by omega)

/-- **a spend from the gov module account is a spend of escrowed deposits** — every history without one (`NoGovSpend`), every
positive amount within the balance, every recipient: the message succeeds (the bank cannot tell escrow from funds), the
account is left short of the recorded deposits by exactly `amt` (so `module_balance_eq_open_deposits` is false from here on),
and every proposal whose own deposits exceed what is left can be neither refunded nor burnt: `RefundAndDeleteDeposits` /
`DeleteAndBurnDeposits` return an error, which the end-blocker turns into a halt. -/
theorem gov_spend_breaks_escrow (ops : List Op) (hc : NoGovSpend ops = true) (m : Msg) (amt : Nat) (to : Addr)
    (hm : m.act = .govSpend amt to) (hok : m.ok = true) (h0 : 0 < amt) (hle : amt ≤ (run init ops).gov) :
    let s := run init ops
    ∃ s', execMsg m s = some s' ∧ s'.deps = s.deps ∧ s'.props = s.props ∧ s'.gov + amt = sumAmt s'.deps ∧
      s'.gov ≠ sumAmt (s'.deps.filter (fun d => isOpenId s'.props d.pid)) ∧
      ∀ pid, s'.gov < sumAmt (depsOf s'.deps pid) →
        (∃ e, refundDeposits pid s' = .error e) ∧ (∃ e, burnDeposits pid s' = .error e) := by
  intro s
  have hi : Inv s := run_inv rfl rfl rfl ops hc init init_inv
  have hall : s.deps.filter (fun d => isOpenId s.props d.pid) = s.deps :=
    List.filter_eq_self.mpr (fun d hd => hi.recs d hd)
  have hnlt : ¬ s.gov < amt := by have : amt ≤ s.gov := hle; omega
  refine ⟨{ s with gov := s.gov - amt, bal := credit s.bal to amt, spent := s.spent + amt }, ?_, rfl, rfl, ?_, ?_, ?_⟩
  · simp only [execMsg, hok, hm, Bool.not_true, Bool.false_eq_true, if_false, hnlt]
  · have := hi.bal; have : amt ≤ s.gov := hle; simp only; omega
  · simp only [hall]; have := hi.bal; have : amt ≤ s.gov := hle; omega
  · intro pid hlt
    simp only at hlt
    constructor
    · obtain ⟨e, he⟩ := refundLoop_short (depsOf s.deps pid) (s.gov - amt) (credit s.bal to amt) hlt
      exact ⟨e, by simp only [refundDeposits, he]⟩
    · exact ⟨.halt "burn: insufficient module balance", by simp only [burnDeposits, hlt, if_true]⟩

/-- a legal history WITH such a message: proposal 1 (bank `MsgSend` of 300 from the gov account to account 7) is passed by all
validators while proposal 2 (deposit 500) is in its deposit period -/
def govSpendOps : List Op :=
  [ .mint 0 5000,
    .submit 0 [⟨"/cosmos.bank.v1beta1.MsgSend".toList, true, true, .govSpend 300 7, []⟩] 1000 false,
    .vote 1 100 [(.yes, DEC)], .vote 1 101 [(.yes, DEC)], .vote 1 102 [(.yes, DEC)],
    .endBlock 100 demoStk,
    .submit 0 [toggle] 500 false,
    .endBlock 10 demoStk,       -- time 100: proposal 1 passes — its own 1000 are refunded, then its message runs on the 500 of proposal 2
    .endBlock 100 demoStk,      -- time 110: nothing is due
    .endBlock 1 demoStk ]       -- time 210: the deposit period of proposal 2 has ended

/-- what the model answers to each operation of a history -/
def answers (s : State) : List Op → List String
  | [] => []
  | o :: r => (step s o).2 :: answers (step s o).1 r

/-- **`NoGovSpend` cannot be dropped** (witness; the reproduction on the real app is C07's this round): on `govSpendOps` — every
operation answers `ok`, the proposal PASSES — the gov account holds 200 against one record of 500 (the 300 are with account 7),
`module_balance_eq_open_deposits` is false, and the block that ends proposal 2's deposit period cannot refund it: the
end-blocker returns an error, the model answers `halt:` (`no_halt` is false) -/
theorem without_NoGovSpend_escrow_is_spent_and_a_later_refund_halts :
    NoGovSpend govSpendOps = false ∧ stakingOk demoStk ∧
    answers init (govSpendOps.take 9) = List.replicate 9 "ok" ∧
    (let s := run init (govSpendOps.take 8)
     s.props.map (fun p => (p.id, p.status, p.total)) = [(1, .passed, 1000), (2, .deposit, 500)] ∧
     s.gov = 200 ∧ s.deps = [⟨2, 0, 500⟩] ∧ s.spent = 300 ∧ getBal s.bal 7 = 300 ∧
     s.gov ≠ sumAmt (s.deps.filter (fun d => isOpenId s.props d.pid))) ∧
    (step (run init (govSpendOps.take 8)) (.endBlock 100 demoStk)).2 = "ok" ∧
    (step (run init (govSpendOps.take 9)) (.endBlock 1 demoStk)).2 = "halt:refund: insufficient module balance" := by
  refine ⟨by decide, ?_, by decide, ?_, by decide, by decide⟩
  · intro v hv; simp [demoStk] at hv; rcases hv with rfl | rfl | rfl <;> decide
  · refine ⟨by decide, by decide, by decide, by decide, by decide, by decide⟩

/-- non-vacuity of `gov_spend_breaks_escrow`: the state before the block that passes proposal 1 is reached by a history without a
spend (proposal 1 replaced by a plain one), the module holds 1500, and 300 is within it -/
example : NoGovSpend (demoOps.take 4) = true ∧ 0 < 300 ∧ 300 ≤ (run init (demoOps.take 4)).gov := by decide

/-- the hypothesis of the history theorems is met by the demonstration histories of rounds 1–4 -/
example : NoGovSpend demoOps = true ∧ NoGovSpend govCarrierOps = true ∧ NoGovSpend sameBlockOps = true ∧ NoGovSpend govDepOps = true ∧
    WNoGovSpend demoWOps = true := by decide


/-! ## round 5: the custom-parameter look-ups interpreted -/

/-- **`GetCustomMsgVotingPeriod` and `GetCustomMsgQuorum` as written now** (`x/gov/keeper/proposal.go`; their top-level statements
are regenerated on every run as (kind, argument) pairs and the model INTERPRETS them — `lookupRun`, used by the activation step,
the expedited→regular conversion and the tally): the type url of the first message, the entry found under it ⇒ its voting
period / quorum, else the default argument — and for every table of custom parameters, every message list and every default
the interpreted run IS the one-piece look-up under the proposal's message type that `period_and_quorum_by_type` speaks about.
A swapped condition, a different returned field or a look-up under another url changes what the driver computes AND breaks this. -/
theorem custom_lookup_statements :
    customPeriodSteps = [("msgType", "first-message-url"), ("ifFound", "customParams.VotingPeriod"), ("return", "defaultVotingPeriod")] ∧
    customQuorumSteps = [("msgType", "first-message-url"), ("ifFound", "customParams.Quorum"), ("return", "defaultQuorum")] ∧
    (∀ (custom : List (Ty × Custom)) (msgs : List Msg) (dflt : Nat),
      customPeriodOf custom msgs dflt = match getCustom custom (typeOf msgs) with | some c => c.votingPeriod | none => dflt) ∧
    (∀ (custom : List (Ty × Custom)) (msgs : List Msg) (dflt : Nat),
      customQuorumOf custom msgs dflt = match getCustom custom (typeOf msgs) with | some c => c.quorum | none => dflt) := by
  have tp : ∀ msgs : List Msg, propTypeP msgs = typeOf msgs := fun msgs => by
    cases h : msgs <;> simp [propTypeP, typeUrlBy, typeOf, show periodLookupType = "first-message-url" from rfl]
  have tq : ∀ msgs : List Msg, propTypeQ msgs = typeOf msgs := fun msgs => by
    cases h : msgs <;> simp [propTypeQ, typeUrlBy, typeOf, show quorumLookupType = "first-message-url" from rfl]
  refine ⟨rfl, rfl, fun custom msgs dflt => ?_, fun custom msgs dflt => ?_⟩
  · rw [customPeriodOf_eq, tp]; cases getCustom custom (typeOf msgs) <;> rfl
  · rw [customQuorumOf_eq, tq]; cases getCustom custom (typeOf msgs) <;> rfl

/-- non-vacuity: an entry for the type is found / none is; and the interpreter follows OTHER statement lists too (the condition
negated with the returns swapped is the same function; returning the default in both branches ignores the entry) -/
example : customPeriodOf [(toggleUrl, ⟨0, 20, 900000000000000000⟩)] [toggle] 100 = 20 ∧ customPeriodOf [] [toggle] 100 = 100 ∧
    customQuorumOf [(toggleUrl, ⟨0, 20, 900000000000000000⟩)] [toggle] 5 = 900000000000000000 ∧
    lookupRun [("msgType", "first-message-url"), ("ifNotFound", "defaultVotingPeriod"), ("return", "customParams.VotingPeriod")]
      [] [toggle] 100 = 100 ∧
    lookupRun [("msgType", "first-message-url"), ("ifFound", "defaultVotingPeriod"), ("return", "defaultVotingPeriod")]
      [(toggleUrl, ⟨0, 20, 900000000000000000⟩)] [toggle] 100 = 100 := by decide

/-! ## round 5: the validation of the weighted vote options, regenerated from the SDK and interpreted -/

/-- **`msgServer.VoteWeighted` of the SDK version `/repo/go.mod` selects, as written there now**: its top-level statements, the
body of its loop over the options and the statements of `WeightedVoteOption.IsValid` (regenerated from the module cache) are
the expected ones — no options ⇒ refused; per option: invalid (weight not in (0, 1]) ⇒ refused, weight added to the total,
option already used ⇒ refused, option marked used; total above 1 ⇒ refused, total below 1 ⇒ refused; all of that BEFORE
`AddVote` — the model's `vote` runs them tag by tag (`voteWeightedAccepts`), and for EVERY list of weighted options that run
accepts exactly the lists the one-piece `optsValid` accepts, which is what `votes_valid_and_current` and
`tally_never_divides_by_zero` are proved about (a dropped duplicate check or bound in a later SDK version changes what the
driver accepts and breaks this obligation) -/
theorem sdk_vote_weighted_statements :
    sdkVoteWeightedSteps = ["voterAddr", "rejectBadAddr", "rejectEmpty", "total0", "used0", "optionLoop", "rejectTotalGT1",
      "rejectTotalLT1", "sdkCtx", "addVote", "return"] ∧
    sdkVoteWeightedLoop = ["rejectInvalidOption", "parseWeight", "total+=weight", "rejectDuplicate", "markUsed"] ∧
    sdkWeightedOptionValid = ["parseWeight", "falseUnlessPositiveAndAtMostOne", "return ValidVoteOption"] ∧
    (∀ opts : List (Opt × Nat), voteWeightedAccepts opts = optsValid opts) ∧
    (∀ (s : State) (pid : Nat) (voter : Addr) (opts : List (Opt × Nat)), vote s pid voter opts = voteSpec s pid voter opts) :=
  ⟨rfl, rfl, rfl, voteWeightedAccepts_eq, vote_eq⟩

/-- non-vacuity: a split vote is accepted; an option twice, weights adding up to 0.9 or 1.1, a zero weight and no option are refused -/
example : voteWeightedAccepts [(.no, 700000000000000000), (.abstain, 300000000000000000)] = true ∧
    voteWeightedAccepts [(.yes, 600000000000000000), (.yes, 400000000000000000)] = false ∧
    voteWeightedAccepts [(.yes, 600000000000000000), (.no, 300000000000000000)] = false ∧
    voteWeightedAccepts [(.yes, 600000000000000000), (.no, 500000000000000000)] = false ∧
    voteWeightedAccepts [(.yes, DEC), (.no, 0)] = false ∧ voteWeightedAccepts [] = false := by decide

/-! ## round 5: the coin loop of `ChargeDeposit`, read statement by statement -/

theorem mulTrunc_le (a r : Nat) (h : r ≤ DEC) : mulTrunc a r ≤ a := by
  unfold mulTrunc
  have h1 : a * r ≤ a * DEC := Nat.mul_le_mul_left a h
  have h2 : a * DEC / DEC = a := Nat.mul_div_cancel a (by decide)
  calc a * r / DEC ≤ a * DEC / DEC := Nat.div_le_div_right h1
    _ = a := h2

/-- **the loop over the coins of a deposit in the SDK's `ChargeDeposit`, as written now**: `burnAmount := trunc(amount · rate)`,
`remainingAmount += amount − burnAmount`, `cancellationCharges += burnAmount` — and for every cancellation rate ≤ 1 (the only
rates `Params.valid`, i.e. `v1.Params.ValidateBasic`, accepts), every amount and every value of the two accumulators the
statement-by-statement run gives exactly what the model's closed form under the flag `chargeCoinOk` adds: the depositor keeps
`amount − trunc(amount · rate)`, the charge is the rest, together the whole deposit -/
theorem charge_coin_loop_statements :
    sdkChargeCoin = ["burnAmount=trunc(amount*rate)", "remaining+=amount-burnAmount", "charges+=burnAmount"] ∧
    (∀ p : Params, p.valid = true → p.cancelRatio ≤ DEC) ∧
    (∀ rate amt keep chg : Nat, rate ≤ DEC →
      chargeCoinRun rate amt keep chg = (keep + (amt - mulTrunc amt rate), chg + (amt - (amt - mulTrunc amt rate))) ∧
      (amt - mulTrunc amt rate) + (amt - (amt - mulTrunc amt rate)) = amt) := by
  refine ⟨rfl, ?_, ?_⟩
  · intro p hp
    simp only [Params.valid, Bool.and_eq_true, decide_eq_true_eq] at hp
    omega
  · intro rate amt keep chg hr
    have hle := mulTrunc_le amt rate hr
    have e : chargeCoinRun rate amt keep chg = (keep + (amt - mulTrunc amt rate), chg + mulTrunc amt rate) := rfl
    rw [e]
    constructor
    · congr 2; omega
    · omega

/-- non-vacuity: the default parameters are valid; half of 1001 is kept rounded up (501), the charge is 500 -/
example : ({} : Params).valid = true ∧ chargeCoinRun 500000000000000000 1001 0 0 = (501, 500) := by decide

end FxVerif.Props.C15
