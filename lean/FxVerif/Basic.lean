def hello := "world"
