/-!
# C08 — the running StateDB's storage caches and keeper-level nested EVM calls (mixed transactions)

The part of the ethermint fork that decides what a transaction sees when a contract touches a token directly and, in the
same transaction, has a precompile convert that token (`x/evm/statedb/state_object.go`, `statedb.go`):

* per contract the running ("outer") StateDB keeps `originStorage` (value first loaded from the store) and
  `dirtyStorage`; `GetState` returns dirty, else origin, else loads from the store *and caches it in origin*;
  `SetState` reads the current value first and records the new one in dirty only if it differs;
* a keeper-level call made from inside a precompile (`erc20Keeper.ConvertERC20` → `evmErc20Keeper.ERC20Burn` /
  `ERC20Transfer` → `CallEVMWithoutGas(commit = true)`) builds a *fresh* StateDB over the native context: it reads and
  writes the store directly and never sees the outer caches;
* `Commit` writes every dirty slot whose value differs from its origin value (equal ones are skipped) over whatever is
  in the store.

A token is its storage slots (FIP20Upgradable.sol: `_balanceOf`, `_totalSupply`, `_allowance`); a token method is a
small program of slot reads and writes (`TProg`).  Core Lean only.
-/
namespace FxVerif.Model.C08Cache

inductive Slot where
  | bal (a : Nat)
  | supply
  | allow (owner spender : Nat)
  deriving DecidableEq, Repr

abbrev Store := Slot → Nat

def Store.set (st : Store) (k : Slot) (v : Nat) : Store := fun k' => if k' = k then v else st k'

/-- a contract method as a program over storage slots; `done false` = revert -/
inductive TProg where
  | done (ok : Bool)
  | read (k : Slot) (cont : Nat → TProg)
  | write (k : Slot) (v : Nat) (cont : TProg)

/-! ### FIP20Upgradable.sol -/

/-- `_transfer(sender, recipient, amount)` -/
def pTransfer (s r n : Nat) (k : TProg) : TProg :=
  .read (.bal s) fun b =>
    if b < n then .done false else
    .write (.bal s) (b - n) (.read (.bal r) fun t => .write (.bal r) (t + n) k)

def transfer (caller to n : Nat) : TProg := pTransfer caller to n (.done true)

def approve (caller spender n : Nat) : TProg := .write (.allow caller spender) n (.done true)

def transferFrom (caller from_ to n : Nat) : TProg :=
  .read (.allow from_ caller) fun a =>
    if a < n then .done false else
    .write (.allow from_ caller) (a - n) (pTransfer from_ to n (.done true))

/-- `mint` (owner only; the callers modelled here are the owner) -/
def mint (to n : Nat) : TProg :=
  .read .supply fun s => .write .supply (s + n) (.read (.bal to) fun b => .write (.bal to) (b + n) (.done true))

/-- `burn` (owner only) -/
def burn (acct n : Nat) : TProg :=
  .read (.bal acct) fun b =>
    if b < n then .done false else
    .write (.bal acct) (b - n) (.read .supply fun s => if s < n then .done false else .write .supply (s - n) (.done true))

def balanceOf (a : Nat) : TProg := .read (.bal a) fun _ => .done true

/-- the FIP20 methods a transaction may call (directly, through a precompile using the running EVM, or through a
keeper-level nested call) -/
inductive Method where
  | transfer (caller to n : Nat)
  | approve (caller spender n : Nat)
  | transferFrom (caller from_ to n : Nat)
  | mint (to n : Nat)
  | burn (acct n : Nat)
  | balanceOf (a : Nat)

def Method.prog : Method → TProg
  | .transfer c t n => C08Cache.transfer c t n
  | .approve c s n => C08Cache.approve c s n
  | .transferFrom c f t n => C08Cache.transferFrom c f t n
  | .mint t n => C08Cache.mint t n
  | .burn a n => C08Cache.burn a n
  | .balanceOf a => C08Cache.balanceOf a

/-- the accounts whose balance a method may change -/
def Method.holders : Method → List Nat
  | .transfer c t _ => [c, t]
  | .transferFrom _ f t _ => [f, t]
  | .mint t _ => [t]
  | .burn a _ => [a]
  | _ => []

/-! ### plain execution on one store -/

def runPlain : TProg → Store → Bool × Store
  | .done ok, st => (ok, st)
  | .read k cont, st => runPlain (cont (st k)) st
  | .write k v cont, st => runPlain cont (st.set k v)

/-! ### execution through a StateDB with caches -/

def lookup (k : Slot) : List (Slot × Nat) → Option Nat
  | [] => none
  | (k', v) :: rest => if k' = k then some v else lookup k rest

structure Outer where
  store : Store
  origin : List (Slot × Nat) := []
  dirty : List (Slot × Nat) := []

/-- `stateObject.GetState` -/
def Outer.read (o : Outer) (k : Slot) : Nat × Outer :=
  match lookup k o.dirty with
  | some v => (v, o)
  | none =>
    match lookup k o.origin with
    | some v => (v, o)
    | none => (o.store k, { o with origin := (k, o.store k) :: o.origin })

/-- `stateObject.SetState` -/
def Outer.write (o : Outer) (k : Slot) (v : Nat) : Outer :=
  let (prev, o1) := o.read k
  if prev = v then o1 else { o1 with dirty := (k, v) :: o1.dirty }

def runOuter : TProg → Outer → Bool × Outer
  | .done ok, o => (ok, o)
  | .read k cont, o => let (v, o1) := o.read k; runOuter (cont v) o1
  | .write k v cont, o => runOuter cont (o.write k v)

/-- what the StateDB presents as the current value of a slot -/
def Outer.view (o : Outer) : Store := fun k =>
  match lookup k o.dirty with
  | some v => v
  | none => match lookup k o.origin with
    | some v => v
    | none => o.store k

/-- `StateDB.Commit`: dirty slots that differ from their origin value are written over the store -/
def Outer.commit (o : Outer) : Store := fun k =>
  match lookup k o.dirty with
  | some v => if v = (lookup k o.origin).getD 0 then o.store k else v
  | none => o.store k

/-- a keeper-level nested call: a fresh StateDB over the store, committed at the end of the call -/
def nestedCall (p : TProg) (st : Store) : Bool × Store :=
  let (ok, o) := runOuter p { store := st }
  (ok, if ok then o.commit else st)

inductive MStep where
  /-- a call executed by the running EVM (the contract's own call, or a precompile using `contract.NewERC20Call`),
  followed by a native payment of `pay` coins out of the module's escrow (0 for the contract's own calls) -/
  | evm (p : TProg) (pay : Nat)
  /-- a keeper-level call made from inside a precompile, with the native payment out of the escrow (`pay`, conversions to
  coins) or into it (`gain`, a refund converted back to ERC-20) -/
  | nested (p : TProg) (pay gain : Nat)

/-- state of a running transaction: the StateDB and the coins escrowed by the erc20 module (native state: lives in the
same branched store the nested calls write to, so it is always coherent) -/
structure TxSt where
  o : Outer
  esc : Nat

/-- one transaction: every step must succeed (the caller reverts otherwise); `none` = reverted, nothing changes -/
def runTx : List MStep → TxSt → Option TxSt
  | [], s => some s
  | .evm p pay :: rest, s =>
    match runOuter p s.o with
    | (true, o1) => if s.esc < pay then none else runTx rest ⟨o1, s.esc - pay⟩
    | (false, _) => none
  | .nested p pay gain :: rest, s =>
    match nestedCall p s.o.store with
    | (true, st) => if s.esc < pay then none else runTx rest ⟨{ s.o with store := st }, s.esc - pay + gain⟩
    | (false, _) => none

/-- the store and the escrow after the transaction (unchanged if it reverted) -/
def txResult (steps : List MStep) (st : Store) (esc : Nat) : Bool × Store × Nat :=
  match runTx steps ⟨{ store := st }, esc⟩ with
  | some s => (true, s.o.commit, s.esc)
  | none => (false, st, esc)

/-- the same programs run one after the other on a single coherent store -/
def runSeq : List MStep → Store × Nat → Option (Store × Nat)
  | [], s => some s
  | .evm p pay :: rest, (st, esc) =>
    match runPlain p st with
    | (true, st1) => if esc < pay then none else runSeq rest (st1, esc - pay)
    | (false, _) => none
  | .nested p pay gain :: rest, (st, esc) =>
    match runPlain p st with
    | (true, st1) => if esc < pay then none else runSeq rest (st1, esc - pay + gain)
    | (false, _) => none

/-- the slots a program reads or writes when run on `st` -/
def touchedOf : TProg → Store → List Slot
  | .done _, _ => []
  | .read k cont, st => k :: touchedOf (cont (st k)) st
  | .write k v cont, st => k :: touchedOf cont (st.set k v)

/-- the running StateDB holds a cached value (origin or dirty) for the slot -/
def Outer.cached (o : Outer) (k : Slot) : Bool := (lookup k o.origin).isSome || (lookup k o.dirty).isSome

/-- **coherence condition** of a transaction: whenever a keeper-level nested call runs, none of the slots it reads or
writes is cached by the running StateDB at that moment -/
def CoherentTx : List MStep → TxSt → Prop
  | [], _ => True
  | .evm p pay :: rest, s =>
    match runOuter p s.o with
    | (true, o1) => s.esc < pay ∨ CoherentTx rest ⟨o1, s.esc - pay⟩
    | (false, _) => True
  | .nested p pay gain :: rest, s =>
    (∀ k ∈ touchedOf p s.o.store, s.o.cached k = false) ∧
    match nestedCall p s.o.store with
    | (true, st) => s.esc < pay ∨ CoherentTx rest ⟨{ s.o with store := st }, s.esc - pay + gain⟩
    | (false, _) => True

/-- executable form of `CoherentTx` -/
def coherentTxB : List MStep → TxSt → Bool
  | [], _ => true
  | .evm p pay :: rest, s =>
    match runOuter p s.o with
    | (true, o1) => decide (s.esc < pay) || coherentTxB rest ⟨o1, s.esc - pay⟩
    | (false, _) => true
  | .nested p pay gain :: rest, s =>
    (touchedOf p s.o.store).all (fun k => !s.o.cached k) &&
    match nestedCall p s.o.store with
    | (true, st) => decide (s.esc < pay) || coherentTxB rest ⟨{ s.o with store := st }, s.esc - pay + gain⟩
    | (false, _) => true

/-- result of the sequential reference semantics in the shape of `txResult` -/
def seqResult (steps : List MStep) (st : Store) (esc : Nat) : Bool × Store × Nat :=
  match runSeq steps (st, esc) with
  | some (st', esc') => (true, st', esc')
  | none => (false, st, esc)

def MStep.prog : MStep → TProg
  | .evm p _ => p
  | .nested p _ _ => p

/-- Σ balances over a list of holders -/
def sumBal (hs : List Nat) (st : Store) : Nat := (hs.map (fun a => st (.bal a))).sum

/-! ### line protocol: `mix <kind> <mixer> <sink> <module> <supply> <allowance> <escrow> <step>*`

accounts: 0 = the calling contract ("mixer"), 1 = a second holder ("sink"), 2 = the erc20 module account,
3 = the crosschain precompile address.  kind 0 = module-owned token, 1 = externally-owned token.  Steps:
`t<n>` mixer calls `token.transfer(sink, n)`; `rm` / `rs` mixer reads `balanceOf(mixer / sink)`; `a<n>` mixer calls
`token.approve(precompile, n)`; `b<n>` mixer calls the precompile `bridgeCall` with `n` of the token (keeper-level
`ConvertERC20` of the mixer's tokens, then `n` coins are paid out of the module's escrow); `x<n>` mixer calls the precompile `crossChain` with `n` (through the running EVM:
`transferFrom(mixer → module)` by the precompile, then `burn(module)` for a module-owned token); `c<n>` mixer calls the
precompile `cancelSendToExternal` on a pending transfer of `n`: the refund is converted back to ERC-20 by the keeper-level
`ConvertCoin` (nested `mint` to the mixer, `n` coins enter the escrow).

For an EXTERNALLY-owned token (kind 1, driven since round 5) the module escrows the ERC-20 and the coin is minted / burnt:
the `<escrow>` column is the supply of the pair's coin over all its denominations (what the module's ERC-20 balance has to
equal); `b<n>` = keeper-level `transfer(mixer → module)` and `n` coins minted; `x<n>` = `transferFrom(mixer → module)` by
the precompile through the running EVM and `n` coins minted (a native action: the second step); `c<n>` = keeper-level
`transfer(module → mixer)` and `n` coins burnt. -/

def parseStep (kind : Nat) (w : String) : Option (List MStep) :=
  match w.toList with
  | ['r', 'm'] => some [.evm (balanceOf 0) 0]
  | ['r', 's'] => some [.evm (balanceOf 1) 0]
  | c :: rest =>
    match (String.ofList rest).toNat? with
    | none => none
    | some n =>
      if c = 't' then some [.evm (transfer 0 1 n) 0]
      else if c = 'a' then some [.evm (approve 0 3 n) 0]
      else if c = 'b' then some [if kind = 0 then .nested (burn 0 n) n 0 else .nested (transfer 0 2 n) 0 n]
      else if c = 'c' then some [if kind = 0 then .nested (mint 0 n) 0 n else .nested (transfer 2 0 n) n 0]
      else if c = 'x' then some (if kind = 0 then [.evm (transferFrom 3 0 2 n) 0, .evm (burn 2 n) n]
                                 else [.evm (transferFrom 3 0 2 n) 0, .nested (.done true) 0 n])
      else none
  | [] => none

def store0 (m s e ts al : Nat) : Store
  | .bal 0 => m
  | .bal 1 => s
  | .bal 2 => e
  | .supply => ts
  | .allow 0 3 => al
  | _ => 0

def showStore (st : Store) : String :=
  s!"m={st (.bal 0)} s={st (.bal 1)} e={st (.bal 2)} ts={st .supply} al={st (.allow 0 3)}"

def answerMix (ws : List String) : String :=
  match ws with
  | kind :: m :: s :: e :: ts :: al :: esc :: steps =>
    match [kind, m, s, e, ts, al, esc].mapM String.toNat?, steps.mapM (fun w => kind.toNat?.bind (fun k => parseStep k w)) with
    | some [_, m, s, e, ts, al, esc], some sts =>
      let (ok, st, esc') := txResult sts.flatten (store0 m s e ts al) esc
      (if ok then "ok " else "err ") ++ showStore st ++ s!" esc={esc'}"
    | _, _ => "bad-op"
  | _ => "bad-op"

end FxVerif.Model.C08Cache
