import FxVerif.Model.C17
/-!
# C17 model — the tail of `PowerDiff` and its rendering in `isNeedOracleSetRequest`

```go
return math.Abs(delta / float64(math.MaxUint32))                      // x/crosschain/types/types.go
powerDiff := fmt.Sprintf("%.8f", ….PowerDiff(latestOracleSet.Members)) // x/crosschain/keeper/abci.go
powerDiffDec, err := sdkmath.LegacyNewDecFromStr(powerDiff)
if powerDiffDec.GTE(min(OracleSetUpdatePowerChangePercent, 1)) { … request a new oracle set … }
```

`delta` holds a non-negative integer `n < 2^53` (`fsumAbs_exact`).  The division is ONE binary64 operation on two exactly
representable integers; its IEEE-754 result is the exact rational `n / d` rounded to 53 significant bits, ties to even:
`fdiv n d`, a dyadic rational `m / 2^k`.  `%.8f` of a binary64 value goes through `strconv`'s `bigFtoa` (`%e`/`%g` with
few digits take the Ryu path, `%f` with a fixed precision does not): the exact decimal expansion of `m / 2^k`, rounded to
8 fractional digits, ties to even (`decimal.Round` / `shouldRoundUp`): `fmtFixed 8`.  `LegacyNewDecFromStr` reads the
8 digits back exactly (18 ≥ 8 decimals), so the compared quantity is `render n` units of `10^-8`.

The divisor and the precision are regenerated (`Gen.C17.powerDiffDivisor`, `Gen.C17.powerDiffPrecision`: the constant
value of the divisor expression and the verb of the format string, read by the typed translator).  That Go's `/` on
float64 and `strconv` are these two functions is the named assumption; it is validated on every run by the `render`
ops (boundary-biased numerators: exact multiples of the divisor, decimal ties, powers of two, `n` near `2^53`).
-/
namespace FxVerif.Model.C17
open FxVerif.Gen.C17

/-- a non-negative dyadic rational `m / 2^k` (the value of a finite binary64) -/
structure Dy where
  m : Nat
  k : Nat
  deriving DecidableEq, Repr

/-- round-half-even of `num / den` to an integer -/
def rhe (num den : Nat) : Nat :=
  let q := num / den
  let r := num % den
  if 2 * r > den ∨ (2 * r = den ∧ q % 2 = 1) then q + 1 else q

/-- `float64(n) / float64(d)` for `0 < d`, `n < 2^53` (both exact in binary64): the exact quotient rounded to 53
significant bits, ties to even.  `k` is chosen so that `n·2^k / d` lies in `[2^52, 2^53)`. -/
def fdiv (n d : Nat) : Dy :=
  if n = 0 ∨ d = 0 then ⟨0, 0⟩ else
  let k0 := 53 + d.log2 - n.log2
  let k := if n * 2 ^ k0 / d < 2 ^ 53 then k0 else k0 - 1
  ⟨rhe (n * 2 ^ k) d, k⟩

/-- `%.<p>f` of the binary64 value `v`, in units of `10^-p`: exact decimal expansion, rounded half-even -/
def fmtFixed (p : Nat) (v : Dy) : Nat := rhe (v.m * 10 ^ p) (2 ^ v.k)

/-- what `isNeedOracleSetRequest` compares: `Sprintf("%.8f", float64(n) / float64(MaxUint32))` in units of `10^-8`
(divisor and precision regenerated) -/
def render (n : Nat) : Nat := fmtFixed powerDiffPrecision (fdiv n powerDiffDivisor)

def pad (w : Nat) (s : String) : String := String.ofList (List.replicate (w - s.length) '0') ++ s

/-- the string `Sprintf` returns -/
def showFixed (p u : Nat) : String := toString (u / 10 ^ p) ++ "." ++ pad p (toString (u % 10 ^ p))

/-- `powerDiffDec.GTE(min(percent, 1))` with `percent` as the raw 18-decimal integer of the `LegacyDec` parameter -/
def needsOracleSet (n percentRaw : Nat) : Bool :=
  decide (render n * 10 ^ (18 - powerDiffPrecision) ≥ min percentRaw (10 ^ 18))

/-- the whole step on a merged power map visited in the order `vals` (one map-iteration order): float accumulation, one
division, rendering, comparison.  Inputs outside the range the keeper can produce (normalised powers ≤ 2^32, ≤ 2^20
members) are refused rather than computed. -/
def powerDiffStep (vals : List Int) (percentRaw : Nat) : Option (Nat × Bool) :=
  if vals.all (fun v => v.natAbs ≤ 2 ^ 32) && vals.length ≤ 2 ^ 20 then
    let n := fsumAbs vals
    some (render n, needsOracleSet n percentRaw)
  else none

end FxVerif.Model.C17
