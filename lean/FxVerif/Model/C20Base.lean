/-!
# C20 — vocabulary the regenerated definitions (`Gen/C20.lean`, `Gen/C20Sites.lean`) are written in

Core Lean only.  Everything here is a model of *dependency* behaviour that the fx-core fee code calls
(`sdkmath.LegacyDec`, `sdk.Coins`), written to follow the Go implementation line by line:

* a `LegacyDec` is an integer count of 10⁻¹⁸ units (`Dec`), unbounded (the 315-bit overflow panic of `LegacyDec.Mul`
  is not modelled: minimum gas prices are operator configuration);
* `int64(gas)` wraps exactly like Go's conversion;
* `Coins.AmountOf` is a lookup by denomination (the real one binary-searches a sorted set; minimum gas prices are
  sorted and duplicate-free because `ParseDecCoins` sanitises them — harness-validated).
-/
namespace FxVerif.Model.C20Base

/-- marker emitted by the translator for a Go construct it does not know: opaque, so nothing can be proved through it -/
opaque unknownBool : String → Bool
/-- same for natural-number valued constructs -/
opaque unknownNat : String → Nat
/-- same for string-list valued constructs -/
opaque unknownList : String → List String

/-- the node configuration read by `NewCheckTxFeees`: key set of `bypassMsgTypesMap`, `maxBypassMsgGasUsage` -/
structure CheckTxFeees where
  bypassMsgTypesMap : List String
  maxBypassMsgGasUsage : Nat
  deriving Repr

/-- `uint64` multiplication (wraps) -/
def mulU64 (a b : Nat) : Nat := (a * b) % 2 ^ 64

/-- `_, ok := m[k]` on a `map[string]bool` given by its key list -/
def mapHas (m : List String) (k : String) : Bool := m.contains k

/-- `int64(x)` for `x : uint64` -/
def int64OfU64 (x : Nat) : Int :=
  let y : Nat := x % 2 ^ 64
  if y < 2 ^ 63 then Int.ofNat y else Int.ofNat y - 2 ^ 64

def decPrecision : Nat := 10 ^ 18

/-- a `LegacyDec`: number of 10⁻¹⁸ units -/
abbrev Dec := Int

/-- `sdkmath.LegacyNewDec(i)` -/
def legacyNewDec (i : Int) : Int := i * Int.ofNat decPrecision

/-- `a.Mul(b)`: exact product, then `chopPrecisionAndRound` (banker's rounding to 18 places) -/
def decMul (a b : Int) : Int :=
  let m := a * b
  let q : Nat := m.natAbs / decPrecision
  let r : Nat := m.natAbs % decPrecision
  let half : Nat := decPrecision / 2
  let qa : Nat := if r < half then q else if r > half then q + 1 else (if q % 2 = 0 then q else q + 1)
  if m < 0 then -(qa : Int) else (qa : Int)

/-- `d.Ceil().RoundInt()`: `QuoRem` truncates toward zero; positive remainder rounds up -/
def decCeilInt (d : Int) : Int :=
  let q := Int.tdiv d (Int.ofNat decPrecision)
  let r := Int.tmod d (Int.ofNat decPrecision)
  if r = 0 then q else if r < 0 then q else q + 1

structure Coin where
  denom : String
  amount : Int
  deriving Repr, DecidableEq

structure DecCoin where
  denom : String
  amount : Int   -- a `LegacyDec`: count of 10⁻¹⁸ units
  deriving Repr, DecidableEq

/-- `DecCoins.IsZero`: every entry is zero (true for the empty set) -/
def decCoinsIsZero (cs : List DecCoin) : Bool := cs.all (fun c => c.amount == 0)

/-- `Coins.AmountOf` (zero when absent) -/
def amountOf (cs : List Coin) (d : String) : Int :=
  match cs.find? (fun c => c.denom == d) with
  | some c => c.amount
  | none => 0

/-- `feeCoins.IsAnyGTE(required)` -/
def isAnyGTE (fee req : List Coin) : Bool :=
  if req.isEmpty then false else
  fee.any (fun c => let amt := amountOf req c.denom; decide (c.amount ≥ amt) && !(amt == 0))

/-- `sdk.NewCoin` panics on a negative amount -/
def newCoinPanics (c : Coin) : Bool := decide (c.amount < 0)

/-- ⌈n / d⌉ on naturals -/
def ceilDiv (n d : Nat) : Nat := (n + d - 1) / d

/-- specification side: ⌈price·gas⌉ in whole coins for denomination `d` (prices are in 10⁻¹⁸ units); 0 if the node has no
price for `d` -/
def requiredOf (prices : List DecCoin) (gas : Nat) (d : String) : Nat :=
  match prices.find? (fun p => p.denom == d) with
  | some p => ceilDiv (p.amount.toNat * gas) decPrecision
  | none => 0

/-- a fee coin covers the node's minimum for its denomination -/
def covers (prices : List DecCoin) (gas : Nat) (c : Coin) : Prop :=
  requiredOf prices gas c.denom ≠ 0 ∧ c.amount ≥ (requiredOf prices gas c.denom : Int)

/-- verdict of the fee checker in the ante chain -/
inductive Outcome where
  | accept
  | refuse
  | panic   -- a Go panic inside the checker (converted to an error by the deferred `Recover` of `NewAnteHandler`)
  | notFeeTx
  deriving DecidableEq, Repr

/-- one potentially panicking construct found in the code reachable from stateless validation / ante / arg decoding -/
structure Site where
  pkg : String
  recv : String    -- receiver type name ("" for a plain function)
  meth : String    -- method / function name
  line : Nat
  kind : String    -- panic | must | index | slice | assert | div | nilint | nilcoin | deref
  expr : String
  guarded : Bool
  guard : String   -- the guard found (source text) or ""
  deriving Repr

/-- identity of a site for review purposes: NOT the line number -/
def Site.key (s : Site) : String × String × String × String × String := (s.pkg, s.recv, s.meth, s.kind, s.expr)

/-- `Recv.Method` or `Func` -/
def Site.fn (s : Site) : String := if s.recv == "" then s.meth else s.recv ++ "." ++ s.meth

end FxVerif.Model.C20Base
