/-
C07, gov half: the DEPOSIT ESCROW of the gov end-blocker (x/gov/abci.go + x/gov/keeper/deposit.go).

The gov module account holds the deposits of every open proposal.  `RefundAndDeleteDeposits` / `DeleteAndBurnDeposits`
return an error when the account cannot pay a recorded deposit, and `EndBlocker` returns that error: the chain halts.
The messages of a PASSED proposal run with the gov account as signer, so they can (a) record a deposit without moving
coins (`MsgDeposit{depositor: gov}`, `MsgSubmitProposal{proposer: gov}` — repaired by 45d0bc2: `AddDeposit` refuses the
gov account) and (b) SPEND the escrow (`bank.MsgSend{from: gov}`, `MsgFundCommunityPool{depositor: gov}`,
`staking.MsgDelegate{delegator: gov}`, …).  The model has the two guards as switches of `Code` (REGENERATED from the AST
by go/extract/c07.go: `Gen.C07.govEscrowCode`) and the pass branch in the order of the source: refund the passing
proposal's own deposits, run the messages on a cache, [check the escrow on the cache], write or discard.

Core Lean only.
-/
namespace FxVerif.Model.C07Escrow

/-- what a proposal message does to the escrow when its handler runs (signer = gov module account) -/
inductive PMsg where
  | noop
  /-- the handler returns an error or panics (recovered) -/
  | fail
  /-- the signer pays `n` out of its balance: bank MsgSend / MsgMultiSend, MsgFundCommunityPool, MsgDelegate, ibc MsgTransfer … -/
  | spend (n : Nat)
  /-- the gov account receives `n` -/
  | payIn (n : Nat)
  /-- `MsgDeposit{depositor: gov}` / `MsgSubmitProposal{proposer: gov}`: a transfer gov → gov of `n` and a deposit record -/
  | govDeposit (pid n : Nat)
  deriving Repr, DecidableEq

/-- the two guards of the code, regenerated -/
structure Code where
  /-- `AddDeposit` returns an error when the depositor is the gov module account, BEFORE it records anything -/
  addDepositRefusesGov : Bool
  /-- the pass branch compares the gov balance with the sum of all recorded deposits on the cache context, between the
  message loop and `writeCache()`, and treats a shortfall like a failing message -/
  passChecksEscrow : Bool
  /-- the deposits of a tallied proposal are refunded / burned BEFORE the outcome switch runs the messages of a passing one
  (so the messages cannot reach the proposal's own deposit); `false` = only after the messages were committed -/
  settleBeforeMsgs : Bool := true
  deriving Repr, DecidableEq

structure State where
  /-- balance of the gov module account -/
  bal : Nat := 0
  /-- deposit records `(proposal, amount)` in store order -/
  deps : List (Nat × Nat) := []
  /-- the end-blocker returned an error -/
  halted : Bool := false
  deriving Repr, DecidableEq

def total : List (Nat × Nat) → Nat
  | [] => 0
  | (_, a) :: r => a + total r

def without (pid : Nat) : List (Nat × Nat) → List (Nat × Nat)
  | [] => []
  | (p, a) :: r => if p == pid then without pid r else (p, a) :: without pid r

/-- `RefundAndDeleteDeposits` / `DeleteAndBurnDeposits`: walk the records of `pid`, pay (or burn) each from the module
account; `none` = `SendCoinsFromModuleToAccount` / `BurnCoins` failed: insufficient funds -/
def settle (pid : Nat) : List (Nat × Nat) → Nat → Option Nat
  | [], b => some b
  | (p, a) :: r, b => if p == pid then (if a ≤ b then settle pid r (b - a) else none) else settle pid r b

def execMsg (c : Code) (m : PMsg) (s : State) : Option State :=
  match m with
  | .noop => some s
  | .fail => none
  | .spend n => if n ≤ s.bal then some { s with bal := s.bal - n } else none
  | .payIn n => some { s with bal := s.bal + n }
  | .govDeposit pid n => if c.addDepositRefusesGov || s.bal < n then none else some { s with deps := s.deps ++ [(pid, n)] }

/-- the message loop on `cacheCtx`: stops at the first failure -/
def execMsgs (c : Code) : List PMsg → State → Option State
  | [], s => some s
  | m :: r, s => match execMsg c m s with
    | some s' => execMsgs c r s'
    | none => none

/-- `case passes:` — the messages on a cache, [the escrow check on the cache], write or discard -/
def passMsgs (c : Code) (ms : List PMsg) (s1 : State) : State :=
  match execMsgs c ms s1 with
  | none => s1                                         -- FAILED: cache discarded
  | some s2 =>
    if c.passChecksEscrow && decide (s2.bal < total s2.deps) then s1   -- FAILED: cache discarded
    else s2                                            -- PASSED: writeCache()

inductive Op where
  /-- a user's MsgDeposit / the initial deposit of MsgSubmitProposal: `n` coins move into the escrow, one record -/
  | deposit (pid n : Nat)
  /-- the deposit period of `pid` expired, or it was rejected / vetoed / failed to decode: refund or burn -/
  | settle (pid : Nat)
  /-- `pid` passes: refund or burn ITS deposits, then run its messages -/
  | pass (pid : Nat) (ms : List PMsg)
  deriving Repr, DecidableEq

def step (c : Code) (s : State) (op : Op) : State :=
  if s.halted then s else
  match op with
  | .deposit pid n => { s with bal := s.bal + n, deps := s.deps ++ [(pid, n)] }
  | .settle pid =>
    match settle pid s.deps s.bal with
    | none => { s with halted := true }
    | some b => { s with bal := b, deps := without pid s.deps }
  | .pass pid ms =>
    if c.settleBeforeMsgs then
      match settle pid s.deps s.bal with
      | none => { s with halted := true }
      | some b => passMsgs c ms { s with bal := b, deps := without pid s.deps }
    else
      let s1 := passMsgs c ms s
      match settle pid s1.deps s1.bal with
      | none => { s with halted := true }
      | some b => { s1 with bal := b, deps := without pid s1.deps }

def run (c : Code) (ops : List Op) (s : State) : State := ops.foldl (step c) s

def init : State := {}

/-! driver words: `gescd pid n` | `gescb k {s:pid | p:pid:m,m,…}` with m = n | f | s<amt> | i<amt> | d<pid>_<amt> -/

def parseMsg (w : String) : Option PMsg :=
  match w.toList with
  | ['n'] => some .noop
  | ['f'] => some .fail
  | 's' :: r => (String.ofList r).toNat?.map .spend
  | 'i' :: r => (String.ofList r).toNat?.map .payIn
  | 'd' :: r =>
    match (String.ofList r).splitOn "_" with
    | [p, n] => do pure (.govDeposit (← p.toNat?) (← n.toNat?))
    | _ => none
  | _ => none

def parseEvent (w : String) : Option Op :=
  match w.splitOn ":" with
  | ["s", p] => p.toNat?.map .settle
  | ["p", p] => p.toNat?.map (fun p => .pass p [])
  | ["p", p, ms] => do
    let p ← p.toNat?
    let ms ← (ms.splitOn ",").mapM parseMsg
    pure (.pass p ms)
  | _ => none

/-- what the harness observes: nothing is committed by a block whose end-blocker failed -/
def showState (s : State) : String :=
  if s.halted then "halt" else s!"{s.bal} {total s.deps}"

/-- one escrow line; `none` = not an escrow line -/
def eline (c : Code) (s : State) (ws : List String) : Option (State × String) :=
  match ws with
  | ["gescd", p, n] => do
    let s' := step c s (.deposit (← p.toNat?) (← n.toNat?))
    pure (s', showState s')
  | "gescb" :: evs => do
    let ops ← evs.mapM parseEvent
    let s' := run c ops s
    pure (s', showState s')
  | ["gescreset"] => some (init, showState init)
  | _ => none

end FxVerif.Model.C07Escrow
