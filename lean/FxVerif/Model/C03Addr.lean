import FxVerif.Model.C03Go
import FxVerif.Model.Sha256
/-!
# C03 — from the TEXT of an external address to the ACCOUNT the handlers act on (core Lean only)

`types.ExternalAddrToHexAddr(chain, text)` is what the typed accessors of a claim (`GetSenderAddr()`, `GetRefundAddr()`,
`GetToAddr()`, `GetTokensAddr()` — unfolded in the regenerated `handlerView`) hand to the handlers.  Per address class:

* **eth** (`contract.ValidateEthereumAddress` / `common.HexToAddress`): `0x` + 40 hex digits → the 20 bytes they spell.  Two
  texts of one account differ only in the letter case of hex digits (`ethHex_injective_up_to_case`), and the EIP-55
  checksum (Keccak; not modelled) fixes the case: ONE accepted text per account.
* **tron** (`x/tron/types`: `ValidateTronAddress`, `tronAddress.ExternalAddrToAccAddr / ExternalAddrToHexAddr`): the text is
  base58check; the validator checks the LENGTH of the text (34) and the CHECKSUM (last four decoded bytes = first four of
  SHA-256(SHA-256(payload))) but NOT the version byte, and the conversions DROP the first decoded byte
  (`tronAddr.Bytes()[1:]`, then `common.BytesToAddress` keeps the last 20).  So base58check(v ‖ account) is an accepted text
  of `account` for every version byte v whose text has 34 characters: SEVERAL accepted texts per account
  (`Props.C03.tron_class_admits_several_texts`).  A claim hash must therefore be over the texts (it is), never over the
  typed accessors, because `BridgeTokenToBaseCoin` looks a token up by its text.

`tronValid` (with the executable `Sha256`) and `extHex` are compared with the real `ValidateExternalAddr` /
`ExternalAddrToHexAddr` / `ExternalAddrToAccAddr` on every generated address text (`xaddr` lines).
-/
namespace FxVerif.Model.C03.Addr
open FxVerif.Model.C03

/-- the Bitcoin base58 alphabet (`base58.BitcoinAlphabet`) -/
def b58Alphabet : Str := "123456789ABCDEFGHJKLMNPQRSTUVWXYZabcdefghijkmnopqrstuvwxyz".toList

def idxIn : Str → Char → Nat → Option Nat
  | [], _, _ => none
  | a :: r, c, i => if a = c then some i else idxIn r c (i + 1)

def b58val (c : Char) : Option Nat := idxIn b58Alphabet c 0

/-- the number a base58 digit string spells (most significant digit first) -/
def b58num : Str → Nat → Option Nat
  | [], acc => some acc
  | c :: r, acc => match b58val c with
    | none => none
    | some v => b58num r (acc * 58 + v)

/-- minimal big-endian bytes of a number (`[]` for 0); `fuel` ≥ the number of bytes -/
def bytesBE : Nat → Nat → List Nat → List Nat
  | 0, _, acc => acc
  | fuel + 1, n, acc => if n = 0 then acc else bytesBE fuel (n / 256) (n % 256 :: acc)

def leadingOnes : Str → Nat
  | '1' :: r => leadingOnes r + 1
  | _ => 0

/-- `base58.Decode(s, BitcoinAlphabet)`: one zero byte per leading `1`, then the minimal bytes of the number -/
def b58decode (s : Str) : Option (List Nat) :=
  let k := leadingOnes s
  match b58num (s.drop k) 0 with
  | none => none
  | some n => some (List.replicate k 0 ++ bytesBE s.length n [])

/-- `common.DecodeCheck` without the comparison of the checksum: (payload, checksum bytes) -/
def splitCheck (s : Str) : Option (List Nat × List Nat) :=
  match b58decode s with
  | none => none
  | some bs => if bs.length < 4 then none else some (bs.take (bs.length - 4), bs.drop (bs.length - 4))

/-- the base58check checksum holds (executed only: SHA-256 is not reasoned about) -/
def checksumOk (s : Str) : Bool :=
  match splitCheck s with
  | none => false
  | some (payload, chk) => (FxVerif.Sha256.sha256 (FxVerif.Sha256.sha256 payload)).take 4 == chk

/-- `ValidateTronAddress`: non-empty, 34 characters, decodes, checksum (the re-encoding comparison that follows in the Go
code cannot fail once these hold: base58 decoding is injective on digit strings) -/
def tronValid (s : Str) : Bool := s.length == 34 && checksumOk s

/-- `tronAddress.ExternalAddrToAccAddr`: the payload without its first byte (20 bytes for a 21-byte payload) -/
def tronAcc (s : Str) : List Nat :=
  match splitCheck s with
  | none => []
  | some (payload, _) => payload.drop 1

/-- `common.BytesToAddress`: the last 20 bytes, left-padded with zeros -/
def bytesToAddress (bs : List Nat) : List Nat :=
  if bs.length ≥ 20 then bs.drop (bs.length - 20) else List.replicate (20 - bs.length) 0 ++ bs

/-- `tronAddress.ExternalAddrToHexAddr` -/
def tronHex (s : Str) : List Nat := bytesToAddress (tronAcc s)

/-- value of a hex digit, 16 for anything else -/
def nibble (c : Char) : Nat := (Go.hexVal c).getD 16

/-- `common.HexToAddress` on `0x` + 40 hex digits, as the 40 nibbles -/
def ethNibbles (s : Str) : List Nat := (s.drop 2).map nibble

def pairUp : List Nat → List Nat
  | a :: b :: r => (a * 16 + b) :: pairUp r
  | _ => []

def ethHex (s : Str) : List Nat := pairUp (ethNibbles s)

/-- `types.ExternalAddrToHexAddr(chain of class k, s)` on a text of the class -/
def extHex : AddrKind → Str → List Nat
  | .eth, s => ethHex s
  | .tron, s => tronHex s
  | .other, _ => []

/-- ASCII lower case of one byte -/
def lowerC (c : Char) : Char := if 'A' ≤ c ∧ c ≤ 'Z' then Char.ofNat (c.toNat + 32) else c

/-- how many accepted texts name one account, per address class: the fact the hash formats rely on -/
inductive TextsPerAccount where
  | one      -- the text is determined by the account (given the checksum rule)
  | several  -- several accepted texts name one account
  deriving DecidableEq, Repr

def textsPerAccount : AddrKind → TextsPerAccount
  | .eth => .one
  | .tron => .several
  | .other => .one

/-- what a `ClaimHash` built from the TYPED accessors of a bridge call (`GetSenderAddr()`, `GetRefundAddr()`, `GetToAddr()`,
`GetTokensAddr()`) would hash in place of the four address texts: the accounts -/
def typedAddrs (k : AddrKind) (c : MsgBridgeCallClaim) : List (List Nat) :=
  [extHex k c.Sender, extHex k c.Refund, extHex k c.To] ++ c.TokenContracts.map (extHex k)

/-- the VALUE a handler receives through one entry of the regenerated `handlerView`: an entry of the shape
`GetXAddr(){ExternalAddrToHexAddr#class,X}` (leaves: the address class of the claim's chain and the text) evaluates to the
account bytes; every other entry hands over its leaves as they are -/
def isPrefix : Str → Str → Bool
  | [], _ => true
  | _ :: _, [] => false
  | a :: p, b :: s => a == b && isPrefix p s

def hasInfix (p : Str) : Str → Bool
  | [] => p.isEmpty
  | b :: s => isPrefix p (b :: s) || hasInfix p s

def entryValue (e : HEntry) : List HLeaf ⊕ List Nat :=
  match e.vals with
  | [.kind (some k), .str s] =>
    if hasInfix "{ExternalAddrToHexAddr#class,".toList e.expr.toList then .inr (extHex k s) else .inl e.vals
  | _ => .inl e.vals

end FxVerif.Model.C03.Addr
