/-!
# C03 — Go `fmt` rendering and the claim records (core Lean only)

A Go `string` is a byte sequence; the model represents it as `List Char` with one `Char` per byte (Latin-1
embedding, every char `< 256`), so `len(s)` is `List.length` and hashing the path means hashing `c.toNat` for each char.

The functions `fmt_<verb>_<GoType>` are exactly the combinations of `fmt.Sprintf` verb and argument type that occur in
the `ClaimHash` methods of `x/crosschain/types/msgs.go`; `Gen/C03.lean` (regenerated from the source on every run)
composes them into the `path` function of each claim type.  A verb/type combination that is not modelled here makes
the generated file fail to compile — a visible proof break, never a silent default.
-/
namespace FxVerif.Model.C03

abbrev Str := List Char

/-- external address class of a bridged chain (`RegisterExternalAddress`) -/
inductive AddrKind where
  | eth    -- `contract.ValidateEthereumAddress`: 42 chars, `0x` + 40 hex, EIP-55 checksum
  | tron   -- `ValidateTronAddress`: 34 base58 chars, base58check
  | other
  deriving DecidableEq, Repr

/-- `types.BridgeValidator` -/
structure BridgeValidator where
  Power : Nat
  ExternalAddress : Str
  deriving DecidableEq, Repr

/-! ## claim records: one field per field of the protobuf message (tx.pb.go), same names.
`sdkmath.Int` is `Option Int`: the zero value of the Go struct holds a nil `*big.Int` (absent protobuf field). -/

structure MsgSendToFxClaim where
  EventNonce : Nat
  BlockHeight : Nat
  TokenContract : Str
  Amount : Option Int
  Sender : Str
  Receiver : Str
  TargetIbc : Str
  BridgerAddress : Str
  ChainName : Str
  deriving DecidableEq, Repr

structure MsgBridgeCallClaim where
  ChainName : Str
  BridgerAddress : Str
  EventNonce : Nat
  BlockHeight : Nat
  Sender : Str
  Refund : Str
  TokenContracts : List Str
  Amounts : List (Option Int)
  To : Str
  Data : Str
  Value : Option Int
  Memo : Str
  TxOrigin : Str
  deriving DecidableEq, Repr

structure MsgBridgeCallResultClaim where
  ChainName : Str
  BridgerAddress : Str
  EventNonce : Nat
  BlockHeight : Nat
  Nonce : Nat
  TxOrigin : Str
  Success : Bool
  Cause : Str
  deriving DecidableEq, Repr

structure MsgSendToExternalClaim where
  EventNonce : Nat
  BlockHeight : Nat
  BatchNonce : Nat
  TokenContract : Str
  BridgerAddress : Str
  ChainName : Str
  deriving DecidableEq, Repr

structure MsgBridgeTokenClaim where
  EventNonce : Nat
  BlockHeight : Nat
  TokenContract : Str
  Name : Str
  Symbol : Str
  Decimals : Nat
  BridgerAddress : Str
  ChannelIbc : Str
  ChainName : Str
  deriving DecidableEq, Repr

structure MsgOracleSetUpdatedClaim where
  EventNonce : Nat
  BlockHeight : Nat
  OracleSetNonce : Nat
  Members : List BridgeValidator
  BridgerAddress : Str
  ChainName : Str
  deriving DecidableEq, Repr

/-! ## rendering -/

/-- `%d` of an unsigned integer: decimal digits, no sign, no leading zeros (`"0"` for zero) -/
def fmtNat (n : Nat) : Str := Nat.toDigits 10 n

/-- `sdkmath.Int.String()` = `(*big.Int).String()`: `"<nil>"` for the nil pointer, else signed decimal -/
def fmtInt : Option Int → Str
  | none => ['<', 'n', 'i', 'l', '>']
  | some (Int.ofNat n) => fmtNat n
  | some (Int.negSucc n) => '-' :: fmtNat (n + 1)

/-- elements separated by single spaces (how `fmt` prints the elements of a slice or the fields of a struct) -/
def joinSp : List Str → Str
  | [] => []
  | [a] => a
  | a :: b :: r => a ++ ' ' :: joinSp (b :: r)

/-- `%v` / `%s` of a slice: `[e1 e2 …]` -/
def fmtSlice (xs : List Str) : Str := '[' :: joinSp xs ++ [']']

def hexDigit (n : Nat) : Char := if n < 10 then Char.ofNat (48 + n) else Char.ofNat (87 + n)

/-- `%x` of a string: two lower-case hex digits per byte -/
def fmtHexStr : Str → Str
  | [] => []
  | c :: r => hexDigit (c.toNat / 16) :: hexDigit (c.toNat % 16) :: fmtHexStr r

/-- `%v` of a `BridgeValidator` *value* (its `String()` method has a pointer receiver, so `fmt` prints the struct):
`{power address}` -/
def fmtMember (m : BridgeValidator) : Str := '{' :: fmtNat m.Power ++ ' ' :: m.ExternalAddress ++ ['}']

def fmt_d_uint64 (n : Nat) : Str := fmtNat n
def fmt_s_string (s : Str) : Str := s
def fmt_v_string (s : Str) : Str := s
def fmt_x_string (s : Str) : Str := fmtHexStr s
def fmt_t_bool (b : Bool) : Str := if b then ['t', 'r', 'u', 'e'] else ['f', 'a', 'l', 's', 'e']
def fmt_s_IntString (a : Option Int) : Str := fmtInt a
def fmt_v_IntString (a : Option Int) : Str := fmtInt a
def fmt_s_sliceString (xs : List Str) : Str := fmtSlice xs
def fmt_v_sliceString (xs : List Str) : Str := fmtSlice xs
/-- `%v` of `[]sdkmath.Int`: `Int` has a value-receiver `String()`, so each element prints through it -/
def fmt_v_sliceInt (xs : List (Option Int)) : Str := fmtSlice (xs.map fmtInt)
def fmt_s_sliceInt (xs : List (Option Int)) : Str := fmtSlice (xs.map fmtInt)
def fmt_v_sliceBridgeValidator (ms : List BridgeValidator) : Str := fmtSlice (ms.map fmtMember)

/-! ## character classes of `ValidateBasic` (used by the generated `validGen`) -/

def isHexChar (c : Char) : Bool := c.isDigit || ('a' ≤ c && c ≤ 'f') || ('A' ≤ c && c ≤ 'F')

/-- `hex.DecodeString(s)` succeeds (the empty string does) -/
def isHexData (s : Str) : Bool := s.length % 2 == 0 && s.all isHexChar

/-- base58 alphabet (Bitcoin/Tron): alphanumeric without `0 O I l` -/
def isBase58Char (c : Char) : Bool := c.isAlphanum && c != '0' && c != 'O' && c != 'I' && c != 'l'

/-- `^0x[0-9a-fA-F]{40}$`, length 42 (the EIP-55 checksum is not modelled) -/
def isEthAddr (s : Str) : Bool := s.length == 42 && s.take 2 == ['0', 'x'] && (s.drop 2).all isHexChar

/-- 34 base58 characters (the base58check checksum is not modelled) -/
def isTronAddr (s : Str) : Bool := s.length == 34 && s.all isBase58Char

def isExtAddr : AddrKind → Str → Bool
  | .eth, s => isEthAddr s
  | .tron, s => isTronAddr s
  | .other, _ => false

/-- superset of the strings `sdk.AccAddressFromBech32` accepts: non-empty, alphanumeric -/
def isBech32ish (s : Str) : Bool := !s.isEmpty && s.all Char.isAlphanum

/-- non-nil and non-negative `sdkmath.Int` -/
def isNonNeg : Option Int → Bool
  | some (Int.ofNat _) => true
  | _ => false

/-- representation invariant of the model: a Go string is a byte string, one `Char` per byte -/
def isBytes (s : Str) : Bool := s.all fun c => c.toNat < 256

end FxVerif.Model.C03
