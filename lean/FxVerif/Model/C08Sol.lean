import FxVerif.Model.C08Cache
import FxVerif.Gen.C08d
/-!
# C08 — the FIP20 slot programs compiled from the regenerated Solidity statement lists (round 4)

`Gen/C08d.lean` carries the bodies of `transfer`, `transferFrom`, `approve`, `mint`, `burn` and of the internal `_transfer`,
`_mint`, `_burn`, `_approve` of `solidity/contracts/fip20/FIP20Upgradable.sol`, statement by statement, and the contract's
state variables in declaration order.  `compileFn` turns a method into a `TProg` — the slot program the StateDB cache model
(`Model/C08Cache.lean`) executes:

* a state variable is a storage slot (`_totalSupply` ↦ `.supply`, `_balanceOf[a]` ↦ `.bal a`, `_allowance[o][s]` ↦ `.allow o s`),
  any other variable does not compile (`.done false`);
* `uint256 v = ref` is a read; `ref = e` a write; `ref += e` a read and a write; `ref -= e` a read, a checked subtraction
  (Solidity ≥ 0.8: underflow reverts) and a write; `require(a >= b)` reverts when `a < b`;
* `require(x != address(0))` is recognised and skipped: accounts are abstract ids, none of which is the zero address;
* a call of an internal function binds its parameters to the argument VALUES and runs its body (one level: the internal
  functions call nothing); `_msgSender()` is the caller; `emit` has no effect on storage; `return true` ends the method.

Core Lean only.
-/
namespace FxVerif.Model.C08Cache
open FxVerif.Gen.C08d

abbrev Env := List (String × Nat)

def Env.get (env : Env) (x : String) : Option Nat :=
  match env with
  | [] => none
  | (k, v) :: rest => if k = x then some v else Env.get rest x

def evalE (env : Env) : E → Option Nat
  | .id s => env.get s
  | .bin op a b =>
    match evalE env a, evalE env b with
    | some x, some y => if op = "sub" then some (x - y) else if op = "add" then some (x + y) else none
    | _, _ => none
  | .unk _ => none

/-- the storage slot a reference denotes -/
def slotOf (env : Env) (r : Ref) : Option Slot :=
  match r.var, r.idx with
  | "_totalSupply", [] => some .supply
  | "_balanceOf", [a] => (evalE env a).map Slot.bal
  | "_allowance", [o, s] =>
    match evalE env o, evalE env s with
    | some o, some s => some (.allow o s)
    | _, _ => none
  | _, _ => none

/-- statements of a function that calls nothing (`call` does not compile here) -/
def compileFlat (env : Env) : List Stmt → TProg → TProg
  | [], k => k
  | .requireNonZero _ :: rest, k => compileFlat env rest k
  | .requireGe a b :: rest, k =>
    match evalE env a, evalE env b with
    | some x, some y => if x < y then .done false else compileFlat env rest k
    | _, _ => .done false
  | .load v r :: rest, k =>
    match slotOf env r with
    | some sl => .read sl fun x => compileFlat ((v, x) :: env) rest k
    | none => .done false
  | .store r e :: rest, k =>
    match slotOf env r, evalE env e with
    | some sl, some x => .write sl x (compileFlat env rest k)
    | _, _ => .done false
  | .addTo r e :: rest, k =>
    match slotOf env r, evalE env e with
    | some sl, some n => .read sl fun x => .write sl (x + n) (compileFlat env rest k)
    | _, _ => .done false
  | .subFrom r e :: rest, k =>
    match slotOf env r, evalE env e with
    | some sl, some n => .read sl fun x => if x < n then .done false else .write sl (x - n) (compileFlat env rest k)
    | _, _ => .done false
  | .emit :: rest, k => compileFlat env rest k
  | .ret :: _, k => k
  | .call _ _ :: _, _ => .done false
  | .unknown _ :: _, _ => .done false

def findFn (fns : List Fn) (name : String) : Option Fn := fns.find? (fun f => f.name = name)

def bindArgs (caller : Nat) : List String → List Nat → Option Env
  | [], [] => some [("_msgSender()", caller)]
  | p :: ps, v :: vs => (bindArgs caller ps vs).map fun env => (p, v) :: env
  | _, _ => none

/-- statements of an external method: as `compileFlat`, plus calls of internal functions -/
def compileTop (fns : List Fn) (caller : Nat) (env : Env) : List Stmt → TProg → TProg
  | [], k => k
  | .requireNonZero _ :: rest, k => compileTop fns caller env rest k
  | .requireGe a b :: rest, k =>
    match evalE env a, evalE env b with
    | some x, some y => if x < y then .done false else compileTop fns caller env rest k
    | _, _ => .done false
  | .load v r :: rest, k =>
    match slotOf env r with
    | some sl => .read sl fun x => compileTop fns caller ((v, x) :: env) rest k
    | none => .done false
  | .store r e :: rest, k =>
    match slotOf env r, evalE env e with
    | some sl, some x => .write sl x (compileTop fns caller env rest k)
    | _, _ => .done false
  | .addTo r e :: rest, k =>
    match slotOf env r, evalE env e with
    | some sl, some n => .read sl fun x => .write sl (x + n) (compileTop fns caller env rest k)
    | _, _ => .done false
  | .subFrom r e :: rest, k =>
    match slotOf env r, evalE env e with
    | some sl, some n => .read sl fun x => if x < n then .done false else .write sl (x - n) (compileTop fns caller env rest k)
    | _, _ => .done false
  | .emit :: rest, k => compileTop fns caller env rest k
  | .ret :: _, k => k
  | .call fn args :: rest, k =>
    match findFn fns fn, args.mapM (evalE env) with
    | some f, some vs =>
      match bindArgs caller f.params vs with
      | some env' => compileFlat env' f.body (compileTop fns caller env rest k)
      | none => .done false
    | _, _ => .done false
  | .unknown _ :: _, _ => .done false

/-- the slot program of the external method `name` called by `caller` with `args` -/
def compileFn (fns : List Fn) (name : String) (caller : Nat) (args : List Nat) : TProg :=
  match findFn fns name with
  | some f =>
    match bindArgs caller f.params args with
    | some env => compileTop fns caller env f.body (.done true)
    | none => .done false
  | none => .done false

/-- the FIP20 methods as compiled from the Solidity source of this run -/
def Method.compiled : Method → TProg
  | .transfer c t n => compileFn fip20_functions "transfer" c [t, n]
  | .approve c s n => compileFn fip20_functions "approve" c [s, n]
  | .transferFrom c f t n => compileFn fip20_functions "transferFrom" c [f, t, n]
  | .mint t n => compileFn fip20_functions "mint" 0 [t, n]
  | .burn a n => compileFn fip20_functions "burn" 0 [a, n]
  | .balanceOf a => C08Cache.balanceOf a

/-- position of a state variable in the declaration order of the contract -/
def varPos (vars : List (String × String)) (name : String) : Option Nat :=
  match vars with
  | [] => none
  | (n, _) :: rest => if n = name then some 0 else (varPos rest name).map (· + 1)

end FxVerif.Model.C08Cache
