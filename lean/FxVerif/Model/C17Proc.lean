import FxVerif.Gen.C17
/-!
# C17 model — process-level mutable state

`Gen.C17.procSites` (typed translator, regenerated every run) lists every write, outside `init`, to a package-level
variable or to a field of a non-generated fx-core struct that outlives the call (reached from the receiver / a parameter
through a pointer, a map / slice element or a method of a `sync` / `atomic` / cache type), and every variable or field
*declared* with a synchronisation, channel or cache type.  Such memory belongs to the *process*, not to the chain state:
two nodes that executed the same blocks may hold different contents (one was restarted, one served CheckTx / simulations /
queries in between).  Each regenerated site must be in `psReviewed` with a class whose admissibility is re-decided from
what the translator saw (kind of write, static callers); each class has a theorem in `Props/C17.lean` about the node model
below (`process_history_irrelevant` and its corollaries).  A new site — e.g. a keeper-level `sync.Map` cache — is not in
`psReviewed`, so `no_process_state` stops checking.
-/
namespace FxVerif.Model.C17
open FxVerif.Gen.C17

inductive PClass where
  /-- written only while the application object is assembled (`app.New` and what it calls, package `init` functions,
  node start-up), i.e. before the first block and with no input from the block history; read-only afterwards:
  `wiring_process_history_irrelevant` -/
  | wiring
  deriving DecidableEq, Repr

/-- functions that run only during construction of the application object / at package initialisation -/
def constructionFuncs : List String := [
  "app/keepers.NewAppKeeper",             -- called by app.New only
  "x/crosschain/keeper.NewRouterKeeper",  -- called by NewAppKeeper
  "x/arbitrum/types.init", "x/avalanche/types.init", "x/bsc/types.init", "x/eth/types.init", "x/layer2/types.init",
  "x/optimism/types.init", "x/polygon/types.init", "x/tron/types.init"
]

/-- hand-reviewed sites keyed by (package, owner, name, how, function) with the reason -/
def psReviewed : List (String × String × String × String × String × PClass × String) := [
  ("app", "App", "pendingTxListeners", "assign", "App.RegisterPendingTxListener", .wiring,
    "JSON-RPC server start-up (server/json_rpc.go); the listeners are only invoked from the CheckTx-side pending-tx hook"),
  ("app/keepers", "AppKeepers", "keys", "assign", "AppKeepers.GenerateKeys", .wiring, "store keys created once by NewAppKeeper"),
  ("app/keepers", "AppKeepers", "memKeys", "assign", "AppKeepers.GenerateKeys", .wiring, "store keys created once by NewAppKeeper"),
  ("app/keepers", "AppKeepers", "objKeys", "assign", "AppKeepers.GenerateKeys", .wiring, "store keys created once by NewAppKeeper"),
  ("app/keepers", "AppKeepers", "tkeys", "assign", "AppKeepers.GenerateKeys", .wiring, "store keys created once by NewAppKeeper"),
  ("x/crosschain/keeper", "router", "routes", "index-assign", "router.AddRoute", .wiring, "module routes registered by NewAppKeeper, then sealed"),
  ("x/crosschain/keeper", "router", "sealed", "assign", "router.Seal", .wiring, "sealed by NewRouterKeeper"),
  ("x/crosschain/precompile", "Router", "routes", "index-assign", "Router.AddRoute", .wiring, "precompile routes registered by NewAppKeeper"),
  ("x/crosschain/precompile", "Router", "sealed", "assign", "Router.Seal", .wiring, "never called (no static caller)"),
  ("x/crosschain/types", "var", "externalAddressRouter", "index-assign", "RegisterExternalAddress", .wiring,
    "filled by the init functions of the chain packages (package initialisation order is fixed by the import graph)")
]

def psClassify (s : PSite) : Option PClass :=
  (psReviewed.find? (fun r => r.1 == s.pkg && r.2.1 == s.owner && r.2.2.1 == s.name && r.2.2.2.1 == s.how && r.2.2.2.2.1 == s.func)).map (·.2.2.2.2.2.1)

/-- a class is admissible for a site only if what the translator saw fits it: `wiring` needs a plain assignment (no
`sync`/`atomic`/cache method, no declaration of such a type) whose every static caller is a construction function -/
def psConsistent (s : PSite) (c : PClass) : Bool :=
  match c with
  | .wiring =>
    (s.how == "assign" || s.how == "index-assign") && s.meth == "" && s.callers.all (fun f => constructionFuncs.contains f)

def psCovered (s : PSite) : Bool :=
  match psClassify s with
  | some c => psConsistent s c
  | none => false

/-! ## a node: chain state on disk, memory in the process -/

/-- what happens to one node -/
inductive Ev (I : Type) where
  /-- a transaction of a block (consensus input): state and memory effects are kept, the output is observed -/
  | deliver (i : I)
  /-- CheckTx / simulation / query of `i`: executed on a branch of the state that is thrown away; memory effects stay -/
  | serve (i : I)
  /-- process restart: memory back to what construction builds, state kept -/
  | restart

structure Node (M S : Type) where
  mem : M
  st : S

/-- a message handler may read and write process memory and chain state and returns the observable result (code, gas
used, events) -/
abbrev Handler (M S I O : Type) := M → S → I → M × S × O

def stepEv {M S I O : Type} (h : Handler M S I O) (m₀ : M) (n : Node M S) : Ev I → Node M S × Option O
  | .deliver i => let r := h n.mem n.st i; (⟨r.1, r.2.1⟩, some r.2.2)
  | .serve i => let r := h n.mem n.st i; (⟨r.1, n.st⟩, none)
  | .restart => (⟨m₀, n.st⟩, none)

/-- run a process history; returns the final node and the outputs of the delivered transactions in order -/
def runEvs {M S I O : Type} (h : Handler M S I O) (m₀ : M) : Node M S → List (Ev I) → Node M S × List O
  | n, [] => (n, [])
  | n, e :: es =>
    let r := stepEv h m₀ n e
    let rest := runEvs h m₀ r.1 es
    match r.2 with
    | some o => (rest.1, o :: rest.2)
    | none => (rest.1, rest.2)

/-- the block history of a process history: the delivered transactions -/
def blocksOf {I : Type} : List (Ev I) → List I
  | [] => []
  | .deliver i :: es => i :: blocksOf es
  | _ :: es => blocksOf es

/-- reference semantics: the block history executed with a fixed memory `m` -/
def runPure {M S I O : Type} (h : Handler M S I O) (m : M) : S → List I → S × List O
  | s, [] => (s, [])
  | s, i :: is =>
    let r := h m s i
    let rest := runPure h m r.2.1 is
    (rest.1, r.2.2 :: rest.2)

/-- two replicas: possibly different binaries of the same code (`h₁`, `h₂`: e.g. different map-iteration schedules), own
construction-time memory -/
structure Replica (M S I O : Type) where
  h : Handler M S I O
  m₀ : M
  evs : List (Ev I)

def Replica.run {M S I O : Type} (r : Replica M S I O) (s : S) : S × List O :=
  let res := runEvs r.h r.m₀ ⟨r.m₀, s⟩ r.evs
  (res.1.st, res.2)

/-! ## the shape of the seeded defect: a keeper-level cache whose hit is cheaper than its miss -/

/-- memory = the aliases resolved so far; output = gas: 1 on a hit, 10 on a miss (the answer itself is the same) -/
def gasCacheHandler : Handler (List String) Nat String Nat := fun mem st alias =>
  if mem.contains alias then (mem, st + 1, 1) else (alias :: mem, st + 1, 10)

/-- a memo table of a pure function whose use is not metered: the legitimate kind of cache -/
def memoHandler (f : String → Nat) : Handler (List (String × Nat)) Nat String Nat := fun mem st k =>
  match mem.find? (fun e => e.1 == k) with
  | some e => (mem, st + e.2, e.2)
  | none => ((k, f k) :: mem, st + f k, f k)

/-- memory = a value of the process environment (an address the allocator chose, a goroutine id, `$HOME`): a handler
that formats it into its output and state -/
def envLeakHandler : Handler Nat Nat String Nat := fun env st _ => (env, st + env % 7, env)

end FxVerif.Model.C17
