/-!
# C20 — handler-level panic sites: call graph, reachability certificates, containment by the transaction runner

`Gen/C20Handler.lean` (typed translator `go/extractt/c20handler.go`, regenerated from `/repo` on every run) holds the static
call graph of the fx-core module, the entry points classified by signature (`tx` message-server methods, `precompile` `Run`s,
`ibc` callbacks, `block` hooks), every explicit `panic(…)` / `Must…` call behind a transaction-level entry point of the
bridge modules, two reachability CERTIFICATES (`blockReach`, `ungatedReach`) and three facts about `baseapp` read from the
module cache.

The model below is a graph with a reachability relation and an executable closure check.  `Proofs/C20Handler.lean` proves
that a closed set that contains the roots contains everything reachable — for every graph — so the statements "this panic
site is not reachable from a block hook" and "this panic site is reachable from a transaction only through a call that sits
behind the vote-power threshold of `TryAttestation`" are theorems about the regenerated graph (the certificate is checked,
not trusted).

Disposition of a site (what the property needs, `never crashes a node`):
* `contained`: not reachable from a block hook; every transaction-level path runs under the deferred `recover()` of
  `baseapp.runTx` (regenerated fact), which answers the transaction with an error (`ErrPanic`) and discards its writes;
* reachable from a block hook as well: must be on the reviewed list below with the invariant that keeps it unreachable.

Core Lean only.
-/
namespace FxVerif.Model.C20Handler

structure Node where
  id : Nat
  name : String
  kind : String      -- "" | tx | precompile | ibc | block | query | genesis
  deriving DecidableEq, Repr

abbrev Graph := List (Nat × List Nat)

structure HSite where
  fn : Nat
  func : String
  kind : String      -- panic | must
  isPanic : Bool     -- kind = "panic"
  expr : String
  conds : List String   -- conditions of the enclosing `if`s, innermost first
  arg : String          -- must: provenance class of the first argument (store | msg | const | other | none)
  deriving DecidableEq, Repr

/-- a call of a panic-hosting function from a function that a gRPC query method reaches (round 5): the callee's panic sits behind
`if !recv.guard(param) { panic }`; `guarded` says the caller tests `guard` on the same argument in a dominating early return -/
structure QCall where
  caller : Nat
  callee : Nat
  guard : String
  arg : String
  guarded : Bool
  deriving DecidableEq, Repr

/-- a field selection through a pointer-typed field of a query request (round 5): `req.Pagination.Limit` panics when the optional
`pagination` part is absent, unless a nil test of `req.Pagination` dominates it -/
structure QDeref where
  fn : Nat
  expr : String
  ptr : String
  guarded : Bool
  deriving DecidableEq, Repr

/-- `b` is a callee of `a` -/
def Graph.edge (g : Graph) (a b : Nat) : Prop := ∃ ts, (a, ts) ∈ g ∧ b ∈ ts

/-- reflexive-transitive closure of the call edges -/
inductive Reach (g : Graph) : Nat → Nat → Prop where
  | refl (a : Nat) : Reach g a a
  | step {a b c : Nat} : Reach g a b → g.edge b c → Reach g a c

/-- a set of functions as a bit mask (bit `n` = function number `n`): membership is one `testBit` -/
def inSet (R : Nat) (n : Nat) : Bool := R.testBit n

/-- executable closure check: every edge that starts inside `R` ends inside `R` -/
def closed (g : Graph) (R : Nat) : Bool :=
  g.all fun e => !inSet R e.1 || e.2.all (inSet R)

/-- the certificate check: roots inside, closed -/
def certifies (g : Graph) (roots : List Nat) (R : Nat) : Bool := roots.all (inSet R) && closed g R

/-- a site is reachable from one of the roots -/
def reachableFrom (g : Graph) (roots : List Nat) (n : Nat) : Prop := ∃ r ∈ roots, Reach g r n

/-! ## reviewed dispositions of block-reachable sites

A site that a block hook can reach is not contained by `runTx`.  Each entry names the function, the kind, a prefix of the
expression and the reason the site cannot fire on a chain whose state was written by the chain itself (C07 owns the end-block
inventory `Gen.C07.endBlockerSites` and re-states these there; the list here is the C20 view: hostile INPUT cannot steer the
site, because its operand is read back from the store or is a constant). -/
structure Reviewed where
  func : String
  kind : String
  exprPrefix : String
  why : String
  deriving Repr

def Reviewed.covers (r : Reviewed) (s : HSite) : Bool :=
  r.func == s.func && r.kind == s.kind && r.exprPrefix.toList.isPrefixOf s.expr.toList

/-- a `Must…` call whose operand is a store read (decoding what the chain itself encoded), a constant, or a call without an
argument: not steerable by input -/
def mustOnOwnState (s : HSite) : Bool := s.kind == "must" && (s.arg == "store" || s.arg == "const" || s.arg == "none")

/-- every recorded call `a → f` exists and carries the dominating test -/
def callsGuarded (qcalls : List QCall) (a f : Nat) : Bool :=
  qcalls.any (fun c => c.caller == a && c.callee == f) &&
  (qcalls.filter (fun c => c.caller == a && c.callee == f)).all (fun c => c.guarded && c.guard != "")

/-- executable check: every edge that starts inside the certificate `R` and ends in one of the functions `fs` is a guarded call -/
def edgesGuarded (g : Graph) (R : Nat) (qcalls : List QCall) (fs : List Nat) : Bool :=
  g.all fun e => !inSet R e.1 || e.2.all fun b => !fs.contains b || callsGuarded qcalls e.1 b

def nodeName (ns : List Node) (i : Nat) : String := ((ns.find? (·.id == i)).map (·.name)).getD ""

end FxVerif.Model.C20Handler
