import FxVerif.Model.C03

/-!
# C03 — `Claim` → `claimLogicCheck` → `Attest` → `TryAttestation` over the generated paths (core Lean only)

The part of x/crosschain/keeper the property is about, as a state machine:

* `MsgServer.Claim`: `claimLogicCheck` (the members of an oracle-set claim must be registered external addresses), then
  `Attest`;
* `Attest`: the voter's event nonce must be its last nonce + 1; the vote is appended to the attestation stored under the
  key `nonce ‖ H(path claim)` (created with the first voter's claim if absent); if that attestation is not yet observed
  and the nonce is the next one, `TryAttestation(att, claim)` runs **with the claim object of this voter**;
* `TryAttestation`: walks the votes in order, sums the power of the oracles that are found, and at the first vote where
  the sum reaches `66 * total / 100` marks the attestation observed, advances the last observed nonce and hands
  **`claim`** (not the claim recorded in the attestation, not anybody else's) to the handler;
* `AttestationHandler`: send-to-fx, bridge-call and bridge-call-result claims are only STORED
  (`SavePendingExecuteClaim`, keyed by event nonce); `ExecuteClaim(nonce)` later deletes the stored claim and runs it
  (an error of the real handler fails the transaction: nothing changes).

`key c` is the hash part of the store key, `ClaimHash(c)` = SHA-256 of the generated `path c` in the code (`hashHex c.path`
in the driver); it is a parameter so that the theorems can name collision-freeness as a hypothesis and so that the
formats of the pinned commit can be put through the same machine (`legacy_executed_not_voted`).  The handlers are not modelled: whether the handler panics (which undoes the whole
vote) is an input of the vote; oracle powers, total power, registered addresses and the nonce cursors can be changed by
environment operations at any time (bonding, slashing, governance, earlier events).  Ghost components, never read by the
transitions: the claim object of every vote, and the log `executed` of (claim handed to the handler, votes of the
attestation at that moment).
-/
namespace FxVerif.Model.C03

/-- a claim of any of the six types (`types.ExternalClaim`) -/
inductive AnyClaim where
  | stf (c : MsgSendToFxClaim)
  | bc (c : MsgBridgeCallClaim)
  | bcr (c : MsgBridgeCallResultClaim)
  | ste (c : MsgSendToExternalClaim)
  | bt (c : MsgBridgeTokenClaim)
  | osu (c : MsgOracleSetUpdatedClaim)
  deriving DecidableEq, Repr

namespace AnyClaim

/-- the hashed path: the REGENERATED `path` of the claim's type -/
def path : AnyClaim → Str
  | stf c => c.path | bc c => c.path | bcr c => c.path | ste c => c.path | bt c => c.path | osu c => c.path

/-- `GetEventNonce()` -/
def nonce : AnyClaim → Nat
  | stf c => c.EventNonce | bc c => c.EventNonce | bcr c => c.EventNonce | ste c => c.EventNonce | bt c => c.EventNonce
  | osu c => c.EventNonce

/-- the types `AttestationHandler` stores for `ExecuteClaim` instead of executing them at once -/
def deferred : AnyClaim → Bool
  | stf _ | bc _ | bcr _ => true
  | _ => false

/-- the type and every effect-relevant field -/
def effect : AnyClaim → AnyClaim
  | stf c => stf c.effect | bc c => bc c.effect | bcr c => bcr c.effect | ste c => ste c.effect | bt c => bt c.effect
  | osu c => osu c.effect

/-- `ValidateBasic` (regenerated `validGen`) for a chain of address class `k` -/
def valid (k : AddrKind) : AnyClaim → Bool
  | stf c => c.valid k | bc c => c.valid k | bcr c => c.valid k | ste c => c.valid k | bt c => c.valid k | osu c => c.valid k

end AnyClaim

/-- `types.Attestation` under its store key `nonce ‖ hash` -/
structure Att (η : Type) where
  nonce : Nat
  hash : η
  /-- `Attestation.Claim`: the first voter's claim -/
  claim : AnyClaim
  /-- `Attestation.Votes` in order; ghost: the claim object each voter submitted -/
  votes : List (Nat × AnyClaim)
  observed : Bool

/-- ghost log entry: one run of the handler -/
structure Exec where
  /-- the claim object handed to `processAttestation` -/
  claim : AnyClaim
  /-- the votes of the attestation at that moment -/
  tallied : List (Nat × AnyClaim)
  deriving DecidableEq, Repr

structure AState (η : Type) where
  atts : List (Att η) := []
  lastObserved : Nat := 0
  lastByOracle : List (Nat × Nat) := []
  /-- power of the oracles that `GetOracle` finds -/
  powers : List (Nat × Nat) := []
  total : Nat := 0
  /-- registered external addresses (`HasOracleAddrByExternalAddr`) -/
  exts : List Str := []
  /-- `SavePendingExecuteClaim`: event nonce → stored claim -/
  pending : List (Nat × AnyClaim) := []
  executed : List Exec := []
  /-- ghost: the claims `ExecuteClaim` has run -/
  ran : List AnyClaim := []

inductive VoteResult where
  | ok | logicCheck | nonContiguous | panic
  deriving DecidableEq, Repr

section
variable {η : Type} [DecidableEq η]

/-- `GetLastEventNonceByOracle`: an oracle without a record starts one below the last observed nonce -/
def lastNonceOf (s : AState η) (o : Nat) : Nat :=
  match s.lastByOracle.lookup o with
  | some n => n
  | none => s.lastObserved - 1

def setAssoc (xs : List (Nat × Nat)) (k v : Nat) : List (Nat × Nat) := (k, v) :: xs.filter (fun p => p.1 != k)

/-- `claimLogicCheck` -/
def logicCheck (s : AState η) : AnyClaim → Bool
  | .osu m => m.Members.all fun x => s.exts.contains x.ExternalAddress
  | _ => true

/-- `AttestationVotesPowerThreshold.Mul(totalPower).Quo(100)` -/
def required (s : AState η) : Nat := 66 * s.total / 100

/-- the loop of `TryAttestation`: does the running sum of the found oracles' powers reach the threshold -/
def crossesFrom (s : AState η) : List Nat → Nat → Bool
  | [], _ => false
  | o :: r, acc =>
    match s.powers.lookup o with
    | none => crossesFrom s r acc
    | some p => if acc + p < required s then crossesFrom s r (acc + p) else true

def crosses (s : AState η) (votes : List Nat) : Bool := crossesFrom s votes 0

def sameKey (n : Nat) (h : η) (a : Att η) : Bool := a.nonce == n && a.hash == h

def setPending (ps : List (Nat × AnyClaim)) (n : Nat) (c : AnyClaim) : List (Nat × AnyClaim) :=
  (n, c) :: ps.filter (fun p => p.1 != n)

def getAtt (atts : List (Att η)) (n : Nat) (h : η) : Option (Att η) := atts.find? (sameKey n h)

def setAtt (atts : List (Att η)) (a : Att η) : List (Att η) := a :: atts.filter (fun b => !sameKey a.nonce a.hash b)

/-- the attestation stored under the key of claim `c` (`GetAttestation`), or a new one recording `c` -/
def attFor (key : AnyClaim → η) (s : AState η) (c : AnyClaim) : Att η :=
  (getAtt s.atts c.nonce (key c)).getD { nonce := c.nonce, hash := key c, claim := c, votes := [], observed := false }

/-- `att.Votes = append(att.Votes, oracle)` -/
def withVote (a : Att η) (o : Nat) (c : AnyClaim) : Att η := { a with votes := a.votes ++ [(o, c)] }

/-- `TryAttestation` is entered and its loop reaches the threshold -/
def observedNow (s : AState η) (a : Att η) (c : AnyClaim) : Bool :=
  !a.observed && c.nonce == s.lastObserved + 1 && crosses s (a.votes.map (·.1))

/-- the writes of an accepted vote; when `obs`, the handler is run on the claim object `c` of THIS voter -/
def applyVote (s : AState η) (a : Att η) (o : Nat) (c : AnyClaim) (obs : Bool) : AState η :=
  if obs then
    { s with atts := setAtt (setAtt s.atts a) { a with observed := true }, lastObserved := c.nonce,
             executed := s.executed ++ [{ claim := c, tallied := a.votes }],
             pending := if c.deferred then setPending s.pending c.nonce c else s.pending,
             lastByOracle := setAssoc s.lastByOracle o c.nonce }
  else
    { s with atts := setAtt s.atts a, lastByOracle := setAssoc s.lastByOracle o c.nonce }

/-- one `MsgClaim`: oracle `o` submits claim object `c`; `handlerPanics`: the handler panics if it is run now (the
transaction fails and nothing is written) -/
def vote (key : AnyClaim → η) (s : AState η) (o : Nat) (c : AnyClaim) (handlerPanics : Bool) : AState η × VoteResult :=
  if !logicCheck s c then (s, .logicCheck)
  else if c.nonce != lastNonceOf s o + 1 then (s, .nonContiguous)
  else if observedNow s (withVote (attFor key s c) o c) c && handlerPanics then (s, .panic)
  else (applyVote s (withVote (attFor key s c) o c) o c (observedNow s (withVote (attFor key s c) o c) c), .ok)

/-- operations: votes, and everything else that happens to the state the votes read -/
inductive Op where
  | vote (o : Nat) (c : AnyClaim) (handlerPanics : Bool)
  | setPower (o : Nat) (p : Option Nat)      -- bonding, delegation, slashing, removal
  | setTotal (t : Nat)
  | setExts (xs : List Str)
  | setLastObserved (n : Nat)
  | setOracleLast (o : Nat) (n : Option Nat)
  | execute (n : Nat) (handlerFails : Bool)  -- `ExecuteClaim(n)` (precompile `executeClaim`)

/-- `ExecuteClaim(n)`: delete the stored claim and run it; a failing handler fails the transaction -/
def execute (s : AState η) (n : Nat) (handlerFails : Bool) : AState η :=
  match s.pending.lookup n with
  | none => s
  | some c => if handlerFails then s else { s with pending := s.pending.filter (fun p => p.1 != n), ran := s.ran ++ [c] }

def step (key : AnyClaim → η) (s : AState η) : Op → AState η
  | .vote o c hp => (vote key s o c hp).1
  | .setPower o none => { s with powers := s.powers.filter (fun p => p.1 != o) }
  | .setPower o (some p) => { s with powers := setAssoc s.powers o p }
  | .setTotal t => { s with total := t }
  | .setExts xs => { s with exts := xs }
  | .setLastObserved n => { s with lastObserved := n }
  | .setOracleLast o none => { s with lastByOracle := s.lastByOracle.filter (fun p => p.1 != o) }
  | .setOracleLast o (some n) => { s with lastByOracle := setAssoc s.lastByOracle o n }
  | .execute n f => execute s n f

def run (key : AnyClaim → η) (s : AState η) (ops : List Op) : AState η := ops.foldl (step key) s

/-- the claims submitted by an operation list -/
def Op.claims : List Op → List AnyClaim
  | [] => []
  | .vote _ c _ :: r => c :: Op.claims r
  | _ :: r => Op.claims r

end
end FxVerif.Model.C03
