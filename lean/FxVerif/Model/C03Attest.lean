import FxVerif.Model.C03

/-!
# C03 — `Claim` → `claimLogicCheck` → `Attest` → `TryAttestation` over the generated paths (core Lean only)

The part of x/crosschain/keeper the property is about, as a state machine:

* `MsgServer.Claim`: `claimLogicCheck` (the members of an oracle-set claim must be registered external addresses), then
  `Attest`;
* `Attest`: the voter's event nonce must be its last nonce + 1; the vote is appended to the attestation stored under the
  key `nonce ‖ H(path claim)` (created with the first voter's claim if absent); if that attestation is not yet observed
  and the nonce is the next one, `TryAttestation(att, claim)` runs **with the claim object of this voter**;
* which `TryAttestation(att, claim)` calls `Attest` makes — with which attestation and which claim object — is NOT written
  here: the model walks the table `attestTrySites` that the translator regenerates from the body of `Keeper.Attest` (and
  of every keeper method it passes the claim on to);
* `TryAttestation`: walks the votes in order, sums the power of the oracles that are found, and at the first vote where
  the sum reaches `66 * total / 100` marks the attestation observed, advances the last observed nonce and hands
  **`claim`** (not the claim recorded in the attestation, not anybody else's) to the handler;
* `AttestationHandler`: send-to-fx, bridge-call and bridge-call-result claims are only STORED
  (`SavePendingExecuteClaim`, keyed by event nonce); `ExecuteClaim(nonce)` later deletes the stored claim and runs it
  (an error of the real handler fails the transaction: nothing changes).

`key c` is the hash part of the store key, `ClaimHash(c)` = SHA-256 of the generated `path c` in the code (`hashHex c.path`
in the driver); it is a parameter so that the theorems can name collision-freeness as a hypothesis and so that the
formats of the pinned commit can be put through the same machine (`legacy_executed_not_voted`).  The handlers are not modelled: whether the handler panics (which undoes the whole
vote) is an input of the vote; oracle powers, total power, registered addresses and the nonce cursors can be changed by
environment operations at any time (bonding, slashing, governance, earlier events).  Ghost components, never read by the
transitions: the claim object of every vote, and the log `executed` of (claim handed to the handler, votes of the
attestation at that moment).
-/
namespace FxVerif.Model.C03

/-- a claim of any of the six types (`types.ExternalClaim`) -/
inductive AnyClaim where
  | stf (c : MsgSendToFxClaim)
  | bc (c : MsgBridgeCallClaim)
  | bcr (c : MsgBridgeCallResultClaim)
  | ste (c : MsgSendToExternalClaim)
  | bt (c : MsgBridgeTokenClaim)
  | osu (c : MsgOracleSetUpdatedClaim)
  deriving DecidableEq, Repr

namespace AnyClaim

/-- the hashed path: the REGENERATED `path` of the claim's type -/
def path : AnyClaim → Str
  | stf c => c.path | bc c => c.path | bcr c => c.path | ste c => c.path | bt c => c.path | osu c => c.path

/-- `GetEventNonce()` -/
def nonce : AnyClaim → Nat
  | stf c => c.EventNonce | bc c => c.EventNonce | bcr c => c.EventNonce | ste c => c.EventNonce | bt c => c.EventNonce
  | osu c => c.EventNonce

/-- the Go type name of the claim -/
def typeName : AnyClaim → String
  | stf _ => "MsgSendToFxClaim" | bc _ => "MsgBridgeCallClaim" | bcr _ => "MsgBridgeCallResultClaim"
  | ste _ => "MsgSendToExternalClaim" | bt _ => "MsgBridgeTokenClaim" | osu _ => "MsgOracleSetUpdatedClaim"

/-- `GetBlockHeight()`: the external block height the event was seen at -/
def blockHeight : AnyClaim → Nat
  | stf c => c.BlockHeight | bc c => c.BlockHeight | bcr c => c.BlockHeight | ste c => c.BlockHeight | bt c => c.BlockHeight
  | osu c => c.BlockHeight

/-- the types `AttestationHandler` stores for `ExecuteClaim` instead of executing them at once: the REGENERATED case list of
the `SavePendingExecuteClaim` clause of its type switch -/
def deferred (c : AnyClaim) : Bool := FxVerif.Gen.C03.storedTypes.contains c.typeName

/-- the type and every effect-relevant field -/
def effect : AnyClaim → AnyClaim
  | stf c => stf c.effect | bc c => bc c.effect | bcr c => bcr c.effect | ste c => ste c.effect | bt c => bt c.effect
  | osu c => osu c.effect

/-- `ValidateBasic` (regenerated `validGen`) for a chain of address class `k` -/
def valid (k : AddrKind) : AnyClaim → Bool
  | stf c => c.valid k | bc c => c.valid k | bcr c => c.valid k | ste c => c.valid k | bt c => c.valid k | osu c => c.valid k

/-- the claim's own `ChainName` (NOT the chain the enclosing `MsgClaim` is routed to: nothing compares the two) -/
def chainName : AnyClaim → Str
  | stf c => c.ChainName | bc c => c.ChainName | bcr c => c.ChainName | ste c => c.ChainName | bt c => c.ChainName
  | osu c => c.ChainName

/-- the claim's `ValidateBasic` as the ante handler runs it: the claim's own `ChainName` is a registered chain and the
fields have the character classes of THAT chain's address class (regenerated `validGen`) -/
def wellFormed (c : AnyClaim) : Bool :=
  match chainKind c.chainName with
  | some k => c.valid k
  | none => false

/-- what the handlers read of the claim, as values: the REGENERATED `handlerView` of the claim's type -/
def handlerView : AnyClaim → List HEntry
  | stf c => c.handlerView | bc c => c.handlerView | bcr c => c.handlerView | ste c => c.handlerView | bt c => c.handlerView
  | osu c => c.handlerView

/-- the fields whose values occur in the handler view of a claim type, by the harness's tag of the type -/
def viewFieldsOfTag : String → Option (List String)
  | "stf" => some MsgSendToFxClaim.viewFields | "bc" => some MsgBridgeCallClaim.viewFields
  | "bcr" => some MsgBridgeCallResultClaim.viewFields | "ste" => some MsgSendToExternalClaim.viewFields
  | "bt" => some MsgBridgeTokenClaim.viewFields | "osu" => some MsgOracleSetUpdatedClaim.viewFields
  | _ => none

/-- the code that executes a claim of this type, as the REGENERATED instruction list (`Gen/C03.lean` `flow_<tag>`, compiled from
the handler's body by go/extract/c03flow.go) -/
def flow : AnyClaim → List FInstr
  | stf _ => FxVerif.Gen.C03.flow_stf | bc _ => FxVerif.Gen.C03.flow_bc | bcr _ => FxVerif.Gen.C03.flow_bcr
  | ste _ => FxVerif.Gen.C03.flow_ste | bt _ => FxVerif.Gen.C03.flow_bt | osu _ => FxVerif.Gen.C03.flow_osu

/-- the keeper function(s) that flow was compiled from -/
def flowFns : AnyClaim → List String
  | stf _ => FxVerif.Gen.C03.flowFns_stf | bc _ => FxVerif.Gen.C03.flowFns_bc | bcr _ => FxVerif.Gen.C03.flowFns_bcr
  | ste _ => FxVerif.Gen.C03.flowFns_ste | bt _ => FxVerif.Gen.C03.flowFns_bt | osu _ => FxVerif.Gen.C03.flowFns_osu

/-- executing claim `c` in state `st`: its type's flow interpreted over ITS handler view, for any meaning `sem` of the opaque
expressions (the real keepers), with `fuel` steps -/
def runFlow {σ ν : Type} (sem : FSem σ ν) (fuel : Nat) (st : σ) (c : AnyClaim) : FResult σ ν :=
  exec sem c.flow c.handlerView fuel 0 {} st

/-- the path the release BEFORE `b7515bc` hashed for this claim (three formats changed; see `Model/C03.lean`) -/
def legacyPath : AnyClaim → Str
  | .bc c => legacyBridgeCallPath c
  | .bcr c => legacyBridgeCallResultPath c
  | .bt c => legacyBridgeTokenPath c
  | c => c.path

end AnyClaim

/-- `types.Attestation` under its store key `nonce ‖ hash` -/
structure Att (η : Type) where
  nonce : Nat
  hash : η
  /-- `Attestation.Claim`: the first voter's claim -/
  claim : AnyClaim
  /-- `Attestation.Votes` in order; ghost: the claim object each voter submitted -/
  votes : List (Nat × AnyClaim)
  observed : Bool

/-- ghost log entry: one run of the handler -/
structure Exec where
  /-- the claim object handed to `processAttestation` -/
  claim : AnyClaim
  /-- the votes of the attestation at that moment -/
  tallied : List (Nat × AnyClaim)
  deriving DecidableEq, Repr

structure AState (η : Type) where
  atts : List (Att η) := []
  lastObserved : Nat := 0
  /-- `SetLastObservedBlockHeight`: the external block height of the last observed event -/
  lastHeight : Nat := 0
  lastByOracle : List (Nat × Nat) := []
  /-- power of the oracles that `GetOracle` finds -/
  powers : List (Nat × Nat) := []
  total : Nat := 0
  /-- registered external addresses (`HasOracleAddrByExternalAddr`) -/
  exts : List Str := []
  /-- `SavePendingExecuteClaim`: event nonce → stored claim -/
  pending : List (Nat × AnyClaim) := []
  executed : List Exec := []
  /-- ghost: the claims `ExecuteClaim` has run -/
  ran : List AnyClaim := []

inductive VoteResult where
  | ok | logicCheck | nonContiguous | panic
  deriving DecidableEq, Repr

section
variable {η : Type} [DecidableEq η]

/-- `GetLastEventNonceByOracle`: an oracle without a record starts one below the last observed nonce -/
def lastNonceOf (s : AState η) (o : Nat) : Nat :=
  match s.lastByOracle.lookup o with
  | some n => n
  | none => s.lastObserved - 1

def setAssoc (xs : List (Nat × Nat)) (k v : Nat) : List (Nat × Nat) := (k, v) :: xs.filter (fun p => p.1 != k)

/-- `claimLogicCheck` -/
def logicCheck (s : AState η) : AnyClaim → Bool
  | .osu m => m.Members.all fun x => s.exts.contains x.ExternalAddress
  | _ => true

/-- `AttestationVotesPowerThreshold.Mul(totalPower).Quo(100)` -/
def required (s : AState η) : Nat := 66 * s.total / 100

/-- the loop of `TryAttestation`: does the running sum of the found oracles' powers reach the threshold -/
def crossesFrom (s : AState η) : List Nat → Nat → Bool
  | [], _ => false
  | o :: r, acc =>
    match s.powers.lookup o with
    | none => crossesFrom s r acc
    | some p => if acc + p < required s then crossesFrom s r (acc + p) else true

def crosses (s : AState η) (votes : List Nat) : Bool := crossesFrom s votes 0

def sameKey (n : Nat) (h : η) (a : Att η) : Bool := a.nonce == n && a.hash == h

def setPending (ps : List (Nat × AnyClaim)) (n : Nat) (c : AnyClaim) : List (Nat × AnyClaim) :=
  (n, c) :: ps.filter (fun p => p.1 != n)

def getAtt (atts : List (Att η)) (n : Nat) (h : η) : Option (Att η) := atts.find? (sameKey n h)

def setAtt (atts : List (Att η)) (a : Att η) : List (Att η) := a :: atts.filter (fun b => !sameKey a.nonce a.hash b)

/-- `&types.Attestation{Observed: false, Claim: anyClaim}` filed under the voter's key -/
def freshAtt (key : AnyClaim → η) (c : AnyClaim) : Att η :=
  { nonce := c.nonce, hash := key c, claim := c, votes := [], observed := false }

/-- the attestation stored under the key of claim `c` (`GetAttestation`), or a new one recording `c` -/
def attFor (key : AnyClaim → η) (s : AState η) (c : AnyClaim) : Att η :=
  (getAtt s.atts c.nonce (key c)).getD (freshAtt key c)

/-- store iteration order: attestations of one nonce come in the order of their hash -/
def insertBy (le : η → η → Bool) (a : Att η) : List (Att η) → List (Att η)
  | [] => [a]
  | b :: r => if le a.hash b.hash then a :: b :: r else b :: insertBy le a r

def sortAtts (le : η → η → Bool) (xs : List (Att η)) : List (Att η) := xs.foldr (insertBy le) []

/-- what a lookup that is NOT under the voter's own key may find: the first open attestation of the event nonce stored under
another hash (e.g. the hash an earlier release computed for the event) -/
def otherOpen (le : η → η → Bool) (key : AnyClaim → η) (s : AState η) (c : AnyClaim) : Option (Att η) :=
  (sortAtts le (s.atts.filter fun a => a.nonce == c.nonce && !a.observed && !(a.hash == key c))).head?

/-- the assignments to the attestation variable of `Attest` (REGENERATED table `attestLookup`), in program order, each one
reached only if the earlier ones yielded nil: the attestation the vote is appended to, and the stored attestation it was taken
from when that is not the one under the voter's key -/
def lookupWith (le : η → η → Bool) (key : AnyClaim → η) (s : AState η) (c : AnyClaim) : List AttSource → Att η × Option (Att η)
  | [] => (freshAtt key c, none)
  | .ownKey :: r =>
    match getAtt s.atts c.nonce (key c) with
    | some a => (a, none)
    | none => lookupWith le key s c r
  | .fresh :: _ => (freshAtt key c, none)
  | .otherStored _ :: r =>
    match otherOpen le key s c with
    | some a => (a, some a)
    | none => lookupWith le key s c r

/-- `att.Votes = append(att.Votes, oracle)` -/
def withVote (a : Att η) (o : Nat) (c : AnyClaim) : Att η := { a with votes := a.votes ++ [(o, c)] }

/-- the attestation of this vote with the vote appended, as `SetAttestation(claim.GetEventNonce(), claim.ClaimHash(), att)`
files it: under the VOTER's key -/
def votedAttWith (srcs : List AttSource) (le : η → η → Bool) (key : AnyClaim → η) (s : AState η) (o : Nat) (c : AnyClaim) : Att η :=
  { withVote (lookupWith le key s c srcs).1 o c with nonce := c.nonce, hash := key c }

/-- the attestation table before `SetAttestation`: an attestation taken from another key no longer sits there -/
def baseWith (srcs : List AttSource) (le : η → η → Bool) (key : AnyClaim → η) (s : AState η) (c : AnyClaim) : AState η :=
  match (lookupWith le key s c srcs).2 with
  | none => s
  | some m => { s with atts := s.atts.filter fun b => !sameKey m.nonce m.hash b }

/-- the attestation of this vote when `Attest` looks under the voter's key only -/
def votedAtt (key : AnyClaim → η) (s : AState η) (o : Nat) (c : AnyClaim) : Att η := withVote (attFor key s c) o c

def afterVote (s : AState η) (a : Att η) : AState η := { s with atts := setAtt s.atts a }

/-- the outer guard of `Attest`: `!att.Observed && claim.GetEventNonce() == GetLastObservedEventNonce()+1` -/
def eligible (s : AState η) (a : Att η) (c : AnyClaim) : Bool := !a.observed && c.nonce == s.lastObserved + 1

/-- the attestations a call site hands to `TryAttestation`, in order -/
def candidates (le : η → η → Bool) (s : AState η) (a1 : Att η) (c : AnyClaim) : AttSel → List (Att η)
  | .voted => [a1]
  | .stored => sortAtts le (s.atts.filter fun a => a.nonce == c.nonce && !a.observed)
  | .other => []

/-- the claim object a call site hands to `TryAttestation` -/
def handed (a : Att η) (c : AnyClaim) : ClaimSel → AnyClaim
  | .voter => c
  | .recorded => a.claim
  | .other => c

/-- the loop of `TryAttestation` over the candidates: the first open one whose votes reach the threshold -/
def firstCrossing (s : AState η) : List (Att η) → Option (Att η)
  | [] => none
  | a :: r => if !a.observed && crosses s (a.votes.map (·.1)) then some a else firstCrossing s r

/-- walk the call sites (REGENERATED table) in program order until one observes: the attestation whose votes crossed and
the claim object that call site hands to the handler -/
def trySites (le : η → η → Bool) (s : AState η) (a1 : Att η) (c : AnyClaim) : List TrySite → Option (Att η × AnyClaim)
  | [] => none
  | t :: r =>
    match firstCrossing s (candidates le s a1 c t.att) with
    | some a => some (a, handed a c t.claim)
    | none => trySites le s a1 c r

/-- the writes of `TryAttestation(att, claim)` once the threshold is reached: last observed nonce and external block height
(both taken from `claim`, the object handed in), the attestation marked
observed and stored under the key of `claim` (`SetAttestation(claim.GetEventNonce(), claim.ClaimHash(), att)`), and the
handler run on `claim` -/
def observe (key : AnyClaim → η) (s : AState η) (a : Att η) (ch : AnyClaim) : AState η :=
  { s with atts := setAtt s.atts { a with observed := true, nonce := ch.nonce, hash := key ch },
           lastObserved := ch.nonce,
           lastHeight := ch.blockHeight,
           executed := s.executed ++ [{ claim := ch, tallied := a.votes }],
           pending := if ch.deferred then setPending s.pending ch.nonce ch else s.pending }

def setLast (s : AState η) (o : Nat) (n : Nat) : AState η := { s with lastByOracle := setAssoc s.lastByOracle o n }

/-- what `Attest` does after the vote is stored, for a given table of call sites -/
def hit (sites : List TrySite) (le : η → η → Bool) (s1 : AState η) (a1 : Att η) (c : AnyClaim) : Option (Att η × AnyClaim) :=
  if eligible s1 a1 c then trySites le s1 a1 c sites else none

/-- one `MsgClaim`: oracle `o` submits claim object `c`; `handlerPanics`: the handler panics if it is run now (the
transaction fails and nothing is written).  `srcs`: where `Attest` gets the attestation from; `sites`: its
`TryAttestation` calls -/
def voteWith (sites : List TrySite) (srcs : List AttSource) (key : AnyClaim → η) (le : η → η → Bool) (s : AState η) (o : Nat)
    (c : AnyClaim) (handlerPanics : Bool) : AState η × VoteResult :=
  if !logicCheck s c then (s, .logicCheck)
  else if c.nonce != lastNonceOf s o + 1 then (s, .nonContiguous)
  else
    match hit sites le (afterVote (baseWith srcs le key s c) (votedAttWith srcs le key s o c)) (votedAttWith srcs le key s o c) c with
    | some (a, ch) =>
      if handlerPanics then (s, .panic)
      else (setLast (observe key (afterVote (baseWith srcs le key s c) (votedAttWith srcs le key s o c)) a ch) o c.nonce, .ok)
    | none => (setLast (afterVote (baseWith srcs le key s c) (votedAttWith srcs le key s o c)) o c.nonce, .ok)

/-- the lookup and the call sites are the ones found in the source -/
def vote (key : AnyClaim → η) (le : η → η → Bool) (s : AState η) (o : Nat) (c : AnyClaim) (handlerPanics : Bool) :
    AState η × VoteResult :=
  voteWith FxVerif.Gen.C03.attestTrySites FxVerif.Gen.C03.attestLookup key le s o c handlerPanics

/-- operations: votes, and everything else that happens to the state the votes read -/
inductive Op where
  | vote (o : Nat) (c : AnyClaim) (handlerPanics : Bool)
  | setPower (o : Nat) (p : Option Nat)      -- bonding, delegation, slashing, removal
  | setTotal (t : Nat)
  | setExts (xs : List Str)
  | setLastObserved (n : Nat)
  | setOracleLast (o : Nat) (n : Option Nat)
  | execute (n : Nat) (handlerFails : Bool)  -- `ExecuteClaim(n)` (precompile `executeClaim`)

/-- `ExecuteClaim(n)`: delete the stored claim and run it; a failing handler fails the transaction -/
def execute (s : AState η) (n : Nat) (handlerFails : Bool) : AState η :=
  match s.pending.lookup n with
  | none => s
  | some c => if handlerFails then s else { s with pending := s.pending.filter (fun p => p.1 != n), ran := s.ran ++ [c] }

def stepWith (sites : List TrySite) (srcs : List AttSource) (key : AnyClaim → η) (le : η → η → Bool) (s : AState η) :
    Op → AState η
  | .vote o c hp => (voteWith sites srcs key le s o c hp).1
  | .setPower o none => { s with powers := s.powers.filter (fun p => p.1 != o) }
  | .setPower o (some p) => { s with powers := setAssoc s.powers o p }
  | .setTotal t => { s with total := t }
  | .setExts xs => { s with exts := xs }
  | .setLastObserved n => { s with lastObserved := n }
  | .setOracleLast o none => { s with lastByOracle := s.lastByOracle.filter (fun p => p.1 != o) }
  | .setOracleLast o (some n) => { s with lastByOracle := setAssoc s.lastByOracle o n }
  | .execute n f => execute s n f

def runWith (sites : List TrySite) (srcs : List AttSource) (key : AnyClaim → η) (le : η → η → Bool) (s : AState η)
    (ops : List Op) : AState η :=
  ops.foldl (stepWith sites srcs key le) s

/-- the state machine with the call sites found in the source; `le` is the order in which the store iterates hashes -/
def run (key : AnyClaim → η) (le : η → η → Bool) (s : AState η) (ops : List Op) : AState η :=
  runWith FxVerif.Gen.C03.attestTrySites FxVerif.Gen.C03.attestLookup key le s ops

/-- the claims submitted by an operation list -/
def Op.claims : List Op → List AnyClaim
  | [] => []
  | .vote _ c _ :: r => c :: Op.claims r
  | _ :: r => Op.claims r

end
end FxVerif.Model.C03
