import FxVerif.Model.C16Sem
import FxVerif.Gen.C16Tx
/-!
# C16 — the three ways a privileged message reaches the router, with who has to have signed for it

Everything in front of the handler that looks at the authority, as the SDK runs it (dependency code, modelled; tied by
the `tx` / `authz` / `gprop` correspondence lines, which go through the real `runTx` with signed transactions, the real
`x/authz` `MsgExec` and the real governance `MsgSubmitProposal` + end-blocker):

* a **signed transaction** (`baseapp.runTx`): `ValidateBasic` of every message; then the ante handler, which computes
  the signers of every message — for an authority-carrying message the account its `authority` string decodes to
  (`cosmos.msg.v1.signer = "authority"`, account address codec = `accAddress`) — and demands a signature whose public
  key hashes to exactly that account (fee deduction, account existence: further reasons to refuse, never to accept);
  then the message on a branch through the router;
* **`x/authz` `MsgExec`** signed by the grantee: the `Exec` handler runs the inner `ValidateBasic`; `DispatchActions`
  computes the inner message's signer and, unless it IS the grantee, demands a grant from that account (there is none
  from the governance module account: nobody can sign its `MsgGrant`); then the router;
* a **governance proposal**: `MsgSubmitProposal` refuses a message whose signer is not the governance module account; a
  passed proposal runs its messages on a branch through the router.

Core Lean only.
-/
namespace FxVerif.Model.C16

inductive TxStage where | basic | ante | authz | submit | msgs
  deriving DecidableEq, Repr

/-- stateless validation of one authority-carrying message: the authority decoding of its `ValidateBasic` (when it has
one), then the rest of `ValidateBasic` -/
def basicOk (infos : List MsgInfo) (cfg : AddrCfg) (auth : Str) (payloadOk : Bool) (msg : String) : Bool :=
  !(vbDecodes infos msg && (accAddress cfg auth).isNone) && payloadOk

/-- a transaction with one privileged message, signed with the key of account `signer` -/
def txRun {σ : Type} (P : Program) (infos : List MsgInfo) (env : Env) (auth : Str) (W : World σ) (payloadOk : Bool)
    (T m msg : String) (signer : List Nat) (s : σ) : TxStage × (Res × σ) :=
  if !basicOk infos env.cfg auth payloadOk msg then (.basic, (.err, s))
  else match accAddress env.cfg auth with
    | none => (.ante, (.err, s))
    | some bz =>
      if bz != signer then (.ante, (.err, s))
      else (.msgs, onBranch (routed P infos env auth W payloadOk T m msg) s)

/-- `MsgExec{grantee, [msg]}` in a transaction signed by `grantee` (no grant from any other account exists) -/
def authzRun {σ : Type} (P : Program) (infos : List MsgInfo) (env : Env) (auth : Str) (W : World σ) (payloadOk : Bool)
    (T m msg : String) (grantee : List Nat) (s : σ) : TxStage × (Res × σ) :=
  if !basicOk infos env.cfg auth payloadOk msg then (.basic, (.err, s))
  else match accAddress env.cfg auth with
    | none => (.authz, (.err, s))
    | some bz =>
      if bz != grantee then (.authz, (.err, s))
      else (.msgs, onBranch (routed P infos env auth W payloadOk T m msg) s)

/-- a governance proposal with one privileged message, voted through -/
def proposalRun {σ : Type} (P : Program) (infos : List MsgInfo) (env : Env) (auth : Str) (W : World σ) (payloadOk : Bool)
    (T m msg : String) (s : σ) : TxStage × (Res × σ) :=
  if !basicOk infos env.cfg auth payloadOk msg then (.basic, (.err, s))
  else if (accAddress env.cfg auth).isNone || accAddress env.cfg auth != accAddress env.cfg env.gov then (.submit, (.err, s))
  else (.msgs, onBranch (routed P infos env auth W payloadOk T m msg) s)

/-! ## `baseapp.runTx` as regenerated (round 4)

`Gen/C16Tx.lean` holds the top-level statements of `runTx` of the pinned SDK in source order.  `runTxProg` interprets
them on a small machine: the block's state `main`, the current branch `br` (`msCache`), the variable `err`.  An early
`return … err` ends the run with `main` as it is at that point. -/

/-- what a transaction brings, and the environment -/
structure TxIn (σ : Type) where
  envReject : Nat → Bool              -- the early returns decided by the environment (decoding, block gas, mempool)
  basicOk : Bool                      -- `ValidateBasic` of every message
  ante : σ → Res × σ                  -- the ante handler on the context it is given
  msgs : List (σ → Res × σ)           -- the messages' handlers (through the router), each on the context it is given
  postOk : Bool                       -- the post handler (touches nothing of `σ`)
  unknown : σ → σ                     -- an unrecognised statement: anything can happen

structure TxM (σ : Type) where
  main : σ
  br : σ
  err : Bool

/-- `runMsgs`: the messages in order on one context; `stop`: returns at the first error -/
def loopMsgsG {σ : Type} (stop : Bool) : List (σ → Res × σ) → σ → Res → Res × σ
  | [], X, e => (e, X)
  | f :: fs, X, _ =>
    match f X with
    | (.ok, X') => loopMsgsG stop fs X' .ok
    | (.err, X') => if stop then (.err, X') else loopMsgsG stop fs X' .err

def anteStep {σ : Type} (inp : TxIn σ) : AStep → TxM σ → Except σ (TxM σ)
  | .branch, M => .ok { M with br := M.main }
  | .call onB, M =>
    let r := inp.ante (if onB then M.br else M.main)
    .ok (if onB then { M with br := r.2, err := r.1 == .err } else { M with main := r.2, err := r.1 == .err })
  | .returnIfErr, M => if M.err then .error M.main else .ok M
  | .write, M => .ok { M with main := M.br }
  | .skip _, M => .ok M
  | .other _, M => .ok { M with main := inp.unknown M.main }

def anteRun {σ : Type} (inp : TxIn σ) : List AStep → TxM σ → Except σ (TxM σ)
  | [], M => .ok M
  | a :: as, M =>
    match anteStep inp a M with
    | .error s => .error s
    | .ok M' => anteRun inp as M'

def tStep {σ : Type} (stop : Bool) (inp : TxIn σ) : TStep → TxM σ → Except σ (TxM σ)
  | .rejectIfEnv i _, M => if inp.envReject i then .error M.main else .ok M
  | .validateBasic, M => if inp.basicOk then .ok M else .error M.main
  | .ante steps, M => anteRun inp steps M
  | .branchMsgs, M => .ok { M with br := M.main }
  | .runMsgs onB, M =>
    if M.err then .ok M else
    let r := loopMsgsG stop inp.msgs (if onB then M.br else M.main) .ok
    .ok (if onB then { M with br := r.2, err := r.1 == .err } else { M with main := r.2, err := r.1 == .err })
  | .post onB, M => if inp.postOk then .ok M else .error (if onB then M.main else inp.unknown M.main)
  | .writeIfOk, M => .ok (if M.err then M else { M with main := M.br })
  | .writeAlways, M => .ok { M with main := M.br }
  | .skip _, M => .ok M
  | .other _, M => .ok { M with main := inp.unknown M.main }

def runSteps {σ : Type} (stop : Bool) (inp : TxIn σ) : List TStep → TxM σ → Res × σ
  | [], M => (if M.err then .err else .ok, M.main)
  | t :: ts, M =>
    match tStep stop inp t M with
    | .error s => (.err, s)
    | .ok M' => runSteps stop inp ts M'

/-- one transaction through the regenerated `runTx` -/
def runTxProg {σ : Type} (prog : List TStep) (stop : Bool) (inp : TxIn σ) (s : σ) : Res × σ :=
  runSteps stop inp prog { main := s, br := s, err := false }

/-- the regenerated pipeline -/
def runTxGen {σ : Type} (inp : TxIn σ) (s : σ) : Res × σ :=
  runTxProg FxVerif.Gen.C16Tx.runTxProg FxVerif.Gen.C16Tx.runMsgsStopsAtError inp s

/-- what `runTx` is meant to compute, in closed form: `ValidateBasic`, then the ante handler on a branch written only
when it succeeds, then the messages on a second branch written only when all of them (and the post handler) succeed -/
def runTxSpec {σ : Type} (inp : TxIn σ) (s : σ) : Res × σ :=
  if !inp.basicOk then (.err, s) else
  match inp.ante s with
  | (.err, _) => (.err, s)
  | (.ok, s1) =>
    match loopMsgsG true inp.msgs s1 .ok with
    | (.ok, s2) => if inp.postOk then (.ok, s2) else (.err, s1)
    | (.err, _) => (.err, s1)

/-- the outcomes a transaction can have: nothing at all; or — only after `ValidateBasic` and the ante handler passed —
exactly what the ante handler wrote (fee, sequence), or the closed form above -/
def TxOutcome {σ : Type} (inp : TxIn σ) (s : σ) (r : Res × σ) : Prop :=
  r = (.err, s) ∨ (inp.basicOk = true ∧ ∃ s1, inp.ante s = (.ok, s1) ∧ (r = (.err, s1) ∨ r = runTxSpec inp s))

/-- the transaction `txRun` describes, as an input of the regenerated pipeline: the ante handler refuses unless the
transaction is signed by the account the authority decodes to, and writes nothing the privileged handlers read -/
def txRunIn {σ : Type} (P : Program) (infos : List MsgInfo) (env : Env) (auth : Str) (W : World σ) (payloadOk : Bool)
    (T m msg : String) (signer : List Nat) : TxIn σ :=
  { envReject := fun _ => false
    basicOk := basicOk infos env.cfg auth payloadOk msg
    ante := fun s => if accAddress env.cfg auth == some signer then (.ok, s) else (.err, s)
    msgs := [routed P infos env auth W payloadOk T m msg]
    postOk := true
    unknown := id }

/-! ## a whole block (round 4)

`FinalizeBlock` runs the transactions of a block one after the other through `runTx` on the block's state: each sees the
state its predecessors left (a failed transaction leaves what the ante handler did — fee, sequence — which is outside `σ`,
the state privileged handlers write).  Tied by the `blk` lines: several signed transactions in one block through the
real `FinalizeBlock` + `Commit`. -/

/-- one transaction of a block: one privileged message (the registered type and method serving it, its message type),
the environment of its guards, the rest of its handler, its authority, the verdict of the rest of `ValidateBasic`, and
the account whose key signed the transaction -/
structure BlockTx (σ : Type) where
  env : Env
  W : World σ
  T : String
  m : String
  msg : String
  auth : Str
  payloadOk : Bool
  signer : List Nat

def BlockTx.run {σ : Type} (P : Program) (infos : List MsgInfo) (t : BlockTx σ) (s : σ) : TxStage × (Res × σ) :=
  txRun P infos t.env t.auth t.W t.payloadOk t.T t.m t.msg t.signer s

/-- the transactions of a block in order: the stage and result of each, and the state after the block -/
def blockRun {σ : Type} (P : Program) (infos : List MsgInfo) : List (BlockTx σ) → σ → List (TxStage × Res) × σ
  | [], s => ([], s)
  | t :: ts, s =>
    let r := t.run P infos s
    let rest := blockRun P infos ts r.2.2
    ((r.1, r.2.1) :: rest.1, rest.2)

end FxVerif.Model.C16
