import FxVerif.Model.C16Sem
/-!
# C16 — the three ways a privileged message reaches the router, with who has to have signed for it

Everything in front of the handler that looks at the authority, as the SDK runs it (dependency code, modelled; tied by
the `tx` / `authz` / `gprop` correspondence lines, which go through the real `runTx` with signed transactions, the real
`x/authz` `MsgExec` and the real governance `MsgSubmitProposal` + end-blocker):

* a **signed transaction** (`baseapp.runTx`): `ValidateBasic` of every message; then the ante handler, which computes
  the signers of every message — for an authority-carrying message the account its `authority` string decodes to
  (`cosmos.msg.v1.signer = "authority"`, account address codec = `accAddress`) — and demands a signature whose public
  key hashes to exactly that account (fee deduction, account existence: further reasons to refuse, never to accept);
  then the message on a branch through the router;
* **`x/authz` `MsgExec`** signed by the grantee: the `Exec` handler runs the inner `ValidateBasic`; `DispatchActions`
  computes the inner message's signer and, unless it IS the grantee, demands a grant from that account (there is none
  from the governance module account: nobody can sign its `MsgGrant`); then the router;
* a **governance proposal**: `MsgSubmitProposal` refuses a message whose signer is not the governance module account; a
  passed proposal runs its messages on a branch through the router.

Core Lean only.
-/
namespace FxVerif.Model.C16

inductive TxStage where | basic | ante | authz | submit | msgs
  deriving DecidableEq, Repr

/-- stateless validation of one authority-carrying message: the authority decoding of its `ValidateBasic` (when it has
one), then the rest of `ValidateBasic` -/
def basicOk (infos : List MsgInfo) (cfg : AddrCfg) (auth : Str) (payloadOk : Bool) (msg : String) : Bool :=
  !(vbDecodes infos msg && (accAddress cfg auth).isNone) && payloadOk

/-- a transaction with one privileged message, signed with the key of account `signer` -/
def txRun {σ : Type} (P : Program) (infos : List MsgInfo) (env : Env) (auth : Str) (W : World σ) (payloadOk : Bool)
    (T m msg : String) (signer : List Nat) (s : σ) : TxStage × (Res × σ) :=
  if !basicOk infos env.cfg auth payloadOk msg then (.basic, (.err, s))
  else match accAddress env.cfg auth with
    | none => (.ante, (.err, s))
    | some bz =>
      if bz != signer then (.ante, (.err, s))
      else (.msgs, onBranch (routed P infos env auth W payloadOk T m msg) s)

/-- `MsgExec{grantee, [msg]}` in a transaction signed by `grantee` (no grant from any other account exists) -/
def authzRun {σ : Type} (P : Program) (infos : List MsgInfo) (env : Env) (auth : Str) (W : World σ) (payloadOk : Bool)
    (T m msg : String) (grantee : List Nat) (s : σ) : TxStage × (Res × σ) :=
  if !basicOk infos env.cfg auth payloadOk msg then (.basic, (.err, s))
  else match accAddress env.cfg auth with
    | none => (.authz, (.err, s))
    | some bz =>
      if bz != grantee then (.authz, (.err, s))
      else (.msgs, onBranch (routed P infos env auth W payloadOk T m msg) s)

/-- a governance proposal with one privileged message, voted through -/
def proposalRun {σ : Type} (P : Program) (infos : List MsgInfo) (env : Env) (auth : Str) (W : World σ) (payloadOk : Bool)
    (T m msg : String) (s : σ) : TxStage × (Res × σ) :=
  if !basicOk infos env.cfg auth payloadOk msg then (.basic, (.err, s))
  else if (accAddress env.cfg auth).isNone || accAddress env.cfg auth != accAddress env.cfg env.gov then (.submit, (.err, s))
  else (.msgs, onBranch (routed P infos env auth W payloadOk T m msg) s)

/-! ## a whole block (round 4)

`FinalizeBlock` runs the transactions of a block one after the other through `runTx` on the block's state: each sees the
state its predecessors left (a failed transaction leaves what the ante handler did — fee, sequence — which is outside `σ`,
the state privileged handlers write).  Tied by the `blk` lines: several signed transactions in one block through the
real `FinalizeBlock` + `Commit`. -/

/-- one transaction of a block: one privileged message (the registered type and method serving it, its message type),
the environment of its guards, the rest of its handler, its authority, the verdict of the rest of `ValidateBasic`, and
the account whose key signed the transaction -/
structure BlockTx (σ : Type) where
  env : Env
  W : World σ
  T : String
  m : String
  msg : String
  auth : Str
  payloadOk : Bool
  signer : List Nat

def BlockTx.run {σ : Type} (P : Program) (infos : List MsgInfo) (t : BlockTx σ) (s : σ) : TxStage × (Res × σ) :=
  txRun P infos t.env t.auth t.W t.payloadOk t.T t.m t.msg t.signer s

/-- the transactions of a block in order: the stage and result of each, and the state after the block -/
def blockRun {σ : Type} (P : Program) (infos : List MsgInfo) : List (BlockTx σ) → σ → List (TxStage × Res) × σ
  | [], s => ([], s)
  | t :: ts, s =>
    let r := t.run P infos s
    let rest := blockRun P infos ts r.2.2
    ((r.1, r.2.1) :: rest.1, rest.2)

end FxVerif.Model.C16
