/-!
# Solidity ABI head/tail encoding (`abi.encode(...)`) for the types the three checkpoints use

Core Lean only, executable.  Bytes are `List Nat`.  Values:

* `Val.word n`   — a static 32-byte slot: `bytes32` (big-endian value of the 32 bytes), `uint256`, `address` (160-bit
                   number, left-padded); encoded as the 32 big-endian bytes of `n mod 2^256`;
* `Val.arr xs`   — `address[]` / `uint256[]`: offset in the head; tail = length word ++ one word per element;
* `Val.bytes bs` — `bytes`: offset in the head; tail = length word ++ the bytes ++ zero padding to a multiple of 32.

`enc vs = heads ++ tails` is the ABI specification's `enc((v1,…,vn))`: static values sit in the head, dynamic values put
their offset (from the start of the encoding) in the head and their data in the tail, in argument order.

`decode` is the length-indexed inverse used for the injectivity theorems (`Proofs/C12Abi.lean`): it reads the head slots
and parses the tails sequentially (canonical encodings place tails in argument order, so offsets need not be consulted).
-/
namespace FxVerif.Model.C12

/-- big-endian bytes of `n mod 256^k`, exactly `k` bytes -/
def toBE : Nat → Nat → List Nat
  | 0, _ => []
  | k+1, n => toBE k (n / 256) ++ [n % 256]

/-- big-endian value of a byte string -/
def fromBE (bs : List Nat) : Nat := bs.foldl (fun a b => a * 256 + b) 0

/-- one 32-byte ABI slot -/
def word (n : Nat) : List Nat := toBE 32 n

inductive Val where
  | word (n : Nat)
  | arr (xs : List Nat)
  | bytes (bs : List Nat)
  deriving DecidableEq, Repr

inductive Kind where | static | arr | bytes
  deriving DecidableEq, Repr

def Val.kind : Val → Kind
  | .word _ => .static
  | .arr _ => .arr
  | .bytes _ => .bytes

/-- zero padding after `n` payload bytes -/
def padLen (n : Nat) : Nat := (32 - n % 32) % 32

def tailEnc : Val → List Nat
  | .word _ => []
  | .arr xs => word xs.length ++ xs.flatMap word
  | .bytes bs => word bs.length ++ (bs ++ List.replicate (padLen bs.length) 0)

def headEnc (off : Nat) : Val → List Nat
  | .word n => word n
  | _ => word off

/-- head slots; `off` is the offset at which the next dynamic value's tail starts -/
def heads : Nat → List Val → List Nat
  | _, [] => []
  | off, v :: vs => headEnc off v ++ heads (off + (tailEnc v).length) vs

def tails (vs : List Val) : List Nat := vs.flatMap tailEnc

/-- `abi.encode(v1, …, vn)` -/
def enc (vs : List Val) : List Nat := heads (32 * vs.length) vs ++ tails vs

/-- values whose encoding is faithful: words fit 256 bits, lengths fit a word, bytes are bytes -/
def Val.WF : Val → Prop
  | .word n => n < 2^256
  | .arr xs => xs.length < 2^256 ∧ ∀ x ∈ xs, x < 2^256
  | .bytes bs => bs.length < 2^256 ∧ ∀ b ∈ bs, b < 256

/-! ## decoder -/

/-- read `n` consecutive words -/
def readWords : Nat → List Nat → Option (List Nat × List Nat)
  | 0, bs => some ([], bs)
  | n+1, bs =>
    if bs.length < 32 then none else
    match readWords n (bs.drop 32) with
    | some (xs, rest) => some (fromBE (bs.take 32) :: xs, rest)
    | none => none

/-- parse one dynamic value's tail from the front of `bs` -/
def decTail : Kind → List Nat → Option (Val × List Nat)
  | .static, _ => none
  | .arr, bs =>
    if bs.length < 32 then none else
    match readWords (fromBE (bs.take 32)) (bs.drop 32) with
    | some (xs, rest) => some (.arr xs, rest)
    | none => none
  | .bytes, bs =>
    if bs.length < 32 then none else
    let n := fromBE (bs.take 32)
    let body := bs.drop 32
    if body.length < n + padLen n then none else
    some (.bytes (body.take n), body.drop (n + padLen n))

/-- decode along a kind list from separate head and tail regions -/
def dec : List Kind → List Nat → List Nat → Option (List Val)
  | [], _, _ => some []
  | .static :: ks, hd, tl =>
    match dec ks (hd.drop 32) tl with
    | some vs => some (.word (fromBE (hd.take 32)) :: vs)
    | none => none
  | k :: ks, hd, tl =>
    match decTail k tl with
    | some (v, tl') =>
      match dec ks (hd.drop 32) tl' with
      | some vs => some (v :: vs)
      | none => none
    | none => none

def decode (ks : List Kind) (bs : List Nat) : Option (List Val) :=
  dec ks (bs.take (32 * ks.length)) (bs.drop (32 * ks.length))

end FxVerif.Model.C12
