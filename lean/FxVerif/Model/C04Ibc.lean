import FxVerif.Model.C04Claims
/-!
# C04 model, IBC layer — a bridged token whose base denomination also has an IBC voucher alias

`x/crosschain/keeper/many_to_one.go`: `IBCCoinToBaseCoin` parks the voucher in the ibc-transfer module account, mints the
base coin there and pays it out; `BaseCoinToIBCCoin` burns the base coin there and releases a parked voucher.  Callers:
the IBC middleware (`OnRecvPacket` → `IBCCoinToEvm`, refunds → `IBCCoinRefund`), `SendToFxExecuted` with an IBC target
(`transferIBCHandler`: bridge token → base coin → voucher → ibc `Transfer`), the precompile `crossChain` with an IBC target.

The layer sits on top of the claim layer: a state is a claim-layer state plus the ghost counters `ibcIn` / `ibcOut`
(vouchers minted by received packets / burned by sent packets, per group; never read by `step3`).  The two flows are
the interpretations of the regenerated call lists (`flows_interpret_code`); what ibc-transfer itself does (mint on
receive, escrow-and-burn on send of a non-native voucher) is the dependency's behaviour, modelled.
Core Lean only.
-/
namespace FxVerif.Model.C04
open FxVerif.Model.Ledger FxVerif.Model.Flows

inductive IbcOp where
  /-- a packet carrying `n` of the aliased token arrives for user `u`: ibc-transfer mints the voucher (`OnRecvPacket`) -/
  | recv (g u n : Nat)
  /-- `IBCCoinToBaseCoin` (`toErc`: `IBCCoinToEvm`, the base coin goes on into the ERC-20) -/
  | toBase (g u n : Nat) (toErc : Bool)
  /-- `BaseCoinToIBCCoin` -/
  | toIbc (g u n : Nat)
  /-- ibc-transfer `Transfer` of the voucher (not native here: escrowed in the module account and burned) -/
  | xfer (g u n : Nat)
  deriving Repr

/-- the ledger flow of an IBC operation -/
def ibcFlow (cfg : Cfg) : IbcOp → Except Err (List Prim)
  | .recv g u n =>
    if !cfg.ibcAlias g then .error .notFound else
    .ok [.mint (voucher g) T T n, .send (voucher g) T (U u) n]
  | .toBase g u n toErc =>
    if !cfg.ibcAlias g then .error .notFound else
    if toErc then
      (match pairOk cfg g with
       | some k => .ok (ibcCoinToBaseCoin g (U u) n ++ convertCoin k g (U u) (U u) n)
       | none => .error .disabled)
    else .ok (ibcCoinToBaseCoin g (U u) n)
  | .toIbc g u n =>
    -- FX is its own alias on every route (`ManyToOne` ignores the target): the base coin is burned in the transfer module
    -- account and must then be paid back out of that account's own balance, which is empty (blocked module account;
    -- `transfer_module_keeps_no_base_coin`) — a no-op for amount 0, refused otherwise
    if cfg.kind g = some .fx then (if n = 0 then .ok [] else .error .insufficient) else
    if !cfg.ibcAlias g then .error .notFound else
    .ok (baseCoinToIBCCoin g (U u) n)
  | .xfer g u n =>
    if !cfg.ibcAlias g then .error .notFound else
    .ok [.send (voucher g) (U u) T n, .burn (voucher g) T T n]

def stepIbc (cfg : Cfg) (s : State) (op : IbcOp) : Except Err State :=
  match ibcFlow cfg op with
  | .ok fl => run s fl
  | .error e => .error e

structure State3 where
  s2 : State2
  /-- ghost: vouchers minted by received packets, per group -/
  ibcIn : Nat → Nat
  /-- ghost: vouchers burned by sent packets, per group -/
  ibcOut : Nat → Nat

def init3 (s : State) : State3 := ⟨init2 s, fun _ => 0, fun _ => 0⟩

inductive Op3 where
  | claim (op : Op2)
  | ibc (op : IbcOp)
  /-- an observed `MsgSendToFxClaim` whose `TargetIbc` names the channel of the group's voucher, executed
  (`SendToFxExecuted` → `transferIBCHandler`): deposit to the receiver, base coin → voucher, ibc `Transfer`; all or nothing -/
  | depositIbc (c g u n : Nat)
  /-- precompile `crossChain(token = the group's ERC-20, amount n, fee 0, target = the voucher's channel)`: ERC-20 → base coin
  (`handlerERC20Token`), base coin → voucher, ibc `Transfer`; all or nothing -/
  | xibc (g u n : Nat)
  deriving Repr

def setBase (s : State3) (b : State) : State3 := { s with s2 := { s.s2 with base := b } }

def step3 (cfg : Cfg) (s : State3) : Op3 → Except Err State3
  | .claim op =>
    match step2 cfg s.s2 op with
    | .ok s2 => .ok { s with s2 := s2 }
    | .error e => .error e
  | .ibc op =>
    match stepIbc cfg s.s2.base op with
    | .error e => .error e
    | .ok b =>
      let s' := setBase s b
      match op with
      | .recv g _ n => .ok { s' with ibcIn := bump s.ibcIn g n }
      | .xfer g _ n => .ok { s' with ibcOut := bump s.ibcOut g n }
      | _ => .ok s'
  | .depositIbc c g u n =>
    match step cfg s.s2.base (.deposit c g u n false) with
    | .error e => .error e
    | .ok b1 =>
      match stepIbc cfg b1 (.toIbc g u n) with
      | .error e => .error e
      | .ok b2 =>
        match stepIbc cfg b2 (.xfer g u n) with
        | .error e => .error e
        | .ok b3 => .ok { setBase s b3 with ibcOut := bump s.ibcOut g n }

  | .xibc g u n =>
    -- `CrossChainArgs.Validate`: amount positive
    if n = 0 then .error .invalid else
    match cfg.kind g with
    | none => .error .notFound
    | some kp =>
      match run s.s2.base (precompileTokenIn kp g (U u) n) with
      | .error e => .error e
      | .ok b1 =>
        match stepIbc cfg b1 (.toIbc g u n) with
        | .error e => .error e
        | .ok b2 =>
          match stepIbc cfg b2 (.xfer g u n) with
          | .error e => .error e
          | .ok b3 => .ok { setBase s b3 with ibcOut := bump s.ibcOut g n }

/-- the calls of `transferIBCHandler` / the precompile's `ibcTransfer`, interpreted on the state in the given order -/
def runIbcCalls (cfg : Cfg) (g u n : Nat) : List FCall → State → Except Err State
  | [], s => .ok s
  | .baseCoinToIBCCoin :: r, s =>
    match stepIbc cfg s (.toIbc g u n) with
    | .ok s' => runIbcCalls cfg g u n r s'
    | .error e => .error e
  | .ibcTransfer :: r, s =>
    match stepIbc cfg s (.xfer g u n) with
    | .ok s' => runIbcCalls cfg g u n r s'
    | .error e => .error e
  | _ :: _, _ => .error .invalid

/-- flow of one call inside `IBCCoinToEvm` -/
def FCall.ibcInFlow (k : Kind) (g : Nat) (h : Addr) (n : Nat) : FCall → Option (List Prim)
  | .ibcCoinToBaseCoin => some (FxVerif.Model.C04.ibcCoinToBaseCoin g h n)
  | .convertCoin => some (FxVerif.Model.Flows.convertCoin k g h h n)
  | _ => none

def stepT3 (cfg : Cfg) (s : State3) (op : Op3) : State3 :=
  match step3 cfg s op with
  | .ok s' => s'
  | .error _ => s

def runOps3 (cfg : Cfg) (s : State3) (ops : List Op3) : State3 := ops.foldl (stepT3 cfg) s

/-- what an IBC-layer operation says it moves for account `x` in group `g'` (base coin, bridge denominations, ERC-20 AND
voucher together): a received packet credits the receiver, a sent one debits the sender, the conversions move nothing;
a deposit routed on to IBC nets to zero -/
def stated3 (op : IbcOp) (x : Addr) (g' : Nat) : Int :=
  match op with
  | .recv g u n => if g = g' ∧ U u = x then (n : Int) else 0
  | .xfer g u n => if g = g' ∧ U u = x then -(n : Int) else 0
  | _ => 0

end FxVerif.Model.C04
