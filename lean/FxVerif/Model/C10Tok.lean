import FxVerif.Gen.C10Tok
/-!
# C10, token leg (round 3) — the ERC-20 branch of `crossChain` / `increaseBridgeFee`, interpreted from regenerated code

`Gen.C10Tok.erc20Leg` is `(*Keeper).handlerERC20Token(ctx, evm, sender, token, amount)` of x/crosschain/precompile with
`convertERC20` inlined, statement by statement, as the source has it now: an ERC-20 `transferFrom` issued BY THE PRECOMPILE
ADDRESS (so it spends the ERC-20 allowance the holder granted to the precompile), the conversion (burn + release of the
backing coins for a coin-backed token, mint for a contract-owned token) and the payout of the coins to `sender`.  This
file interprets that program over a token world (one ERC-20 contract with FIP20 semantics + the bank balances of the
pair's base denom).  `Props/C10.lean` proves, for every world, amount, pair kind and role assignment, that only `sender`'s
tokens and only `sender`'s allowance to the precompile are consumed, by exactly `amount`.  Core Lean only.
-/
namespace FxVerif.Model.C10Tok
open FxVerif.Gen.C10Tok

abbrev Addr := Nat

structure TW where
  tok : Addr → Nat            -- ERC-20 balances
  appr : Addr → Addr → Nat    -- ERC-20 allowances, owner → spender
  coin : Addr → Nat           -- bank balances (base denom of the token pair)

/-- who the four named accounts are in a call -/
structure Roles where
  sender : Addr
  pre : Addr       -- the crosschain precompile account
  mod : Addr       -- the erc20 module account
  tokC : Addr      -- the token contract's own account (holds the coins backing WFX)

/-- the token pair: `IsNativeCoin()`, `GetDenom() == DefaultDenom`, `IsNativeERC20()` -/
structure PairKind where
  nativeCoin : Bool
  isFX : Bool
  nativeERC20 : Bool

def Roles.of (r : Roles) : Who → Option Addr
  | .sender => some r.sender
  | .precompile => some r.pre
  | .erc20Module => some r.mod
  | .tokenContract => some r.tokC
  | .other _ => none

def evalCond (pk : PairKind) (c : String) : Option Bool :=
  if c == "tokenPair.IsNativeCoin()" then some pk.nativeCoin
  else if c == "tokenPair.GetDenom() == fxtypes.DefaultDenom" then some pk.isFX
  else if c == "tokenPair.IsNativeERC20()" then some pk.nativeERC20
  else none

def upd (f : Addr → Nat) (k : Addr) (v : Nat) : Addr → Nat := fun x => if x = k then v else f x
def upd2 (f : Addr → Addr → Nat) (k1 k2 : Addr) (v : Nat) : Addr → Addr → Nat :=
  fun x y => if x = k1 ∧ y = k2 then v else f x y

/-- FIP20 `transferFrom(f, t, a)` with `msg.sender = b`: allowance f → b first (no unlimited-allowance exception), reduced
by `a`; then the balance of `f` -/
def erc20TransferFrom (w : TW) (b f t : Addr) (a : Nat) : Option TW :=
  if w.appr f b < a ∨ w.tok f < a then none
  else
    let tk := upd w.tok f (w.tok f - a)
    some { w with appr := upd2 w.appr f b (w.appr f b - a), tok := upd tk t (tk t + a) }

def erc20Burn (w : TW) (f : Addr) (a : Nat) : Option TW :=
  if w.tok f < a then none else some { w with tok := upd w.tok f (w.tok f - a) }

def bankSend (w : TW) (f t : Addr) (a : Nat) : Option TW :=
  if w.coin f < a then none
  else
    let c := upd w.coin f (w.coin f - a)
    some { w with coin := upd c t (c t + a) }

/-- the handler's result: `none` = the translator met something it does not know; `some none` = the handler returns an
error (C09: the native action is rolled back); `some (some w)` = it returns nil with world `w` -/
abbrev Out := Option (Option TW)

/-- an op whose error is tested makes the handler return; an untested failure is simply lost -/
def settle (checked : Bool) (w : TW) : Option TW → Out
  | some w' => some (some w')
  | none => if checked then some none else some (some w)

mutual
def runOp (pk : PairKind) (r : Roles) (a : Nat) : TOp → TW → Out
  | .transferFrom b f t ck, w =>
    match r.of b, r.of f, r.of t with
    | some b, some f, some t => settle ck w (erc20TransferFrom w b f t a)
    | _, _, _ => none
  | .burn _ f ck, w =>
    match r.of f with
    | some f => settle ck w (erc20Burn w f a)
    | none => none
  | .bankSend f t ck, w =>
    match r.of f, r.of t with
    | some f, some t => settle ck w (bankSend w f t a)
    | _, _ => none
  | .mint t _, w =>
    match r.of t with
    | some t => some (some { w with coin := upd w.coin t (w.coin t + a) })
    | none => none
  | .ite c thn els, w =>
    match evalCond pk c with
    | some true => runOps pk r a thn w
    | some false => runOps pk r a els w
    | none => none
  | .fail, _ => some none
  | .unknown _, _ => none
def runOps (pk : PairKind) (r : Roles) (a : Nat) : List TOp → TW → Out
  | [], w => some (some w)
  | o :: rest, w =>
    match runOp pk r a o w with
    | some (some w') => runOps pk r a rest w'
    | x => x
end

/-- the four named accounts are four accounts -/
def Roles.distinct (r : Roles) : Prop :=
  r.sender ≠ r.pre ∧ r.sender ≠ r.mod ∧ r.sender ≠ r.tokC ∧ r.pre ≠ r.mod ∧ r.pre ≠ r.tokC ∧ r.mod ≠ r.tokC

/-- what the regenerated leg computes, in closed form -/
def legSpec (pk : PairKind) (r : Roles) (a : Nat) (w : TW) : Option TW :=
  match erc20TransferFrom w r.pre r.sender r.mod a with
  | none => none
  | some w1 =>
    let conv : Option TW :=
      if pk.nativeCoin then
        match erc20Burn w1 r.mod a with
        | none => none
        | some w2 => if pk.isFX then bankSend w2 r.tokC r.mod a else some w2
      else if pk.nativeERC20 then some { w1 with coin := upd w1.coin r.mod (w1.coin r.mod + a) }
      else none
    match conv with
    | none => none
    | some w3 => bankSend w3 r.mod r.sender a


/-! ## histories of token-leg calls by arbitrary callers -/

structure TokOp where
  pk : PairKind
  caller : Addr
  amount : Nat

/-- one `crossChain` / `increaseBridgeFee` with a token, issued by `o.caller` (the precompile, the erc20 module and the token
contract are `pre`, `mod`, `tokC`); a call whose handler returns an error leaves the world as it was (C09) -/
def applyTok (pre mod tokC : Addr) (w : TW) (o : TokOp) : TW :=
  match runOps o.pk ⟨o.caller, pre, mod, tokC⟩ o.amount erc20Leg w with
  | some (some w') => w'
  | _ => w

def runTokH (pre mod tokC : Addr) (ops : List TokOp) (w : TW) : TW := ops.foldl (applyTok pre mod tokC) w

/-! ## round 4 — what the token-leg translator passes over, as data

`go/extract/c10tok.go` emits an op for every token / coin movement of `handlerERC20Token` (helpers inlined) and used to
pass over everything else silently (a trusted classification).  Every statement / call so passed over is now printed in
full into `Gen.C10Tok.erc20LegSkipped`, tagged with the reason; `Props/C10.lean` states that the list is literally the
reviewed one below and that only the reviewed reasons occur. -/

/-- the passed-over statements as reviewed: the token-pair lookup and its not-found return (nothing has moved yet), reading
the pair's denom, the construction of the two ERC-20 call objects (issuer = precompile address for `transferFrom`, erc20
module for `burn`), the two `if err != nil { return err }` tests of calls assigned on the previous line, the two final returns -/
def reviewedErc20LegSkipped : List (String × String) := [
  ("read", "c.erc20Keeper.GetTokenPairByAddress(ctx, token)"),
  ("not-found-return", "if !found { return sdk.Coin{}, fmt.Errorf(\"token pair not found: %s\", token.String()) }"),
  ("read", "tokenPair.GetDenom()"),
  ("erc20-call-object", "erc20Call := contract.NewERC20Call(evm, crosschaintypes.GetAddress(), token, 0)"),
  ("erc20-call-object", "erc20Call := contract.NewERC20Call(evm, c.erc20Keeper.ModuleAddress(), tokenPair.GetERC20Contract(), 0)"),
  ("error-test", "if err != nil { return err }"),
  ("error-test", "if err != nil { return err }"),
  ("return", "return nil"),
  ("return", "return sdk.NewCoin(baseDenom, sdkmath.NewIntFromBigInt(amount)), nil")]

/-- reasons for which a statement may be passed over: a keeper / pair READ (by name), a view of the ERC-20 (`balanceOf`, …),
the construction of an ERC-20 call object, the error test of the previous line, the `!found` return, a return of nil / of
the coin.  NOT accepted: a call that does not receive the ctx (`no-ctx`), a bare expression, a non-call assignment, any other
statement kind -/
def skipReasons : List String := ["read", "erc20-view", "erc20-call-object", "error-test", "not-found-return", "return"]

end FxVerif.Model.C10Tok
