import FxVerif.Model.C01
/-!
# C01 / C02 model, round 3 — genesis export / import, histories with restarts from genesis

`x/crosschain/keeper/genesis.go`.  `ExportGenesis` writes out (of the prefixes of `Model.C01`) the module parameters, the
last observed event nonce, the proposal oracle list, every oracle record and every attestation — NOT the bridger /
external-address indexes, the recorded total power, the per-oracle last event nonces, the parked (pending-execute) claims.
`InitGenesis` rebuilds those from what was exported.  Its statements are NOT hand-copied here: `Gen.C01.genesisImport` is
the list of the statements of `InitGenesis` that write a modelled prefix, in source order, regenerated from the Go AST on
every run, and `importGenesis` INTERPRETS that list from the empty store.  So the position of `SetLastTotalPower` relative
to the loop that stores the oracle records, and of `SetLastObservedEventNonce` relative to the reconstruction of the
per-oracle last nonces (whose absent-key fallback reads the last observed nonce), are the ones of the source.

`GOp` adds the operation "export the state, start a fresh store from that genesis" to the operations of `Model.C01`;
`grun` runs histories with any number of such restarts at arbitrary points.
-/
namespace FxVerif.Model.C01
open FxVerif.Gen.C01

/-- the exported part of the state (`types.GenesisState`, modelled fields) -/
structure Genesis where
  params : Params := {}
  lastObserved : Nat := 0
  proposal : List Nat := []
  oracles : List (Nat × Oracle) := []
  atts : List Att := []
  deriving Repr

/-- `ExportGenesis`: a field the source does not export is exported empty (regenerated `exportHas…` flags) -/
def exportGenesis (s : State) : Genesis :=
  { params := s.params
    lastObserved := if exportHasLastObserved then s.lastObserved else 0
    proposal := if exportHasProposal then s.proposal else []
    oracles := if exportHasOracles then s.oracles else []
    atts := if exportHasAtts then s.atts else [] }

/-- `GetLastEventNonceByOracle` on explicit components (`effLast s o = effL s.lastObserved s.lastNonce o`) -/
def effL (lo : Nat) (ln : Map Nat) (o : Nat) : Nat :=
  match ln.get o with
  | some v => v
  | none => lo - 1

/-- one vote of an imported attestation: `last := GetLastEventNonceByOracle; if nonce > last { SetLastEventNonceByOracle }` -/
def rebuildVote (lo n : Nat) (ln : Map Nat) (o : Nat) : Map Nat := if effL lo ln o < n then ln.set o n else ln

def rebuildAtt (lo : Nat) (ln : Map Nat) (a : Att) : Map Nat := a.votes.foldl (rebuildVote lo a.nonce) ln

/-- one iteration of the loop over `state.Oracles` -/
def loadOracle (recd idxB idxE : Bool) (s : State) (p : Nat × Oracle) : State :=
  { s with
    oracles := if recd then s.oracles.set p.1 p.2 else s.oracles
    byBridger := if idxB then s.byBridger.set p.2.bridger p.1 else s.byBridger
    byExt := if idxE then s.byExt.set p.2.ext p.1 else s.byExt }

/-- one statement of `InitGenesis` -/
def applyGen (g : Genesis) (s : State) : GenStmt → State
  | .setParams => { s with params := g.params }
  | .setLastObserved => { s with lastObserved := g.lastObserved }
  | .setProposal => { s with proposal := g.proposal }
  | .loadOracles r b e => g.oracles.foldl (loadOracle r b e) s
  | .refreshTotal => refresh s                                   -- SetLastTotalPower: Σ power of the online oracles IN THE STORE NOW
  | .loadAtts => { s with atts := g.atts.foldl setAtt s.atts }   -- SetAttestation(nonce, hash, att)
  | .rebuildLastNonce => { s with lastNonce := g.atts.foldl (rebuildAtt s.lastObserved) s.lastNonce }
  | .unknown => s

/-- `InitGenesis` with a given statement list, from the empty store -/
def importWith (prog : List GenStmt) (g : Genesis) : State := prog.foldl (applyGen g) {}

/-- `InitGenesis` as the source has it now -/
def importGenesis (g : Genesis) : State := importWith genesisImport g

/-- export, then start a fresh store from that genesis; the ghost logs (never read by `step`) are carried over so that the
theorems can speak about the whole history -/
def roundTrip (s : State) : State :=
  { importGenesis (exportGenesis s) with observedLog := s.observedLog, executedLog := s.executedLog, retired := s.retired }

inductive GOp where
  | op (o : Op)
  | genesis
  deriving Repr

def gstep (s : State) : GOp → State × Out
  | .op o => step s o
  | .genesis => (roundTrip s, .ok)

def grun (s : State) : List GOp → State
  | [] => s
  | op :: ops => grun (gstep s op).1 ops

end FxVerif.Model.C01
