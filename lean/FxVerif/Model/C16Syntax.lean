/-!
# C16 syntax — the small languages the Go authority checks are translated into

`go/extract/c16sem.go` re-reads `/repo` on every run and emits terms of these types into `Gen/C16Sem.lean`:

* `SExpr` / `BExpr` — the string operands and boolean conditions that occur in authority checks (`!=` / `==` on strings,
  `strings.EqualFold`, `bytes.Equal`/`.Equals` on bech32-decoded operands, `!`, `&&`, `||`, calls of helper methods);
* `HStmt` — bodies of helper methods (followed one level): `if c { return <v> }`, `return <v>`, `return <cond>`;
* `Stmt` — top-level statements of a message-server method, in source order: a rejecting `if`, a statement that cannot
  touch state, arbitrary work (anything else, including early returns), and delegation to another implementation;
* `UStep` — the statements of the raw-store-update loop(s).

Core Lean only.  Text is a list of code points (`Str`).
-/
namespace FxVerif.Model.C16

/-- text as a list of Unicode code points -/
abbrev Str := List Nat

/-- string-valued operand of an authority check -/
inductive SExpr where
  | reqAuthority                 -- `req.Authority`, `req.GetAuthority()`
  | keeperAuthority              -- `recv.authority`, `recv.GetAuthority()` (string getter), `recv.GetAuthority().String()`
  | moduleAddr (name : String)   -- `authtypes.NewModuleAddress(<name>).String()` / the address itself in an address compare
  | reqField (f : String)        -- another field of the request: `req.ChainName`, `msg.Sender`, …
  | param (i : Nat)              -- i-th parameter of the enclosing helper
  | lit (s : String)             -- string literal
  | other (src : String)         -- anything else (source text)
  | moduleAccInState (name : String)
      -- `<auth keeper>.GetModuleAccount(ctx, <name>).GetAddress().String()` (also through a one-line getter such as the SDK's
      -- `GetGovernanceAccount`): the address string of the module account AS THE x/auth STATE HAS IT (round 4)
  deriving DecidableEq, Repr

/-- how a guard turns an address STRING into bytes before it compares (round 4) -/
inductive Dec where
  | acc        -- `sdk.AccAddressFromBech32`: account hrp, single case, checksum, accepted length
  | lenient    -- `fxtypes.ParseAddress`: bech32 with ANY hrp and ANY length, else a 0x hex string in its EIP-55 spelling
  | evm20      -- `common.BytesToAddress(<sdk-decoded bytes>)`: the LAST 20 bytes, left-padded with zeros
  deriving DecidableEq, Repr

/-- boolean condition of an authority check -/
inductive BExpr where
  | ne (a b : SExpr)             -- `a != b` on strings
  | eq (a b : SExpr)             -- `a == b` on strings
  | equalFold (a b : SExpr)      -- `strings.EqualFold(a, b)`
  | addrEq (a b : SExpr)         -- `bytes.Equal(decode a, decode b)` / `decode(a).Equals(decode b)` (operands = the encoded strings)
  | not (x : BExpr)
  | and (x y : BExpr)
  | or (x y : BExpr)
  | call (helper : String) (args : List SExpr)  -- `recv.helper(args)` for a bool helper; `err := recv.helper(args); err != nil` for an error helper
  | other (id : Nat) (src : String)             -- anything else
  | decEq (d : Dec) (a b : SExpr)
      -- the operands (encoded strings, also through locals that hold their decoded bytes) decoded with `d` are equal bytes;
      -- a failed decoding stands for the empty byte string (round 4)
  | decodes (d : Dec) (a : SExpr)               -- decoding `a` with `d` succeeds (`_, err := decode(a); err == nil`) (round 4)
  deriving Repr

/-- statement of a helper body; the helper's value is a Bool (`true` = "returns a non-nil error" for error helpers) -/
inductive HStmt where
  | retIf (c : BExpr) (v : Bool)  -- `if c { return v }`
  | ret (v : Bool)                -- `return v`
  | retB (c : BExpr)              -- `return c`
  | setIf (c : BExpr) (v : Bool)  -- `if c { err = v }` on a NAMED result: assigns, does not return
  | retVar                        -- `return err` / bare `return`: the current value of the named result
  | clobberLoop (field : String)  -- `for _, x := range req.<field> { if err = f(x); err != nil { return <error> } }`:
                                  -- every iteration OVERWRITES the named result (nil after a good entry)
  | checkLoop (field : String)    -- a loop over `req.<field>` that may return an error but never assigns the named result
  | clobber (id : Nat) (src : String) -- any other statement that assigns the named result
  | other (src : String)
  deriving Repr

structure Helper where
  key : String                    -- "<pkg>.<Type>.<method>"
  body : List HStmt
  deriving Repr

/-- top-level statement of a message-server method -/
inductive Stmt where
  | rejectIf (c : BExpr)          -- `if c { return nil, <error> }`
  | nop (src : String)            -- a statement that cannot read or write state (`ctx := sdk.UnwrapSDKContext(c)`)
  | work (id : Nat) (src : String)  -- anything else: may write state, may return early with success or an error
  | forward (needRoute : Bool) (targets : List String) (method : String)
      -- `return x.method(ctx, req)`; `needRoute`: preceded by the per-chain server lookup that errors without a route;
      -- `targets`: the concrete types `x` can have
  | ensureModuleAcc (name : String) (src : String)
      -- `v := <recv>.GetModuleAccount(ctx, <name>)…` (also through a one-line getter): READS the module account from the
      -- x/auth state and CREATES it when it is missing; `v` then stands for `.moduleAccInState name` in later guards (round 4)
  deriving Repr

/-- a method of some in-repo type whose request carries an `Authority` field -/
structure Impl where
  recv : String                   -- "<pkg>.<Type>"
  method : String
  msg : String                    -- "<pkg>.<MsgType>"
  body : List Stmt
  pos : String
  deriving Repr

/-- struct type with its embedded fields in declaration order (`ext:<alias>.<T>` for a dependency type) -/
structure TypeDecl where
  name : String
  embeds : List String
  deriving Repr

/-- a Msg service: the methods of the generated `MsgServer` interface; `msg = ""` when the request has no `Authority` -/
structure Service where
  pkg : String
  methods : List (String × String)
  deriving Repr

/-- `<pkg>.RegisterMsgServer(cfg.MsgServer(), <impl>)` with the concrete type of `<impl>` -/
structure Registration where
  site : String
  service : String
  impl : String
  deriving Repr

/-- what `ValidateBasic` of an authority-carrying message does with the authority (run by the SDK router before the handler) -/
structure MsgInfo where
  msg : String
  hasValidateBasic : Bool
  decodesAuthority : Bool         -- `if _, err := sdk.AccAddressFromBech32(m.Authority); err != nil { return … }`
  deriving Repr

/-- statement of a raw-store-update loop body over `entry := range req.UpdateStores` -/
inductive UStep where
  | lookupSpace                   -- `key, ok := storeKeys[entry.Space]; if !ok { return nil, err }`
  | get (v : String)              -- `v := ctx.KVStore(<key of entry.Space>).Get(entry.KeyToBytes())`
  | failUnlessEq (v : String) (field : String) -- `if !bytes.Equal(v, entry.<field>ToBytes()) { return nil, err }`
  | set (field : String)          -- `ctx.KVStore(<key of entry.Space>).Set(entry.KeyToBytes(), entry.<field>ToBytes())`
  | other (src : String)
  deriving DecidableEq, Repr

/-- how the governance end-blocker (x/gov/abci.go, `case passes:`) executes the messages of a passed proposal -/
structure ProposalExec where
  runsOnCache : Bool             -- the handlers get the context returned by `ctx.CacheContext()`
  breaksOnError : Bool           -- `if err != nil { break }` in the message loop
  writeGuardedByNoError : Bool   -- every `writeCache()` is inside `if err == nil { … }` after the loop
  deriving DecidableEq, Repr

/-! ## the transaction pipeline (`baseapp.runTx`), statement by statement (round 4) -/

/-- statement inside `if app.anteHandler != nil { … }` -/
inductive AStep where
  | branch                      -- `anteCtx, msCache = app.cacheTxContext(ctx, txBytes)`
  | call (onBranch : Bool)      -- `newCtx, err := app.anteHandler(<ctx>, tx, …)`; onBranch: `<ctx>` is the branched context
  | returnIfErr                 -- `if err != nil { … return … err }` (no Write inside)
  | write                       -- `msCache.Write()`
  | skip (src : String)         -- touches none of the stores (events, gas numbers, context bookkeeping)
  | other (src : String)
  deriving Repr

/-- top-level statement of `runTx` -/
inductive TStep where
  | rejectIfEnv (id : Nat) (src : String)
      -- an early `return … err` decided by the environment, before anything is written (tx decoding, block gas left,
      -- a message without a handler)
  | validateBasic               -- `if err := validateBasicTxMsgs(msgs); err != nil { return … }`
  | ante (steps : List AStep)   -- `if app.anteHandler != nil { … }`
  | branchMsgs                  -- `runMsgCtx, msCache := app.cacheTxContext(ctx, txBytes)`
  | runMsgs (onBranch : Bool)   -- `if err == nil { result, err = app.runMsgs(<ctx>, …) }`
  | post (onBranch : Bool)      -- `if app.postHandler != nil { … return on its error … }` on the message branch, no Write inside
  | writeIfOk                   -- `if err == nil { … msCache.Write() … }`
  | writeAlways                 -- `msCache.Write()` outside such a guard
  | skip (src : String)
  | other (src : String)
  deriving Repr

end FxVerif.Model.C16
