import FxVerif.Model.Flows
/-!
# C08 model — erc20 module: coin ↔ ERC-20 conversions and the token-pair indexes

Two slices, driven by the same operation stream:

* ledger slice: `MsgConvertCoin`, `MsgConvertERC20`, `MsgConvertDenom` as the flows of `Model/Flows.lean`, guarded by
  the pair's registration / `Enabled` flag;
* index slice (`Idx`): the erc20 store prefixes 0x01 (pairs by id), 0x02 (denom → id), 0x03 (contract → id),
  0x05 (alias → denom) and the bank metadata aliases, under `RegisterCoin`, `RegisterERC20`, `ToggleTokenConversion`,
  `UpdateDenomAlias` (code: `proposals.go`, `token_pairs.go`).

Denominations, contracts and aliases are natural numbers; the pair id is `(denom, contract)` (`TokenPair.GetID` hashes
exactly these two).
-/
namespace FxVerif.Model.C08
open FxVerif.Model.Ledger FxVerif.Model.Flows

structure Pair where
  denom : Nat
  contract : Nat
  enabled : Bool
  external : Bool
  deriving DecidableEq, Repr

abbrev PairId := Nat × Nat

structure Idx where
  pairs : List (PairId × Pair) := []
  byDenom : List (Nat × PairId) := []
  byErc : List (Nat × PairId) := []
  aliasIdx : List (Nat × Nat) := []       -- alias ↦ base denom
  md : List (Nat × List Nat) := []      -- bank metadata: base denom ↦ aliases of DenomUnits[0]
  deriving Repr

def lookup {α β : Type} [DecidableEq α] (k : α) : List (α × β) → Option β
  | [] => none
  | (k', v) :: rest => if k' = k then some v else lookup k rest

/-- `store.Set`: overwrite or insert -/
def setKV {α β : Type} [DecidableEq α] (k : α) (v : β) : List (α × β) → List (α × β)
  | [] => [(k, v)]
  | (k', v') :: rest => if k' = k then (k, v) :: rest else (k', v') :: setKV k v rest

def delKV {α β : Type} [DecidableEq α] (k : α) (l : List (α × β)) : List (α × β) := l.filter (fun p => p.1 ≠ k)

inductive IOp where
  /-- `RegisterNativeCoin(metadata{base = denom, aliases})`, deploying contract `contract` -/
  | registerCoin (denom contract : Nat) (aliases : List Nat)
  /-- `RegisterNativeERC20(contract, aliases)`; `denom` = lower-cased symbol read from the contract -/
  | registerERC20 (denom contract : Nat) (aliases : List Nat)
  | toggle (denom : Nat)
  | updateAlias (denom alias : Nat)
  deriving Repr

def addPair (i : Idx) (p : Pair) : Idx :=
  let id : PairId := (p.denom, p.contract)
  { i with pairs := setKV id p i.pairs, byDenom := setKV p.denom id i.byDenom, byErc := setKV p.contract id i.byErc }

def setAliases (i : Idx) (denom : Nat) (aliases : List Nat) : Idx :=
  { i with aliasIdx := aliases.foldl (fun acc a => setKV a denom acc) i.aliasIdx }

def aliasesOk (i : Idx) (denom : Nat) (aliases : List Nat) : Bool :=
  aliases.all (fun a => a != denom && (lookup a i.byDenom).isNone && (lookup a i.aliasIdx).isNone)

def stepIdx (i : Idx) : IOp → Except Err Idx
  | .registerCoin d ct aliases =>
    if (lookup d i.byDenom).isSome then .error .invalid else
    if (lookup d i.aliasIdx).isSome then .error .invalid else
    if !aliasesOk i d aliases then .error .invalid else
    -- existing bank metadata must be equal (`EqualMetadata`), otherwise it is set
    match lookup d i.md with
    | some as' => if as' ≠ aliases then .error .invalid else
        .ok (addPair (setAliases i d aliases) ⟨d, ct, true, false⟩)
    | none => .ok (addPair { (setAliases i d aliases) with md := setKV d aliases i.md } ⟨d, ct, true, false⟩)
  | .registerERC20 d ct aliases =>
    if (lookup ct i.byErc).isSome then .error .invalid else
    if (lookup d i.byDenom).isSome then .error .invalid else
    if (lookup d i.aliasIdx).isSome then .error .invalid else
    if !aliasesOk i d aliases then .error .invalid else
    if (lookup d i.md).isSome then .error .invalid else
    .ok (addPair { (setAliases i d aliases) with md := setKV d aliases i.md } ⟨d, ct, true, true⟩)
  | .toggle d =>
    match lookup d i.byDenom with
    | none => .error .notFound
    | some id =>
      match lookup id i.pairs with
      | none => .error .notFound
      | some p => .ok { i with pairs := setKV id { p with enabled := !p.enabled } i.pairs }
  | .updateAlias d a =>
    if (lookup d i.byDenom).isNone then .error .invalid else
    if (lookup a i.byDenom).isSome then .error .invalid else
    match lookup d i.md with
    | none => .error .invalid
    | some old =>
      match lookup a i.aliasIdx with
      | none => .ok { i with md := setKV d (old ++ [a]) i.md, aliasIdx := setKV a d i.aliasIdx }
      | some d' =>
        if d' = d then .ok { i with md := setKV d (old.filter (· ≠ a)) i.md, aliasIdx := delKV a i.aliasIdx }
        else .error .invalid

/-- the three indexes and the metadata describe the same set of pairs -/
def indexOk (i : Idx) : Bool :=
  i.pairs.all (fun (id, p) => id == (p.denom, p.contract) && lookup p.denom i.byDenom == some id && lookup p.contract i.byErc == some id) &&
  i.byDenom.all (fun (d, id) => match lookup id i.pairs with | some p => p.denom == d | none => false) &&
  i.byErc.all (fun (ct, id) => match lookup id i.pairs with | some p => p.contract == ct | none => false) &&
  i.aliasIdx.all (fun (a, d) => (lookup d i.byDenom).isSome && (match lookup d i.md with | some as => as.contains a | none => false)) &&
  i.byDenom.all (fun (d, _) => match lookup d i.md with | some as => as.all (fun a => lookup a i.aliasIdx == some d) | none => true)

/-! ### ledger slice -/

inductive COp where
  | coin (g u r n : Nat)
  | erc (g u r n : Nat)
  | den (g u r n : Nat) (src dst : Den)
  deriving Repr

/-- `kindReg g`: ownership of the registered pair of group `g`; `enabled g`: its `Enabled` flag (`MintingEnabled` is
checked by ConvertCoin / ConvertERC20 only); `hasAlias g c`: the bank metadata of `g` lists the alias of chain `c` -/
structure CCfg where
  kindReg : Nat → Option Kind
  enabled : Nat → Bool
  hasAlias : Nat → Nat → Bool

def CCfg.kindOf (cf : CCfg) (g : Nat) : Option Kind := if cf.enabled g then cf.kindReg g else none

def okDen (cf : CCfg) (g : Nat) : Den → Bool
  | .base => true
  | .chain c => cf.hasAlias g c

def stepC (cf : CCfg) (L : Ledger) : COp → Except Err Ledger
  | .coin g u r n =>
    match cf.kindOf g with
    | some k => runFlow (convertCoin k g (.user u) (.user r) n) L
    | none => .error .disabled
  | .erc g u r n =>
    match cf.kindOf g with
    | some k => runFlow (convertERC20 k g (.user u) (.user r) n) L
    | none => .error .disabled
  | .den g u r n src dst =>
    match cf.kindReg g with
    | some k =>
      -- `ToTargetDenom`: a target chain without an alias falls back to the base denomination
      let dst := if okDen cf g dst then dst else .base
      if k = .fx ∨ src = dst ∨ !(okDen cf g src) then .error .invalid else
      runFlow (convertDenom k g (.user u) n src dst ++
        (if u = r then [] else [.send (dst.asset g) (.user u) E n, .send (dst.asset g) E (.user r) n])) L
    | none => .error .notFound

def stepCT (cf : CCfg) (L : Ledger) (op : COp) : Ledger :=
  match stepC cf L op with
  | .ok L' => L'
  | .error _ => L

def runC (cf : CCfg) (L : Ledger) (ops : List COp) : Ledger := ops.foldl (stepCT cf) L

end FxVerif.Model.C08
