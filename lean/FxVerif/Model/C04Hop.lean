import FxVerif.Gen.C04Hop
/-!
# C04 round 5: which IBC alias of a base coin serves an IBC target

A base coin may have several IBC aliases (vouchers), one per channel it came in through.  `BaseDenomToBridgeDenom`
(crosschain) and `ToTargetDenom` (erc20) walk the aliases in metadata order and skip a voucher when a condition on its
denom-trace path and on the target's `port/channel` text holds — the condition is REGENERATED (`Gen/C04Hop.lean`); the
first voucher not skipped is the route.  A denom-trace path lists the hops newest first: `port/channel` of the hop INTO
this chain, then (after a `/`) the earlier hops.  Core Lean only; text is `List Char`.
-/
namespace FxVerif.Model.C04Hop

def sep : Char := '/'

/-- the target's hop text: `fmt.Sprintf("%s/%s", port, channel)` -/
def hopOf (port chan : List Char) : List Char := port ++ sep :: chan

def tailOf : Option (List Char) → List Char
  | none => []
  | some r => sep :: r

/-- a denom-trace path whose last hop (into this chain) is `port/chan`; `earlier` = the rest of the path, if any -/
def pathOf (port chan : List Char) (earlier : Option (List Char)) : List Char :=
  port ++ sep :: (chan ++ tailOf earlier)

structure Alias where
  id : Nat
  port : List Char
  chan : List Char
  earlier : Option (List Char)
  deriving DecidableEq, Repr

def Alias.path (a : Alias) : List Char := pathOf a.port a.chan a.earlier

/-- identifiers (port, channel) never contain the separator (ibc-go host identifier validation) -/
def sepFree (l : List Char) : Prop := sep ∉ l

def Alias.wf (a : Alias) : Prop := sepFree a.port ∧ sepFree a.chan

/-- the look-up loop: the first alias, in metadata order, that the code does not skip -/
def chooseAlias (skips : List Char → List Char → Bool) (as : List Alias) (port chan : List Char) : Option Alias :=
  as.find? fun a => !skips a.path (hopOf port chan)

/-- the condition before fix 94a3933: a plain string prefix -/
def prefixSkips (path hop : List Char) : Bool := !(List.isPrefixOf hop path)

end FxVerif.Model.C04Hop
