/-!
# SHA-256 (FIPS 180-4), core Lean only, executable.

Used by the model drivers to turn a pre-image (the `ClaimHash` path) into the digest the implementation reports, so
that the correspondence check compares digests byte for byte.  Nothing is *proved* about this function: collision
resistance of SHA-256 is the named assumption of C03.
-/
namespace FxVerif.Sha256

def K : Array UInt32 := #[
  0x428a2f98, 0x71374491, 0xb5c0fbcf, 0xe9b5dba5, 0x3956c25b, 0x59f111f1, 0x923f82a4, 0xab1c5ed5,
  0xd807aa98, 0x12835b01, 0x243185be, 0x550c7dc3, 0x72be5d74, 0x80deb1fe, 0x9bdc06a7, 0xc19bf174,
  0xe49b69c1, 0xefbe4786, 0x0fc19dc6, 0x240ca1cc, 0x2de92c6f, 0x4a7484aa, 0x5cb0a9dc, 0x76f988da,
  0x983e5152, 0xa831c66d, 0xb00327c8, 0xbf597fc7, 0xc6e00bf3, 0xd5a79147, 0x06ca6351, 0x14292967,
  0x27b70a85, 0x2e1b2138, 0x4d2c6dfc, 0x53380d13, 0x650a7354, 0x766a0abb, 0x81c2c92e, 0x92722c85,
  0xa2bfe8a1, 0xa81a664b, 0xc24b8b70, 0xc76c51a3, 0xd192e819, 0xd6990624, 0xf40e3585, 0x106aa070,
  0x19a4c116, 0x1e376c08, 0x2748774c, 0x34b0bcb5, 0x391c0cb3, 0x4ed8aa4a, 0x5b9cca4f, 0x682e6ff3,
  0x748f82ee, 0x78a5636f, 0x84c87814, 0x8cc70208, 0x90befffa, 0xa4506ceb, 0xbef9a3f7, 0xc67178f2]

def H0 : Array UInt32 := #[
  0x6a09e667, 0xbb67ae85, 0x3c6ef372, 0xa54ff53a, 0x510e527f, 0x9b05688c, 0x1f83d9ab, 0x5be0cd19]

@[inline] def rotr (x : UInt32) (n : UInt32) : UInt32 := (x >>> n) ||| (x <<< (32 - n))

/-- message ‖ 0x80 ‖ 0…0 ‖ 64-bit big-endian bit length, a multiple of 64 bytes -/
def pad (msg : List Nat) : Array UInt8 :=
  let l := msg.length
  let zeros := (119 - l % 64) % 64
  let bits := l * 8
  let len8 := (List.range 8).map fun i => (bits >>> (8 * (7 - i))) % 256
  ((msg ++ [0x80] ++ List.replicate zeros 0 ++ len8).map (fun b => UInt8.ofNat b)).toArray

def word (bs : Array UInt8) (i : Nat) : UInt32 :=
  (bs[i]!.toUInt32 <<< 24) ||| (bs[i + 1]!.toUInt32 <<< 16) ||| (bs[i + 2]!.toUInt32 <<< 8) ||| bs[i + 3]!.toUInt32

def schedule (bs : Array UInt8) (off : Nat) : Array UInt32 := Id.run do
  let mut w : Array UInt32 := Array.mkEmpty 64
  for t in [0:16] do
    w := w.push (word bs (off + 4 * t))
  for t in [16:64] do
    let a := w[t - 15]!
    let b := w[t - 2]!
    let s0 := rotr a 7 ^^^ rotr a 18 ^^^ (a >>> 3)
    let s1 := rotr b 17 ^^^ rotr b 19 ^^^ (b >>> 10)
    w := w.push (w[t - 16]! + s0 + w[t - 7]! + s1)
  return w

def compress (h : Array UInt32) (w : Array UInt32) : Array UInt32 := Id.run do
  let mut a := h[0]!
  let mut b := h[1]!
  let mut c := h[2]!
  let mut d := h[3]!
  let mut e := h[4]!
  let mut f := h[5]!
  let mut g := h[6]!
  let mut hh := h[7]!
  for t in [0:64] do
    let s1 := rotr e 6 ^^^ rotr e 11 ^^^ rotr e 25
    let ch := (e &&& f) ^^^ ((~~~ e) &&& g)
    let t1 := hh + s1 + ch + K[t]! + w[t]!
    let s0 := rotr a 2 ^^^ rotr a 13 ^^^ rotr a 22
    let mj := (a &&& b) ^^^ (a &&& c) ^^^ (b &&& c)
    let t2 := s0 + mj
    hh := g; g := f; f := e; e := d + t1; d := c; c := b; b := a; a := t1 + t2
  return #[h[0]! + a, h[1]! + b, h[2]! + c, h[3]! + d, h[4]! + e, h[5]! + f, h[6]! + g, h[7]! + hh]

/-- SHA-256 of a byte list (each element taken mod 256); 32 bytes -/
def sha256 (msg : List Nat) : List Nat := Id.run do
  let bs := pad msg
  let mut h := H0
  for blk in [0:bs.size / 64] do
    h := compress h (schedule bs (blk * 64))
  return h.toList.flatMap fun (x : UInt32) =>
    [(x >>> 24).toNat % 256, (x >>> 16).toNat % 256, (x >>> 8).toNat % 256, x.toNat % 256]

def hexDigit (n : Nat) : Char := if n < 10 then Char.ofNat (48 + n) else Char.ofNat (87 + n)

def hexOf (bs : List Nat) : String :=
  String.ofList (bs.flatMap fun b => [hexDigit (b / 16 % 16), hexDigit (b % 16)])

def sha256Hex (msg : List Nat) : String := hexOf (sha256 msg)

end FxVerif.Sha256
