import FxVerif.Gen.C01
/-!
# C01 / C02 model — attestation, quorum and oracle registry of ONE bridged chain

Executable state machine `step : State → Op → State × Out` written after
`x/crosschain/keeper/{attestation,attestation_handler,observed,msg_server,oracle,abci,proposal,pending_execute_claim}.go`,
`x/crosschain/types/{msgs,types,params}.go` and `x/crosschain/precompile/execute_claim.go`.

What is modelled (store prefixes in brackets): oracle registry [0x12] with stake / online / slash times, the
external-address [0x13] and bridger [0x14] indexes, the proposal oracle list, `LastTotalPower` [0x39] (refreshed ONLY where
the code calls `SetLastTotalPower`), `LastObservedEventNonce` [0x24], `LastEventNonceByOracle` [0x23] including the fallback
for an absent key, attestations [0x17] keyed by (nonce, claim hash id) with ordered vote lists, pending execute claims
[0x54], pruning with `MaxKeepEventSize`.  Ghost components `observedLog` / `executedLog` / `retired` are only appended, never read.

Environment inputs carried by the ops (dependencies that are not modelled): `dep` = the bank / staking calls of the handler
succeeded; `ubd`/`bal` = an unbonding delegation of the oracle's delegate address exists / its balance; the oracles slashed
by an end block and whether it stored a new oracle set; how the deferred handler of `executeClaim` ends (`Outcome`) and
the forest of `executeClaim` calls the called-back contract makes while the handler is still running (`Calls`).

`ExecuteClaim` is NOT atomic in this model: look-up, deletion of the parked entry, the handler's effects, the re-entrant
calls made from inside the handler, and the handler's result are separate steps, taken in the order the extractor reads
off `ExecuteClaim` (`execDeletesBeforeHandler`); the enclosing native action / cache context roll-backs are explicit.

Every guard that is read off the Go AST by `go/extract/c01.go` enters `step` through its `Gen.C01` flag, so the theorems
are about the guards the code has now.
-/
namespace FxVerif.Model.C01
open FxVerif.Gen.C01

/-! ## association lists keyed by `Nat` (addresses are small integers) -/

abbrev Map (α : Type) := List (Nat × α)

namespace Map
variable {α : Type}

def get : Map α → Nat → Option α
  | [], _ => none
  | (k', v) :: r, k => if k' = k then some v else get r k

/-- replace in place, or append -/
def set : Map α → Nat → α → Map α
  | [], k, v => [(k, v)]
  | (k', v') :: r, k, v => if k' = k then (k, v) :: r else (k', v') :: set r k v

def del (m : Map α) (k : Nat) : Map α := m.filter (fun p => p.1 != k)

end Map

/-! ## data -/

structure Oracle where
  bridger : Nat
  ext : Nat
  stake : Nat          -- Oracle.DelegateAmount
  online : Bool
  slashTimes : Nat
  deriving DecidableEq, Repr

/-- `Oracle.GetPower = DelegateAmount.Quo(sdk.DefaultPowerReduction)` (truncating) -/
def Oracle.power (o : Oracle) : Nat := o.stake / powerReduction

/-- precision of `sdkmath.LegacyDec` (dependency constant) -/
def decPrecision : Nat := 1000000000000000000

/-- `Oracle.GetSlashAmount(fraction)` = min(stake, trunc(stake · fraction · slashTimes)); `frac` is the Dec mantissa -/
def Oracle.slashAmount (o : Oracle) (frac : Nat) : Nat :=
  Nat.min (o.stake * frac * o.slashTimes / decPrecision) o.stake

structure Att where
  nonce : Nat
  hash : Nat            -- id of the claim hash
  votes : List Nat      -- oracle addresses, in arrival order
  observed : Bool
  deriving DecidableEq, Repr

structure Params where
  threshold : Nat := 0  -- DelegateThreshold.Amount
  multiple : Nat := 0   -- DelegateMultiple
  slashFrac : Nat := 0  -- SlashFraction (Dec mantissa)
  deriving DecidableEq, Repr

structure State where
  params : Params := {}
  proposal : List Nat := []
  oracles : Map Oracle := []
  byBridger : Map Nat := []
  byExt : Map Nat := []
  lastTotalPower : Nat := 0
  lastObserved : Nat := 0
  lastNonce : Map Nat := []
  atts : List Att := []
  pending : List Nat := []
  observedLog : List (Nat × Nat) := []   -- ghost: (nonce, hash id) of every observation, in order
  executedLog : List Nat := []           -- ghost: nonce of every successful deferred execution, in order
  retired : List Nat := []               -- ghost: oracles whose per-oracle last nonce was deleted by UnbondedOracle
  deriving Repr

def init (p : Params) : State := { params := p }

inductive Kind where
  | pending                         -- MsgSendToFxClaim / MsgBridgeCallClaim / MsgBridgeCallResultClaim
  | other                           -- MsgBridgeTokenClaim: handler touches nothing modelled here
  | oracleSet (members : List Nat)  -- MsgOracleSetUpdatedClaim with these member external addresses
  /-- a claim whose handler PANICS if it is run now (`OutgoingTxBatchExecuted` for a batch that is not in the store,
  `UpdateOracleSetExecuted` for an oracle set that contradicts the stored one with the same nonce): the panic leaves
  `processAttestation`'s cache context AND the whole claim message (round 4).  `members`: as for `oracleSet` (`[]` otherwise) -/
  | panics (members : List Nat)
  deriving DecidableEq, Repr

/-- how the deferred handler of one `ExecuteClaim` call ends:
`ok`     — the handler returns nil (for a bridge call: the contract call succeeded, its cache context is committed);
`refund` — `BridgeCallHandler` only: the contract call failed, its cache context (with everything the nested calls did)
           is dropped, the tokens are refunded, the handler returns nil;
`fail`   — the handler returns an error: the precompile's native action is reverted as a whole -/
inductive Outcome where
  | ok | refund | fail
  deriving DecidableEq, Repr

/-- a forest of `executeClaim(chain, n)` calls (first child / next sibling): each call has the forest `inner` of calls the
called-back contract makes while that call's handler is running, and is followed by the calls `next` -/
inductive Calls where
  | nil
  | call (n : Nat) (o : Outcome) (inner next : Calls)
  deriving DecidableEq, Repr

inductive Op where
  | claim (wrapper inner nonce hash : Nat) (kind : Kind) (extHeight : Nat)
  | bond (oracle bridger ext amount : Nat) (dep : Bool)
  | addDelegate (oracle amount : Nat) (dep : Bool)
  | editBridger (oracle bridger : Nat)
  | unbond (oracle : Nat) (ubd : Bool) (bal : Nat) (dep : Bool)
  | gov (oracles : List Nat) (dep : Bool)
  | endBlock (slashed : List Nat) (oracleSetReq : Bool)
  | exec (nonce : Nat) (o : Outcome) (inner : Calls)
  deriving Repr

inductive Out where
  | ok | signerMismatch | noOracle | offline | invalid | nonContiguous | belowMin | aboveMax | dep | notFound | execFailed
  | panicked | undeliverable
  deriving DecidableEq, Repr

/-! ## power -/

/-- Σ power of online oracles (`SetLastTotalPower` over `GetAllOracles(ctx, true)`) -/
def onlinePower : Map Oracle → Nat
  | [] => 0
  | (_, o) :: r => (if o.online then o.power else 0) + onlinePower r

def refresh (s : State) : State := { s with lastTotalPower := onlinePower s.oracles }

/-- `SetLastTotalPower` as the handler places it (regenerated `RefreshRule`): `old` is the state before the oracle record
was stored, `s'` the state after; `pos` = the guard `delegateCoin.IsPositive()` of the conditional form -/
def applyRefresh (rule : RefreshRule) (pos : Bool) (old s' : State) : State :=
  match rule with
  | .afterStore => refresh s'
  | .beforeStore => { s' with lastTotalPower := onlinePower old.oracles }
  | .ifPositiveAfterStore => if pos then refresh s' else s'
  | .other => s'
  | .none => s'

/-- power a vote contributes in `TryAttestation`: 0 when the address is not a registered oracle -/
def powerOf (m : Map Oracle) (v : Nat) : Nat :=
  match m.get v with
  | some o => o.power
  | none => 0

def votePower (m : Map Oracle) : List Nat → Nat
  | [] => 0
  | v :: vs => powerOf m v + votePower m vs

/-- `requiredPower := AttestationVotesPowerThreshold.Mul(totalPower).Quo(NewInt(100))` — the expression the extractor
reads off `TryAttestation` now (helper functions inlined), evaluated -/
def required (total : Nat) : Nat := requiredExpr.eval votesThreshold total

/-- `attestationPower.LT(requiredPower)` → keep summing -/
def below (acc req : Nat) : Bool :=
  match tallyCmp with
  | .lt => decide (acc < req)
  | .lte => decide (acc ≤ req)
  | .other => true

/-- the vote loop of `TryAttestation`, literally: unregistered votes are skipped, the comparison happens after each
registered vote is added, the first time it is not below the attestation is observed -/
def tally (m : Map Oracle) (req : Nat) : List Nat → Nat → Bool
  | [], _ => false
  | v :: vs, acc =>
    match m.get v with
    | none => tally m req vs acc
    | some o => if below (acc + o.power) req then tally m req vs (acc + o.power) else true

/-! ## attestations -/

def findAtt : List Att → Nat → Nat → Option Att
  | [], _, _ => none
  | a :: r, n, h => if a.nonce = n ∧ a.hash = h then some a else findAtt r n h

def setAtt : List Att → Att → List Att
  | [], a => [a]
  | b :: r, a => if b.nonce = a.nonce ∧ b.hash = a.hash then a :: r else b :: setAtt r a

/-- `pruneAttestations`: nothing while `lastObserved ≤ MaxKeepEventSize`; else delete every nonce ≤ the cutoff -/
def prune (lo : Nat) (atts : List Att) : List Att :=
  if lo ≤ maxKeepEventSize then atts else atts.filter (fun a => decide (lo - maxKeepEventSize < a.nonce))

/-- `GetLastEventNonceByOracle`, with the fallback for an absent key -/
def effLast (s : State) (o : Nat) : Nat :=
  match s.lastNonce.get o with
  | some v => v
  | none => s.lastObserved - 1

def insertNonce (l : List Nat) (n : Nat) : List Nat := if l.contains n then l else n :: l

/-- `claimLogicCheck`: members of an oracle-set claim must be bound external addresses -/
def logicCheck (s : State) : Kind → Bool
  | .oracleSet ms => ms.all (fun e => (s.byExt.get e).isSome)
  | .panics ms => ms.all (fun e => (s.byExt.get e).isSome)
  | _ => true

/-- `TryAttestation` + `processAttestation` + `pruneAttestations` for the attestation just voted on -/
def tryAttest (s : State) (att : Att) (kind : Kind) : State :=
  if tally s.oracles (required s.lastTotalPower) att.votes 0 then
    let s1 : State := { s with
      lastObserved := if observeSetsLastObserved then att.nonce else s.lastObserved   -- SetLastObservedEventNonce, unconditional
      atts := if observeMarksObserved then setAtt s.atts { att with observed := true } else s.atts
      observedLog := s.observedLog ++ [(att.nonce, att.hash)] }
    let s2 : State := match kind with
      | .pending => { s1 with pending := insertNonce s1.pending att.nonce }   -- SavePendingExecuteClaim
      | _ => s1
    { s2 with atts := prune s2.lastObserved s2.atts }
  else s

/-- `MsgClaim.ValidateBasic` (the signer clause only) -/
def validateBasic (wrapper inner : Nat) : Bool := !claimValidateBasicBindsSigner || wrapper == inner

/-- the account whose signature the transaction needs (proto signer option) -/
def requiredSigner (wrapper inner : Nat) : Nat := if claimSignerIsWrapperBridger then wrapper else inner

/-- the bridger the vote is looked up for in `MsgServer.Claim` -/
def voter (wrapper inner : Nat) : Nat := if claimVoterIsWrapperBridger then wrapper else inner

/-- the attestation of (n, h) with the oracle's vote appended (a fresh one when none is stored) -/
def voteAtt (s : State) (o n h : Nat) : Att :=
  let att0 : Att := match findAtt s.atts n h with
    | some a => a
    | none => { nonce := n, hash := h, votes := [], observed := false }
  { att0 with votes := att0.votes ++ [o] }

/-- the condition under which `Attest` calls `TryAttestation` -/
def tallyCond (s : State) (att : Att) (n : Nat) : Bool :=
  tallyCalled && (!tallyRequiresNotObserved || !att.observed) && (!tallyRequiresNextNonce || n == s.lastObserved + 1)

/-- `Attest` after its contiguity check -/
def attest (s : State) (o n h : Nat) (kind : Kind) : State :=
  let att := voteAtt s o n h
  let s1 : State := { s with atts := setAtt s.atts att }
  let s2 : State := if tallyCond s att n then tryAttest s1 att kind else s1
  { s2 with lastNonce := s2.lastNonce.set o n }

/-- does the handler run in this `Attest` (the vote makes the attestation cross the bar at the next nonce)? -/
def observesNow (s : State) (o n h : Nat) : Bool :=
  tallyCond s (voteAtt s o n h) n && tally s.oracles (required s.lastTotalPower) (voteAtt s o n h).votes 0

/-- a handler that panics when it is run undoes the whole claim message: the vote, the observation, the per-oracle nonce -/
def handlerPanics (s : State) (o n h : Nat) : Kind → Bool
  | .panics _ => observeRunsHandler && observesNow s o n h
  | _ => false

def claimStep (s : State) (wrapper inner n h : Nat) (kind : Kind) : State × Out :=
  if !validateBasic wrapper inner then (s, .signerMismatch) else
  match s.byBridger.get (voter wrapper inner) with
  | none => (s, .noOracle)
  | some o =>
    match s.oracles.get o with
    | none => (s, .noOracle)
    | some orc =>
      if claimRequiresOnline && !orc.online then (s, .offline) else
      if !logicCheck s kind then (s, .invalid) else
      if attestChecksContiguity && n != effLast s o + 1 then (s, .nonContiguous) else
      if handlerPanics s o n h kind then (s, .panicked) else
      (attest s o n h kind, .ok)

/-- the same claim arriving inside a SIGNED TRANSACTION (wire round trip + ante handler + message router): it reaches
`MsgServer.Claim` only if a transaction can carry it — regenerated `claimTxDeliverable` (`MsgClaim` registered as a message AND
unpacking its wrapped claim); otherwise the transaction fails in `ValidateBasic` and nothing happens (round 4) -/
def txClaimStep (s : State) (wrapper inner n h : Nat) (kind : Kind) : State × Out :=
  if !claimTxDeliverable then (s, .undeliverable) else claimStep s wrapper inner n h kind

def bondStep (s : State) (o b e amt : Nat) (dep : Bool) : State × Out :=
  if !s.proposal.contains o then (s, .noOracle) else
  if (s.oracles.get o).isSome then (s, .invalid) else
  if (s.byBridger.get b).isSome then (s, .invalid) else
  if (s.byExt.get e).isSome then (s, .invalid) else
  if amt < s.params.threshold then (s, .belowMin) else
  if s.params.threshold * s.params.multiple < amt then (s, .aboveMax) else
  if !dep then (s, .dep) else
  (applyRefresh bondRefreshRule true s { s with
    oracles := s.oracles.set o { bridger := b, ext := e, stake := amt, online := true, slashTimes := 0 }
    byBridger := s.byBridger.set b o
    byExt := s.byExt.set e o }, .ok)

/-- `AddDelegate` once the oracle is found; `sl` is its pending slash amount -/
def addDelegateTo (s : State) (o : Nat) (orc : Oracle) (sl amt : Nat) (dep : Bool) : State × Out :=
  if 0 < sl && amt < sl then (s, .invalid) else
  if s.params.threshold * s.params.multiple < amt - sl then (s, .aboveMax) else   -- the addition alone exceeds the maximum
  if orc.stake + (amt - sl) < s.params.threshold then (s, .belowMin) else
  if s.params.threshold * s.params.multiple < orc.stake + (amt - sl) then (s, .aboveMax) else
  if !dep then (s, .dep) else
  (applyRefresh addDelegateRefreshRule (decide (0 < amt - sl)) s
    { s with oracles := s.oracles.set o { orc with stake := orc.stake + (amt - sl), online := true, slashTimes := 0 } }, .ok)

def addDelegateStep (s : State) (o amt : Nat) (dep : Bool) : State × Out :=
  if !s.proposal.contains o then (s, .noOracle) else
  match s.oracles.get o with
  | none => (s, .noOracle)
  | some orc => addDelegateTo s o orc (orc.slashAmount s.params.slashFrac) amt dep

/-- the bridger index after `EditBridger`: `DelOracleAddrByBridgerAddr(oracle.GetBridger())` runs BEFORE the record's bridger
is overwritten (regenerated order); the other way round it deletes the entry of the NEW bridger and keeps the old one -/
def editIndex (m : Map Nat) (old b o : Nat) : Map Nat :=
  (m.del (if editBridgerDeletesOldIndexFirst then old else b)).set b o

def editBridgerStep (s : State) (o b : Nat) : State × Out :=
  match s.oracles.get o with
  | none => (s, .noOracle)
  | some orc =>
    if !orc.online then (s, .offline) else
    if orc.bridger = b then (s, .invalid) else
    if (s.byBridger.get b).isSome then (s, .invalid) else
    ({ s with
        oracles := s.oracles.set o { orc with bridger := b }
        byBridger := editIndex s.byBridger orc.bridger b o }, .ok)

/-- what a successful `UnbondedOracle` does to the store -/
def unbondApply (s : State) (o : Nat) (orc : Oracle) : State :=
  { s with
    byExt := s.byExt.del orc.ext
    byBridger := s.byBridger.del orc.bridger
    oracles := s.oracles.del o
    lastNonce := if unbondDeletesLastNonce then s.lastNonce.del o else s.lastNonce
    retired := if unbondDeletesLastNonce then o :: s.retired else s.retired }

def unbondStep (s : State) (o : Nat) (ubd : Bool) (bal : Nat) (dep : Bool) : State × Out :=
  if s.proposal.contains o then (s, .invalid) else
  match s.oracles.get o with
  | none => (s, .noOracle)
  | some orc =>
    if orc.online then (s, .invalid) else
    if unbondUbdRule = .requireExists && !ubd then (s, .dep) else   -- stakingKeeper.GetUnbondingDelegation error returned
    if unbondUbdRule = .refuseIfExists && ubd then (s, .invalid) else -- "exist unbonding delegation"
    if 0 < orc.slashAmount s.params.slashFrac && bal < orc.slashAmount s.params.slashFrac then (s, .invalid) else
    if !dep then (s, .dep) else
    (unbondApply s o orc, .ok)

/-- oracles that `UpdateProposalOracles` unbonds: registered, in the old proposal, not in the new one -/
def govRemoved (s : State) (l : List Nat) (p : Nat × Oracle) : Bool := !l.contains p.1 && s.proposal.contains p.1

/-- Σ online power of the oracles being removed -/
def govDeleted (s : State) (l : List Nat) : Nat := onlinePower (s.oracles.filter (govRemoved s l))

def govStep (s : State) (l : List Nat) (dep : Bool) : State × Out :=
  if maxOracleSize < l.length then (s, .invalid) else
  if 0 < govDeleted s l && govChangeThreshold * onlinePower s.oracles / 100 ≤ govDeleted s l then (s, .invalid) else
  if !dep then (s, .dep) else
  if refreshOnGovUpdate
  then (refresh { s with
    proposal := l
    oracles := s.oracles.map (fun p => if govRemoved s l p then (p.1, { p.2 with online := false }) else p) }, .ok)
  else ({ s with
    proposal := l
    oracles := s.oracles.map (fun p => if govRemoved s l p then (p.1, { p.2 with online := false }) else p) }, .ok)

/-- `SlashOracle` -/
def slashOne (m : Map Oracle) (o : Nat) : Map Oracle :=
  match m.get o with
  | some orc => if orc.online then m.set o { orc with online := false, slashTimes := orc.slashTimes + 1 } else m
  | none => m

def endBlockStep (s : State) (slashed : List Nat) (osr : Bool) : State × Out :=
  if (refreshOnSlash && !slashed.isEmpty) || (refreshOnOracleSetRequest && osr)
  then (refresh { s with oracles := slashed.foldl slashOne s.oracles }, .ok)
  else ({ s with oracles := slashed.foldl slashOne s.oracles }, .ok)

/-! ## deferred execution (`ExecuteClaim` through the `executeClaim` precompile), with re-entrancy -/

/-- the two store components `ExecuteClaim` and its handlers touch in this model: the parked claims [0x54] and the ghost
log of handler effects -/
structure Px where
  pending : List Nat
  log : List Nat
  deriving DecidableEq, Repr

/-- `DeletePendingExecuteClaim` (nothing if `ExecuteClaim` has no such call) -/
def delPending (l : List Nat) (n : Nat) : List Nat := if execDeletesPending then l.filter (fun m => m != n) else l

/-- a forest of `ExecuteClaim` calls, each step in source order.  `df` = the parked entry is deleted BEFORE the handler runs.
For one call: (1) `GetPendingExecuteClaim` — not found: error, nothing happens, the contract is not called;
(2) if `df`: delete the entry; (3) the handler's own effects (ghost: `log ++ [n]`); (4) the called-back contract makes
the calls `inner`; (5) the handler ends: `fail` → the whole native action is reverted (state as before the call),
`refund` → the contract call's cache context is dropped (state as after (3)) and the claim is consumed,
`ok` → everything is kept; (6) if not `df`: delete the entry now. -/
def execCallsWith (df : Bool) (p : Px) : Calls → Px
  | .nil => p
  | .call n o inner next =>
    let p' : Px :=
      if execChecksPending && !p.pending.contains n then p else
      let p1 : Px := { pending := if df then delPending p.pending n else p.pending, log := p.log ++ [n] }
      match o with
      | .fail => p
      | .refund => { pending := delPending p.pending n, log := p.log ++ [n] }
      | .ok =>
        let p2 := execCallsWith df p1 inner
        { p2 with pending := if df then p2.pending else delPending p2.pending n }
    execCallsWith df p' next

/-- the order of the source -/
def execCalls (p : Px) (c : Calls) : Px := execCallsWith execDeletesBeforeHandler p c

/-- `executeClaim(chain, n)` sent to the precompile by an externally owned account -/
def execStep (s : State) (n : Nat) (o : Outcome) (inner : Calls) : State × Out :=
  if execChecksPending && !s.pending.contains n then (s, .notFound) else
  if o = .fail then (s, .execFailed) else
  let p := execCalls { pending := s.pending, log := s.executedLog } (.call n o inner .nil)
  ({ s with pending := p.pending, executedLog := p.log }, .ok)

def step (s : State) : Op → State × Out
  | .claim w i n h k _ => claimStep s w i n h k
  | .bond o b e a d => bondStep s o b e a d
  | .addDelegate o a d => addDelegateStep s o a d
  | .editBridger o b => editBridgerStep s o b
  | .unbond o u bal d => unbondStep s o u bal d
  | .gov l d => govStep s l d
  | .endBlock sl osr => endBlockStep s sl osr
  | .exec n o c => execStep s n o c

/-- no `BondedOracle` of the history targets an oracle whose last nonce was deleted by an earlier `UnbondedOracle`
(i.e. there is no unbond → re-bond of the same oracle address) -/
def noRebond (s : State) : List Op → Bool
  | [] => true
  | .bond o b e a d :: r => !s.retired.contains o && noRebond (step s (.bond o b e a d)).1 r
  | op :: r => noRebond (step s op).1 r

def run (s : State) : List Op → State
  | [] => s
  | op :: ops => run (step s op).1 ops

end FxVerif.Model.C01
