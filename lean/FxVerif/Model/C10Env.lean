import FxVerif.Model.C10
/-!
# C10, round 5 — histories in which the ENVIRONMENT acts between two precompile calls

Until round 4 a history was a list of precompile calls (`HOp`) on a validator whose exchange rate only the three delegation
methods could change.  On the chain the rate also changes BETWEEN two calls: the staking module slashes the validator
(`Keeper.Slash`, reached from evidence / downtime handling, never from a precompile).  `EStep` interleaves such steps with
the calls; the property's "never reduced … unless that account granted a share allowance" is then a statement about the
delegation RECORDS (raw shares, allowances, unbonding entries, queued withdrawals) over every such interleaving — what a
slash does to the worth of every delegation alike is not an act of a precompile caller.

`Keeper.Slash(consAddr, infractionHeight = current height, power, factor)` (cosmos-sdk x/staking/keeper/slash.go):
`amount = TokensFromConsensusPower(power)`, `slashAmount = amount · factor` truncated; at the current height no unbonding
entry and no redelegation is visited; `tokensToBurn = min(slashAmount, validator.Tokens)`; `RemoveValidatorTokens`.  No
delegation, allowance or unbonding record is read or written.
-/
namespace FxVerif.Model.C10

/-- `slashAmount`: `power · powerReduction` tokens times `pct / 100` (an `sdk.Dec` with two decimals), truncated -/
def slashAmount (power powerReduction pct : Nat) : Nat := power * powerReduction * pct / 100

/-- the validator loses `min burn vTok` bonded tokens; its delegator shares and every record stay -/
def World.slash (w : World) (burn : Nat) : World := { w with vTok := w.vTok - min burn w.vTok }

/-- tokens that a `redelegateV2(amt)` of `p` takes out of the world's validator (and `BeginRedelegation` delegates to the
destination validator with `subtractAccount = false`): the rewards are paid first (they do not change the rate) -/
def redelegateOut (w : World) (p : Addr) (amt : Nat) : Nat := (claim w p).tokensFor ((claim w p).sharesFor amt)

/-- a step of a history: a precompile call, or a slash of the validator by the staking module -/
inductive EStep
  | call (o : HOp)
  | slash (power powerReduction pct : Nat)

def applyE (w : World) : EStep → World
  | .call o => applyOp w o
  | .slash p r c => w.slash (slashAmount p r c)

def runE (steps : List EStep) (w : World) : World := steps.foldl applyE w

/-- the calls of a history, in order -/
def callsOf : List EStep → List HOp
  | [] => []
  | .call o :: r => o :: callsOf r
  | .slash _ _ _ :: r => callsOf r

def spentByE (a c : Addr) (w : World) : EStep → Nat
  | .call o => spentBy a c w o
  | .slash _ _ _ => 0

def totalSpentE (a c : Addr) : List EStep → World → Nat
  | [], _ => 0
  | s :: r, w => spentByE a c w s + totalSpentE a c r (applyE w s)

def movedFromE (a : Addr) (w : World) : EStep → Nat
  | .call o => movedFrom a w o
  | .slash _ _ _ => 0

def totalMovedE (a : Addr) : List EStep → World → Nat
  | [], _ => 0
  | s :: r, w => movedFromE a w s + totalMovedE a r (applyE w s)

end FxVerif.Model.C10
