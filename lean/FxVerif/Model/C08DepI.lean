import FxVerif.Model.C08Dep
import FxVerif.Gen.C08e
/-!
# C08 — the StateDB storage cache and journal AS THE FORK'S SOURCE SAYS (round 5)

Every function here is `exec` of a statement list regenerated from the ethermint fork in the module cache (`Gen/C08e.lean`);
the call graph (`GetState → GetCommittedState`, `SetState → GetState, setState`, `storageChange.Revert → setState`) is given
by the names the regenerated statements call: an unknown name, an unknown statement or a missing variable makes the
interpretation `none`.  `journaled` runs of reads / writes / native-store changes and the replay of the journal segment of a
frame (`iRevertTo`) are what `Outer.revertTo` of `Model/C08Journal.lean` is proved equal to.  Core Lean only.
-/
namespace FxVerif.Model.C08Dep
open FxVerif.Model.C08Cache
open FxVerif.Gen.C08e

/-- `(*stateObject).GetCommittedState(key)` -/
def iGetCommitted (k : Slot) (s : ObjSt) : Option (Nat × ObjSt) :=
  match exec noCallees k getCommittedState_body [] s with
  | (.returned (some v), s1) => some (v, s1)
  | _ => none

def calleesGet : Callees :=
  ⟨fun f k s => if f = "GetCommittedState" then iGetCommitted k s else none, fun _ _ _ _ => none⟩

/-- `(*stateObject).GetState(key)` -/
def iGetState (k : Slot) (s : ObjSt) : Option (Nat × ObjSt) :=
  match exec calleesGet k getState_body [] s with
  | (.returned (some v), s1) => some (v, s1)
  | _ => none

/-- `(*stateObject).setState(key, value)` -/
def iSetRaw (k : Slot) (v : Nat) (s : ObjSt) : Option ObjSt :=
  match exec noCallees k setState_body [("value", v)] s with
  | (.fell _, s1) => some s1
  | _ => none

def calleesSet : Callees :=
  ⟨fun f k s => if f = "GetState" then iGetState k s else none,
   fun f k v s => if f = "setState" then iSetRaw k v s else none⟩

/-- `(*stateObject).SetState(key, value)` -/
def iSetState (k : Slot) (v : Nat) (s : ObjSt) : Option ObjSt :=
  match exec calleesSet k setStateJ_body [("value", v)] s with
  | (.fell _, s1) => some s1
  | (.returned none, s1) => some s1
  | _ => none

/-- `storageChange{key, prevalue}.Revert(s)` -/
def iRevertEntry (kp : Slot × Nat) (s : ObjSt) : Option ObjSt :=
  match exec calleesSet kp.1 storageChangeRevert_body [("prevalue", kp.2)] s with
  | (.fell _, s1) => some s1
  | _ => none

def revertAll : List (Slot × Nat) → ObjSt → Option ObjSt
  | [], s => some s
  | kp :: rest, s =>
    match iRevertEntry kp s with
    | some s1 => revertAll rest s1
    | none => none

/-- `(*journal).Revert(statedb, snapshot)` restricted to storage entries: `seg` = the entries appended since the snapshot
(newest first), `j0` = the entries below it.  The order in which they are undone is the one the loop header says. -/
def iRevertTo (seg j0 : List (Slot × Nat)) (cur : Outer) : Option ObjSt :=
  if journalRevert_revertsEntry then
    match revertAll (if journalRevert_newestFirst then seg else seg.reverse) ⟨cur, seg ++ j0⟩ with
    | some s1 => some { s1 with journal := if journalRevert_truncates then j0 else s1.journal }
    | none => none
  else none

/-- the body of `for _, key := range obj.dirtyStorage.SortedKeys()` in `Commit` -/
def iCommitSlot (k : Slot) (s : ObjSt) : Option ObjSt :=
  match exec noCallees k commitSlot_body [] s with
  | (.fell _, s1) => some s1
  | (.returned none, s1) => some s1
  | _ => none

def commitKeys : List Slot → ObjSt → Option ObjSt
  | [], s => some s
  | k :: rest, s =>
    match iCommitSlot k s with
    | some s1 => commitKeys rest s1
    | none => none

/-- the slot loop of `(*StateDB).Commit` for one object -/
def iCommit (s : ObjSt) : Option ObjSt :=
  if commit_rangesOverDirtyKeys then commitKeys (s.o.dirty.map (·.1)) s else none

/-! ### journaled runs: what a frame may do to one contract's storage between `Snapshot` and `RevertToSnapshot` -/

inductive Acc where
  /-- SLOAD -/
  | rd (k : Slot)
  /-- SSTORE -/
  | wr (k : Slot) (v : Nat)
  /-- a keeper-level nested call (or any native action) replaced the store behind the StateDB -/
  | native (st : Store)

/-- the hand model with the journal made explicit: `Outer.read`, `Outer.write` + the entry `SetState` appends -/
def stepAcc (s : ObjSt) : Acc → ObjSt
  | .rd k => { s with o := (s.o.read k).2 }
  | .wr k v =>
    if (s.o.read k).1 = v then { s with o := (s.o.read k).2 }
    else ⟨s.o.write k v, (k, (s.o.read k).1) :: s.journal⟩
  | .native st => { s with o := { s.o with store := st } }

def runAcc : List Acc → ObjSt → ObjSt
  | [], s => s
  | a :: rest, s => runAcc rest (stepAcc s a)

/-- the same run through the interpreted source -/
def iStepAcc (s : ObjSt) : Acc → Option ObjSt
  | .rd k => (iGetState k s).map (·.2)
  | .wr k v => iSetState k v s
  | .native st => some { s with o := { s.o with store := st } }

/-- the accesses a token program makes when run through the StateDB -/
def accsOf : TProg → Outer → List Acc
  | .done _, _ => []
  | .read k cont, o => .rd k :: accsOf (cont (o.read k).1) (o.read k).2
  | .write k v cont, o => .wr k v :: accsOf cont (o.write k v)

end FxVerif.Model.C08Dep

namespace FxVerif.Model.C08Dep
open FxVerif.Model.C08Cache
open FxVerif.Gen.C08e

/-! ### whole transactions through the interpreted source -/

/-- a token program executed by the running EVM: every SLOAD / SSTORE goes through the regenerated `GetState` / `SetState` -/
def iRunProg : TProg → ObjSt → Option (Bool × ObjSt)
  | .done ok, s => some (ok, s)
  | .read k cont, s =>
    match iGetState k s with
    | some (v, s1) => iRunProg (cont v) s1
    | none => none
  | .write k v cont, s =>
    match iSetState k v s with
    | some s1 => iRunProg cont s1
    | none => none

/-- a keeper-level call: `ApplyMessageWithConfig` builds a NEW StateDB over the store (regenerated fact), runs the program
on it and — when asked to commit and the call succeeded — runs the regenerated `Commit` loop -/
def iNested (p : TProg) (st : Store) : Option (Bool × Store) :=
  if applyMessage_freshStateDB && applyMessage_commitsIffAsked then
    match iRunProg p ⟨{ store := st }, []⟩ with
    | some (true, s1) => (iCommit s1).map fun s2 => (true, s2.o.store)
    | some (false, _) => some (false, st)
    | none => none
  else none

/-- `runTx` with every storage access and every nested call interpreted; `none` = the interpretation is stuck,
`some none` = the transaction reverted -/
def iRunTx : List MStep → ObjSt → Nat → Option (Option (ObjSt × Nat))
  | [], s, esc => some (some (s, esc))
  | .evm p pay :: rest, s, esc =>
    match iRunProg p s with
    | some (true, s1) => if esc < pay then some none else iRunTx rest s1 (esc - pay)
    | some (false, _) => some none
    | none => none
  | .nested p pay gain :: rest, s, esc =>
    match iNested p s.o.store with
    | some (true, st) => if esc < pay then some none else iRunTx rest { s with o := { s.o with store := st } } (esc - pay + gain)
    | some (false, _) => some none
    | none => none

/-- the transaction as the source executes it: fresh transaction-level StateDB, the steps, `Commit` (native store first —
`commit_nativeStoreFirst` — then the dirty slots over it) -/
def iTxResult (steps : List MStep) (st : Store) (esc : Nat) : Option (Bool × Store × Nat) :=
  if commit_nativeStoreFirst then
    match iRunTx steps ⟨{ store := st }, []⟩ esc with
    | some (some (s, esc')) => (iCommit s).map fun s2 => (true, s2.o.store, esc')
    | some none => some (false, st, esc)
    | none => none
  else none

end FxVerif.Model.C08Dep

namespace FxVerif.Model.C08Dep
open FxVerif.Model.C08Cache
open FxVerif.Gen.C08e

/-! ### transactions with sub-call frames through the interpreted source -/

/-- `runTxF` interpreted: also returns the state at the point of failure -/
def iRunTxF : List MStep → ObjSt → Nat → Option ((ObjSt × Nat) × Bool)
  | [], s, esc => some ((s, esc), true)
  | .evm p pay :: rest, s, esc =>
    match iRunProg p s with
    | some (true, s1) => if esc < pay then some ((s1, esc), false) else iRunTxF rest s1 (esc - pay)
    | some (false, s1) => some ((s1, esc), false)
    | none => none
  | .nested p pay gain :: rest, s, esc =>
    match iNested p s.o.store with
    | some (true, st) =>
      if esc < pay then some ((s, esc), false)
      else iRunTxF rest { s with o := { s.o with store := st } } (esc - pay + gain)
    | some (false, _) => some ((s, esc), false)
    | none => none

/-- `runTxX` interpreted.  A frame = `Snapshot` (the journal length and the native store at that moment), the group, and on
failure `RevertToSnapshot`: the storage entries appended since the snapshot are undone by the regenerated
`storageChange.Revert` in the regenerated order (`iRevertTo`), then `nativeChange.Revert` puts the native store — and with
it the escrow — back (C09's model of the native snapshot) -/
def iRunTxX : List XStep → ObjSt → Nat → Option (Option (ObjSt × Nat))
  | [], s, esc => some (some (s, esc))
  | .plain st :: rest, s, esc =>
    match iRunTx [st] s esc with
    | some (some (s1, e1)) => iRunTxX rest s1 e1
    | some none => some none
    | none => none
  | .attempt g :: rest, s, esc =>
    match iRunTxF g s esc with
    | some ((s1, e1), true) => iRunTxX rest s1 e1
    | some ((sf, _), false) =>
      match iRevertTo (sf.journal.take (sf.journal.length - s.journal.length)) s.journal sf.o with
      | some s' => iRunTxX rest { s' with o := { s'.o with store := s.o.store } } esc
      | none => none
    | none => none

def iTxResultX (steps : List XStep) (st : Store) (esc : Nat) : Option (Bool × Store × Nat) :=
  if commit_nativeStoreFirst then
    match iRunTxX steps ⟨{ store := st }, []⟩ esc with
    | some (some (s, esc')) => (iCommit s).map fun s2 => (true, s2.o.store, esc')
    | some none => some (false, st, esc)
    | none => none
  else none

end FxVerif.Model.C08Dep
