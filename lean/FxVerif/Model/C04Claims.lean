import FxVerif.Model.C04
/-!
# C04 model, claim layer — observed claims are parked and executed later (`SavePendingExecuteClaim` / `ExecuteClaim`)

An observed `MsgSendToFxClaim` / `MsgBridgeCallClaim` / `MsgBridgeCallResultClaim` is only *saved* by the attestation
handler; anybody executes it later through the precompile `executeClaim(chain, eventNonce)`.  The handler of an inbound
bridge call hands control to arbitrary EVM code (`BridgeCallEvm` → `CallEVM(to, …)`), and that code can call
`executeClaim` again — for another parked claim or for the very claim being executed.  `ExecuteClaim` is modelled as an
interpreter over its statement list (`XStep`, regenerated from the AST): what a claim credits is a function of the
observed claim only, and it is credited at most once because the claim leaves the pending store *before* its handler
runs.

The handlers themselves are the operations of `Model/C04.lean` (`deposit`, `bcin`, `bcinfail`, `bcresult`): a successful
`exec` is a sequence of those, so every invariant of `step` carries over (`Proofs/C04Claims.lean`).
Contracts are accounts like users: contract `j` of the harness is `U (3 + j)`.
-/
namespace FxVerif.Model.C04
open FxVerif.Model.Ledger FxVerif.Model.Flows

/-- what the contract called by an inbound bridge call does: nothing (keeps the tokens), or call
`executeClaim(chain, nonce)` on the precompile, ignore the result, and return normally -/
inductive Beh where
  | keep
  | reenter (c m : Nat)
  deriving DecidableEq, Repr

inductive Claim where
  /-- `MsgSendToFxClaim` -/
  | deposit (g u n : Nat) (toErc : Bool)
  /-- `MsgBridgeCallClaim` to account / contract `to` (`beh = none`: no code at `to`) -/
  | call (to : Nat) (tokens : List (Nat × Nat)) (beh : Option Beh)
  /-- `MsgBridgeCallClaim` to a contract whose call reverts; refund address `r` -/
  | callFail (r : Nat) (tokens : List (Nat × Nat))
  /-- `MsgBridgeCallResultClaim` -/
  | result (nonce : Nat) (success : Bool)
  deriving Repr

/-- the amounts an observed claim deposits, per token group — a function of the claim only -/
def Claim.amounts : Claim → List (Nat × Nat)
  | .deposit g _ n _ => [(g, n)]
  | .call _ ts _ => ts
  | .callFail _ ts => ts
  | .result .. => []

/-- the handler of a claim is the corresponding operation of the base model -/
def Claim.handler (c : Nat) : Claim → Op
  | .deposit g u n e => .deposit c g u n e
  | .call to ts _ => .bcin c to ts
  | .callFail r ts => .bcinfail c r ts
  | .result n ok => .bcresult c n ok

/-- `BridgeCallResultHandler` panics where the other handlers return an error (unknown call nonce, failing refund) -/
def Claim.panics : Claim → Bool
  | .result .. => true
  | _ => false

/-- failure of `executeClaim`: an error (the EVM turns it into a failed CALL, which the calling contract may swallow) or a
Go panic (not an EVM error: it unwinds every enclosing call and fails the whole transaction) -/
inductive XErr where
  | err (e : Err)
  | panic
  deriving DecidableEq, Repr

def Claim.reenters : Claim → Option (Nat × Nat)
  | .call _ _ (some (.reenter c m)) => some (c, m)
  | _ => none

structure PClaim where
  nonce : Nat
  claim : Claim
  deriving Repr

structure State2 where
  base : State
  /-- pending claims per chain (`PendingExecuteClaimKey`) -/
  pend : Nat → List PClaim
  /-- ghost: every (chain, event nonce) observed so far with its claim -/
  seen : List (Nat × Nat × Claim)
  /-- ghost: one entry (chain, event nonce, group, amount) every time a handler credits a deposit -/
  credited : List (Nat × Nat × Nat × Nat)

def init2 (s : State) : State2 := ⟨s, fun _ => [], [], []⟩

def erasePend (l : List PClaim) (nonce : Nat) : List PClaim := l.filter (fun p => p.nonce != nonce)

def findPend (l : List PClaim) (nonce : Nat) : Option Claim := (l.find? (fun p => p.nonce == nonce)).map (·.claim)

def setPend (s : State2) (c : Nat) (l : List PClaim) : State2 :=
  { s with pend := fun c' => if c' = c then l else s.pend c' }

/-- statements of `ExecuteClaim` the model uses (obliged to equal `Gen.C04.executeClaim_steps`) -/
def execSteps : List XStep := [.lookup, .delete, .handle]

/-- the state after the handler of claim `cl` of event (c, nonce) ran with base result `b`: ghost `credited` records what
the handler credited — the claim's amounts -/
def afterHandle (s : State2) (c nonce : Nat) (cl : Claim) (b : State) : State2 :=
  { s with base := b, credited := s.credited ++ cl.amounts.map (fun t => (c, nonce, t.1, t.2)) }

/-- the statements of `ExecuteClaim(chain c, nonce)`, given what a nested `executeClaim` call does (`nested`).  A failing
nested call is swallowed by the calling contract (its effects are reverted, the contract returns normally); a failing
handler fails the whole execution (the caller's cache context drops every write, also the deletion). -/
def runX (cfg : Cfg) (nested : State2 → Nat → Nat → Except XErr State2) (c nonce : Nat) :
    List XStep → State2 → Option Claim → Except XErr State2
  | [], s, _ => .ok s
  | .lookup :: r, s, _ =>
    match findPend (s.pend c) nonce with
    | none => .error (.err .notFound)
    | some cl => runX cfg nested c nonce r s (some cl)
  | .delete :: r, s, f => runX cfg nested c nonce r (setPend s c (erasePend (s.pend c) nonce)) f
  | .handle :: r, s, f =>
    match f with
    | none => .error (.err .invalid)
    | some cl =>
      match step cfg s.base (cl.handler c) with
      | .error e => .error (if cl.panics then .panic else .err e)
      | .ok b =>
        let s1 := afterHandle s c nonce cl b
        match cl.reenters with
        | none => runX cfg nested c nonce r s1 f
        | some (c', m) =>
          match nested s1 c' m with
          | .ok s' => runX cfg nested c nonce r s' f
          | .error (.err _) => runX cfg nested c nonce r s1 f
          | .error .panic => .error .panic

/-- `ExecuteClaim` with statement list `steps`; `fuel` bounds the nesting of re-entrant calls -/
def execWith (cfg : Cfg) (steps : List XStep) : Nat → State2 → Nat → Nat → Except XErr State2
  | 0, _, _, _ => .error (.err .invalid)
  | fuel + 1, s, c, nonce => runX cfg (execWith cfg steps fuel) c nonce steps s none

def pendCount (s : State2) : Nat := (s.pend 0).length + (s.pend 1).length + (s.pend 2).length

inductive Op2 where
  | base (op : Op)
  /-- the attestation of event `nonce` of chain `c` is observed: `SavePendingExecuteClaim` -/
  | observe (c nonce : Nat) (claim : Claim)
  /-- precompile `executeClaim(c, nonce)` -/
  | exec (c nonce : Nat)
  deriving Repr

/-- handlers run only through claims in this layer -/
def Op.isHandler : Op → Bool
  | .deposit .. | .bcin .. | .bcinfail .. | .bcresult .. => true
  | _ => false

def step2With (cfg : Cfg) (steps : List XStep) (s : State2) : Op2 → Except Err State2
  | .base op =>
    if op.isHandler then .error .invalid else
    match step cfg s.base op with
    | .ok b => .ok { s with base := b }
    | .error e => .error e
  | .observe c nonce claim =>
    -- event nonces are unique per chain (C01)
    if c ≥ nChains ∨ s.seen.any (fun e => e.1 == c && e.2.1 == nonce) then .error .invalid else
    .ok { setPend s c (⟨nonce, claim⟩ :: s.pend c) with seen := (c, nonce, claim) :: s.seen }
  | .exec c nonce =>
    if c ≥ nChains then .error .notFound else
    match execWith cfg steps (pendCount s + 1) s c nonce with
    | .ok s' => .ok s'
    | .error _ => .error .invalid

def step2 (cfg : Cfg) : State2 → Op2 → Except Err State2 := step2With cfg execSteps

def stepT2 (cfg : Cfg) (s : State2) (op : Op2) : State2 :=
  match step2 cfg s op with
  | .ok s' => s'
  | .error _ => s

def runOps2 (cfg : Cfg) (s : State2) (ops : List Op2) : State2 := ops.foldl (stepT2 cfg) s

/-- total credited so far for event `nonce` of chain `c` in group `g` -/
def creditedFor (s : State2) (c nonce g : Nat) : Nat :=
  (s.credited.map (fun e => if e.1 = c ∧ e.2.1 = nonce ∧ e.2.2.1 = g then e.2.2.2 else 0)).sum

end FxVerif.Model.C04
