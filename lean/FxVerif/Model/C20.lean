import FxVerif.Gen.C20
import FxVerif.Gen.C20Sites
import FxVerif.Model.C20Run
/-!
# C20 — hand-written part of the model

* `reviewedSafe`: the reviewed list for the regenerated inventory of potentially panicking
  constructs (`Gen/C20Sites.lean`), keyed by (package, function, kind, expression) — never by line;
* models of the pure decoders: `ParseFxTarget`, `StrToByte32`, the Ethereum-address format class, hex strings.
-/
namespace FxVerif.Model.C20
open FxVerif.Model.C20Base

/-! ## reviewed sites -/

/-- a reviewed entry; `recv := "*"` = "method `meth` of any receiver type in the package" -/
structure Reviewed where
  pkg : String
  recv : String := ""
  meth : String
  kind : String
  expr : String
  why : String

def Reviewed.covers (r : Reviewed) (s : Site) : Bool :=
  r.pkg == s.pkg && r.kind == s.kind && r.expr == s.expr && r.meth == s.meth &&
    (r.recv == s.recv || (r.recv == "*" && s.recv != ""))

/-- sites read and argued unable to panic -/
def reviewedSafe : List Reviewed := [
  { pkg := "x/crosschain/types", recv := "BridgeCallArgs", meth := "Validate", kind := "nilint", expr := "args.Value.Sign()",
    why := "only reached through ParseMethodArgs after abi.Arguments.Copy, which stores a non-nil *big.Int for every uint256 input (go-ethereum ABI, trusted); harness: random/mutated calldata through the real precompile" },
  { pkg := "x/crosschain/types", recv := "ERC20Token", meth := "ValidateBasic", kind := "nilint", expr := "m.Amount.IsPositive()",
    why := "no caller in fx-core (ERC20Token is a stored batch item, not a message or packet field); not reachable from hostile input" },
  { pkg := "x/ibc/middleware/types", recv := "IbcCallEvmPacket", meth := "ValidateBasic", kind := "nilint", expr := "icep.Value.IsNegative()",
    why := "the only decoder of a MemoPacket is codec.UnmarshalInterfaceJSON on the ICS-20 memo (keeper.HandlerIbcCall); gogoproto jsonpb leaves the non-nullable customtype sdkmath.Int initialised (0) when the key is absent and rejects null and the empty string; the suspected nil dereference (DESIGN 6-L) reproduces only on a hand-built struct, not through the real decode path; the harness memo stream checks that Value.IsNil() never holds after decoding" },
  { pkg := "x/crosschain/types", meth := "EthAddressFromSignature", kind := "deref", expr := "*pubkey",
    why := "pubkey, err := crypto.SigToPub(..); err != nil returns first; SigToPub never returns (nil, nil)" },
  { pkg := "x/migrate/types", recv := "MsgMigrateAccount", meth := "ValidateBasic", kind := "deref", expr := "*pubKey",
    why := "pubKey, err := crypto.SigToPub(..); err != nil returns first; SigToPub never returns (nil, nil)" },
  { pkg := "x/crosschain/precompile", recv := "*", meth := "UnpackInput", kind := "slice", expr := "data[4:]",
    why := "called with contract.Input from method.Run, which Contract.Run only reaches after `len(contract.Input) <= 4 → error` (obligation precompile_dispatch_length_checked)" },
  { pkg := "x/staking/precompile", recv := "*", meth := "UnpackInput", kind := "slice", expr := "data[4:]",
    why := "as above, for the staking precompile" },
  { pkg := "x/crosschain/precompile", recv := "Contract", meth := "Run", kind := "assert", expr := "evm.StateDB.(evmtypes.ExtStateDB)",
    why := "the EVM is only constructed by the ethermint keeper with its own *statedb.StateDB, which implements ExtStateDB (dependency wiring, exercised by the harness)" },
  { pkg := "x/staking/precompile", recv := "Contract", meth := "Run", kind := "assert", expr := "evm.StateDB.(evmtypes.ExtStateDB)",
    why := "as above" }
]

/-- An untyped-inventory site of package `ante` is accepted only through the TYPED ante inventory
(`Gen.C20Run.anteSites`, obligation `ante_sites_ok`): same function, same expression, guarded or reviewed there.
(Round 1 accepted three index sites because they "run under the deferred Recover of NewAnteHandler"; a recovered panic is
answered with ErrPanic and is a violation, so that list is gone.) -/
def coveredByTypedAnte (s : Site) : Bool :=
  s.pkg == "ante" && FxVerif.Gen.C20Run.anteSites.any fun t =>
    t.recv == s.recv && t.meth == s.meth && t.expr == s.expr && FxVerif.Model.C20Run.anteSiteOk t

def siteOk (s : Site) : Bool :=
  s.guarded || reviewedSafe.any (·.covers s) || coveredByTypedAnte s

/-! ## StrToByte32 -/

/-- `StrToByte32`: bytes of the string, right-padded with zeros; error when longer than 32 bytes -/
def strToByte32 (bs : List Nat) : Except String (List Nat) :=
  if bs.length > 32 then .error "string too long" else .ok (bs ++ List.replicate (32 - bs.length) 0)

/-! ## Byte32ToString: drop the trailing zero bytes (`Gen.C20.byte32ToStringShape`) -/

def byte32ToString (bs : List Nat) : List Nat := (bs.reverse.dropWhile (· == 0)).reverse

/-! ## ValidateModuleName: `^[a-zA-Z][a-zA-Z0-9/]{1,32}$` on the bytes of the name (`Gen.C20.moduleNameRegex`; Go's RE2 classes are
ASCII, a byte ≥ 0x80 or an invalid UTF-8 sequence matches none of them, `$` without flags is end of text) -/

def isLetterB (b : Nat) : Bool := (65 ≤ b && b ≤ 90) || (97 ≤ b && b ≤ 122)

def isAlnumSlashB (b : Nat) : Bool := isLetterB b || (48 ≤ b && b ≤ 57) || b == 47

/-- `ValidateModuleName(name) == nil` -/
def validateModuleName (bs : List Nat) : Bool :=
  match bs with
  | [] => false
  | h :: t => isLetterB h && decide (1 ≤ t.length) && decide (t.length ≤ 32) && t.all isAlnumSlashB

/-! ## hex strings (`hex.DecodeString` succeeds) -/

def isHexChar (c : Char) : Bool :=
  ('0' ≤ c && c ≤ '9') || ('a' ≤ c && c ≤ 'f') || ('A' ≤ c && c ≤ 'F')

def isHexString (s : List Char) : Bool := s.length % 2 == 0 && s.all isHexChar

/-! ## Ethereum address format class (`contract.ValidateEthereumAddress` before the checksum comparison) -/

inductive AddrErr where | empty | wrongLength | invalidFormat | checksumMismatch
  deriving DecidableEq, Repr

/-- `checksumOk` abstracts `common.HexToAddress(a).Hex() == a` (Keccak-256, not modelled) -/
def validateEthereumAddress (checksumOk : List Char → Bool) (a : List Char) : Except AddrErr Unit :=
  if a.isEmpty then .error .empty
  else if a.length != 42 then .error .wrongLength
  else if !(a.take 2 == ['0', 'x'] && (a.drop 2).all isHexChar) then .error .invalidFormat
  else if !checksumOk a then .error .checksumMismatch
  else .ok ()

/-- `fxtypes.ParseAddress`: a bech32 string of any prefix first (`bech32.DecodeAndConvert`, not modelled: `bech32Ok`), else an
EIP-55 hex address; the result says whether the EVM form was used; an error when neither parses.  Total. -/
def parseAddress (bech32Ok checksumOk : List Char → Bool) (a : List Char) : Except AddrErr Bool :=
  if bech32Ok a then .ok false
  else match validateEthereumAddress checksumOk a with
    | .ok () => .ok true
    | .error e => .error e

/-- `^0x[0-9a-fA-F]{40}$` -/
def ethFormat (a : List Char) : Prop := a.length = 42 ∧ a.take 2 = ['0', 'x'] ∧ (a.drop 2).all isHexChar = true

/-! ## ParseFxTarget -/

/-- `strings.Split(s, "/")` -/
def splitSlash : List Char → List (List Char)
  | [] => [[]]
  | c :: rest =>
    match splitSlash rest with
    | [] => [[c]]   -- unreachable: splitSlash never returns []
    | hd :: tl => if c == '/' then [] :: hd :: tl else (c :: hd) :: tl

def stripPrefix (p s : List Char) : Option (List Char) :=
  if p.isPrefixOf s then some (s.drop p.length) else none

/-- `strings.TrimPrefix` -/
def trimPrefix (p s : List Char) : List Char := (stripPrefix p s).getD s

def isDigit (c : Char) : Bool := '0' ≤ c && c ≤ '9'

def digitsVal (ds : List Char) : Nat := ds.foldl (fun acc c => acc * 10 + (c.toNat - '0'.toNat)) 0

/-- ibc-go `channeltypes.IsValidChannelID`: `channel-` followed by 1–20 decimal digits whose value fits in uint64 -/
def isValidChannelID (s : List Char) : Bool :=
  match stripPrefix "channel-".toList s with
  | some ds => !ds.isEmpty && ds.length ≤ 20 && ds.all isDigit && digitsVal ds < 2 ^ 64
  | none => false

/-- Go `unicode.IsSpace` on the Latin-1 range plus the BMP spaces `strings.TrimSpace` removes -/
def isSpace (c : Char) : Bool :=
  c == ' ' || c == '\t' || c == '\n' || c == '\x0b' || c == '\x0c' || c == '\r' || c.toNat == 0x85 || c.toNat == 0xA0 ||
  c.toNat == 0x1680 || (0x2000 ≤ c.toNat && c.toNat ≤ 0x200a) || c.toNat == 0x2028 || c.toNat == 0x2029 ||
  c.toNat == 0x202f || c.toNat == 0x205f || c.toNat == 0x3000

structure FxTarget where
  isIBC : Bool
  target : List Char := []
  pfx : List Char := []
  sourcePort : List Char := []
  sourceChannel : List Char := []
  deriving DecidableEq, Repr

/-- `FxTarget.IBCValidate` -/
def ibcValidate (t : FxTarget) : Bool :=
  t.isIBC && t.sourcePort == "transfer".toList && isValidChannelID t.sourceChannel && !(t.pfx.all isSpace)

def plainTarget (t : List Char) : FxTarget := { isIBC := false, target := t }

/-- `if !fxTarget.IBCValidate() { return FxTarget{isIBC: false, target: targetStr} }; return fxTarget` -/
def checkedTarget (ft : FxTarget) (fallback : List Char) : FxTarget :=
  if ibcValidate ft then ft else plainTarget fallback

/-- `px/transfer/channel-0` -/
def threeParts (t : List Char) : FxTarget :=
  match splitSlash t with
  | [a, b, c] => checkedTarget { isIBC := true, pfx := a, sourcePort := b, sourceChannel := c } t
  | _ => plainTarget t

/-- `ibc/{channelId}/{prefix}`, `ibc/{prefix}/transfer/channel-{id}` -/
def ibcPrefixed (s : List Char) : FxTarget :=
  match splitSlash s with
  | [_, ch, px] =>
    checkedTarget { isIBC := true, pfx := px, sourcePort := "transfer".toList, sourceChannel := "channel-".toList ++ ch } s
  | [_, _, _, _] => threeParts (trimPrefix "ibc/".toList s)
  | _ => plainTarget s

/-- `ParseFxTarget(targetStr)` (the `isHex` variant first hex-decodes, ignoring errors; the driver does that step) -/
def parseFxTarget (s0 : List Char) : FxTarget :=
  if s0 == "module/evm".toList then { isIBC := false, target := "erc20".toList } else
  let s := trimPrefix "chain/".toList s0
  if s == "gravity".toList then { isIBC := false, target := "eth".toList } else
  if "ibc/".toList.isPrefixOf s then ibcPrefixed s else threeParts s

end FxVerif.Model.C20
