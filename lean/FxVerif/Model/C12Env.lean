import FxVerif.Gen.C12Env
import FxVerif.Model.C12
/-!
# C12 model, part 5 (round 4) — where the padded / cast values come from

`Gen/C12Env.lean` (regenerated) gives: `fxtypes.StrToByte32` (gravity id / tag text ↦ bytes32), the gravity-id checks and the
numeric bounds of `Params.ValidateBasic`, `CalExternalTimeoutHeight` as a statement list over `uint64` expressions, the
builders of the three signed objects, the power normalisation of `GetCurrentOracleSet`, `autoIncrementID`.  This file gives
them an executable meaning (interpreters, core Lean only); `Proofs/C12Env.lean` and section 12–14 of `Props/C12.lean` prove
the facts about them.
-/
namespace FxVerif.Model.C12
open FxVerif.Gen.C12Env

/-! ## `StrToByte32` -/

/-- Go `copy(dst, src)` into a zeroed array of `n` bytes: the first `min n len` bytes of `src`, the rest stays zero -/
def copyInto (n : Nat) (src : List Nat) : List Nat := src.take n ++ List.replicate (n - src.length) 0

def cmpOp (op : String) (a b : Nat) : Option Bool :=
  if op == ">" then some (decide (a > b)) else if op == ">=" then some (decide (a ≥ b))
  else if op == "<" then some (decide (a < b)) else if op == "<=" then some (decide (a ≤ b))
  else if op == "==" then some (a == b) else if op == "!=" then some (a != b) else none

/-- the body of `StrToByte32` has the shape the interpreter understands (byte length of the parameter compared with a
literal, `copy` of the parameter into the whole array) -/
def str32Modelled (S : Str32) : Bool :=
  (S.guardSubject == "len([]byte(s))" || S.guardSubject == "len(s)") && (cmpOp S.guardOp 0 0).isSome &&
  S.copyDst == "out[:]" && S.copySrc == "s" && S.stmts.length == 4

/-- `StrToByte32` as the source spells it, on the bytes of a Go string: `none` = the error return -/
def strToByte32By (S : Str32) (s : List Nat) : Option (List Nat) :=
  match cmpOp S.guardOp s.length S.guardBound with
  | some false => some (copyInto S.arrayLen s)
  | _ => none

def strToByte32 (s : List Nat) : Option (List Nat) := strToByte32By str32 s

/-- the `bytes32` word the checkpoint packs for a gravity id / tag text -/
def gidWord (s : List Nat) : Option Nat := (strToByte32 s).map fromBE

/-- one gravity-id check of `Params.ValidateBasic` (`some true` = passes, `none` = a check the model does not know) -/
def gidCheck (s : List Nat) (c : String × String) : Option Bool :=
  if c == ("len(m.GravityId) == 0", "failIf") then some (s.length != 0)
  else if c == ("fxtypes.StrToByte32(m.GravityId)", "failIfErr:err != nil") then some (strToByte32 s).isSome
  else none

/-- a gravity id `Params.ValidateBasic` accepts -/
def gidParamValid (s : List Nat) : Bool := gidParamChecks.all (fun c => gidCheck s c == some true)

/-- no trailing NUL byte: the text is what `Byte32ToString` gives back -/
def NoTrailingNul (s : List Nat) : Prop := s.getLast? ≠ some 0

/-! ## `CalExternalTimeoutHeight` -/

/-- what the function reads: `ctx.BlockHeight()`, the two recorded heights, the two block-time parameters, and what the
timeout callback returns for the parameters (`params.ExternalBatchTimeout` / `params.BridgeCallTimeout`) -/
structure TIn where
  fxHeight : Nat
  lastFxHeight : Nat
  extHeight : Nat
  avgBlock : Nat
  avgExt : Nat
  timeout : Nat
  deriving DecidableEq, Repr

/-- `root` = the call a record variable was assigned from ("" for a plain call), `field` = the field selected -/
def TIn.leaf (i : TIn) (root field : String) : Option Nat :=
  if root == "ctx.BlockHeight" && field == "" then some i.fxHeight
  else if root == "k.GetLastObservedBlockHeight" && field == "BlockHeight" then some i.lastFxHeight
  else if root == "k.GetLastObservedBlockHeight" && field == "ExternalBlockHeight" then some i.extHeight
  else if root == "k.GetParams" && field == "AverageBlockTime" then some i.avgBlock
  else if root == "k.GetParams" && field == "AverageExternalBlockTime" then some i.avgExt
  else if root == "getTimeoutCallback" && field == "" then some i.timeout
  else none

def u64 : Nat := 2 ^ 64

/-- Go `uint64` arithmetic: wraps; division by zero panics (`none`) -/
def arith (op : String) (x y : Nat) : Option Nat :=
  if op == "+" then some ((x + y) % u64)
  else if op == "-" then some ((x + u64 - y % u64) % u64)
  else if op == "*" then some (x * y % u64)
  else if op == "/" then (if y == 0 then none else some (x / y))
  else if op == "==" then some (if x == y then 1 else 0)
  else if op == "<=" then some (if x ≤ y then 1 else 0)
  else none

structure TEnv where
  vars : List (String × Nat) := []
  recs : List (String × String) := []    -- variable ↦ the record-valued call it was assigned from

def recordCalls : List String := ["k.GetLastObservedBlockHeight", "k.GetParams"]

def evalT (i : TIn) (env : TEnv) : TExpr → Option Nat
  | .var n => env.vars.lookup n
  | .sel r f => match env.recs.lookup r with | some fn => i.leaf fn f | none => none
  | .lit n => some n
  | .conv ty e => if ty == "uint64" then (match evalT i env e with | some v => some (v % u64) | none => none) else none
  | .bin op a b => match evalT i env a, evalT i env b with | some x, some y => arith op x y | _, _ => none
  | .call fn _ => i.leaf fn ""
  | .other _ => none

/-- statement interpreter: `none` = a statement the model does not know, a panic, or falling off the end -/
def runT (i : TIn) : TEnv → List TStmt → Option Nat
  | _, [] => none
  | env, .assign lhs e :: rest =>
    match e with
    | .call fn _ =>
      if recordCalls.contains fn then runT i { env with recs := (lhs, fn) :: env.recs } rest
      else match i.leaf fn "" with
        | some v => runT i { env with vars := (lhs, v) :: env.vars } rest
        | none => none
    | _ =>
      match evalT i env e with
      | some v => runT i { env with vars := (lhs, v) :: env.vars } rest
      | none => none
  | env, .ifRet c r :: rest =>
    match evalT i env c with
    | some 0 => runT i env rest
    | some _ => evalT i env r
    | none => none
  | env, .ret e :: _ => evalT i env e
  | _, .other _ :: _ => none

/-- `CalExternalTimeoutHeight` as the source spells it -/
def calTimeout (i : TIn) : Option Nat := runT i {} timeoutProg

/-- the closed form: 0 before any external height was observed; otherwise the projected external height plus the timeout
in external blocks, every step in wrapping `uint64` arithmetic -/
def timeoutFormula (i : TIn) : Nat :=
  if i.extHeight = 0 then 0 else
  (((i.fxHeight % u64 + u64 - i.lastFxHeight % u64) % u64 * i.avgBlock % u64 / i.avgExt + i.extHeight) % u64 +
    i.timeout / i.avgExt) % u64

/-- does `Params.ValidateBasic` reject value `v` for `field` (regenerated bounds) -/
def paramRejects (field : String) (v : Nat) : Bool :=
  paramBounds.any fun b => b.1 == field && (cmpOp b.2.1 v b.2.2 == some true)

/-! ## power normalisation of `GetCurrentOracleSet` -/

def constOf (s : String) : Option Nat :=
  if s == "math.MaxUint32" then some 4294967295 else if s == "math.MaxUint64" then some 18446744073709551615
  else if s == "math.MaxInt64" then some 9223372036854775807 else if s == "math.MaxInt32" then some 2147483647
  else if s == "math.MaxUint16" then some 65535 else none

/-- one link of the `sdkmath.Uint` method chain (256-bit, no wrap below 2^256; `.Uint64()` panics above 2^64) -/
def normStep (total : Nat) (acc : Nat) (st : String × String) : Option Nat :=
  if st.1 == "MulUint64" then (constOf st.2).map (acc * ·)
  else if st.1 == "QuoUint64" && st.2 == "totalPower" then (if total == 0 then none else some (acc / total))
  else if st.1 == "Uint64" && st.2 == "" then (if acc < 18446744073709551616 then some acc else none)
  else none

def normChain (total : Nat) : Nat → List (String × String) → Option Nat
  | acc, [] => some acc
  | acc, st :: rest => match normStep total acc st with | some a => normChain total a rest | none => none

/-- the normalised power of a member with power `p` when the powers sum to `total` -/
def normPower (p total : Nat) : Option Nat :=
  match powerNorm with
  | hd :: rest => if hd == ("sdkmath.NewUint", "bridgeValidators[i].Power") then normChain total p rest else none
  | [] => none

/-! ## `autoIncrementID` and the builders -/

/-- one call: stored value (`none` = nothing stored yet) ↦ (id returned, value stored) -/
def autoIncrStep (c : Option Nat) : Nat × Nat :=
  let id := c.getD autoIncr.default
  (id, (id + autoIncr.inc) % u64)

/-- the ids `n` successive calls return -/
def drawIds : Nat → Option Nat → List Nat
  | 0, _ => []
  | n + 1, c => (autoIncrStep c).1 :: drawIds n (some (autoIncrStep c).2)

/-- where a numeric field of a built object comes from -/
inductive Src where
  | counter (key : String)        -- `k.autoIncrementID(ctx, key)`
  | timeoutOf (callback : String) -- `k.CalExternalTimeoutHeight(ctx, callback)`
  | param (name : String)         -- a parameter of the builder
  | unknown (src : String)
  deriving DecidableEq, Repr

def builderOf (fn : String) : Builder := (builders.find? (·.func == fn)).getD ⟨fn, "", [], [], [], []⟩

def fieldSrc (B : Builder) (field : String) : Src :=
  match B.fields.lookup field with
  | none => .unknown ""
  | some e =>
    if B.params.contains e then .param e else
    match B.locals.lookup e with
    | some (fn, args) =>
      if fn == "k.autoIncrementID" then .counter (args.getD 1 "")
      else if fn == "k.CalExternalTimeoutHeight" then .timeoutOf (args.getD 1 "")
      else .unknown e
    | none => .unknown e

/-- the environment of a builder call: stored counters, what `CalExternalTimeoutHeight` reads (per callback: the timeout
parameter differs), the numeric parameters -/
structure BuildEnv where
  counter : String → Option Nat
  tin : String → TIn
  par : String → Nat

def evalSrc (e : BuildEnv) : Src → Option Nat
  | .counter k => some (autoIncrStep (e.counter k)).1
  | .timeoutOf cb => calTimeout (e.tin cb)
  | .param p => some (e.par p)
  | .unknown _ => none

end FxVerif.Model.C12
