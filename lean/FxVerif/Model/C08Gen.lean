import FxVerif.Model.C08U
/-!
# C08 — erc20 genesis export / import (round 4)

`x/erc20/keeper/genesis.go`: `ExportGenesis` = the module parameters and `GetAllTokenPairs` (the records under prefix 0x01);
`InitGenesis` = `SetParams`, then for every imported pair the keeper calls of the loop body (`Gen/C08d.lean
initGenesis_loop_calls`, regenerated: `AddTokenPair` writes the pair record, the denom index and the contract index), then the
native coin is registered if it is missing.  The bank metadata (with its alias lists) is exported and imported by the bank
module, which runs first.  The alias index (prefix 0x05) is not part of the erc20 genesis: it is restored only if the loop
body calls `SetAliasesDenom`.

Core Lean only.
-/
namespace FxVerif.Model.C08

/-- `GetAllTokenPairs`: the pair records (a key shadowed in the association list is not in the store) -/
def exportPairs (i : Idx) : List Pair := i.pairs.filterMap fun kv => lookup kv.1 i.pairs

/-- the loop body of `InitGenesis` for one pair; `restore` = the body also calls `SetAliasesDenom` with the aliases the
bank metadata of the pair's denomination lists (`HasDenomAlias`) -/
def importPair (restore : Bool) (i : Idx) (p : Pair) : Idx :=
  let i1 := addPair i p
  if restore then
    match hasDenomAlias i1 p.denom with
    | some as => setAliases i1 p.denom as
    | none => i1
  else i1

/-- `InitGenesis` into an empty erc20 store; `md` = the bank metadata already imported by the bank module -/
def importGenesis (restore : Bool) (md : List (Nat × List Nat)) (ps : List Pair) : Idx :=
  ps.foldl (importPair restore) { md := md }

/-- export followed by import into a fresh store -/
def genesisRoundTrip (restore : Bool) (i : Idx) : Idx := importGenesis restore i.md (exportPairs i)

/-- what the regenerated loop body says about the alias index -/
def restoresAliases (loopCalls : List String) : Bool := loopCalls.contains "SetAliasesDenom"

/-- the two stores answer every lookup alike -/
def Idx.Same (a b : Idx) : Prop :=
  (∀ id, lookup id a.pairs = lookup id b.pairs) ∧ (∀ d, lookup d a.byDenom = lookup d b.byDenom) ∧
  (∀ ct, lookup ct a.byErc = lookup ct b.byErc) ∧ (∀ x, lookup x a.aliasIdx = lookup x b.aliasIdx) ∧ a.md = b.md

end FxVerif.Model.C08
