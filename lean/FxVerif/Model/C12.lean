import FxVerif.Gen.C12
import FxVerif.Model.C12Abi
import FxVerif.Model.C12Keccak
/-!
# C12 model — checkpoints and confirm handlers

Part 1 gives the regenerated layouts (`Gen/C12.lean`: Go `Pack` argument lists with the ABI input types, the Tron
parameter lists, the Solidity `abi.encode(...)` argument lists) an executable meaning:

* `goArgs L o gid`   — the values the Go code packs, read off the *Go* source only (field paths + casts);
* `solArgs spec S o gid` — the values the bridge contract encodes when the relayer submits object `o`: every Solidity
  argument is looked up *by name* in the hand-written relayer convention `spec` (which object field is passed for
  which contract parameter), literals are taken from the Solidity source;
* pre-image = `enc args` (ABI), checkpoint = `keccak256` of it.

Part 2 is the confirm handler (`x/crosschain/keeper/confirm.go`) as a pure step function with the signature recovery
`recover` an opaque parameter.

Numbers: `uint64` fields are `Nat` (`< 2^64`); `big.NewInt(int64(x))` followed by go-ethereum's `U256Bytes` yields the
256-bit two's complement of the `int64`, i.e. `x` for `x < 2^63` and `2^256 - 2^64 + x` above (`goU64`).  Addresses are
160-bit numbers (the harness feeds valid 20-byte addresses; `HexToAddress` on malformed text is not modelled — message
validation rejects such text).  `sdkmath.Int` amounts are `Nat < 2^256` (sdkmath bounds them to 256 bits; negative
amounts are rejected at creation).
-/
namespace FxVerif.Model.C12
open FxVerif.Gen.C12

/-! ## Part 1 — objects, layouts, pre-images -/

/-- a generic object: what `GetCheckpoint` may read.  Keys are Go field paths joined with "." -/
structure Obj where
  nums : List (String × Nat) := []           -- scalar uint64 fields
  addrs : List (String × Nat) := []          -- scalar address-string fields
  blobs : List (String × List Nat) := []     -- hex-string fields (decoded)
  lists : List (String × List (List (String × Nat))) := []   -- repeated fields: rows of leaf values

def pathKey (p : List String) : String := ".".intercalate p

/-- `int64` cast, `big.NewInt`, then ABI packing as `uint256` (two's complement, `math.U256Bytes`) -/
def goU64 (x : Nat) : Nat := if x < 2^63 then x else 2^256 - 2^64 + x

structure Member where
  power : Nat
  addr : Nat
  deriving DecidableEq, Repr

structure OracleSet where
  nonce : Nat
  members : List Member
  deriving DecidableEq, Repr

structure Transfer where
  amount : Nat
  dest : Nat
  fee : Nat
  deriving DecidableEq, Repr

structure Batch where
  nonce : Nat
  timeout : Nat
  txs : List Transfer
  token : Nat
  feeReceive : Nat
  deriving DecidableEq, Repr

structure Token where
  contract : Nat
  amount : Nat
  deriving DecidableEq, Repr

structure BridgeCall where
  sender : Nat
  refund : Nat
  tokens : List Token
  to : Nat
  data : List Nat
  memo : List Nat
  nonce : Nat
  timeout : Nat
  eventNonce : Nat
  deriving DecidableEq, Repr

def OracleSet.toObj (o : OracleSet) : Obj :=
  { nums := [("Nonce", o.nonce)],
    lists := [("Members", o.members.map fun m => [("ExternalAddress", m.addr), ("Power", m.power)])] }

def Batch.toObj (b : Batch) : Obj :=
  { nums := [("BatchNonce", b.nonce), ("BatchTimeout", b.timeout)],
    addrs := [("TokenContract", b.token), ("FeeReceive", b.feeReceive)],
    lists := [("Transactions", b.txs.map fun t => [("Token.Amount", t.amount), ("DestAddress", t.dest), ("Fee.Amount", t.fee)])] }

def BridgeCall.toObj (c : BridgeCall) : Obj :=
  { nums := [("Nonce", c.nonce), ("Timeout", c.timeout), ("EventNonce", c.eventNonce)],
    addrs := [("Sender", c.sender), ("Refund", c.refund), ("To", c.to)],
    blobs := [("Data", c.data), ("Memo", c.memo)],
    lists := [("Tokens", c.tokens.map fun t => [("Contract", t.contract), ("Amount", t.amount)])] }

/-- class of a field, as the *object* declares it (proto types) -/
inductive Cls where | u64 | addr | amount | blob
  deriving DecidableEq, Repr

/-- read a scalar leaf by class -/
def Obj.scalar (o : Obj) (k : String) : Cls → Option Val
  | .u64 => (o.nums.lookup k).map Val.word
  | .addr => (o.addrs.lookup k).map Val.word
  | .amount => none
  | .blob => (o.blobs.lookup k).map Val.bytes

/-- all elements present -/
def allSome {α : Type} : List (Option α) → Option (List α)
  | [] => some []
  | none :: _ => none
  | some a :: r => (allSome r).map (a :: ·)

def Obj.column (o : Obj) (list k : String) : Option (List Nat) :=
  match o.lists.lookup list with
  | some rows => allSome (rows.map fun r => r.lookup k)
  | none => none

/-- what the Go code packs for one argument (field path + cast, from the Go source) -/
def evalGo (o : Obj) (gid : Nat) : GoSrc → Option Val
  | .gravityId => some (.word gid)
  | .tag _ w => some (.word w)
  | .field p .i64 => (o.nums.lookup (pathKey p)).map fun x => .word (goU64 x)
  | .field p .addr => (o.addrs.lookup (pathKey p)).map .word
  | .field p .none => (o.addrs.lookup (pathKey p)).map .word      -- tron: address text handed to the tron encoder
  | .field p .hexbytes => (o.blobs.lookup (pathKey p)).map .bytes
  | .field _ _ => none
  | .each l p .i64 => (o.column l (pathKey p)).map fun xs => .arr (xs.map goU64)
  | .each l p .addr => (o.column l (pathKey p)).map .arr
  | .each l p .none => (o.column l (pathKey p)).map .arr
  | .each l p .bigint => (o.column l (pathKey p)).map .arr
  | .each _ _ _ => none
  | .unknown _ => none

def goArgs (L : GoLayout) (o : Obj) (gid : Nat) : Option (List Val) := allSome (L.args.map fun a => evalGo o gid a.src)

/-- the relayer convention: which object field is submitted for which contract parameter -/
inductive Slot where
  | gravityId
  | tag
  | field (path : List String) (cls : Cls)
  | each (list : String) (path : List String) (cls : Cls)
  deriving DecidableEq, Repr

structure SpecArg where
  names : List String    -- accepted (canonicalised) spellings of the parameter in Solidity / the ABI JSON
  ty : String
  slot : Slot
  deriving DecidableEq, Repr

/-- canonical form of a Solidity argument expression / ABI input name: struct prefix `input.` and leading
underscores dropped, lower-cased -/
def canon (s : String) : String :=
  let cs := s.toList
  let cs := if cs.take 6 == "input.".toList then cs.drop 6 else cs
  String.ofList ((cs.dropWhile (· == '_')).map Char.toLower)

def specOracleSet : List SpecArg := [
  ⟨["fxbridgeid", "state_fxbridgeid"], "bytes32", .gravityId⟩,
  ⟨["methodname"], "bytes32", .tag⟩,
  ⟨["oraclesetnonce"], "uint256", .field ["Nonce"] .u64⟩,
  ⟨["oracles"], "address[]", .each "Members" ["ExternalAddress"] .addr⟩,
  ⟨["powers"], "uint256[]", .each "Members" ["Power"] .u64⟩]

/-- `_nonceArray = [current oracle set nonce, batch nonce]` in `submitBatch` -/
def specBatch : List SpecArg := [
  ⟨["fxbridgeid", "state_fxbridgeid"], "bytes32", .gravityId⟩,
  ⟨["methodname"], "bytes32", .tag⟩,
  ⟨["amounts"], "uint256[]", .each "Transactions" ["Token", "Amount"] .amount⟩,
  ⟨["destinations"], "address[]", .each "Transactions" ["DestAddress"] .addr⟩,
  ⟨["fees"], "uint256[]", .each "Transactions" ["Fee", "Amount"] .amount⟩,
  ⟨["batchnonce", "noncearray[1]"], "uint256", .field ["BatchNonce"] .u64⟩,
  ⟨["tokencontract"], "address", .field ["TokenContract"] .addr⟩,
  ⟨["batchtimeout"], "uint256", .field ["BatchTimeout"] .u64⟩,
  ⟨["feereceive"], "address", .field ["FeeReceive"] .addr⟩]

/-- `bridgeCallSigHash(_input, _nonceArray[1])`: `nonce` is the bridge call nonce -/
def specBridgeCall : List SpecArg := [
  ⟨["fxbridgeid", "state_fxbridgeid"], "bytes32", .gravityId⟩,
  ⟨["methodname"], "bytes32", .tag⟩,
  ⟨["sender"], "address", .field ["Sender"] .addr⟩,
  ⟨["refund"], "address", .field ["Refund"] .addr⟩,
  ⟨["tokens"], "address[]", .each "Tokens" ["Contract"] .addr⟩,
  ⟨["amounts"], "uint256[]", .each "Tokens" ["Amount"] .amount⟩,
  ⟨["to"], "address", .field ["To"] .addr⟩,
  ⟨["data"], "bytes", .field ["Data"] .blob⟩,
  ⟨["memo"], "bytes", .field ["Memo"] .blob⟩,
  ⟨["nonce"], "uint256", .field ["Nonce"] .u64⟩,
  ⟨["timeout"], "uint256", .field ["Timeout"] .u64⟩,
  ⟨["eventnonce"], "uint256", .field ["EventNonce"] .u64⟩]

def specOf : String → List SpecArg
  | "oracleSet" => specOracleSet
  | "batch" => specBatch
  | "bridgeCall" => specBridgeCall
  | _ => []

/-- the Solidity function whose `abi.encode` computes the digest of each object kind -/
def solFuncOf : String → String
  | "oracleSet" => "makeCheckpoint"
  | "batch" => "submitBatch"
  | "bridgeCall" => "bridgeCallSigHash"
  | _ => ""

/-- value the relayer submits for a slot (no cast: the contract parameter is a `uint256`/`address`/… of that value) -/
def evalSlot (o : Obj) (gid : Nat) : Slot → Option Val
  | .gravityId => some (.word gid)
  | .tag => none
  | .field _ .amount => none
  | .field p c => o.scalar (pathKey p) c
  | .each _ _ .blob => none
  | .each l p _ => (o.column l (pathKey p)).map .arr

/-- value of one Solidity `abi.encode` argument: a literal, or the parameter looked up by name in the convention -/
def evalSol (spec : List SpecArg) (o : Obj) (gid : Nat) (a : SolArg) : Option Val :=
  match a.lit with
  | some w => some (.word w)
  | none =>
    match spec.find? (fun s => s.names.contains (canon a.expr)) with
    | some s => evalSlot o gid s.slot
    | none => none

def solArgs (spec : List SpecArg) (S : SolSite) (o : Obj) (gid : Nat) : Option (List Val) :=
  allSome (S.args.map (evalSol spec o gid))

def findGo (ls : List GoLayout) (kind : String) : GoLayout :=
  (ls.find? (·.kind == kind)).getD ⟨kind, "", false, []⟩

def findSol (file kind : String) : SolSite :=
  (solSites.find? (fun s => s.file == file && s.func == solFuncOf kind)).getD ⟨file, "", []⟩

def mainSol : String := "FxBridgeLogic.sol"

/-- Go (eth-style chains) pre-image -/
def goPreimage (kind : String) (o : Obj) (gid : Nat) : Option (List Nat) := (goArgs (findGo goLayouts kind) o gid).map enc
/-- Go (tron) pre-image -/
def tronPreimage (kind : String) (o : Obj) (gid : Nat) : Option (List Nat) := (goArgs (findGo tronLayouts kind) o gid).map enc
/-- Solidity pre-image -/
def solPreimage (kind : String) (o : Obj) (gid : Nat) : Option (List Nat) :=
  (solArgs (specOf kind) (findSol mainSol kind) o gid).map enc

/-! ### static layout comparison (decided over the regenerated tables) -/

def convFor : Cls → Conv
  | .u64 => .i64
  | .addr => .addr
  | .amount => .bigint
  | .blob => .hexbytes

/-- the Go source of an argument reads the field the convention names, with the cast that field's class needs
(`tronOk`: the tron encoder takes address text, so no `HexToAddress`) -/
def srcMatches (tron : Bool) : GoSrc → Slot → Bool
  | .gravityId, .gravityId => true
  | .tag _ _, .tag => true
  | .field p c, .field q cls => p == q && (c == convFor cls || (tron && cls == .addr && c == .none))
  | .each l p c, .each m q cls => l == m && p == q && (c == convFor cls || (tron && cls == .addr && c == .none))
  | _, _ => false

def goArgMatches (tron : Bool) (a : GoArg) (s : SpecArg) : Bool :=
  a.abiType == s.ty && (tron || s.names.contains (canon a.abiName)) && srcMatches tron a.src s.slot

def zipAll {α β : Type} (p : α → β → Bool) : List α → List β → Bool
  | [], [] => true
  | a :: as, b :: bs => p a b && zipAll p as bs
  | _, _ => false

def goTag (L : GoLayout) : Option Nat :=
  L.args.findSome? fun a => match a.src with | .tag _ w => some w | _ => none

/-- Solidity argument agrees with the convention: same ABI type (a 64-digit hex literal is encoded as a 32-byte word),
a name the convention knows for this position, and — for the method tag — a literal equal to the Go tag -/
def solArgMatches (tag : Option Nat) (a : SolArg) (s : SpecArg) : Bool :=
  match s.slot with
  | .tag => (a.ty == "bytes32" || a.ty == "literal") && a.lit.isSome && a.lit == tag
  | _ => a.ty == s.ty && a.lit.isNone && s.names.contains (canon a.expr)

def layoutsAgree (file kind : String) : Bool :=
  let L := findGo goLayouts kind
  let T := findGo tronLayouts kind
  let S := findSol file kind
  L.dropSelector && !T.dropSelector &&
  zipAll (goArgMatches false) L.args (specOf kind) &&
  zipAll (goArgMatches true) T.args (specOf kind) &&
  zipAll (solArgMatches (goTag L)) S.args (specOf kind) &&
  goTag T == goTag L

def kindOfFunc : String → Option String
  | "makeCheckpoint" => some "oracleSet"
  | "submitBatch" => some "batch"
  | "bridgeCallSigHash" => some "bridgeCall"
  | _ => none

/-- every `abi.encode(...)` site of every bridge contract variant is one of the three digests and agrees -/
def allSitesAgree : Bool :=
  solSites.all fun S => match kindOfFunc S.func with
    | some k => layoutsAgree S.file k
    | none => false

/-- bytes32 of a short ASCII string (`fxtypes.StrToByte32`): right-padded with zeros -/
def strWord (s : String) : Nat :=
  let bs := s.toList.map Char.toNat
  fromBE (bs ++ List.replicate (32 - bs.length) 0)

def tagsConsistent (L : GoLayout) : Bool :=
  L.args.all fun a => match a.src with | .tag s w => strWord s == w && s.length ≤ 32 | _ => true

/-! ## Part 2 — confirm handler -/

inductive ObjKey where
  | oracleSet (nonce : Nat)
  | batch (token : String) (nonce : Nat)
  | bridgeCall (nonce : Nat)
  deriving DecidableEq, Repr

def ObjKey.kind : ObjKey → String
  | .oracleSet _ => "oracleSet" | .batch _ _ => "batch" | .bridgeCall _ => "bridgeCall"

def ObjKey.nonce : ObjKey → Nat
  | .oracleSet n => n | .batch _ n => n | .bridgeCall n => n

/-- token contract text of a batch key ("" for the other kinds, whose keys have no such component) -/
def ObjKey.token : ObjKey → String
  | .batch t _ => t | _ => ""

def mkKey (kind token : String) (nonce : Nat) : Option ObjKey :=
  if kind == "oracleSet" then some (.oracleSet nonce)
  else if kind == "batch" then some (.batch token nonce)
  else if kind == "bridgeCall" then some (.bridgeCall nonce)
  else none

structure OracleRec where
  bridger : String
  external : String
  deriving DecidableEq, Repr

/-- a stored confirmation (+ ghost fields: the digest it was verified against and the oracle record at that time) -/
structure Entry where
  key : ObjKey
  oracle : Nat
  bridger : String
  external : String
  sig : List Nat
  digest : List Nat
  recAt : OracleRec
  deriving DecidableEq, Repr

structure HState where
  objects : List (ObjKey × List Nat) := []     -- stored objects with their checkpoint under the chain's gravity id
  byExternal : List (String × Nat) := []       -- index: external address text ↦ oracle address
  oracles : List (Nat × OracleRec) := []       -- oracle records
  confirms : List Entry := []
  ever : List (ObjKey × List Nat) := []        -- ghost: every object ever stored (keys are never reused: nonces are counters)
  removed : List ObjKey := []                  -- ghost: keys whose object was deleted

inductive Err where | notFound | sigDecode | noOracle | mismatch | badSig | duplicate | modelGap
  deriving DecidableEq, Repr

structure ConfirmMsg where
  key : ObjKey                -- what the message names: kind, token contract (batch), nonce
  bridger : String
  external : String
  sig : Option (List Nat)     -- `none`: the signature text is not hex
  deriving DecidableEq, Repr

def hasConfirm (st : HState) (k : ObjKey) (oracle : Nat) : Bool :=
  st.confirms.any fun e => e.key == k && e.oracle == oracle

/-- SPECIFICATION of `*ConfirmHandler` + `ValidateConfirmSign`: the object is looked up, the duplicate is checked and the
confirmation is filed under exactly the key the message names; `recover digest sig` is `EthAddressFromSignature` /
`TronAddressFromSignature` (opaque).  `confirmStepP` below is the same handler driven by the key plan REGENERATED from the
Go source; `Proofs/C12Handler.lean` proves the two equal for the plans the source has now. -/
def confirmStep (recover : List Nat → List Nat → Option String) (st : HState) (m : ConfirmMsg) : Except Err HState :=
  match st.objects.lookup m.key with
  | none => .error .notFound
  | some digest =>
    match m.sig with
    | none => .error .sigDecode
    | some sig =>
      match st.byExternal.lookup m.external with
      | none => .error .noOracle
      | some oracle =>
        match st.oracles.lookup oracle with
        | none => .error .noOracle
        | some r =>
          if r.external ≠ m.external then .error .mismatch
          else if r.bridger ≠ m.bridger then .error .mismatch
          else if recover digest sig ≠ some r.external then .error .badSig
          else if hasConfirm st m.key oracle then .error .duplicate
          else .ok { st with confirms := ⟨m.key, oracle, m.bridger, m.external, sig, digest, r⟩ :: st.confirms }

/-! ### the handler as the source spells it: keys from the regenerated plan -/

/-- value of a key: the components the key function was given -/
structure KeyVal where
  token : Option String := none
  nonce : Option Nat := none
  oracle : Bool := false
  deriving DecidableEq, Repr

def tokenExpr (m found : ObjKey) (e : String) : Option String :=
  if e == "msg.TokenContract" then some m.token
  else if e == "obj.TokenContract" then some found.token
  else none

def nonceExpr (m found : ObjKey) (e : String) : Option Nat :=
  if e == "msg.Nonce" then some m.nonce
  else if e == "obj.Nonce" || e == "obj.BatchNonce" then some found.nonce
  else none

/-- evaluate the components of a key reference; `m` = what the message names, `found` = key of the looked-up object -/
def evalSlots (m found : ObjKey) : List (String × String) → KeyVal → Option KeyVal
  | [], acc => some acc
  | (kind, e) :: rest, acc =>
    if kind == "token" then
      match tokenExpr m found e with
      | some t => evalSlots m found rest { acc with token := some t }
      | none => none
    else if kind == "nonce" then
      match nonceExpr m found e with
      | some n => evalSlots m found rest { acc with nonce := some n }
      | none => none
    else if kind == "oracle" then
      if e == "oracle" then evalSlots m found rest { acc with oracle := true } else none
    else none

/-- does a stored object's key agree with the given components (a component the key function / scan does not
constrain matches anything) -/
def keyMatches (kind : String) (v : KeyVal) (k : ObjKey) : Bool :=
  k.kind == kind &&
  (match v.token with | some t => k.token == t | none => true) &&
  (match v.nonce with | some n => k.nonce == n | none => true)

/-- the object assignments of the handler, in source order: the first one that yields an object wins -/
def findObject (kind : String) (st : HState) (m : ObjKey) : List KeyRef → Option (ObjKey × List Nat)
  | [] => none
  | r :: rest =>
    match evalSlots m m r.slots {} with
    | none => findObject kind st m rest
    | some v =>
      match st.objects.find? (fun p => keyMatches kind v p.1) with
      | some p => some p
      | none => findObject kind st m rest

/-- the confirm-store key a reference denotes: needs a nonce, the oracle address, and (batch) a token -/
def refKey (kind : String) (m found : ObjKey) (r : KeyRef) : Option ObjKey :=
  match evalSlots m found r.slots {} with
  | some v =>
    if !v.oracle then none else
    match v.nonce with
    | none => none
    | some n =>
      if kind == "batch" then
        match v.token with
        | some t => mkKey kind t n
        | none => none
      else mkKey kind "" n
  | none => none

def confirmStepP (P : Plan) (recover : List Nat → List Nat → Option String) (st : HState) (m : ConfirmMsg) : Except Err HState :=
  match findObject P.kind st m.key P.lookups with
  | none => .error .notFound
  | some (fk, digest) =>
    match m.sig with
    | none => .error .sigDecode
    | some sig =>
      match st.byExternal.lookup m.external with
      | none => .error .noOracle
      | some oracle =>
        match st.oracles.lookup oracle with
        | none => .error .noOracle
        | some r =>
          if r.external ≠ m.external then .error .mismatch
          else if r.bridger ≠ m.bridger then .error .mismatch
          else if recover digest sig ≠ some r.external then .error .badSig
          else
            match refKey P.kind m.key fk P.dup, refKey P.kind m.key fk P.store with
            | some dk, some sk =>
              if hasConfirm st dk oracle then .error .duplicate
              else .ok { st with confirms := ⟨sk, oracle, m.bridger, m.external, sig, digest, r⟩ :: st.confirms }
            | _, _ => .error .modelGap

def noPlan : Plan := ⟨"", "", [], [], [], ⟨"", "", []⟩, ⟨"", "", []⟩, []⟩

def planFor (k : ObjKey) : Plan := (handlerPlans.find? (fun P => P.kind == k.kind)).getD noPlan

/-- the handler with the key plan the source has now -/
def confirmStepG (recover : List Nat → List Nat → Option String) (st : HState) (m : ConfirmMsg) : Except Err HState :=
  confirmStepP (planFor m.key) recover st m

/-- the key components a handler for `kind` must use: everything the message names -/
def fullKey (kind : String) : List (String × String) :=
  if kind == "batch" then [("token", "msg.TokenContract"), ("nonce", "msg.Nonce")] else [("nonce", "msg.Nonce")]

/-- the same components read from the stored object's own fields -/
def objKeyAlts (kind : String) : List (List (String × String)) :=
  if kind == "batch" then [[("token", "obj.TokenContract"), ("nonce", "obj.BatchNonce")]] else [[("nonce", "obj.Nonce")]]

def endsWith (s suffix : String) : Bool := (s.toList.reverse.take suffix.length).reverse == suffix.toList

/-- the plan is the one `confirmStep` specifies: one exact-key lookup through the key function the object store writes
with, fed with every coordinate the message names; duplicate check and store through one confirm key function fed with
the same coordinates plus the address ValidateConfirmSign returned; the checkpoint computed over the looked-up object
under the keeper's gravity id; ValidateConfirmSign given the message's bridger, external address, signature and that
checkpoint; in this order -/
def planExact (P : Plan) : Bool :=
  P.order == ["lookup", "notfound", "checkpoint", "validate", "dup", "store"] &&
  P.lookups.length == 1 &&
  P.lookups.all (fun r => r.slots == fullKey P.kind &&
    (objectKeys.lookup P.kind).any (fun o => o.keyFn == r.keyFn && r.keyFn != "" && r.keyFn != "scan" && (objKeyAlts P.kind).contains o.slots)) &&
  P.dup.slots == fullKey P.kind ++ [("oracle", "oracle")] &&
  P.store.slots == P.dup.slots && P.store.keyFn == P.dup.keyFn && P.dup.keyFn != "" && P.dup.keyFn != "scan" &&
  P.checkpoint.length == 2 && P.checkpoint.all (fun c => endsWith c "(obj; k.GetGravityID(ctx))") &&
  P.validate == ["msg.BridgerAddress", "msg.ExternalAddress", "msg.Signature", "checkpoint"]

inductive Op where
  | addObject (k : ObjKey) (digest : List Nat)   -- store an oracle set / batch / bridge call (ignored if the key was ever used)
  | setOracle (oracle : Nat) (r : OracleRec)
  | setIndex (external : String) (oracle : Nat)
  | confirm (m : ConfirmMsg)
  | removeObject (k : ObjKey) (dropObject dropConfirms : Bool)   -- a pruning site: deletes the object and / or its confirms
  deriving DecidableEq, Repr

def upsert {κ ν : Type} [BEq κ] (k : κ) (v : ν) : List (κ × ν) → List (κ × ν)
  | [] => [(k, v)]
  | (k', v') :: r => if k' == k then (k, v) :: r else (k', v') :: upsert k v r

/-- state change of everything but a confirm message -/
def stepOther (st : HState) : Op → HState
  | .addObject k d =>
    if (st.ever.lookup k).isSome then st else { st with objects := (k, d) :: st.objects, ever := (k, d) :: st.ever }
  | .setOracle o r => { st with oracles := upsert o r st.oracles }
  | .setIndex e o => { st with byExternal := upsert e o st.byExternal }
  | .removeObject k dobj dconf =>
    { st with objects := if dobj then st.objects.filter (fun p => p.1 != k) else st.objects,
              removed := if dobj then k :: st.removed else st.removed,
              confirms := if dconf then st.confirms.filter (fun e => e.key != k) else st.confirms }
  | .confirm _ => st

def step (recover : List Nat → List Nat → Option String) (st : HState) : Op → HState
  | .confirm m => match confirmStep recover st m with | .ok st' => st' | .error _ => st
  | op => stepOther st op

/-- the step function the driver runs: confirm messages go through the regenerated plan -/
def stepG (recover : List Nat → List Nat → Option String) (st : HState) : Op → HState
  | .confirm m => match confirmStepG recover st m with | .ok st' => st' | .error _ => st
  | op => stepOther st op

def run (recover : List Nat → List Nat → Option String) (st : HState) (ops : List Op) : HState :=
  ops.foldl (step recover) st

def runG (recover : List Nat → List Nat → Option String) (st : HState) (ops : List Op) : HState :=
  ops.foldl (stepG recover) st

/-- which `k.Delete…` calls delete an object / its confirmations -/
def objectDeletes : List String := ["DeleteBatch", "DeleteOracleSet", "DeleteOutgoingBridgeCall"]
def confirmDeletes : List String := ["DeleteBatchConfirm", "DeleteOracleSetConfirm", "DeleteBridgeCallConfirm"]

/-- (dropObject, dropConfirms) of a pruning site, from the regenerated `deleteSites` -/
def removeFlags (site : String) : Bool × Bool :=
  match deleteSites.lookup site with
  | some calls => (calls.any objectDeletes.contains, calls.any confirmDeletes.contains)
  | none => (false, false)

/-! ## Part 3 — signature decoding (`EthAddressFromSignature` / `TronAddressFromSignature`), curve recovery opaque -/

/-- the length guard and the recovery-byte normalisation, with the constants of the source (`SigRule`, regenerated):
`if len(signature) < minLen → error`; `if signature[64] ∈ vNorm { signature[64] -= vSub }` -/
def decodeSig (r : SigRule) (sig : List Nat) : Option (List Nat) :=
  if sig.length < r.minLenN then none
  else
    let v := sig.getD 64 0
    some (if r.vNormN.contains v then sig.set 64 (v - r.vSubN) else sig)

/-- the prefix constant a decoder hashes in front of the checkpoint -/
def prefixOf (r : SigRule) : List Nat :=
  if r.pfx == "signaturePrefix" then goSignPrefix else if r.pfx == "tronSignaturePrefix" then tronSignPrefix else []

/-- `…AddressFromSignature`: `H` = Keccak-256, `ec hash sig65` = go-ethereum's `SigToPub` + address text (both opaque) -/
def recoverVia (r : SigRule) (H : List Nat → List Nat) (ec : List Nat → List Nat → Option String)
    (digest sig : List Nat) : Option String :=
  match decodeSig r sig with
  | none => none
  | some s' => ec (H (prefixOf r ++ digest)) s'

def sigRuleFor (tron : Bool) : SigRule :=
  (sigRules.find? (fun r => r.func == (if tron then "TronAddressFromSignature" else "EthAddressFromSignature"))).getD
    ⟨"", "", [], "", "", "", 0, [], 0⟩

/-! ## Part 4 — the bytes of the store keys -/

/-- the values a key function is given -/
structure KeyEnv where
  token : List Nat := []    -- bytes of the token contract text
  nonce : Nat := 0
  oracle : List Nat := []   -- bytes of the oracle address
  deriving DecidableEq, Repr

def encPart (env : KeyEnv) (p : String × String) : List Nat :=
  if p.1 == "const" then (keyPrefixes.lookup p.2).getD []
  else if p.1 == "text" then env.token
  else if p.1 == "be8" then toBE 8 env.nonce
  else if p.1 == "addr" then env.oracle
  else []

/-- the key bytes a key function builds (layout regenerated from its nested `append`s) -/
def encKey (fn : String) (env : KeyEnv) : List Nat :=
  ((keyParts.lookup fn).getD []).flatMap (encPart env)

end FxVerif.Model.C12
