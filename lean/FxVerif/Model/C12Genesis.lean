import FxVerif.Gen.C12Env
import FxVerif.Model.C12Sig
/-!
# C12 model, part 6 (round 4) — what survives a genesis export / import

`genesisExports` / `genesisStateFields` / `genesisImports` (regenerated from `ExportGenesis`, the `GenesisState` struct and
`InitGenesis`) say which confirmation lists the exported state carries and under which loop they are collected;
`importOwners` (part E of `Model/C12Sig.lean`) says under which oracle `InitGenesis` files an imported confirmation.
-/
namespace FxVerif.Model.C12
open FxVerif.Gen.C12Env FxVerif.Gen.C12Sig

/-- the field of the genesis state that would carry the confirmations of an object kind -/
def confirmListOf (kind : String) : String :=
  if kind == "oracleSet" then "OracleSetConfirms" else if kind == "batch" then "BatchConfirms"
  else if kind == "bridgeCall" then "BridgeCallConfirms" else ""

/-- the loop over exported objects under which `ExportGenesis` would collect them -/
def objectScopeOf (kind : String) : String :=
  if kind == "oracleSet" then "state.OracleSets" else if kind == "batch" then "state.Batches"
  else if kind == "bridgeCall" then "state.OutgoingBridgeCalls" else ""

def exportEntry (kind : String) : Option (String × String × String) :=
  genesisExports.find? (fun x => x.1 == confirmListOf kind)

/-- is stored confirmation `e` part of the exported state (and read back by `InitGenesis`)?  Its list must be a field of the
state, filled by `ExportGenesis` and read by `InitGenesis`; a list collected per exported object carries only the
confirmations of objects that are still stored -/
def exportsConfirm (st : HState) (e : Entry) : Bool :=
  match exportEntry e.key.kind with
  | none => false
  | some (_, _, scope) =>
    genesisStateFields.contains (confirmListOf e.key.kind) && genesisImports.contains (confirmListOf e.key.kind) &&
    (if scope == objectScopeOf e.key.kind then (st.objects.lookup e.key).isSome else scope == "")

/-- the confirmations stored after `ExportGenesis` → wipe → `InitGenesis` -/
def roundTripConfirms (st : HState) : List Entry :=
  (st.confirms.filter (exportsConfirm st)).flatMap fun e =>
    (importOwners (genesisCmpOf (confirmListOf e.key.kind)) st.oracles e).map fun o => { e with oracle := o }

end FxVerif.Model.C12
