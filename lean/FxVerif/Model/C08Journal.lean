import FxVerif.Model.C08Cache
/-!
# C08 — sub-call frames whose failure the caller swallows: the StateDB journal (mixed transactions, round 3)

`Model/C08Cache.lean` treats a failing call as the end of the transaction.  A contract may instead *catch* the failure of a
sub-call (`CALL` returns 0, execution goes on).  The EVM then reverts the frame's journal
(`x/evm/statedb/statedb.go RevertToSnapshot`, `journal.go`):

* `storageChange.Revert` = `setState(key, prevalue)`: every slot written since the snapshot gets the value it had when it
  was first written after the snapshot — the entry STAYS in `dirtyStorage`;
* `nativeChange.Revert` restores the native (Cosmos) multi-store snapshot: whatever keeper-level nested calls wrote to the
  store during the frame, and the escrow payments, are gone;
* `originStorage` is not journaled: what the frame loaded stays loaded — a reverted frame that merely *read* a slot leaves
  it cached, exactly like a successful read.

`XStep.attempt g` is such a frame (in the harness: the mixer contract calls itself with the group's index and ignores the
result).  Core Lean only.
-/
namespace FxVerif.Model.C08Cache

/-- `runTx`, also returning the state AT THE POINT OF FAILURE (its origin cache survives the revert) -/
def runTxF : List MStep → TxSt → TxSt × Bool
  | [], s => (s, true)
  | .evm p pay :: rest, s =>
    match runOuter p s.o with
    | (true, o1) => if s.esc < pay then (⟨o1, s.esc⟩, false) else runTxF rest ⟨o1, s.esc - pay⟩
    | (false, o1) => (⟨o1, s.esc⟩, false)
  | .nested p pay gain :: rest, s =>
    match nestedCall p s.o.store with
    | (true, st) => if s.esc < pay then (s, false) else runTxF rest ⟨{ s.o with store := st }, s.esc - pay + gain⟩
    | (false, _) => (s, false)

/-- `RevertToSnapshot(snap)` from the state `cur`: the store and the dirty VALUES of the snapshot come back (a slot first
written after the snapshot keeps an entry holding its pre-write value, i.e. its origin value), the origin cache stays -/
def Outer.revertTo (snap cur : Outer) : Outer :=
  { store := snap.store, origin := cur.origin,
    dirty := cur.dirty.map fun kv =>
      (kv.1, match lookup kv.1 snap.dirty with
             | some v => v
             | none => (lookup kv.1 cur.origin).getD 0) }

inductive XStep where
  | plain (s : MStep)
  /-- a sub-call frame running the group; if any step of it fails the frame is reverted and the caller goes on -/
  | attempt (g : List MStep)

def XStep.steps : XStep → List MStep
  | .plain m => [m]
  | .attempt g => g

def runTxX : List XStep → TxSt → Option TxSt
  | [], s => some s
  | .plain st :: rest, s =>
    match runTx [st] s with
    | some s1 => runTxX rest s1
    | none => none
  | .attempt g :: rest, s =>
    match runTxF g s with
    | (s1, true) => runTxX rest s1
    | (sf, false) => runTxX rest ⟨s.o.revertTo sf.o, s.esc⟩

def txResultX (steps : List XStep) (st : Store) (esc : Nat) : Bool × Store × Nat :=
  match runTxX steps ⟨{ store := st }, esc⟩ with
  | some s => (true, s.o.commit, s.esc)
  | none => (false, st, esc)

/-- the reference semantics: one coherent store; a failed frame is a no-op -/
def runSeqX : List XStep → Store × Nat → Option (Store × Nat)
  | [], s => some s
  | .plain st :: rest, s =>
    match runSeq [st] s with
    | some s1 => runSeqX rest s1
    | none => none
  | .attempt g :: rest, s =>
    match runSeq g s with
    | some s1 => runSeqX rest s1
    | none => runSeqX rest s

def seqResultX (steps : List XStep) (st : Store) (esc : Nat) : Bool × Store × Nat :=
  match runSeqX steps (st, esc) with
  | some (st', esc') => (true, st', esc')
  | none => (false, st, esc)

/-- no keeper-level call of the group completes when the group is run from `s`: it fails at or before its first nested
call (so the native store is the same at the point of failure as at the snapshot) -/
def noNestedSuccess : List MStep → TxSt → Bool
  | [], _ => true
  | .evm p pay :: rest, s =>
    match runOuter p s.o with
    | (true, o1) => if s.esc < pay then true else noNestedSuccess rest ⟨o1, s.esc - pay⟩
    | (false, _) => true
  | .nested p pay _ :: _, s =>
    match nestedCall p s.o.store with
    | (true, _) => decide (s.esc < pay)
    | (false, _) => true

/-- coherence of a transaction with frames: every step / group is coherent where it runs, and a group that FAILS has
completed no keeper-level call before failing -/
def CoherentX : List XStep → TxSt → Prop
  | [], _ => True
  | .plain st :: rest, s =>
    CoherentTx [st] s ∧
    match runTx [st] s with
    | some s1 => CoherentX rest s1
    | none => True
  | .attempt g :: rest, s =>
    CoherentTx g s ∧
    match runTxF g s with
    | (s1, true) => CoherentX rest s1
    | (sf, false) => noNestedSuccess g s = true ∧ CoherentX rest ⟨s.o.revertTo sf.o, s.esc⟩

def coherentXB : List XStep → TxSt → Bool
  | [], _ => true
  | .plain st :: rest, s =>
    coherentTxB [st] s &&
    match runTx [st] s with
    | some s1 => coherentXB rest s1
    | none => true
  | .attempt g :: rest, s =>
    coherentTxB g s &&
    match runTxF g s with
    | (s1, true) => coherentXB rest s1
    | (sf, false) => noNestedSuccess g s && coherentXB rest ⟨s.o.revertTo sf.o, s.esc⟩

/-! ### frames that fail AFTER completing keeper-level calls (round 4)

`RevertToSnapshot` restores the native store but not `originStorage`: what matters is whether the values the frame LEFT in
the origin cache are the values of the restored store. -/

/-- every value the state `cur` (the point of failure) holds in its origin cache is the value the snapshot's native store
holds for that slot -/
def OriginAgrees (snap cur : Outer) : Prop := ∀ k w, lookup k cur.origin = some w → snap.store k = w

def originAgreesB (snap cur : Outer) : Bool :=
  cur.origin.all fun kv => match lookup kv.1 cur.origin with
    | some w => snap.store kv.1 == w
    | none => true

/-- general coherence of a transaction with frames: every step / group is coherent where it runs, and a group that FAILS
— at any point, after any number of completed keeper-level calls — leaves an origin cache that agrees with the store the
revert restores -/
def CoherentXG : List XStep → TxSt → Prop
  | [], _ => True
  | .plain st :: rest, s =>
    CoherentTx [st] s ∧
    match runTx [st] s with
    | some s1 => CoherentXG rest s1
    | none => True
  | .attempt g :: rest, s =>
    CoherentTx g s ∧
    match runTxF g s with
    | (s1, true) => CoherentXG rest s1
    | (sf, false) => OriginAgrees s.o sf.o ∧ CoherentXG rest ⟨s.o.revertTo sf.o, s.esc⟩

def coherentXGB : List XStep → TxSt → Bool
  | [], _ => true
  | .plain st :: rest, s =>
    coherentTxB [st] s &&
    match runTx [st] s with
    | some s1 => coherentXGB rest s1
    | none => true
  | .attempt g :: rest, s =>
    coherentTxB g s &&
    match runTxF g s with
    | (s1, true) => coherentXGB rest s1
    | (sf, false) => originAgreesB s.o sf.o && coherentXGB rest ⟨s.o.revertTo sf.o, s.esc⟩

/-! ### line protocol: `mixx <kind> <mixer> <sink> <module> <supply> <allowance> <escrow> <holder> <holderAllowance> <word>*`

accounts as in `mix`, plus 4 = a user who holds tokens and has approved the mixer (`holderAllowance` = allowance(4 → 0)).
Words: the steps of `mix`; `f<n>` the mixer calls `token.transferFrom(holder, sink, n)`; `e<n>` the mixer calls the
precompile `executeClaim` on a pending bridge deposit of `n` addressed to the mixer with target `erc20` (keeper-level
`ConvertCoin`: nested `mint` to the mixer, `n` coins enter the escrow); `[` … `]` a sub-call frame whose failure is swallowed. -/

def parseStepX (kind : Nat) (w : String) : Option (List MStep) :=
  match w.toList with
  | 'f' :: rest => (String.ofList rest).toNat?.map fun n => [.evm (transferFrom 0 4 1 n) 0]
  | 'e' :: rest => (String.ofList rest).toNat?.map fun n => [if kind = 0 then .nested (mint 0 n) 0 n else .nested (transfer 2 0 n) n 0]
  | _ => parseStep kind w

def parseX (kind : Nat) : List String → Option (List MStep) → Option (List XStep)
  | [], none => some []
  | [], some _ => none
  | w :: ws, none =>
    if w = "[" then parseX kind ws (some [])
    else if w = "]" then none
    else match parseStepX kind w, parseX kind ws none with
      | some sts, some rest => some (sts.map XStep.plain ++ rest)
      | _, _ => none
  | w :: ws, some g =>
    if w = "]" then (parseX kind ws none).map fun rest => .attempt g :: rest
    else if w = "[" then none
    else match parseStepX kind w with
      | some sts => parseX kind ws (some (g ++ sts))
      | none => none

def store0X (m s e ts al u ua : Nat) : Store
  | .bal 0 => m
  | .bal 1 => s
  | .bal 2 => e
  | .bal 4 => u
  | .supply => ts
  | .allow 0 3 => al
  | .allow 4 0 => ua
  | _ => 0

def showStoreX (st : Store) : String :=
  s!"m={st (.bal 0)} s={st (.bal 1)} e={st (.bal 2)} ts={st .supply} al={st (.allow 0 3)} u={st (.bal 4)} ua={st (.allow 4 0)}"

def answerMixX (ws : List String) : String :=
  match ws with
  | kind :: m :: s :: e :: ts :: al :: esc :: u :: ua :: words =>
    match [kind, m, s, e, ts, al, esc, u, ua].mapM String.toNat? with
    | some [k, m, s, e, ts, al, esc, u, ua] =>
      match parseX k words none with
      | some steps =>
        let (ok, st, esc') := txResultX steps (store0X m s e ts al u ua) esc
        (if ok then "ok " else "err ") ++ showStoreX st ++ s!" esc={esc'}"
      | none => "bad-op"
    | _ => "bad-op"
  | _ => "bad-op"

end FxVerif.Model.C08Cache
