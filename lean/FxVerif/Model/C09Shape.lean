import FxVerif.Model.C09
import FxVerif.Gen.C09
/-!
# C09 — from the regenerated facts about a method's `Run` (`Gen/C09.lean runFacts`, re-read from the Go AST on every run)
to the `RunShape` the frame model executes.  Used by the property theorems and by the model driver alike.
-/
namespace FxVerif.Model.C09
open FxVerif.Gen.C09

/-- on this path through the closure an EVM call on the same StateDB (`E`) comes after a keeper write (`W`) -/
def evmAfterW : List Ev → Bool
  | [] => false
  | .W :: rest => rest.contains .E || evmAfterW rest
  | _ :: rest => evmAfterW rest

def shapeOf (rf : RunFacts) : RunShape :=
  { outerBefore := rf.outerWritesBefore != 0,
    outerAfter := rf.outerWritesAfter != 0,
    recovers := rf.recovers != 0,
    evmAfterWrite := rf.pathsTruncated || rf.paths.any evmAfterW,
    dropsActionError := rf.actionErrorDropped != 0,
    outerOnError := rf.outerWritesOnError != 0 }

/-- the closure re-binds its ctx to a finite gas meter: store access inside the native action can panic with out-of-gas -/
def metered (rf : RunFacts) : Bool := rf.ctxRebinds.any (fun s => s == "WithGasMeter")

def factsOf (abiName : String) : Option RunFacts := runFacts.find? (fun rf => rf.abiName == abiName)

end FxVerif.Model.C09
