import FxVerif.Model.C17Machine
/-!
# C17 model — a JSON oneof decoded in map order, and the IBC middleware's `OnAcknowledgementPacket`

```go
// github.com/cosmos/gogoproto/jsonpb (dependency), Unmarshaler.unmarshal:
for _, oop := range sprops.OneofTypes {            // OneofTypes is a Go MAP: the order is the runtime's choice, per call
    raw, ok := consumeField(oop.Prop); if !ok { continue }
    nv := reflect.New(oop.Type.Elem()); target.Field(oop.Field).Set(nv)   // every arm of one group lands in the same field
    …
}
```

An acknowledgement `{"result":"AQ==","error":"x"}` therefore decodes to the arm visited LAST — a success in one call, a
failure in the next.  `IBCMiddleware.OnAcknowledgementPacket` (x/ibc/middleware) decodes the bytes itself AND hands them to
the wrapped ICS-20 application, which decodes them again.  Since `fix: … canonical encoding` the middleware first decodes
and rejects bytes that do not re-marshal to themselves, before anything acts on them.

The statement list of the method is REGENERATED (`Gen.C17.ackProgram`: decode / canon / inner / dataDecode / hook / return in
source order) and INTERPRETED here under an adversarial schedule of map iteration orders (`Sched`, as in the block machine).
`Props/C17.lean`: every program that starts with decode, canon gives the same state, gas and result for all schedules and
all byte strings (`ack_canonical_first_schedule_independent`), the source's program is one (`ack_program_canonical_first`);
without the check, or with the check after the inner call, it does not (`ack_unchecked_schedule_dependent`,
`ack_check_after_inner_gas_dependent`: the transaction fails either way, but with different gas).
Which container the dependency iterates is read from its source (`Gen.C17.jsonpbOneofOrder`).
-/
namespace FxVerif.Model.C17
open FxVerif.Gen.C17

/-- one arm of the oneof `Acknowledgement.response` -/
inductive Arm where
  | result (v : String)
  | error (v : String)
  deriving DecidableEq, Repr

/-- the keys of `StructProperties.OneofTypes` for `channeltypes.Acknowledgement` -/
def armNames : List String := ["result", "error"]

def Arm.name : Arm → String
  | .result _ => "result"
  | .error _ => "error"

def Arm.val : Arm → String
  | .result v => v
  | .error v => v

def mkArm (name v : String) : Arm := if name == "result" then .result v else .error v

/-- acknowledgement bytes as the decoder sees them: the members of the top-level JSON object (encoding/json keeps the last
of duplicate names, so names are distinct here) and `spelling` = 0 for exactly the bytes `json.Marshal` writes for these
members in this order (anything else — white space, escapes, another member order — is a different spelling) -/
structure Raw where
  members : List (String × String)
  spelling : Nat
  deriving DecidableEq, Repr

def lookupMember (ms : List (String × String)) (n : String) : Option String := (ms.find? (fun m => m.1 == n)).map (·.2)

/-- the oneof loop of jsonpb in the iteration order `order`: the LAST visited arm that is present wins -/
def resolveOneof (order : List String) (ms : List (String × String)) : Option Arm :=
  order.foldl (fun cur n => match lookupMember ms n with
    | some v => some (mkArm n v)
    | none => cur) none

/-- `ModuleCdc.UnmarshalJSON(bytes, &ack)`: `none` = error (a member that is no field of the message; the codec does not
allow unknown fields), `some none` = no arm set, `some (some a)` = arm `a`; `i` = index of this range statement in the schedule -/
def decodeAck (σ : Sched) (i : Nat) (raw : Raw) : Option (Option Arm) :=
  if raw.members.all (fun m => armNames.contains m.1) then some (resolveOneof (σ.pick i String armNames) raw.members) else none

/-- `ack.Acknowledgement()`: the canonical bytes of a decoded value -/
def canonOf : Option Arm → Raw
  | none => ⟨[], 0⟩
  | some a => ⟨[(a.name, a.val)], 0⟩

structure ASt where
  bankRefund : Nat   -- tokens the ICS-20 application returned to the sender from the escrow account
  hookRefund : Nat   -- refunds the fx hook handed on (`IBCCoinRefund`: back to ERC-20 form for an EVM-started transfer)
  hookSuccess : Nat  -- `AfterIBCAckSuccess` calls (the hook's other arm)
  gas : Nat          -- gas consumed (kept when the message fails)
  ranges : Nat       -- range-over-map statements executed (index into the schedule)
  deriving DecidableEq, Repr

inductive AStep where
  | decode | canon | inner | dataDecode | hook | ret | other
  deriving DecidableEq, Repr

def AStep.ofString (s : String) : AStep :=
  if s == "decode" then .decode else if s == "canon" then .canon else if s == "inner" then .inner
  else if s == "dataDecode" then .dataDecode else if s == "hook" then .hook else if s == "return" then .ret else .other

/-- local variables of the method: the chain state and the middleware's own decoded `ack` (`none` before the decode) -/
structure AFrame where
  st : ASt
  ack : Option (Option Arm)
  deriving DecidableEq, Repr

/-- one top-level statement; `some e` = the method returns the error `e` here -/
def stepAck (σ : Sched) (raw : Raw) (amount : Nat) (f : AFrame) : AStep → AFrame × Option String
  | .decode =>
    let st := { f.st with ranges := f.st.ranges + 1 }
    match decodeAck σ f.st.ranges raw with
    | none => (⟨st, f.ack⟩, some "unmarshal")
    | some d => (⟨st, some d⟩, none)
  | .canon =>
    match f.ack with
    | none => (f, some "canon-before-decode")
    | some d => if raw = canonOf d then (f, none) else (f, some "not-canonical")
  | .inner =>
    -- the wrapped ICS-20 application: its own decode of the same bytes (another range over the map), then the refund of
    -- the escrowed tokens on the error arm (store writes: gas) or nothing on the result arm
    let st := { f.st with ranges := f.st.ranges + 1 }
    match decodeAck σ f.st.ranges raw with
    | none => (⟨st, f.ack⟩, some "inner-unmarshal")
    | some (some (.error _)) => (⟨{ st with gas := st.gas + 10, bankRefund := st.bankRefund + amount }, f.ack⟩, none)
    | some _ => (⟨{ st with gas := st.gas + 1 }, f.ack⟩, none)   -- result arm, or no arm at all: "succeeded", nothing to do
  | .dataDecode => (f, none)
  | .hook =>
    -- the keeper is handed the middleware's decoded value (zero gas configuration)
    match f.ack with
    | none => (f, some "hook-undecoded")
    | some (some (.error _)) => (⟨{ f.st with hookRefund := f.st.hookRefund + amount }, f.ack⟩, none)
    | some _ => (⟨{ f.st with hookSuccess := f.st.hookSuccess + 1 }, f.ack⟩, none)
  | .ret => (f, none)
  | .other => (f, some "unknown-step")

/-- the statements in order until one returns (an error, or `return nil`) -/
def runSteps (σ : Sched) (raw : Raw) (amount : Nat) : List AStep → AFrame → AFrame × Option String
  | [], f => (f, none)
  | .ret :: _, f => (f, none)
  | s :: rest, f =>
    match stepAck σ raw amount f s with
    | (f', some e) => (f', some e)
    | (f', none) => runSteps σ raw amount rest f'

/-- the message: a failing callback discards its writes (the acknowledgement transaction fails); the gas it consumed and
the range statements it executed stay -/
def runAck (prog : List AStep) (σ : Sched) (st : ASt) (amount : Nat) (raw : Raw) : ASt × Option String :=
  match runSteps σ raw amount prog ⟨st, none⟩ with
  | (f, none) => (f.st, none)
  | (f, some e) => ({ st with gas := f.st.gas, ranges := f.st.ranges }, some e)

/-- the program of the source as it is now -/
def ackSteps : List AStep := ackProgram.map AStep.ofString

/-- a schedule that reverses every second range statement -/
def Sched.alt : Sched := ⟨fun i _ l => if i % 2 = 1 then l.reverse else l, fun i _ l => by
  by_cases h : i % 2 = 1
  · simp only [h, if_true]; exact List.reverse_perm l
  · simp only [h, if_false]; exact List.Perm.refl l⟩

/-- both arms in one object -/
def bothArms : Raw := ⟨[("result", "AQ=="), ("error", "x")], 0⟩

/-! ## the reviewed JSON decode sites -/

/-- a JSON decode into a message is admissible when its static target type has no oneof group, or the decode is followed
by the canonical-encoding check, or the dependency does not resolve oneofs by ranging over a map -/
def decodeCovered (d : DecodeSite) : Bool :=
  d.oneofs.isEmpty || d.guard == "canonical" || jsonpbOneofOrder == "slice"

end FxVerif.Model.C17
