import FxVerif.Gen.C12Sig
import FxVerif.Model.C12
/-!
# C12 model, round 3 — which encoder a handler runs, what is hashed before the curve recovery, the contract's check

Everything here INTERPRETS tables regenerated from the sources (`Gen/C12Sig.lean`):

* Part A: `cpRoutes` (the paths from each confirm handler to a checkpoint encoder, helpers followed and type switches
  resolved by the translator) decides which layout a handler packs on a tron / eth-style chain (`handlerEncoder`); the
  address conversion of that layout must fit the chain's address text (`convOk`: `HexToAddress` of base58 text is not the
  address; the tron encoder does not take hex text) — `handlerPreimage`.
* Part B: `sigHashes` (arguments of `append(...)` inside `crypto.Keccak256Hash`) gives the bytes hashed before the curve
  recovery (`goSigPreimage`); `solVerifySigs` gives `verifySig` of the bridge contract (`abi.encodePacked` arguments,
  `ecrecover` arguments, the comparison) — `solVerifySig`; the curve recovery `ecr` is ONE opaque function used by both
  sides (go-ethereum's `SigToPub` = libsecp256k1 recovery with id `sig[64]`; the contract's `ecrecover` precompile = the
  same recovery with id `v - 27`, address 0 unless `v ∈ {27, 28}`).
* Part C: `checkOracleSignatures` (hand-written loop, its guard / verifySig arguments / accumulation / exits compared
  with `solCheckSigs` by a decided theorem) and the hash each entry point hands to it (`solEntries`).
-/
namespace FxVerif.Model.C12
open FxVerif.Gen.C12 FxVerif.Gen.C12Sig

/-! ## Part A — the encoder a handler runs -/

/-- the one condition the handlers branch on before computing a checkpoint -/
def tronCond : String := "k.moduleName == trontypes.ModuleName"

/-- truth of a path condition on a tron / eth-style chain; a condition the model does not know holds nowhere -/
def condHolds (tron : Bool) (c : String) : Bool :=
  if c == "+" ++ tronCond then tron else if c == "-" ++ tronCond then !tron else false

/-- the encoder reached on this chain style: exactly one route must be enabled -/
def routeCall (tron : Bool) (rs : List CpRoute) : Option String :=
  match rs.filter (fun r => r.conds.all (condHolds tron)) with
  | [r] => some r.call
  | _ => none

def routesOf (kind : String) : List CpRoute := ((cpRoutes.find? (fun x => x.2.1 == kind)).map (·.2.2)).getD []

/-- (is it a tron encoder, its regenerated layout) of the encoder the handler of `kind` runs -/
def handlerEncoder (tron : Bool) (kind : String) : Option (Bool × GoLayout) :=
  match routeCall tron (routesOf kind) with
  | none => none
  | some call =>
    match encoderLayouts.lookup call with
    | none => none
    | some (isTron, k) => some (isTron, findGo (if isTron then tronLayouts else goLayouts) k)

/-- does an address conversion yield the address on this chain style: `HexToAddress` needs hex text (eth-style chains; on
base58 text it yields unrelated bytes), the tron encoder needs base58 text -/
def convOk (chainTron : Bool) : Conv → Bool
  | .addr => !chainTron
  | .none => chainTron
  | _ => true

def srcOk (chainTron : Bool) : GoSrc → Bool
  | .field _ c => convOk chainTron c
  | .each _ _ c => convOk chainTron c
  | _ => true

/-- the bytes the handler of `kind` hashes for object `o` on a tron / eth-style chain (none: no single encoder is
reached, or its address conversion does not fit the chain's address text) -/
def handlerPreimage (tron : Bool) (kind : String) (o : Obj) (gid : Nat) : Option (List Nat) :=
  match handlerEncoder tron kind with
  | none => none
  | some (_, L) => if L.args.all (fun a => srcOk tron a.src) then (goArgs L o gid).map enc else none

/-! ## Part B — the signed message -/

def constBytes (name : String) : Option (List Nat) :=
  if name == "signaturePrefix" then some goSignPrefix
  else if name == "tronSignaturePrefix" then some tronSignPrefix
  else none

def flat (xs : List (List Nat)) : List Nat := xs.foldr (· ++ ·) []

/-- the bytes a Go signature function hashes (`append(<parts>...)`), `digest` = its first parameter -/
def goSigPreimage (fn : String) (digest : List Nat) : Option (List Nat) :=
  match sigHashes.find? (fun h => h.func == fn) with
  | none => none
  | some h =>
    (allSome (h.parts.map fun p =>
      if p.1 == "const" then constBytes p.2 else if p.1 == "digest" then some digest else none)).map flat

/-- `abi.encodePacked(...)` of verifySig: a string literal contributes its bytes, a `bytes32` parameter its 32 bytes; the
only parameter that may occur is the hash (second parameter); any other encoding function (`abi.encode` pads and adds
offsets) is not modelled -/
def packedBytes (V : SolVerifySig) (hash : List Nat) : Option (List Nat) :=
  if V.packFn != "abi.encodePacked" then none else
  (allSome (V.packed.map fun
    | .lit bs => some bs
    | .var n ty => if ty == "bytes32" && (V.params.getD 1 ("", "")).2 == n then some hash else none)).map flat

/-- the `ecrecover` precompile: the zero address unless `v ∈ {27, 28}`, otherwise the curve recovery with id `v - 27`
(`ecr` fails = zero address) -/
def solEcrecover (ecr : List Nat → Nat → List Nat → List Nat → Option Nat) (h : List Nat) (v : Nat) (r s : List Nat) : Nat :=
  if v == 27 || v == 28 then (ecr h (v - 27) r s).getD 0 else 0

/-- `verifySig(_signer, _theHash, _v, _r, _s)` as the source spells it: `ecrecover` must be given the keccak of the packed
bytes and the v, r, s parameters in this order, and the result compared with `==` to the first parameter -/
def solVerifySig (V : SolVerifySig) (H : List Nat → List Nat) (ecr : List Nat → Nat → List Nat → List Nat → Option Nat)
    (signer : Nat) (hash : List Nat) (v : Nat) (r s : List Nat) : Bool :=
  match V.params.map (·.2), packedBytes V hash with
  | [pSigner, _, pV, pR, pS], some bs =>
    V.ecArgs == [V.digestVar, pV, pR, pS] && V.retLhs == pSigner && V.retOp == "==" &&
    solEcrecover ecr (H bs) v r s == signer
  | _, _ => false

/-- go-ethereum's `crypto.SigToPub(hash, sig)` + address rendering: exactly 65 bytes `r ‖ s ‖ id`, id < 4 -/
def goEc (ecr : List Nat → Nat → List Nat → List Nat → Option Nat) (render : Nat → String) (h sig : List Nat) : Option String :=
  if sig.length == 65 && sig.getD 64 0 < 4 then (ecr h (sig.getD 64 0) (sig.take 32) ((sig.drop 32).take 32)).map render
  else none

/-- the recovery byte after `EthAddressFromSignature`'s normalisation -/
def normV (v : Nat) : Nat := if v == 27 || v == 28 then v - 27 else v

/-! ## Part C — checkOracleSignatures -/

structure SigSlot where
  oracle : Nat
  power : Nat
  v : Nat
  r : List Nat
  s : List Nat
  deriving DecidableEq, Repr

/-- the `for` loop: `none` = a `require(verifySig(...))` failed (revert), `some c` = the loop ended (or broke) with
cumulative power `c` -/
def checkSigsLoop (verify : SigSlot → Bool) (thr : Nat) : List SigSlot → Nat → Option Nat
  | [], cum => some cum
  | sl :: rest, cum =>
    if sl.v != 0 then
      if verify sl then
        if cum + sl.power > thr then some (cum + sl.power) else checkSigsLoop verify thr rest (cum + sl.power)
      else none
    else checkSigsLoop verify thr rest cum

/-- `checkOracleSignatures` does not revert -/
def checkOracleSignatures (verify : SigSlot → Bool) (thr : Nat) (slots : List SigSlot) : Bool :=
  match checkSigsLoop verify thr slots 0 with
  | some c => c > thr
  | none => false

/-- the source of `checkOracleSignatures` is the loop above -/
def checkSigsAsModelled (k : SolCheckSigs) : Bool :=
  k.params == ["_currentOracles", "_currentPowers", "_v", "_r", "_s", "_theHash", "_powerThreshold"] &&
  k.guard == "_v[i] != 0" &&
  k.verifyArgs == ["_currentOracles[i]", "_theHash", "_v[i]", "_r[i]", "_s[i]"] && k.required &&
  k.accumulate == "cumulativePower = cumulativePower + _currentPowers[i]" &&
  k.breakCond == "cumulativePower > _powerThreshold" && k.finalRequire == "cumulativePower > _powerThreshold"

/-- an entry point hands `checkOracleSignatures` the caller's oracle set and signature arrays, the contract's power
threshold, and as hash one of the three digests (its own `abi.encode` site or a call of the digest function) computed under
the contract's own bridge id -/
def entryOk (e : SolEntry) : Bool :=
  (kindOfFunc e.hashFn).isSome && (e.hash == "site" || e.hash == "call") &&
  e.checkArgs.length == 7 && e.checkArgs.take 5 == ["_currentOracles", "_currentPowers", "_v", "_r", "_s"] &&
  e.checkArgs.getD 6 "" == "state_powerThreshold" &&
  e.hashArgs.all (fun p => p.1 != "_fxBridgeId" || p.2 == "state_fxBridgeId") &&
  (solSites.any fun s => s.file == e.file && s.func == e.hashFn)

/-! ## Part D — `ValidateConfirmSign` as the source spells it: the regenerated statement list, interpreted -/

/-- variables of `ValidateConfirmSign` -/
structure VEnv where
  sig : Option (List Nat) := none     -- sigBytes
  err : Bool := false
  found : Bool := false
  oracleAddr : Option Nat := none
  oracle : Option OracleRec := none

inductive VRes where
  | cont (e : VEnv)
  | fail (e : Err)
  | ret (oracle : Nat) (sig : List Nat) (r : OracleRec)

/-- error kind of a returned error (constant name, or first words of the Wrapf text) -/
def errOfText (t : String) : Err :=
  if t == "signature decoding" then .sigDecode
  else if t == "types.ErrNoFoundOracle" then .noOracle
  else if t == "got %s," then .mismatch
  else if t == "signature verification" then .badSig
  else .modelGap

/-- value of a string-typed expression: the parameters `signatureAddr`, `bridgerAddr` and the fields of `oracle` -/
def vStr (m : ConfirmMsg) (e : VEnv) (x : String) : Option String :=
  if x == "signatureAddr" then some m.external
  else if x == "bridgerAddr" then some m.bridger
  else if x == "oracle.ExternalAddress" then e.oracle.map (·.external)
  else if x == "oracle.BridgerAddress" then e.oracle.map (·.bridger)
  else none

/-- an `if` condition (binary conditions come split as [lhs, operator, rhs]) -/
def vCond (m : ConfirmMsg) (e : VEnv) : List String → Option Bool
  | ["err", "!=", "nil"] => some e.err
  | ["!found"] => some (!e.found)
  | [a, "!=", b] =>
    match vStr m e a, vStr m e b with
    | some x, some y => some (x != y)
    | _, _ => none
  | _ => none

def vStep (tron : Bool) (recoverBy : String → List Nat → List Nat → Option String) (st : HState) (m : ConfirmMsg)
    (digest : List Nat) (s : VStmt) (e : VEnv) : VRes :=
  if !(s.conds.all (condHolds tron)) then .cont e
  else if s.kind == "assign" then
    if s.fn == "hex.DecodeString" && s.args == ["signature"] && s.lhs == ["sigBytes", "err"] then
      .cont { e with sig := m.sig, err := m.sig.isNone }
    else if s.fn == "k.GetOracleAddrByExternalAddr" && s.lhs == ["oracleAddr", "found"] then
      match s.args with
      | [a] =>
        match vStr m e a with
        | some x => .cont { e with oracleAddr := st.byExternal.lookup x, found := (st.byExternal.lookup x).isSome }
        | none => .fail .modelGap
      | _ => .fail .modelGap
    else if s.fn == "k.GetOracle" && s.args == ["oracleAddr"] && s.lhs == ["oracle", "found"] then
      match e.oracleAddr with
      | some o => .cont { e with oracle := st.oracles.lookup o, found := (st.oracles.lookup o).isSome }
      | none => .fail .modelGap
    else .fail .modelGap
  else if s.kind == "failIf" then
    match vCond m e s.args with
    | some true => .fail (errOfText s.err)
    | some false => .cont e
    | none => .fail .modelGap
  else if s.kind == "check" then
    match s.args, e.sig with
    | [cp, sg, who], some sig =>
      if cp == "checkpoint" && sg == "sigBytes" then
        match vStr m e who with
        | some w => if recoverBy s.fn digest sig ≠ some w then .fail (errOfText s.err) else .cont e
        | none => .fail .modelGap
      else .fail .modelGap
    | _, _ => .fail .modelGap
  else if s.kind == "ret" then
    match s.args, e.oracleAddr, e.sig, e.oracle with
    | ["oracleAddr", "nil"], some o, some sig, some r => .ret o sig r
    | _, _, _, _ => .fail .modelGap
  else .fail .modelGap

def vRun (tron : Bool) (recoverBy : String → List Nat → List Nat → Option String) (st : HState) (m : ConfirmMsg)
    (digest : List Nat) : List VStmt → VEnv → Except Err (Nat × List Nat × OracleRec)
  | [], _ => .error .modelGap
  | s :: rest, e =>
    match vStep tron recoverBy st m digest s e with
    | .cont e' => vRun tron recoverBy st m digest rest e'
    | .fail x => .error x
    | .ret o sig r => .ok (o, sig, r)

/-- the validation `confirmStep` specifies -/
def validateSpec (recover : List Nat → List Nat → Option String) (st : HState) (m : ConfirmMsg) (digest : List Nat) :
    Except Err (Nat × List Nat × OracleRec) :=
  match m.sig with
  | none => .error .sigDecode
  | some sig =>
    match st.byExternal.lookup m.external with
    | none => .error .noOracle
    | some oracle =>
      match st.oracles.lookup oracle with
      | none => .error .noOracle
      | some r =>
        if r.external ≠ m.external then .error .mismatch
        else if r.bridger ≠ m.bridger then .error .mismatch
        else if recover digest sig ≠ some r.external then .error .badSig
        else .ok (oracle, sig, r)

/-- the signature validator a chain style runs -/
def validatorOf (tron : Bool) : String := if tron then "trontypes.ValidateTronSignature" else "types.ValidateEthereumSignature"

/-- the handler with BOTH regenerated parts: key plan and `ValidateConfirmSign` statement list -/
def confirmStepPV (P : Plan) (prog : List VStmt) (tron : Bool) (recoverBy : String → List Nat → List Nat → Option String)
    (st : HState) (m : ConfirmMsg) : Except Err HState :=
  match findObject P.kind st m.key P.lookups with
  | none => .error .notFound
  | some (fk, digest) =>
    match vRun tron recoverBy st m digest prog {} with
    | .error e => .error e
    | .ok (oracle, sig, r) =>
      match refKey P.kind m.key fk P.dup, refKey P.kind m.key fk P.store with
      | some dk, some sk =>
        if hasConfirm st dk oracle then .error .duplicate
        else .ok { st with confirms := ⟨sk, oracle, m.bridger, m.external, sig, digest, r⟩ :: st.confirms }
      | _, _ => .error .modelGap

/-- what the driver runs -/
def confirmStepGV (tron : Bool) (recoverBy : String → List Nat → List Nat → Option String) (st : HState) (m : ConfirmMsg) :
    Except Err HState :=
  confirmStepPV (planFor m.key) validateProg tron recoverBy st m

/-- the decoder rule behind a Validate…Signature function (`validateDecoders`, `sigRules`: both regenerated) -/
def ruleOfValidator (fn : String) : SigRule :=
  match validateDecoders.lookup fn with
  | some dec => (sigRules.find? (fun r => r.func == dec)).getD ⟨"", "", [], "", "", "", 0, [], 0⟩
  | none => ⟨"", "", [], "", "", "", 0, [], 0⟩

/-! ## Part E — genesis import of stored confirmations (`InitGenesis`): who a confirmation is filed under -/

/-- does the comparison of `InitGenesis` (regenerated: `genesisConfirmMatch`) hold between a stored confirmation and an
oracle record; sides other than the two address fields never match -/
def genesisSideC (e : Entry) (x : String) : Option String :=
  if x == "confirm.BridgerAddress" then some e.bridger else if x == "confirm.ExternalAddress" then some e.external else none

def genesisSideO (r : OracleRec) (x : String) : Option String :=
  if x == "oracle.BridgerAddress" then some r.bridger else if x == "oracle.ExternalAddress" then some r.external else none

def genesisMatches (cmp : String × String × String × String × String) (e : Entry) (r : OracleRec) : Bool :=
  cmp.2.2.1 == "==" &&
  match genesisSideC e cmp.2.1, genesisSideO r cmp.2.2.2.1 with
  | some a, some b => a == b
  | _, _ => false

/-- the oracles the import files confirmation `e` under: every oracle of the exported registry whose record matches -/
def importOwners (cmp : String × String × String × String × String) (oracles : List (Nat × OracleRec)) (e : Entry) : List Nat :=
  (oracles.filter fun p => genesisMatches cmp e p.2).map (·.1)

/-- the comparison the source has now for a confirmation list -/
def genesisCmpOf (list : String) : String × String × String × String × String :=
  (genesisConfirmMatch.find? (fun c => c.1 == list)).getD ("", "", "", "", "")

end FxVerif.Model.C12
