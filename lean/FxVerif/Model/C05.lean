import FxVerif.Gen.C05
/-!
# Model for C05 / C06 — outgoing pool, batches, outgoing bridge calls of one bridged chain

Executable, total, core-only.  One `State` per bridged chain (`x/crosschain/keeper`), operations = the message-server
entry points (`SendToExternal`, `CancelSendToExternal`, `IncreaseBridgeFee`, `RequestBatch`, `BridgeCall`), the
observation of an external event (`Attest → TryAttestation`: store heights, run the attestation handler in a cache
context, then `cleanupTimedOutBatches`, `cleanupTimeOutBridgeCall`), and `ExecuteClaim` of a pending bridge-call result.

Every message runs in the transaction's cache context: an error or a panic leaves the state unchanged.

Facts read from the source on every run (`FxVerif.Gen.C05`) are used wherever the code's behaviour depends on them:
comparison operators and height source of the two clean-ups, zero-timeout rejections, the sender check and the refunded
amount of a cancel, the base-fee comparison and pool removal of batch selection, the rule selecting the batches an executed
batch cancels, the batch size.

Not modelled (trusted, exercised by the correspondence harness): the token layer (`BaseCoinToBridgeToken` /
`BridgeTokenToBaseCoin` / `bridgeCallTransferCoins`) is a ledger `bal (account, token)`; the duplicate-key panic branch
of `AddUnbatchedTx` inside `CancelOutgoingTxBatch` (unreachable while ids are unique); oracle votes (one oracle holds all
power, every claim is observed at once); confirmations; slashing.
-/
namespace FxVerif.Model.C05
open FxVerif.Gen.C05

abbrev Addr := Nat
abbrev Token := Nat

structure Tx where
  id : Nat
  sender : Addr
  dest : String
  token : Nat
  amount : Nat
  fee : Nat
  deriving DecidableEq, Repr, Inhabited

structure Batch where
  nonce : Nat
  token : Nat
  txs : List Tx
  timeout : Nat
  block : Nat
  feeReceive : String
  deriving DecidableEq, Repr

structure Call where
  nonce : Nat
  sender : Addr
  refund : Addr
  tokens : List (Token × Nat)
  to : String
  data : String
  memo : String
  timeout : Nat
  block : Nat
  deriving DecidableEq, Repr

structure Params where
  avgBlockTime : Nat := 7000
  avgExtBlockTime : Nat := 15000
  batchTimeout : Nat := 43200000
  callTimeout : Nat := 604800000
  deriving DecidableEq, Repr

inductive How where | executed | refunded
  deriving DecidableEq, Repr

/-- ghost record of a settlement -/
structure Settle where
  isCall : Bool
  id : Nat
  how : How
  to : Addr
  coins : List (Token × Nat)
  deriving DecidableEq, Repr

abbrev Bal := List ((Addr × Token) × Nat)

structure State where
  nTokens : Nat := 0
  nextTxId : Nat := 1
  nextBatchId : Nat := 1
  nextCallId : Nat := 1
  /-- unbatched pool, kept in *reverse key order* (`contract ‖ fee ‖ id` descending): list order = iteration order of
  `IterateUnbatchedTransactions` restricted to one contract -/
  pool : List Tx := []
  batches : List Batch := []
  /-- outgoing bridge calls in key order (ascending nonce) = iteration order of `IterateOutgoingBridgeCalls` -/
  calls : List Call := []
  /-- observed, not yet executed bridge-call result claims: event nonce ↦ (bridge-call nonce, success) -/
  pending : List (Nat × Nat × Bool) := []
  bal : Bal := []
  obsExt : Nat := 0
  obsFx : Nat := 0
  eventNonce : Nat := 0
  fxHeight : Nat := 1
  params : Params := {}
  /-- ghost: settlements, in order -/
  settled : List Settle := []
  /-- ghost: bridge-call nonces whose successful execution on the external chain has been observed -/
  obsSuccess : List Nat := []
  /-- the part of `bal` held in ERC-20 form (FIP-20 balance of the account's EVM address); `bal` is the account's total
  holding of the token (base denom + bridge denom + ERC-20) -/
  erc : Bal := []
  /-- `x/erc20` store `OutgoingTransferRelation(module, txID)`: ids of the pool entries created through the `crossChain`
  precompile with an ERC-20 token — a refund of such an entry is converted back to ERC-20 -/
  relTx : List Nat := []
  /-- store prefix 0x51 `BridgeCallFromMsgKey`: nonces of the outgoing bridge calls created by `MsgBridgeCall`; every
  other outgoing bridge call was created by the `bridgeCall` precompile and is refunded in ERC-20 form -/
  fromMsg : List Nat := []

inductive Res where | ok (n : Nat) | err | panic
  deriving DecidableEq, Repr

inductive Ev where
  | batch (token : Token) (nonce : Nat)
  | result (call : Nat) (success : Bool)
  | other
  deriving DecidableEq, Repr

inductive Op where
  | send (sender : Addr) (dest : String) (token : Token) (amount fee : Nat)
  | cancel (id : Nat) (who : Addr)
  /-- `evm`: through the `increaseBridgeFee` precompile, called by `who`'s EVM address with the ERC-20 contract of `token`
  (the added fee is taken from the caller's ERC-20 balance); otherwise `MsgIncreaseBridgeFee` -/
  | incFee (id : Nat) (who : Addr) (token : Token) (add : Nat) (evm : Bool)
  | reqBatch (token : Token) (minFee baseFee : Nat) (feeReceive : String)
  | bridgeCall (sender refund : Addr) (to data memo : String) (coins : List (Token × Nat))
  /-- `crossChain` precompile called by `sender`'s EVM address with the ERC-20 contract of `token` -/
  | psend (sender : Addr) (dest : String) (token : Token) (amount fee : Nat)
  /-- `bridgeCall` precompile called by `sender`'s EVM address with ERC-20 contracts and amounts, in the caller's order -/
  | pcall (sender refund : Addr) (to data memo : String) (coins : List (Token × Nat))
  | observe (height : Nat) (ev : Ev)
  | exec (eventNonce : Nat)
  | setParams (p : Params)
  | block (n : Nat)
  deriving Repr

/-! ## ledger -/

/-- latest entry wins -/
def getBal : Bal → Addr × Token → Nat
  | [], _ => 0
  | (k', v) :: rest, k => if k = k' then v else getBal rest k

def setBal (b : Bal) (k : Addr × Token) (v : Nat) : Bal := (k, v) :: b

def addBal (b : Bal) (k : Addr × Token) (v : Nat) : Bal := setBal b k (getBal b k + v)
def subBal (b : Bal) (k : Addr × Token) (v : Nat) : Bal := setBal b k (getBal b k - v)

/-- debit a list of coins one after the other; `none` if a balance is insufficient or a token is not registered -/
def debitAll (nTokens : Nat) (who : Addr) : List (Token × Nat) → Bal → Option Bal
  | [], b => some b
  | (t, a) :: cs, b =>
    if t < nTokens ∧ a ≤ getBal b (who, t) then debitAll nTokens who cs (subBal b (who, t) a) else none

/-- `bridgeCallTransferCoins`: non-positive amounts are skipped -/
def creditAll (who : Addr) (cs : List (Token × Nat)) (b : Bal) : Bal :=
  cs.foldl (fun b c => if 0 < c.2 then addBal b (who, c.1) c.2 else b) b

/-! ## pool -/

/-- order of the store keys `contract ‖ fee(32 bytes, big endian) ‖ id(8 bytes, big endian)` -/
def keyLt (a b : Tx) : Bool :=
  a.token < b.token || (a.token == b.token && (a.fee < b.fee || (a.fee == b.fee && a.id < b.id)))

/-- `AddUnbatchedTx`: insert keeping the list in descending key order -/
def insertDesc (x : Tx) : List Tx → List Tx
  | [] => [x]
  | y :: ys => if keyLt y x then x :: y :: ys else y :: insertDesc x ys

def insertAll (xs : List Tx) (pool : List Tx) : List Tx := xs.foldl (fun p x => insertDesc x p) pool

/-- `pickUnBatchedTx` / `GetBatchFeesByTokenType`: walk the pool of one contract in iteration order; stop at the first fee
below the base fee or when `n` are selected.  Returns (selected, rest of the pool). -/
def pick (t : Token) (base : Nat) : Nat → List Tx → List Tx × List Tx
  | _, [] => ([], [])
  | 0, l => ([], l)
  | n + 1, x :: xs =>
    if x.token = t then
      if pickBaseFeeStops && pickBaseFeeCmp.eval x.fee base then ([], x :: xs)
      else ((pick t base n xs).1.cons x, (pick t base n xs).2)
    else ((pick t base (n + 1) xs).1, x :: (pick t base (n + 1) xs).2)

def totalFee (l : List Tx) : Nat := (l.map (·.fee)).sum

/-- amount handed back by `handleRemoveFromOutgoingPoolAndRefund` (summands as written in the source) -/
def refundAmount (tx : Tx) : Nat :=
  (if cancelRefundTerms.contains "tx.Token.Amount" then tx.amount else 0) +
  (if cancelRefundTerms.contains "tx.Fee.Amount" then tx.fee else 0)

/-! ## time-outs -/

def heightOf (src : HeightSrc) (s : State) : Nat :=
  match src with
  | .observedExternal => s.obsExt
  | .observedFx => s.obsFx
  | .fxHeight => s.fxHeight
  | .projected => (s.fxHeight - s.obsFx) * s.params.avgBlockTime / s.params.avgExtBlockTime + s.obsExt
  | .unknown => 0

/-- `CalExternalTimeoutHeight` -/
def calTimeout (s : State) (period : Nat) : Nat :=
  if calTimeoutGuardReturnsZero && calTimeoutGuardCmp.eval s.obsExt 0 then 0
  else (s.fxHeight - s.obsFx) * s.params.avgBlockTime / s.params.avgExtBlockTime + s.obsExt
       + period / s.params.avgExtBlockTime

/-- `CancelOutgoingTxBatch` for every batch satisfying `p`: transfers go back to the pool, the batch is deleted -/
def cancelBatches (p : Batch → Bool) (s : State) : State :=
  { s with batches := s.batches.filter (fun b => !p b),
           pool := insertAll ((s.batches.filter p).flatMap (·.txs)) s.pool }

def batchExpired (h : Nat) (b : Batch) : Bool := batchCleanupCancels && batchCleanupCmp.eval b.timeout h

/-- `cleanupTimedOutBatches` -/
def cleanupBatches (s : State) : State := cancelBatches (batchExpired (heightOf batchCleanupSrc s)) s

/-- the account `HandleOutgoingBridgeCallRefund` pays (read from the source): the record's refund address or its sender -/
def callRefundTo (c : Call) : Addr :=
  match callRefundReceiver with
  | .refund => c.refund
  | .sender => c.sender
  | .unknown => c.refund

/-- `HandleOutgoingBridgeCallRefund` + `DeleteOutgoingBridgeCallRecord` bookkeeping for one record -/
def refundCall (s : State) (c : Call) : State :=
  { s with bal := if callCleanupRefunds then creditAll (callRefundTo c) c.tokens s.bal else s.bal,
           -- "precompile bridge call, refund to evm": unless the record is marked as created by `MsgBridgeCall`, the
           -- refunded coins are converted to ERC-20 for the same account (`bridgeCallTransferTokens`)
           erc := if callCleanupRefunds && callRefundEvmUnlessFromMsg && !(s.fromMsg.contains c.nonce)
                  then creditAll (callRefundTo c) c.tokens s.erc else s.erc,
           settled := s.settled ++ [⟨true, c.nonce, .refunded, callRefundTo c, c.tokens⟩] }

/-- `DeleteOutgoingBridgeCallRecord`, step 3 (`DeleteBridgeCallFromMsg`) for the given nonces -/
def dropFromMsg (ns : List Nat) (s : State) : State :=
  { s with fromMsg := if deleteRecordDropsFromMsg then s.fromMsg.filter (fun n => !ns.contains n) else s.fromMsg }

def callStops (h : Nat) (c : Call) : Bool := callCleanupStopCmp.eval c.timeout h

/-- the records `cleanupTimeOutBridgeCall` refunds at height `h`: the longest prefix (in nonce order) of records that
do not satisfy the stop comparison (all such records if the callback never stops) -/
def expiredCalls (h : Nat) (cs : List Call) : List Call :=
  if callCleanupStops then cs.takeWhile (fun c => !callStops h c) else cs.filter (fun c => !callStops h c)

def keptCalls (h : Nat) (cs : List Call) : List Call :=
  if callCleanupStops then cs.dropWhile (fun c => !callStops h c) else cs.filter (fun c => callStops h c)

/-- `cleanupTimeOutBridgeCall` without the deletion of the from-message marks -/
def cleanupCallsCore (s : State) : State :=
  let h := heightOf callCleanupSrc s
  (expiredCalls h s.calls).foldl refundCall
    { s with calls := if callCleanupDeletes then keptCalls h s.calls else s.calls }

/-- `cleanupTimeOutBridgeCall` in closed form: every refunded record is deleted together with its from-message mark; all
refunds read the marks as they were before the clean-up (equal to the sequential `cleanupCalls` below on every field except,
when two stored records share a nonce — never in a reachable state — `erc` / `fromMsg`: `Proofs.C05.cleanupCalls_core`) -/
def cleanupCallsStd (s : State) : State :=
  let s' := cleanupCallsCore s
  if callCleanupDeletes then dropFromMsg ((expiredCalls (heightOf callCleanupSrc s) s.calls).map (·.nonce)) s' else s'

/-! ### settlement of one outgoing bridge-call record: the statements of the source, run in the order they have there

`HandleOutgoingBridgeCallRefund` READS the from-message mark (coins, or ERC-20) and `DeleteOutgoingBridgeCallRecord`
REMOVES it, so their order matters: the statement lists are regenerated (`callCleanupBody`, `resultFailureBody`,
`resultSuccessBody`, `deleteRecordBody`) and interpreted here, one record after the other, as the iteration callback does. -/

/-- a primitive statement, by the name it has in the source -/
def callPrim (c : Call) (name : String) (s : State) : State :=
  if name = "HandleOutgoingBridgeCallRefund" then refundCall s c
  else if name = "DeleteOutgoingBridgeCall" then { s with calls := s.calls.erase c }
  else if name = "DeleteBridgeCallFromMsg" then { s with fromMsg := s.fromMsg.filter (fun n => !([c.nonce].contains n)) }
  else s

/-- `DeleteOutgoingBridgeCallRecord` is its regenerated body -/
def callStmt (c : Call) (name : String) (s : State) : State :=
  if name = "DeleteOutgoingBridgeCallRecord" then deleteRecordBody.foldl (fun s n => callPrim c n s) s
  else callPrim c name s

def callStmts (c : Call) (body : List String) (s : State) : State := body.foldl (fun s n => callStmt c n s) s

/-- `cleanupTimeOutBridgeCall`: the callback body (`callCleanupBody`, regenerated) runs for one expired record after the
other, in iteration order -/
def cleanupCalls (s : State) : State :=
  (expiredCalls (heightOf callCleanupSrc s) s.calls).foldl (fun s c => callStmts c callCleanupBody s) s

/-! ## operations -/

/-- `ValidateExternalAddr` for the 0x-address chains: `0x` + 40 hex digits (only the length is modelled) -/
def validAddr (a : String) : Bool := a.length == 42

def doSend (s : State) (sender : Addr) (dest : String) (token : Token) (amount fee : Nat) : State × Res :=
  if amount = 0 ∨ fee = 0 ∨ ¬ token < s.nTokens ∨ validAddr dest = false then (s, .err)
  else if getBal s.bal (sender, token) < amount + fee then (s, .err)
  else
    ({ s with nextTxId := s.nextTxId + 1,
              bal := subBal s.bal (sender, token) (amount + fee),
              pool := insertDesc ⟨s.nextTxId, sender, dest, token, amount, fee⟩ s.pool }, .ok s.nextTxId)

def doCancel (s : State) (id : Nat) (who : Addr) : State × Res :=
  if id = 0 then (s, .err) else
  match s.pool.find? (fun t => t.id = id) with
  | none => (s, .err)
  | some tx =>
    if cancelSenderCheck && tx.sender != who then (s, .err)
    else
      ({ s with pool := s.pool.erase tx,
                bal := addBal s.bal (who, tx.token) (refundAmount tx),
                -- `handleOutgoingTransferRelation` → `HookOutgoingRefund`: an entry created through the `crossChain`
                -- precompile is refunded as ERC-20, and its relation is deleted
                erc := if cancelRefundHook && s.relTx.contains tx.id then addBal s.erc (who, tx.token) (refundAmount tx)
                       else s.erc,
                relTx := if cancelRefundHook then s.relTx.filter (fun i => i != tx.id) else s.relTx,
                settled := s.settled ++ [⟨false, tx.id, .refunded, who, [(tx.token, refundAmount tx)]⟩] }, .ok 0)

/-- the account `AddUnbatchedTxBridgeFee` debits (read from the source): the message signer or the creator of the entry -/
def incFeePayerOf (tx : Tx) (who : Addr) : Addr :=
  match incFeePayer with
  | .msgSender => who
  | .txSender => tx.sender
  | .unknown => who

def doIncFee (s : State) (id : Nat) (who : Addr) (token : Token) (add : Nat) (evm : Bool) : State × Res :=
  if id = 0 ∨ add = 0 then (s, .err) else
  match s.pool.find? (fun t => t.id = id) with
  | none => (s, .err)
  | some tx =>
    -- `evm`: `IncreaseBridgeFeeMethod.Run` → `handlerERC20Token` (`transferFrom` out of the caller's ERC-20 balance, converted
    -- to the caller's coins) → `AddUnbatchedTxBridgeFee(txID, caller, fee)`; a failure anywhere reverts the whole call
    if ¬ token < s.nTokens ∨ (incFeeTokenCheck = true ∧ tx.token ≠ token) ∨
        getBal s.bal (incFeePayerOf tx who, token) < add ∨ (evm = true ∧ getBal s.erc (who, token) < add) then (s, .err)
    else
      ({ s with pool := insertDesc { tx with fee := tx.fee + add } (s.pool.erase tx),
                bal := subBal s.bal (incFeePayerOf tx who, token) add,
                erc := subBal s.erc (who, token) (evm.toNat * add) }, .ok 0)

/-- the batch with the highest nonce of a token (`GetLastOutgoingBatchByToken`) -/
def lastBatch (t : Token) (bs : List Batch) : Option Batch :=
  bs.foldl (fun acc b =>
    if b.token == t && (match acc with | some a => decide (a.nonce < b.nonce) | none => decide (0 < b.nonce))
    then some b else acc) none

def doReqBatch (s : State) (token : Token) (minFee baseFee : Nat) (feeReceive : String) : State × Res :=
  if minFee = 0 ∨ ¬ token < s.nTokens ∨ outgoingTxBatchSize = 0 ∨ validAddr feeReceive = false then (s, .err) else
  let sel := pick token baseFee outgoingTxBatchSize s.pool
  let notProfitable : Bool := match lastBatch token s.batches with
    | some lb => decide (totalFee sel.1 < totalFee lb.txs)
    | none => false
  if notProfitable then (s, .err)
  else if sel.1 = [] ∨ totalFee sel.1 < minFee then (s, .err)
  else
    let timeout := calTimeout s s.params.batchTimeout
    if batchZeroTimeoutRejects && batchZeroTimeoutCmp.eval timeout 0 then (s, .err)
    else if s.batches.any (fun b => b.block == s.fxHeight) then (s, .err)
    else
      ({ s with nextBatchId := s.nextBatchId + 1,
                batches := s.batches ++ [⟨s.nextBatchId, token, sel.1, timeout, s.fxHeight, feeReceive⟩],
                pool := if pickRemovesFromPool then sel.2 else s.pool }, .ok s.nextBatchId)

def doBridgeCall (s : State) (sender refund : Addr) (to data memo : String) (coins : List (Token × Nat)) : State × Res :=
  -- `MsgBridgeCall.ValidateBasic`: valid `to`; coins and data not both empty
  if validAddr to = false ∨ (coins = [] ∧ data = "") then (s, .err) else
  match debitAll s.nTokens sender coins s.bal with
  | none => (s, .err)
  | some bal' =>
    let timeout := calTimeout s s.params.callTimeout
    if callZeroTimeoutRejects && callZeroTimeoutCmp.eval timeout 0 then (s, .err)
    else
      ({ s with nextCallId := s.nextCallId + 1, bal := bal',
                calls := s.calls ++ [⟨s.nextCallId, sender, refund, coins, to, data, memo, timeout, s.fxHeight⟩],
                fromMsg := if msgBridgeCallSetsFromMsg then s.fromMsg ++ [s.nextCallId] else s.fromMsg },
       .ok s.nextCallId)

/-- the `crossChain` precompile with an ERC-20 token (`CrossChainMethod.Run` → `handlerERC20Token` → `outgoingTransfer` →
`AddToOutgoingPool`, then `SetOutgoingTransferRelation`): `CrossChainArgs.Validate` wants a positive amount and accepts a
zero fee; the caller's ERC-20 balance must cover amount + fee (`transferFrom`); a failure reverts the whole call -/
def doPSend (s : State) (sender : Addr) (dest : String) (token : Token) (amount fee : Nat) : State × Res :=
  if amount = 0 ∨ ¬ token < s.nTokens ∨ validAddr dest = false then (s, .err)
  else if getBal s.erc (sender, token) < amount + fee ∨ getBal s.bal (sender, token) < amount + fee then (s, .err)
  else
    ({ s with nextTxId := s.nextTxId + 1,
              bal := subBal s.bal (sender, token) (amount + fee),
              erc := subBal s.erc (sender, token) (amount + fee),
              pool := insertDesc ⟨s.nextTxId, sender, dest, token, amount, fee⟩ s.pool,
              relTx := if precompileSendSetsRelation then s.relTx ++ [s.nextTxId] else s.relTx }, .ok s.nextTxId)

/-- the `bridgeCall` precompile with ERC-20 tokens (`BridgeCallMethod.Run` → `EvmToBaseCoin` per token, in the caller's
order → `AddOutgoingBridgeCall`); the record is *not* marked as coming from a message; `to` is an EVM address (always
well formed), and there is no "coins or data" requirement -/
def doPCall (s : State) (sender refund : Addr) (to data memo : String) (coins : List (Token × Nat)) : State × Res :=
  match debitAll s.nTokens sender coins s.erc, debitAll s.nTokens sender coins s.bal with
  | some erc', some bal' =>
    let timeout := calTimeout s s.params.callTimeout
    if callZeroTimeoutRejects && callZeroTimeoutCmp.eval timeout 0 then (s, .err)
    else
      ({ s with nextCallId := s.nextCallId + 1, bal := bal', erc := erc',
                calls := s.calls ++ [⟨s.nextCallId, sender, refund, coins, to, data, memo, timeout, s.fxHeight⟩],
                fromMsg := if precompileBridgeCallSetsFromMsg then s.fromMsg ++ [s.nextCallId] else s.fromMsg },
       .ok s.nextCallId)
  | _, _ => (s, .err)

/-- `OutgoingTxBatchExecuted` for a batch that exists -/
def executeBatch (s : State) (b : Batch) : State :=
  let s' := cancelBatches (fun b' => executedCancelsCmp.eval b'.nonce b.nonce &&
                                      (!executedCancelsSameToken || b'.token == b.token)) s
  { s' with batches := s'.batches.erase b,
            -- "Delete outgoing transfer relation" of every executed transfer
            relTx := if executedDeletesRelation then s'.relTx.filter (fun i => !(b.txs.any (fun tx => tx.id == i)))
                     else s'.relTx,
            settled := s'.settled ++ b.txs.map (fun tx => ⟨false, tx.id, .executed, 0, [(tx.token, tx.amount + tx.fee)]⟩) }

/-- `AttestationHandler` in its cache context; `none` = panic (the whole claim transaction is reverted) -/
def handleEvent (s : State) : Ev → Option State
  | .other => some s
  | .result c ok =>
    some { s with pending := s.pending ++ [(s.eventNonce, c, ok)],
                  obsSuccess := if ok then s.obsSuccess ++ [c] else s.obsSuccess }
  | .batch t n =>
    match s.batches.find? (fun b => b.token = t ∧ b.nonce = n) with
    | none => none
    | some b => some (executeBatch s b)

/-- one of the state-changing calls of `TryAttestation`, by the name it has in the source; `none` = panic -/
def attStep (h : Nat) (ev : Ev) (name : String) (s : State) : Option State :=
  if name = "SetLastObservedEventNonce" then some { s with eventNonce := s.eventNonce + 1 }
  else if name = "SetLastObservedBlockHeight" then some { s with obsExt := h, obsFx := s.fxHeight }
  else if name = "processAttestation" then handleEvent s ev
  else if name = "cleanupTimedOutBatches" then some (cleanupBatches s)
  else if name = "cleanupTimeOutBridgeCall" then some (cleanupCalls s)
  else some s

def attSteps (h : Nat) (ev : Ev) : List String → State → Option State
  | [], s => some s
  | n :: ns, s => match attStep h ev n s with
    | none => none
    | some s' => attSteps h ev ns s'

/-- `Attest → TryAttestation` with a single oracle holding all the power: the state-changing calls run in the order
they have in the source (`tryAttestationOrder`, regenerated); a panic reverts the whole claim transaction -/
def doObserve (s : State) (h : Nat) (ev : Ev) : State × Res :=
  match attSteps h ev tryAttestationOrder s with
  | none => (s, .panic)
  | some s' => (s', .ok (s.eventNonce + 1))

/-- the same with the order as it is in the source now (see `Proofs.C05.doObserve_eq`) -/
def doObserveStd (s : State) (h : Nat) (ev : Ev) : State × Res :=
  let s1 := { s with eventNonce := s.eventNonce + 1, obsExt := h, obsFx := s.fxHeight }
  match handleEvent s1 ev with
  | none => (s, .panic)
  | some s2 => (cleanupCalls (cleanupBatches s2), .ok s1.eventNonce)

/-- `ExecuteClaim` for bridge-call result claims (`BridgeCallResultHandler`): what happens to the record, per outcome, is
the regenerated statement list (`resultSuccessBody` / `resultFailureBody`) run in source order; the ghost log records an
execution when a successful result is applied without a refund -/
def doExec (s : State) (n : Nat) : State × Res :=
  match s.pending.find? (fun p => p.1 = n) with
  | none => (s, .err)
  | some p =>
    match s.calls.find? (fun c => c.nonce = p.2.1) with
    | none => (s, .panic)
    | some c =>
      let body := if p.2.2 then resultSuccessBody else resultFailureBody
      let s2 := callStmts c body { s with pending := s.pending.erase p }
      if p.2.2 && !(body.contains "HandleOutgoingBridgeCallRefund") then
        ({ s2 with settled := s2.settled ++ [⟨true, c.nonce, .executed, 0, c.tokens⟩] }, .ok 0)
      else (s2, .ok 0)

/-- the same with the refund / delete pattern the source has now (see `Proofs.C05.doExec_eq`) -/
def doExecStd (s : State) (n : Nat) : State × Res :=
  match s.pending.find? (fun p => p.1 = n) with
  | none => (s, .err)
  | some p =>
    match s.calls.find? (fun c => c.nonce = p.2.1) with
    | none => (s, .panic)
    | some c =>
      let s1 := { s with pending := s.pending.erase p, calls := s.calls.erase c }
      if p.2.2 then
        (dropFromMsg [c.nonce] { s1 with settled := s1.settled ++ [⟨true, c.nonce, .executed, 0, c.tokens⟩] }, .ok 0)
      else (dropFromMsg [c.nonce] (refundCall s1 c), .ok 0)

/-- what `EndBlocker` does to the part of the state modelled here: the clean-ups it calls (regenerated list; none in the
source as it is), at the new height -/
def endBlock (s : State) : State :=
  endBlockerCleanups.foldl (fun s name =>
    if name = "cleanupTimedOutBatches" then cleanupBatches s
    else if name = "cleanupTimeOutBridgeCall" then cleanupCalls s else s) s

def step (s : State) : Op → State × Res
  | .send a d t am f => doSend s a d t am f
  | .cancel id who => doCancel s id who
  | .incFee id who t add evm => doIncFee s id who t add evm
  | .reqBatch t mf bf fr => doReqBatch s t mf bf fr
  | .bridgeCall a r to d m cs => doBridgeCall s a r to d m cs
  | .psend a d t am f => doPSend s a d t am f
  | .pcall a r to d m cs => doPCall s a r to d m cs
  | .observe h ev => doObserve s h ev
  | .exec n => doExec s n
  | .setParams p =>
    -- `Params.ValidateBasic`
    if p.avgBlockTime < 100 ∨ p.avgExtBlockTime < 100 ∨ p.batchTimeout < 60000 ∨ p.callTimeout ≤ 3600000 then (s, .err)
    else ({ s with params := p }, .ok 0)
  | .block n => (endBlock { s with fxHeight := s.fxHeight + n }, .ok 0)

def run (s : State) (ops : List Op) : State := ops.foldl (fun s op => (step s op).1) s

/-- initial states: nothing issued yet; ledger, parameters, heights arbitrary -/
def IsInit (s : State) : Prop :=
  s.nextTxId = 1 ∧ s.nextBatchId = 1 ∧ s.nextCallId = 1 ∧ s.pool = [] ∧ s.batches = [] ∧ s.calls = [] ∧
  s.pending = [] ∧ s.settled = [] ∧ s.obsSuccess = [] ∧ s.obsExt = 0 ∧ s.eventNonce = 0 ∧ s.relTx = [] ∧ s.fromMsg = []

def init (nTokens : Nat) (bal : Bal) (p : Params) : State := { nTokens := nTokens, bal := bal, params := p }

end FxVerif.Model.C05
