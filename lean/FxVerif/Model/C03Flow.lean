import FxVerif.Model.C03Go

/-!
# C03 — the claim handlers as control-flow programs the model interprets (core Lean only; round 4)

`go/extract/c03flow.go` compiles the body of each claim handler (`SendToFxExecuted`, `BridgeCallHandler`,
`BridgeCallResultHandler`, `UpdateOracleSetExecuted`, `AddBridgeTokenExecuted`, and the `MsgSendToExternalClaim` case of
`AttestationHandler`) into a flat instruction list (`Gen/C03.lean` `flow_<tag>`): assignments, expression statements,
conditional and unconditional jumps (`if`/`else`), `range` loops (`iterInit`/`iterNext`), returns.  Every Go expression
becomes `⟨source text, leaves⟩`: an OPAQUE deterministic function — named by its source text — of the values of its leaves
and of the chain state it runs in (it may also write that state: keeper calls, `commit()`, …).  The leaves are

* `read fn expr`: a maximal expression rooted at the claim variable, by the same (function, shape) key under which the
  REGENERATED `handlerView` lists it — its value is looked up THERE, so the only way a flow can see the claim is through
  its handler view;
* `var v`: a local variable.

The interpreter is parametric in the semantics of the opaque functions (`FSem`: any state type, any value type, any
deterministic meaning of every expression, any truth test, any enumeration of `range`), so what is proved about it holds for
the real bank / erc20 / evm / ibc keepers without modelling them: the handler's result — final state, returned values, how
it ended — is a function of the handler view alone.  Anything the translator does not recognise is `.unknown` (the
interpreter is stuck there, and `flows_modelled` fails).
-/
namespace FxVerif.Model.C03

inductive FLeaf where
  | read (fn expr : String)
  | var (v : String)
  deriving DecidableEq, Repr

/-- a Go expression: an opaque function `src` of its leaves and of the state -/
structure FExpr where
  src : String
  leaves : List FLeaf
  deriving DecidableEq, Repr

inductive FInstr where
  /-- `x, y := e` / `x = e` (several variables: the components of the result) -/
  | assign (vars : List String) (e : FExpr)
  /-- an expression statement -/
  | eval (e : FExpr)
  /-- `if e { … }`: jump to `target` when `e` is false -/
  | brFalse (e : FExpr) (target : Nat)
  | jmp (target : Nat)
  /-- `for k, v := range e`: `it := elements of e` -/
  | iterInit (it : String) (e : FExpr)
  /-- next element into `kvar`, `vvar`, or jump to `exit` when there is none -/
  | iterNext (it : String) (kvar vvar : String) (exit : Nat)
  /-- `return e₁, …` (also `panic(e)`) -/
  | ret (es : List FExpr)
  /-- `defer` of logging / telemetry only -/
  | skip (why : String)
  | unknown (src : String)
  deriving DecidableEq, Repr

/-- the meaning of the opaque parts -/
structure FSem (σ ν : Type) where
  /-- the Go expression `src` applied to the values of its leaves, in a state: new state and value -/
  op : String → List ν → σ → σ × ν
  /-- component `i` of a multi-valued result -/
  proj : Nat → ν → ν
  truth : ν → Bool
  /-- `range`: (index or key, element) in order -/
  elems : ν → List (ν × ν)
  /-- a claim value -/
  ofView : List HLeaf → ν
  undef : ν

inductive FEnd where
  | returned | fellOff | stuck | outOfFuel
  deriving DecidableEq, Repr

structure FResult (σ ν : Type) where
  how : FEnd
  state : σ
  vals : List ν

section
variable {σ ν : Type}

def viewLookup (view : List HEntry) (fn expr : String) : Option HEntry :=
  view.find? fun h => h.fn == fn && h.expr == expr

structure FEnv (ν : Type) where
  vars : List (String × ν) := []
  iters : List (String × List (ν × ν)) := []

def evalLeaf (sem : FSem σ ν) (view : List HEntry) (env : FEnv ν) : FLeaf → ν
  | .read fn ex =>
    match viewLookup view fn ex with
    | some h => sem.ofView h.vals
    | none => sem.undef
  | .var v => (env.vars.lookup v).getD sem.undef

def evalE (sem : FSem σ ν) (view : List HEntry) (env : FEnv ν) (e : FExpr) (st : σ) : σ × ν :=
  sem.op e.src (e.leaves.map (evalLeaf sem view env)) st

def setVar (env : FEnv ν) (v : String) (x : ν) : FEnv ν :=
  { env with vars := (v, x) :: env.vars.filter (fun p => p.1 != v) }

def bindVars (sem : FSem σ ν) (env : FEnv ν) (x : ν) : List String → Nat → FEnv ν
  | [], _ => env
  | [v], 0 => setVar env v x
  | v :: r, i => bindVars sem (setVar env v (sem.proj i x)) x r (i + 1)

def evalList (sem : FSem σ ν) (view : List HEntry) (env : FEnv ν) : List FExpr → σ → σ × List ν
  | [], st => (st, [])
  | e :: r, st =>
    let (st1, v) := evalE sem view env e st
    let (st2, vs) := evalList sem view env r st1
    (st2, v :: vs)

/-- run from instruction `pc` -/
def exec (sem : FSem σ ν) (prog : List FInstr) (view : List HEntry) : Nat → Nat → FEnv ν → σ → FResult σ ν
  | 0, _, _, st => ⟨.outOfFuel, st, []⟩
  | fuel + 1, pc, env, st =>
    match prog[pc]? with
    | none => ⟨.fellOff, st, []⟩
    | some (.assign vars e) =>
      let (st1, x) := evalE sem view env e st
      exec sem prog view fuel (pc + 1) (bindVars sem env x vars 0) st1
    | some (.eval e) => exec sem prog view fuel (pc + 1) env (evalE sem view env e st).1
    | some (.brFalse e t) =>
      let (st1, x) := evalE sem view env e st
      exec sem prog view fuel (if sem.truth x then pc + 1 else t) env st1
    | some (.jmp t) => exec sem prog view fuel t env st
    | some (.iterInit it e) =>
      let (st1, x) := evalE sem view env e st
      exec sem prog view fuel (pc + 1) { env with iters := (it, sem.elems x) :: env.iters.filter (fun p => p.1 != it) } st1
    | some (.iterNext it kv vv ex) =>
      match env.iters.lookup it with
      | some ((k, v) :: rest) =>
        exec sem prog view fuel (pc + 1)
          (setVar (setVar { env with iters := (it, rest) :: env.iters.filter (fun p => p.1 != it) } kv k) vv v) st
      | _ => exec sem prog view fuel ex env st
    | some (.ret es) =>
      let (st1, vs) := evalList sem view env es st
      ⟨.returned, st1, vs⟩
    | some (.skip _) => exec sem prog view fuel (pc + 1) env st
    | some (.unknown _) => ⟨.stuck, st, []⟩

end

/-! ## what a flow mentions -/

def FInstr.exprs : FInstr → List FExpr
  | .assign _ e | .eval e | .brFalse e _ | .iterInit _ e => [e]
  | .ret es => es
  | _ => []

/-- the claim reads of a flow, as (function, shape) keys -/
def flowReads (p : List FInstr) : List (String × String) :=
  (p.flatMap FInstr.exprs).flatMap fun e => e.leaves.filterMap fun
    | .read fn ex => some (fn, ex)
    | .var _ => none

def FInstr.targets : FInstr → List Nat
  | .brFalse _ t | .jmp t | .iterNext _ _ _ t => [t]
  | _ => []

def FInstr.isUnknown : FInstr → Bool
  | .unknown _ => true
  | _ => false

/-- every statement was recognised, every jump lands inside the program or just behind it, and the program is not empty -/
def flowModelled (p : List FInstr) : Bool :=
  !p.isEmpty && p.all (fun i => !i.isUnknown) && p.all fun i => i.targets.all (· ≤ p.length)

/-- every claim read of the flow is an entry of the view -/
def flowResolves (p : List FInstr) (view : List HEntry) : Bool :=
  (flowReads p).all fun r => (viewLookup view r.1 r.2).isSome

/-- every entry the view lists for one of the functions `fns` is read by the flow (the two translations agree) -/
def flowCovers (p : List FInstr) (fns : List String) (view : List HEntry) : Bool :=
  view.all fun h => !fns.contains h.fn || (flowReads p).contains (h.fn, h.expr)

end FxVerif.Model.C03
