import FxVerif.Gen.C18
/-!
# C18 model — tolerated-failure boundaries

* `tryCached` : `CacheContext()` … `commit()`-only-on-success.
* `SubStep S` : a sub-step = an arbitrary list of writes `S → S` plus an optional failure position `n` (the first `n`
  writes are applied to the context the sub-step runs on, then it returns an error).
* `Steps` : a boundary as the code composes it — an ordered list of named calls, each tagged with the region it runs
  in (`pre`: outer ctx before the cache is opened; `cached`: on the cache branch; `onOk`/`onFail`: outer ctx, in the
  branch where the cache was / was not committed; `post`: outer ctx, unconditionally afterwards).
  `compile` computes the `Steps` of a boundary from the call list regenerated from the Go AST (`Gen/C18.lean`).
* `BC` : concrete bank-level model of `BridgeCallHandler` (credit to the receiver on the outer ctx, conversion +
  contract call in the cache, refund from the refund address on failure).
Core Lean only.
-/
namespace FxVerif.Model.C18
open FxVerif.Gen.C18

/-- `xCtx, commit := ctx.CacheContext(); if err := f(xCtx); err == nil { commit() }` -/
def tryCached {S E : Type} (f : S → Except E S) (s : S) : S :=
  match f s with
  | .ok s' => s'
  | .error _ => s

/-- a sub-step: arbitrary writes, failing after an arbitrary prefix -/
structure SubStep (S : Type) where
  ws : List (S → S)
  failAt : Option Nat

namespace SubStep
variable {S : Type}
def applyAll (ws : List (S → S)) (s : S) : S := ws.foldl (fun a w => w a) s
def ok (p : SubStep S) : Bool := p.failAt.isNone
/-- the state of the context the sub-step ran on at the moment it returns (all writes, or the prefix before the failure) -/
def after (p : SubStep S) (s : S) : S :=
  match p.failAt with
  | none => applyAll p.ws s
  | some n => applyAll (p.ws.take n) s
/-- result as seen by a caller that propagates errors (the partial state is what a surrounding cache would drop) -/
def run (p : SubStep S) (s : S) : Except Unit S := if p.ok then .ok (p.after s) else .error ()
end SubStep

/-- run named calls one after the other on the same context; the first error is propagated -/
def runSeq {S : Type} (eff : String → SubStep S) : List String → S → Except Unit S
  | [], s => .ok s
  | n :: ns, s =>
    match (eff n).run s with
    | .ok s' => runSeq eff ns s'
    | .error e => .error e

inductive Region | pre | cached | onOk | onFail | post | none
deriving DecidableEq, Repr

abbrev Steps := List (Region × String)

def names (r : Region) (st : Steps) : List String := (st.filter (fun p => p.1 == r)).map (·.2)

/-- a boundary: pre calls on the outer ctx; cached calls on a branch that is committed iff all of them succeed; then the
`onOk` or the `onFail` calls on the outer ctx; then the `post` calls.  An error of an outer call is propagated (the
enclosing transaction / native action reverts as a whole). -/
def runSteps {S : Type} (st : Steps) (eff : String → SubStep S) (s : S) : Except Unit S :=
  match runSeq eff (names .pre st) s with
  | .error e => .error e
  | .ok s1 =>
    let mid :=
      match runSeq eff (names .cached st) s1 with
      | .ok b => runSeq eff (names .onOk st) b
      | .error _ => runSeq eff (names .onFail st) s1
    match mid with
    | .error e => .error e
    | .ok s2 => runSeq eff (names .post st) s2

/-- the designated outcome: only the calls that run on the outer ctx when the cached sub-step failed -/
def runOuterOnly {S : Type} (st : Steps) (eff : String → SubStep S) (s : S) : Except Unit S :=
  match runSeq eff (names .pre st) s with
  | .error e => .error e
  | .ok s1 =>
    match runSeq eff (names .onFail st) s1 with
    | .error e => .error e
    | .ok s2 => runSeq eff (names .post st) s2

def cachedFails {S : Type} (st : Steps) (eff : String → SubStep S) : Prop :=
  ∃ n, n ∈ names .cached st ∧ (eff n).ok = false

/-! ## from the generated call lists to `Steps` -/

def neg (c : Bool × String) : Bool × String := (!c.1, c.2)

/-- region of a call of a function that opens a cache: by context, position and branch conditions relative to the
conditions under which the commit function is called -/
def regionOf (commitPath : List (Bool × String)) (c : Call) : Region :=
  if c.ctx == "cache" then .cached
  else if c.ctx != "outer" then .none
  else if c.phase == "before" then .pre
  else if c.path.any (fun p => commitPath.any (fun g => p == neg g)) then .onFail
  else if commitPath.all (fun g => c.path.contains g) && !commitPath.isEmpty then .onOk
  else .post

def compile (f : Fn) : Steps :=
  let cp := f.commits.headD []
  (f.calls.map (fun c => (regionOf cp c, c.name))).filter (fun p => p.1 != .none)

/-- a function without a cache of its own that calls one that has (`TryAttestation` → `processAttestation`): its calls
before the inner call are `pre`, those after are `post`, the inner function is inlined -/
def compileAround (outer : Fn) (innerCall : String) (inner : Fn) : Steps :=
  let ns := outer.calls.map (·.name)
  let before := ns.takeWhile (· != innerCall)
  let after := (ns.dropWhile (· != innerCall)).drop 1
  before.map (fun n => (Region.pre, n)) ++ compile inner ++ after.map (fun n => (Region.post, n))

/-- every commit site of the function is guarded by the same path (one commit site) -/
def singleCommit (f : Fn) : Bool := f.commits.length == 1

/-! ## the four boundaries as the code composes them (hand-written; proved equal to the generated ones in Props) -/

def attestationSteps : Steps :=
  [(.pre, "k.SetLastObservedEventNonce"), (.pre, "k.SetLastObservedBlockHeight"), (.pre, "k.SetAttestation"),
   (.cached, "k.AttestationHandler"),
   (.post, "k.cleanupTimedOutBatches"), (.post, "k.cleanupTimeOutBridgeCall"), (.post, "k.pruneAttestations")]

/-- `BridgeCallHandler` of the repaired tree (fixes/C18-bridge-call-refund-source.patch): on failure the credited coins
are first moved from the receiver to the refund address -/
def bridgeCallSteps : Steps :=
  [(.pre, "k.CreateBridgeAccount"), (.pre, "k.BridgeTokenToBaseCoin"),
   (.cached, "k.BridgeCallEvm"),
   (.onFail, "k.bankKeeper.SendCoins"), (.onFail, "k.BridgeCallFailedRefund")]

/-- `BridgeCallHandler` of the unchanged tree -/
def bridgeCallStepsUnpatched : Steps :=
  [(.pre, "k.CreateBridgeAccount"), (.pre, "k.BridgeTokenToBaseCoin"),
   (.cached, "k.BridgeCallEvm"),
   (.onFail, "k.BridgeCallFailedRefund")]

def govSteps : Steps :=
  [(.onFail, "set proposal.Status = v1.StatusFailed"),
   (.cached, "safeExecuteHandler"),
   (.onOk, "set proposal.Status = v1.StatusPassed"),
   (.onFail, "set proposal.Status = v1.StatusFailed")]

def ibcCoreSteps : Steps :=
  [(.cached, "cbs.OnRecvPacket"), (.post, "k.ChannelKeeper.WriteAcknowledgement")]

/-- the middleware callback: the transfer application and the keeper hook both run on the context handed in by core -/
def ibcMiddlewareCalls : List String := ["im.IBCModule.OnRecvPacket", "im.Keeper.OnRecvPacket"]

/-! ## concrete model of the inbound bridge call (bank level) -/

structure BC where
  bal : Nat → Nat → Nat            -- base-coin balance of (address, token)
  erc : Nat → Nat → Nat            -- ERC-20 balance of (address, token)
  slots : List (Nat × Nat)         -- storage written by the called contract
  records : List (Nat × Nat × List (Nat × Nat))   -- refund records: (event nonce, refund address, coins)
  pending : List Nat               -- pending claims (event nonces)
  accNum : Nat                     -- global account number (CreateBridgeAccount)

structure BMsg where
  nonce : Nat
  receiver : Nat
  refund : Nat
  coins : List (Nat × Nat)         -- (token, amount): sdk.Coins — one entry per denom

def amtOf (coins : List (Nat × Nat)) (t : Nat) : Nat := ((coins.filter (fun c => c.1 == t)).map (·.2)).sum

def credit (bal : Nat → Nat → Nat) (a : Nat) (coins : List (Nat × Nat)) : Nat → Nat → Nat :=
  fun x t => if x = a then bal x t + amtOf coins t else bal x t

def canDebit (bal : Nat → Nat → Nat) (a : Nat) (coins : List (Nat × Nat)) : Bool :=
  coins.all (fun c => amtOf coins c.1 ≤ bal a c.1)

def debit (bal : Nat → Nat → Nat) (a : Nat) (coins : List (Nat × Nat)) : Nat → Nat → Nat :=
  fun x t => if x = a then bal x t - amtOf coins t else bal x t

/-- `BridgeCallHandler` behind `ExecuteClaim`; `moves` = the failure path first sends the credited coins from the
receiver to the refund address (repaired tree); `sub` = everything that runs on the cache branch (conversion of every
coin to ERC-20 followed by the contract call), arbitrary writes failing at an arbitrary position -/
def bridgeCallIn (moves : Bool) (m : BMsg) (sub : SubStep BC) (s : BC) : Except Unit BC :=
  -- ExecuteClaim: DeletePendingExecuteClaim; BridgeCallHandler: CreateBridgeAccount; BridgeTokenToBaseCoin per token
  let s1 : BC := { s with pending := s.pending.erase m.nonce, accNum := s.accNum + 1, bal := credit s.bal m.receiver m.coins }
  if sub.ok then .ok (sub.after s1)     -- commit()
  else
    -- failure path on the outer ctx
    let bal2 := if moves then credit (debit s1.bal m.receiver m.coins) m.refund m.coins else s1.bal
    if canDebit bal2 m.refund m.coins then
      .ok { s1 with bal := debit bal2 m.refund m.coins, records := (m.nonce, m.refund, m.coins) :: s1.records }
    else .error ()

/-- the precompile runs `ExecuteClaim` as a native action of an EVM transaction: an error reverts everything -/
def executeClaimTx (moves : Bool) (m : BMsg) (sub : SubStep BC) (s : BC) : BC :=
  tryCached (bridgeCallIn moves m sub) s

/-- does the generated failure path of `BridgeCallHandler` move the coins to the refund address first? -/
def genMoves : Bool := (names .onFail (compile bridgeCallHandler)).contains "k.bankKeeper.SendCoins"

end FxVerif.Model.C18
