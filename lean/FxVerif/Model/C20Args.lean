import FxVerif.Model.C20Base
/-!
# C20 — precompile argument validation as a small language, and what `Run` needs of the decoded arguments

`Gen/C20Run.lean` (typed translator, regenerated from `/repo` on every run) is written in this vocabulary:

* `Stmt` / `Cond` / `Atom`: the body of an argument struct's `Validate() error` — an ordered list of
  `if cond { return err | nil }` steps ending in a `return`, conditions with Go's short-circuit `&&` / `||` / `!`, atoms over
  the struct's fields.  An atom that dereferences a big-integer field (`args.F.Sign()`, `.BitLen()`, `Add(args.A, args.B)`)
  evaluates to `none` when that field is nil: that is Go's nil-pointer panic, so evaluation is three-valued;
* `run`: the result of `Validate` on an environment (`ok` = returned nil, `err`, `panic`);
* `Req`: what a construct inside `Run` needs of the decoded arguments in order not to panic (`lenLe Tokens Amounts` for
  `args.Amounts[i]` with `i` ranging over `args.Tokens`, `nonNil TxID` for `args.TxID.Uint64()`, `sumFits256 Amount Fee`
  for `sdkmath.NewIntFromBigInt(amount + fee)`, …);
* `entails`: a syntactic, sound check that every `ok`-exit of a `Validate` program establishes a requirement
  (soundness for ALL programs and environments: `Proofs/C20Args.entails_sound`);
* `nilSafe`: a syntactic, sound check that a `Validate` program never dereferences a nil field
  (`Proofs/C20Args.nilSafe_sound`).

Core Lean only (the model driver evaluates `run` on the harness's feature lines).
-/
namespace FxVerif.Model.C20Args
open FxVerif.Model.C20Base (unknownBool)

inductive Cmp where | lt | le | eq | ne | ge | gt
  deriving DecidableEq, Repr

def Cmp.eval (c : Cmp) (a b : Int) : Bool :=
  match c with
  | .lt => decide (a < b) | .le => decide (a ≤ b) | .eq => decide (a = b)
  | .ne => decide (a ≠ b) | .ge => decide (a ≥ b) | .gt => decide (a > b)

/-- `(*big.Int).BitLen()`: length of the absolute value in bits, 0 for 0 -/
def bigBitLen (v : Int) : Nat := if v = 0 then 0 else Nat.log2 v.natAbs + 1

inductive Atom where
  | lenRel (a : String) (op : Cmp) (b : String)          -- len(args.a) op len(args.b)
  | lenK (a : String) (op : Cmp) (k : Nat)               -- len(args.a) op k
  | isNil (f : String)                                   -- args.f == nil
  | sign (f : String) (op : Cmp)                         -- args.f.Sign() op 0          (dereferences f)
  | bitLen (f : String) (op : Cmp) (k : Nat)             -- args.f.BitLen() op k        (dereferences f)
  | sumBitLen (a b : String) (op : Cmp) (k : Nat)        -- new(big.Int).Add(args.a, args.b).BitLen() op k   (dereferences both)
  | zeroAddr (f : String)                                -- contract.IsZeroEthAddress(args.f)
  | emptyStr (f : String)                                -- args.f == ""
  | zeroArr (f : String)                                 -- args.f == [32]byte{}
  | extErr (fn : String) (f : String)                    -- fn(args.f) returns a non-nil error (ValidateModuleName, ValAddressFromBech32)
  | numCmp (f : String) (op : Cmp) (k : Nat)             -- args.f op k for a small unsigned integer field
  | unknown (src : String)
  deriving DecidableEq, Repr

inductive Cond where
  | atom (a : Atom)
  | not (c : Cond)
  | and (a b : Cond)
  | or (a b : Cond)
  deriving DecidableEq, Repr

inductive Stmt where
  | ifRet (c : Cond) (isErr : Bool)     -- `if c { return <err> }` (isErr) / `if c { return nil }`
  | ret (isErr : Bool)                  -- `return <err>` / `return nil`
  | unknown (src : String)
  deriving DecidableEq, Repr

/-- what `Validate` can observe of a decoded argument struct, keyed by Go field name -/
structure Env where
  len : String → Nat
  big : String → Option Int          -- a `*big.Int` field: `none` = nil pointer
  elemsOk : String → Bool            -- a `[]*big.Int` field: every element is a non-nil uint256
  zeroAddr : String → Bool
  emptyStr : String → Bool
  zeroArr : String → Bool
  ext : String → String → Bool       -- (function, field) ↦ the external validator rejects the field
  num : String → Nat

def Atom.eval (env : Env) : Atom → Option Bool
  | .lenRel a op b => some (op.eval (env.len a) (env.len b))
  | .lenK a op k => some (op.eval (env.len a) k)
  | .isNil f => some (env.big f).isNone
  | .sign f op => (env.big f).map fun v => op.eval v 0
  | .bitLen f op k => (env.big f).map fun v => op.eval (bigBitLen v) k
  | .sumBitLen a b op k =>
    match env.big a, env.big b with
    | some x, some y => some (op.eval (bigBitLen (x + y)) k)
    | _, _ => none
  | .zeroAddr f => some (env.zeroAddr f)
  | .emptyStr f => some (env.emptyStr f)
  | .zeroArr f => some (env.zeroArr f)
  | .extErr fn f => some (env.ext fn f)
  | .numCmp f op k => some (op.eval (env.num f) k)
  | .unknown s => some (unknownBool s)

/-- Go evaluation order: `a && b` evaluates `b` only when `a` is true, `a || b` only when `a` is false -/
def Cond.eval (env : Env) : Cond → Option Bool
  | .atom a => a.eval env
  | .not c => (c.eval env).map (!·)
  | .and a b =>
    match a.eval env with
    | none => none
    | some false => some false
    | some true => b.eval env
  | .or a b =>
    match a.eval env with
    | none => none
    | some true => some true
    | some false => b.eval env

inductive Res where | ok | err | panic
  deriving DecidableEq, Repr

/-- `Validate()` -/
def run (env : Env) : List Stmt → Res
  | [] => .panic                      -- a Go function cannot fall off its end without a return; never generated
  | .ret e :: _ => if e then .err else .ok
  | .ifRet c e :: rest =>
    match c.eval env with
    | none => .panic
    | some true => if e then .err else .ok
    | some false => run env rest
  | .unknown _ :: _ => .panic

/-! ## requirements of `Run` -/

inductive Req where
  | lenLe (a b : String)           -- len(args.a) ≤ len(args.b)
  | nonNil (f : String)
  | signGe0 (f : String)
  | fits256 (f : String)           -- |args.f| < 2^256 (sdkmath.NewIntFromBigInt does not panic)
  | elemOk (f : String)            -- every element of the `[]*big.Int` is a non-nil uint256
  | sumNonNil (a b : String)
  | sumSignGe0 (a b : String)
  | sumFits256 (a b : String)
  deriving DecidableEq, Repr

/-- the requirement is a pure size bound of one uint256 input or a statement about array elements -/
def Req.isBound : Req → Bool
  | .fits256 _ => true
  | .elemOk _ => true
  | _ => false

def Req.holds (env : Env) : Req → Prop
  | .lenLe a b => env.len a ≤ env.len b
  | .nonNil f => ∃ v, env.big f = some v
  | .signGe0 f => ∃ v, env.big f = some v ∧ 0 ≤ v
  | .fits256 f => ∃ v, env.big f = some v ∧ bigBitLen v ≤ 256
  | .elemOk f => env.elemsOk f = true
  | .sumNonNil a b => ∃ x y, env.big a = some x ∧ env.big b = some y
  | .sumSignGe0 a b => ∃ x y, env.big a = some x ∧ env.big b = some y ∧ 0 ≤ x + y
  | .sumFits256 a b => ∃ x y, env.big a = some x ∧ env.big b = some y ∧ bigBitLen (x + y) ≤ 256

/-- what go-ethereum's ABI decoding (`Arguments.Unpack` + `Copy`) guarantees of a struct whose big-integer inputs are all
`uint256` (trusted dependency behaviour, exercised by the harness): no nil pointer, `0 ≤ v < 2^256` -/
def AbiDecoded (env : Env) : Prop :=
  (∀ f, ∃ v, env.big f = some v ∧ 0 ≤ v ∧ bigBitLen v ≤ 256) ∧ (∀ f, env.elemsOk f = true)

/-! ## facts established by a condition's value -/

abbrev Fact := Atom × Bool

def Fact.holds (env : Env) (f : Fact) : Prop := f.1.eval env = some f.2

/-- facts implied by `c.eval env = some pol` (conjuncts of a true `&&`, disjuncts of a false `||`) -/
def Cond.facts : Bool → Cond → List Fact
  | pol, .atom a => [(a, pol)]
  | pol, .not c => c.facts (!pol)
  | pol, .and a b => if pol then a.facts true ++ b.facts true else []
  | pol, .or a b => if pol then [] else a.facts false ++ b.facts false

def hasFact (fs : List Fact) (a : Atom) (b : Bool) : Bool := fs.any fun f => f.1 == a && f.2 == b

/-- some fact about a dereferencing atom of field `f`: its evaluation succeeded, so `f` is not nil -/
def derefFact (fs : List Fact) (f : String) : Bool :=
  fs.any fun x => match x.1 with
    | .sign g _ => g == f
    | .bitLen g _ _ => g == f
    | .sumBitLen g h _ _ => g == f || h == f
    | _ => false

def followsNonNil (fs : List Fact) (f : String) : Bool := hasFact fs (.isNil f) false || derefFact fs f

def followsSignGe0 (fs : List Fact) (f : String) : Bool :=
  hasFact fs (.sign f .lt) false || hasFact fs (.sign f .le) false || hasFact fs (.sign f .ge) true ||
    hasFact fs (.sign f .gt) true || hasFact fs (.sign f .eq) true || hasFact fs (.sign f .ne) false

def followsFits (fs : List Fact) (f : String) : Bool :=
  fs.any fun x => match x with
    | (.bitLen g .gt k, false) => g == f && k ≤ 256
    | (.bitLen g .le k, true) => g == f && k ≤ 256
    | _ => false

def followsSumFits (fs : List Fact) (a b : String) : Bool :=
  fs.any fun x => match x with
    | (.sumBitLen g h .gt k, false) => ((g == a && h == b) || (g == b && h == a)) && k ≤ 256
    | (.sumBitLen g h .le k, true) => ((g == a && h == b) || (g == b && h == a)) && k ≤ 256
    | _ => false

/-- does the requirement follow from the facts (and, when `abi`, from `AbiDecoded`)? -/
def follows (abi : Bool) (fs : List Fact) : Req → Bool
  | .lenLe a b =>
    a == b || hasFact fs (.lenRel a .ne b) false || hasFact fs (.lenRel b .ne a) false ||
      hasFact fs (.lenRel a .eq b) true || hasFact fs (.lenRel b .eq a) true ||
      hasFact fs (.lenRel a .le b) true || hasFact fs (.lenRel a .gt b) false ||
      hasFact fs (.lenRel b .ge a) true || hasFact fs (.lenRel b .lt a) false
  | .nonNil f => abi || followsNonNil fs f
  | .signGe0 f => abi || followsSignGe0 fs f
  | .fits256 f => abi || followsFits fs f
  | .elemOk _ => abi
  | .sumNonNil a b => abi || (followsNonNil fs a && followsNonNil fs b)
  | .sumSignGe0 a b => abi || (followsSignGe0 fs a && followsSignGe0 fs b)
  | .sumFits256 a b => followsSumFits fs a b

/-- every `ok`-exit of the program establishes the requirement -/
def entailsAux (abi : Bool) (r : Req) : List Fact → List Stmt → Bool
  | _, [] => true
  | fs, .ret isErr :: _ => isErr || follows abi fs r
  | fs, .ifRet c isErr :: rest =>
    (isErr || follows abi (c.facts true ++ fs) r) && entailsAux abi r (c.facts false ++ fs) rest
  | _, .unknown _ :: _ => true

def entails (abi : Bool) (prog : List Stmt) (r : Req) : Bool := entailsAux abi r [] prog

/-! ## nil-safety of `Validate` itself -/

def Atom.derefs : Atom → List String
  | .sign f _ => [f]
  | .bitLen f _ _ => [f]
  | .sumBitLen a b _ _ => [a, b]
  | _ => []

/-- every dereference in the condition is preceded (in evaluation order) by a fact making the field non-nil -/
def Cond.nilSafe (abi : Bool) : List Fact → Cond → Bool
  | fs, .atom a => a.derefs.all fun f => abi || followsNonNil fs f
  | fs, .not c => c.nilSafe abi fs
  | fs, .and a b => a.nilSafe abi fs && b.nilSafe abi (a.facts true ++ fs)
  | fs, .or a b => a.nilSafe abi fs && b.nilSafe abi (a.facts false ++ fs)

/-- the program ends in a `return`, has no unknown statement and never dereferences a possibly-nil field -/
def nilSafeAux (abi : Bool) : List Fact → List Stmt → Bool
  | _, [] => false
  | _, .ret _ :: _ => true
  | fs, .ifRet c _ :: rest => c.nilSafe abi fs && nilSafeAux abi (c.facts false ++ fs) rest
  | _, .unknown _ :: _ => false

def nilSafe (abi : Bool) (prog : List Stmt) : Bool := nilSafeAux abi [] prog

/-! ## generated tables -/

structure Field where
  goName : String
  abiName : String
  kind : String      -- bigint | address | string | bytesN | bytes | []address | []bigint | uint | …
  deriving Repr

structure ArgsType where
  pkg : String
  name : String
  fields : List Field
  prog : List Stmt
  deriving Repr

structure Method where
  pc : String            -- crosschain | staking
  pkg : String
  recv : String          -- method type
  abiName : String
  argsType : String      -- the struct `UnpackInput` returns
  readonly : Bool
  unpackFirst : Bool     -- `Run` starts (before any use of `args`) with `args, err := m.UnpackInput(contract.Input); if err != nil { return … }`
  parses : Bool          -- `UnpackInput` is `args := new(T); …ParseMethodArgs(m.Method, args, data[4:])…`
  deriving Repr

structure RunSite where
  pkg : String
  recv : String
  meth : String
  line : Nat
  kind : String   -- index | slice | assert | div | panic | must | mapwrite | narrow | deref | nilarg | bigint256 | newcoin | newcoins | callpanic | conv | trunc
  expr : String
  argsType : String     -- the args struct whose `Validate` must entail `req` ("" when there is no requirement)
  req : Option Req
  guarded : Bool        -- a local dominating guard was recognised (or the construct cannot panic: conv / trunc)
  guard : String
  doms : List String := []   -- conditions of the early returns that dominate the site ("in: c" = enclosing `if c {`)
  deriving Repr

def findArgs (ts : List ArgsType) (n : String) : Option ArgsType := ts.find? (·.name == n)

/-- program of a named args type (`[.unknown …]`, which entails nothing and is not nil-safe, when it is missing) -/
def progOf (ts : List ArgsType) (n : String) : List Stmt :=
  match findArgs ts n with
  | some t => t.prog
  | none => []

end FxVerif.Model.C20Args
