import FxVerif.Model.C04
/-!
# C04 model — the inbound bridge-call handler and the refund of an outgoing bridge call as INTERPRETED statement lists

`x/crosschain/keeper/bridge_call_in.go`, `bridge_call_refund.go`, `x/crosschain/precompile/keeper.go`.

`BridgeCallHandler` credits the tokens of the claim to the receiver on the OUTER context, opens a cache context, runs the
EVM part (ERC-20 conversion of the credited coins + the call) inside it, commits the cache context and returns if that
succeeded; otherwise (the cache context is dropped) it hands the credited coins from the receiver to the refund address
and sends them back out as an outgoing bridge call of the refund address.  Each of these statements is one `HStep`,
carrying WHICH context it writes to and WHICH party it names; the list is regenerated from the Go AST on every run
(`Gen.C04.bridgeCallHandler_steps`, callee parameters resolved through `BridgeCallEvm`, `BridgeCallFailedRefund`,
`AddOutgoingBridgeCall`) and `runHandler` interprets it.  `Props/C04.lean` obliges the interpretation to be the flows of the
operations `bcin` (EVM part succeeds) and `bcinfail` (it fails).  A credit moved inside the cache context, a hand-over
dropped or placed after the refund, a refund taken from another party: each changes the list and the interpretation.

Likewise `HandleOutgoingBridgeCallRefund` (`RfStep`) with `bridgeCallTransferTokens` per coin (`TStep`), and the precompile's
`handlerOriginToken` (typed call list, `envValue`).  Core Lean only.
-/
namespace FxVerif.Model.C04
open FxVerif.Model.Ledger FxVerif.Model.Flows

/-- the party an address expression of the handler names -/
inductive HRef where
  | receiver | refund | sender | to | other
  deriving DecidableEq, Repr

inductive HStep where
  /-- `for … { k.BridgeTokenToBaseCoin(<ctx>, token, amount, <holder>) }` -/
  | credit (cached : Bool) (holder : HRef)
  /-- `cacheCtx, commit := ctx.CacheContext()` -/
  | openCache
  /-- `err = k.BridgeCallEvm(<ctx>, …)`: `BaseCoinToEvm(coin, <holder>)` for every credited coin, then `CallEVM` -/
  | evm (cached : Bool) (holder : HRef)
  /-- `if err == nil { commit(); return nil }` -/
  | commitIfOk
  /-- `if [src ≠ dst] { bankKeeper.SendCoins(<ctx>, <src>, <dst>, baseCoins) }` -/
  | handOver (cached : Bool) (skipIfSame : Bool) (src dst : HRef)
  /-- `return k.BridgeCallFailedRefund(<ctx>, …)` → `AddOutgoingBridgeCall(<sender>, <refund>, baseCoins)`: every coin leaves
  `<sender>` through `BaseCoinToBridgeToken`, the outgoing call is recorded -/
  | refundOut (cached : Bool) (from_ back : HRef)
  deriving DecidableEq, Repr

/-- state of the interpretation -/
structure HSt where
  /-- ledger primitives written on the outer context (they stay when the handler returns `nil`) -/
  main : List Prim := []
  /-- primitives written on the open cache context, not yet committed -/
  cache : Option (List Prim) := none
  /-- the EVM part returned an error -/
  failed : Bool := false
  /-- the outgoing refund call that was recorded: (sender, refund address) -/
  call : Option (Addr × Addr) := none

/-- what the parties are for one claim -/
structure HEnv where
  receiver : Addr
  refund : Addr

def HEnv.addr (e : HEnv) : HRef → Except Err Addr
  | .receiver => .ok e.receiver
  | .refund => .ok e.refund
  | _ => .error .invalid

/-- a write on the outer or on the cache context (a cache write without an open cache context has no meaning) -/
def HSt.write (st : HSt) (cached : Bool) (fl : List Prim) : Except Err HSt :=
  if cached then
    match st.cache with
    | some c => .ok { st with cache := some (c ++ fl) }
    | none => .error .invalid
  else .ok { st with main := st.main ++ fl }

/-- `BridgeCallHandler` for the tokens of one claim on chain `c`; `evmOk`: the EVM part succeeds -/
def runHandler (cfg : Cfg) (c : Nat) (tokens : List (Nat × Nat)) (e : HEnv) (evmOk : Bool) :
    List HStep → HSt → Except Err HSt
  | [], st => .ok st
  | .credit cached h :: r, st => do
    let a ← e.addr h
    let fl ← tokensFlow cfg c tokens (fun k g n => bridgeTokenToBaseCoin k g c a n)
    let st' ← st.write cached fl
    runHandler cfg c tokens e evmOk r st'
  | .openCache :: r, st => runHandler cfg c tokens e evmOk r { st with cache := some [] }
  | .evm cached h :: r, st =>
    if evmOk then do
      let a ← e.addr h
      let fl ← pairsFlow cfg tokens (fun k g n => convertCoin k g a a n)
      let st' ← st.write cached fl
      runHandler cfg c tokens e evmOk r st'
    else runHandler cfg c tokens e evmOk r { st with failed := true }
  | .commitIfOk :: r, st =>
    if st.failed then runHandler cfg c tokens e evmOk r { st with cache := none }
    else .ok { st with main := st.main ++ st.cache.getD [], cache := none }
  | .handOver cached skip s d :: r, st => do
    let a ← e.addr s
    let b ← e.addr d
    if skip && a == b then runHandler cfg c tokens e evmOk r st else do
    let fl ← tokensFlow cfg c tokens (fun _ g n => [.send (.base g) a b n])
    let st' ← st.write cached fl
    runHandler cfg c tokens e evmOk r st'
  | .refundOut cached s d :: r, st => do
    let a ← e.addr s
    let b ← e.addr d
    let fl ← tokensFlow cfg c tokens (fun k g n => baseCoinToBridgeToken k g c a n)
    let st' ← st.write cached fl
    runHandler cfg c tokens e evmOk r { st' with call := some (a, b) }

/-- statements of `BridgeCallHandler` the model stands for (obliged to equal `Gen.C04.bridgeCallHandler_steps`) -/
def handlerSteps : List HStep :=
  [.credit false .receiver, .openCache, .evm true .receiver, .commitIfOk, .handOver false true .receiver .refund,
   .refundOut false .refund .refund]

/-- the ledger flow the handler leaves behind -/
def handlerFlow (cfg : Cfg) (c : Nat) (tokens : List (Nat × Nat)) (e : HEnv) (evmOk : Bool) (steps : List HStep) :
    Except Err (List Prim × Option (Addr × Addr)) :=
  match runHandler cfg c tokens e evmOk steps {} with
  | .ok st => .ok (st.main, st.call)
  | .error err => .error err

/-! ### refund of an outgoing bridge call -/

inductive TStep where
  /-- `if bytes.Equal(sender, receiver) { continue }` -/
  | skipIfSame
  /-- `bankKeeper.SendCoins(ctx, <src>, <dst>, coin)` -/
  | sendCoins (src dst : HRef)
  /-- `erc20Keeper.ConvertCoin(ctx, {Coin: coin, Sender: <s>, Receiver: <r>})` -/
  | convertCoin (s r : HRef)
  | unknown
  deriving DecidableEq, Repr

/-- parties of `bridgeCallTransferTokens(ctx, sender, receiver, coins)` -/
def tAddr (s r : Addr) : HRef → Option Addr
  | .sender => some s
  | .receiver => some r
  | _ => none

/-- one coin of `bridgeCallTransferTokens` -/
def runTokenSteps (k : Kind) (g : Nat) (s r : Addr) (n : Nat) : List TStep → Option (List Prim)
  | [] => some []
  | .skipIfSame :: rest => if s = r then some [] else runTokenSteps k g s r n rest
  | .sendCoins a b :: rest =>
    match tAddr s r a, tAddr s r b, runTokenSteps k g s r n rest with
    | some a', some b', some fl => some (.send (.base g) a' b' n :: fl)
    | _, _, _ => none
  | .convertCoin a b :: rest =>
    match tAddr s r a, tAddr s r b, runTokenSteps k g s r n rest with
    | some a', some b', some fl => some (convertCoin k g a' b' n ++ fl)
    | _, _, _ => none
  | .unknown :: _ => none

inductive RfStep where
  /-- `coins, err := k.bridgeCallTransferCoins(ctx, <who>, data.Tokens)` -/
  | transferCoins (who : HRef)
  /-- `if k.HasBridgeCallFromMsg(ctx, data.Nonce) { return coins }` -/
  | returnIfFromMsg
  /-- `k.bridgeCallTransferTokens(ctx, <sender>, <receiver>, coins)` -/
  | transferTokens (s r : HRef)
  deriving DecidableEq, Repr

def rfAddr (refund : Addr) : HRef → Except Err Addr
  | .refund => .ok refund
  | _ => .error .invalid

/-- `bridgeCallTransferTokens` over the refunded coins: the FX coin takes the FX branch, every other coin needs its
enabled token pair and takes the ERC-20 branch -/
def transferTokensFlow (cfg : Cfg) (fxSteps otherSteps : List TStep) (s r : Addr) (tokens : List (Nat × Nat)) :
    Except Err (List Prim) :=
  tokens.foldlM (fun acc t =>
    match cfg.kind t.1 with
    | some .fx => (match runTokenSteps .fx t.1 s r t.2 fxSteps with
                   | some fl => .ok (acc ++ fl)
                   | none => .error .invalid)
    | some k => (match pairOk cfg t.1 with
                 | some _ => (match runTokenSteps k t.1 s r t.2 otherSteps with
                              | some fl => .ok (acc ++ fl)
                              | none => .error .invalid)
                 | none => .error .disabled)
    | none => .error .notFound) []

/-- `HandleOutgoingBridgeCallRefund` of a stored outgoing call on chain `c` -/
def runRefund (cfg : Cfg) (c : Nat) (call : OutCall) (fxSteps otherSteps : List TStep) :
    List RfStep → List Prim → Except Err (List Prim)
  | [], acc => .ok acc
  | .transferCoins who :: r, acc => do
    let a ← rfAddr (U call.refund) who
    let fl ← tokensFlow cfg c call.tokens (fun k g n => bridgeCallRefundCoin k g c a n)
    runRefund cfg c call fxSteps otherSteps r (acc ++ fl)
  | .returnIfFromMsg :: r, acc => if call.fromMsg then .ok acc else runRefund cfg c call fxSteps otherSteps r acc
  | .transferTokens s d :: r, acc => do
    let a ← rfAddr (U call.refund) s
    let b ← rfAddr (U call.refund) d
    let fl ← transferTokensFlow cfg fxSteps otherSteps a b call.tokens
    runRefund cfg c call fxSteps otherSteps r (acc ++ fl)

/-! ### `bridgeCallTransferCoins`: which tokens are minted before the unlock -/

/-- guard of `mintCoins = mintCoins.Add(coin)` inside the token loop (regenerated: `Gen.C04.bridgeCallTransferCoins_mintGuard`) -/
inductive MintGuard where
  | notOrigin | origin | always | unknown
  deriving DecidableEq, Repr

/-- `IsOriginOrConvertedDenom` of the bridge denomination: FX and externally-owned pairs are locked, not burned -/
def isOrigin : Kind → Bool
  | .moduleOwned => false
  | _ => true

def MintGuard.mints : MintGuard → Kind → Option Bool
  | .notOrigin, k => some (!isOrigin k)
  | .origin, k => some (isOrigin k)
  | .always, _ => some true
  | .unknown, _ => none

/-- one token of `bridgeCallTransferCoins` under mint guard `mg`: mint (if the guard says so), unlock to the refund address, then
the older `ConvertDenomToTarget(bridge → base)` (FX is its own base coin) -/
def refundCoinWith (mg : MintGuard) (k : Kind) (g c : Nat) (r : Addr) (n : Nat) : Option (List Prim) :=
  match mg.mints k with
  | none => none
  | some m =>
    some ((if m then [.mint (bridgeAsset k g c) (M c) (M c) n] else []) ++ [.send (bridgeAsset k g c) (M c) r n] ++
      (match k with
       | .fx => []
       | _ => convertDenom k g r n (.chain c) .base))

/-! ### precompile `handlerOriginToken` -/

/-- `handlerOriginToken(ctx, evm, sender, amount)`: `crosschaintypes.GetAddress()` is the precompile account,
`evmtypes.ModuleName` the evm module account, `totalCoins` the origin coin -/
def envValue (g : Nat) (s : Addr) : Env :=
  ⟨fun | .crosschaintypes_GetAddress => some precompileAcc | .evmtypes_ModuleName => some evmMod | .sender => some s | _ => none,
   fun | .totalCoins => some (.base g) | _ => none⟩

end FxVerif.Model.C04
