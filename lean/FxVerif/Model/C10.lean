import FxVerif.Gen.C09
/-!
# C10 model — the precompile dispatcher (`contract.go:Run` of both precompiles) as a pure function

`run` mirrors the dispatcher: unknown method → error; `readonly && !method.IsReadonly()` → "write protection";
`CheckDisabledPrecompiles` (gov switch: address, or address/methodId, compared in lower case) → error; only then the
method's effect on an abstract portfolio world.  Where the account whose assets move comes from (`contract.Caller()`,
an argument, `evm.Origin`) is NOT hard-wired: it is read from the regenerated method table (`Gen.C09.methods`, column
`payers`), so the theorems are about what the source says now.
-/
namespace FxVerif.Model.C10
open FxVerif.Gen.C09

abbrev Addr := Nat

inductive Src | caller | argFrom | origin | other
  deriving DecidableEq, Repr

structure MInfo where
  name : String
  readonly : Bool
  payer : Src      -- provenance of every "account whose assets move" argument of the method's keeper calls
  guarded : Bool   -- a non-caller payer is preceded by decrementAllowance(owner := same source, spender := caller, amount := same)
  deriving DecidableEq, Repr

def srcOf (s : String) : Src :=
  if s == "caller" then .caller else if s == "arg:From" then .argFrom else if s == "origin" then .origin else .other

def isAmountRole (r : String) : Bool :=
  r == "decrementAllowance.amount" || r == "handlerTransferShares.amount"

/-- collapse the payer column of a generated row -/
def infoOf (m : Method) : MInfo :=
  let roles := m.payers.filter (fun p => !isAmountRole p.1 && p.1 != "decrementAllowance.spender")
  let nonCaller := roles.filter (fun p => p.2 != "caller")
  let payer := match nonCaller with
    | [] => Src.caller
    | p :: _ => if nonCaller.all (fun q => q.2 == p.2) then srcOf p.2 else .other
  let guarded :=
    m.payers.take 3 == [("decrementAllowance.owner", "arg:From"), ("decrementAllowance.spender", "caller"),
                        ("decrementAllowance.amount", "arg:Shares")] &&
    m.payers.drop 3 == [("handlerTransferShares.from", "arg:From"), ("handlerTransferShares.amount", "arg:Shares")]
  { name := m.abiName, readonly := m.readonly, payer, guarded }

def minfos : List MInfo := methods.map infoOf

structure PoolTx where
  id : Nat
  sender : Addr
  amount : Nat
  deriving DecidableEq, Repr

structure World where
  bal : Addr → Nat
  shares : Addr → Nat
  rewards : Addr → Nat
  unbonding : Addr → Nat
  allow : Addr → Addr → Nat
  pool : List PoolTx
  nextId : Nat

def upd (f : Addr → Nat) (k : Addr) (v : Nat) : Addr → Nat := fun a => if a = k then v else f a
def upd2 (f : Addr → Addr → Nat) (k1 k2 : Addr) (v : Nat) : Addr → Addr → Nat :=
  fun a b => if a = k1 ∧ b = k2 then v else f a b

/-- pending rewards of `p` are paid out to `p` -/
def claim (w : World) (p : Addr) : World :=
  { w with bal := upd w.bal p (w.bal p + w.rewards p), rewards := upd w.rewards p 0 }

inductive Call
  | delegate (amt : Nat) | undelegate (amt : Nat) | redelegate (amt : Nat) | withdraw
  | approve (spender : Addr) (shares : Nat)
  | transferShares (to : Addr) (shares : Nat)
  | transferFromShares (frm to : Addr) (shares : Nat)
  | crossChain (amt fee : Nat) (receipt : Addr)
  | cancelSend (txid : Nat)
  | increaseFee (txid fee : Nat)
  | bridgeCall (refund to : Addr) (value : Nat)
  | executeClaim (nonce : Nat)
  | view (name : String)

def Call.name : Call → String
  | .delegate _ => "delegateV2" | .undelegate _ => "undelegateV2" | .redelegate _ => "redelegateV2"
  | .withdraw => "withdraw" | .approve _ _ => "approveShares" | .transferShares _ _ => "transferShares"
  | .transferFromShares _ _ _ => "transferFromShares" | .crossChain _ _ _ => "crossChain"
  | .cancelSend _ => "cancelSendToExternal" | .increaseFee _ _ => "increaseBridgeFee"
  | .bridgeCall _ _ _ => "bridgeCall" | .executeClaim _ => "executeClaim" | .view n => n

/-- the `from`-like argument of a call, if it has one -/
def Call.argFrom : Call → Addr → Addr
  | .transferFromShares f _ _, _ => f
  | .bridgeCall r _ _, _ => r
  | .crossChain _ _ r, _ => r
  | .transferShares t _, _ => t
  | .approve s _, _ => s
  | _, d => d

structure Env where
  caller : Addr
  origin : Addr

inductive Err | unknownMethod | writeProtection | disabled | method
  deriving DecidableEq, Repr

def moveShares (w : World) (p to : Addr) (s : Nat) : Except Err World :=
  if w.shares p < s then .error .method else
  let w1 := claim (claim w p) to
  .ok { w1 with shares := upd (upd w1.shares p (w1.shares p - s)) to (w1.shares to + s) }

/-- the effect of a method for payer `p` (resolved from the table), direct caller `c` -/
def effect (i : MInfo) (p c : Addr) (call : Call) (w : World) : Except Err World :=
  match call with
  | .delegate amt =>
    if w.bal p + w.rewards p < amt then .error .method else
    let w1 := claim w p
    .ok { w1 with bal := upd w1.bal p (w1.bal p - amt), shares := upd w1.shares p (w1.shares p + amt) }
  | .undelegate amt =>
    if w.shares p < amt then .error .method else
    let w1 := claim w p
    .ok { w1 with shares := upd w1.shares p (w1.shares p - amt), unbonding := upd w1.unbonding p (w1.unbonding p + amt) }
  | .redelegate amt => if w.shares p < amt then .error .method else .ok (claim w p)
  | .withdraw => .ok (claim w p)
  | .approve sp s => .ok { w with allow := upd2 w.allow p sp s }
  | .transferShares to s => moveShares w p to s
  | .transferFromShares _ to s =>
    if i.guarded then
      if w.allow p c < s then .error .method else
      moveShares { w with allow := upd2 w.allow p c (w.allow p c - s) } p to s
    else moveShares w p to s
  | .crossChain amt fee _ =>
    if w.bal p < amt + fee then .error .method else
    .ok { w with bal := upd w.bal p (w.bal p - (amt + fee)), pool := ⟨w.nextId, p, amt + fee⟩ :: w.pool, nextId := w.nextId + 1 }
  | .cancelSend txid =>
    match w.pool.find? (fun e => e.id == txid) with
    | none => .error .method
    | some e =>
      if e.sender ≠ p then .error .method else
      .ok { w with pool := w.pool.erase e, bal := upd w.bal p (w.bal p + e.amount) }
  | .increaseFee txid fee =>
    if w.bal p < fee ∨ ¬ (w.pool.any (fun e => e.id == txid)) then .error .method else
    .ok { w with bal := upd w.bal p (w.bal p - fee),
                 pool := w.pool.map (fun e => if e.id == txid then { e with amount := e.amount + fee } else e) }
  | .bridgeCall _ _ value =>
    if w.bal p < value then .error .method else .ok { w with bal := upd w.bal p (w.bal p - value) }
  | .executeClaim _ => .ok w   -- executes an already authorised pending claim (subject of C01/C03); no portfolio is debited here
  | .view _ => .ok w

def lowerChar (c : Char) : Char := if 'A' ≤ c ∧ c ≤ 'Z' then Char.ofNat (c.toNat + 32) else c
def lower (s : List Char) : List Char := s.map lowerChar

/-- `CheckContractAddressIsDisabled`, parametrised by the regenerated shape of the comparison -/
def isDisabled (chk : DisabledCheck) (dis : List (List Char)) (addr mid : List Char) : Bool :=
  let a := if chk.lowerAddr then lower addr else addr
  dis.any (fun d =>
    let d' := if chk.lowerEntry then lower d else d
    (chk.addrEq && d' == a) || (chk.addrMethodEq && chk.fmt == "%s/%s" && chk.methodEnc == "hex" && d' == a ++ ['/'] ++ mid))

def resolve (s : Src) (env : Env) (call : Call) : Addr :=
  match s with
  | .caller => env.caller
  | .argFrom => call.argFrom env.caller
  | .origin => env.origin
  | .other => call.argFrom env.origin

/-- the dispatcher -/
def run (chk : DisabledCheck) (tbl : List MInfo) (dis : List (List Char)) (readonly : Bool) (addr mid : List Char)
    (env : Env) (call : Call) (w : World) : Except Err World :=
  match tbl.find? (fun i => i.name == call.name) with
  | none => .error .unknownMethod
  | some i =>
    if readonly && !i.readonly then .error .writeProtection
    else if isDisabled chk dis addr mid then .error .disabled
    else effect i (resolve i.payer env call) env.caller call w

inductive Kind | call | staticcall | delegatecall | callcode
  deriving DecidableEq, Repr

def Kind.goName : Kind → String
  | .call => "Call" | .staticcall => "StaticCall" | .delegatecall => "DelegateCall" | .callcode => "CallCode"

/-- the `readonly` argument the interpreter passes for a direct call of this kind (regenerated from the fork source) -/
def readonlyFlag (k : Kind) : Option Bool :=
  match forkReadonlyArg.find? (fun p => p.1 == k.goName) with
  | some (_, "true") => some true
  | some (_, "false") => some false
  | _ => none

end FxVerif.Model.C10
