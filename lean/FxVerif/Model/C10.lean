import FxVerif.Gen.C09
import FxVerif.Gen.C10
/-!
# C10 model — the precompile dispatcher (`contract.go:Run` of both precompiles) as a pure function

`run` mirrors the dispatcher: unknown method → error; `readonly && !method.IsReadonly()` → "write protection";
`CheckDisabledPrecompiles` (gov switch: address, or address/methodId, compared in lower case) → error; only then the
method's effect on an abstract portfolio world.  Where the account whose assets move comes from (`contract.Caller()`,
an argument, `evm.Origin`) is NOT hard-wired: it is read from the regenerated method table (`Gen.C09.methods`, column
`payers`), so the theorems are about what the source says now.

Round 2 adds `runGen`, which is assembled only from regenerated code:
* the dispatcher's guard/dispatch ORDER is the step list of `Gen.C09.dispatchers` (`runSteps`);
* the governance check is the statement-level translation of `CheckContractAddressIsDisabled` (`Gen.C10.disabledProg`,
  interpreted by `checkDisabledGen`: prelude, range loop with `continue` / `break` / `return`, epilogue);
* `approveShares` / `transferShares` / `transferFromShares` are the ordered ctx-receiving calls of their
  ExecuteNativeAction closures (`Gen.C10.closures`) with `decrementAllowance` interpreted statement by statement
  (`Gen.C10.decrementProg`: GetAllowance, comparisons, Sub, SetAllowance, returns);
and a history semantics (`applyOp`, `runH`) over lists of calls by arbitrary callers, call kinds and switch settings.
-/
namespace FxVerif.Model.C10
open FxVerif.Gen.C09

abbrev Addr := Nat

inductive Src | caller | argFrom | origin | other
  deriving DecidableEq, Repr

structure MInfo where
  name : String
  readonly : Bool
  payer : Src      -- provenance of every "account whose assets move" argument of the method's keeper calls
  guarded : Bool   -- a non-caller payer is preceded by decrementAllowance(owner := same source, spender := caller, amount := same)
  deriving DecidableEq, Repr

def srcOf (s : String) : Src :=
  if s == "caller" then .caller else if s == "arg:From" then .argFrom else if s == "origin" then .origin else .other

def isAmountRole (r : String) : Bool :=
  r == "decrementAllowance.amount" || r == "handlerTransferShares.amount"

/-- collapse the payer column of a generated row -/
def infoOf (m : Method) : MInfo :=
  let roles := m.payers.filter (fun p => !isAmountRole p.1 && p.1 != "decrementAllowance.spender")
  let nonCaller := roles.filter (fun p => p.2 != "caller")
  let payer := match nonCaller with
    | [] => Src.caller
    | p :: _ => if nonCaller.all (fun q => q.2 == p.2) then srcOf p.2 else .other
  let guarded :=
    m.payers.take 3 == [("decrementAllowance.owner", "arg:From"), ("decrementAllowance.spender", "caller"),
                        ("decrementAllowance.amount", "arg:Shares")] &&
    m.payers.drop 3 == [("handlerTransferShares.from", "arg:From"), ("handlerTransferShares.amount", "arg:Shares")]
  { name := m.abiName, readonly := m.readonly, payer, guarded }

def minfos : List MInfo := methods.map infoOf

structure PoolTx where
  id : Nat
  sender : Addr
  amount : Nat
  deriving DecidableEq, Repr

/-- `sdk.Dec` precision: delegation shares are fixed-point numbers with 18 decimals -/
def shareScale : Nat := 1000000000000000000

/-- Round 4: the world knows the validator's exchange rate (`vTok` bonded tokens for `vShr` delegator shares, the latter
in 10^-18 units as `sdk.Dec` stores them), so that `delegate` / `undelegate` / `redelegate` are modelled on a SLASHED
validator too (one share worth less than one token).  A delegation is `shares a` whole shares plus `dust a` 10^-18 units
(`dust a < shareScale`; always 0 on a never-slashed validator): the share-denominated methods (`approveShares`,
`transferShares`, `transferFromShares`) take whole shares and never touch the dust or the rate. -/
structure World where
  bal : Addr → Nat
  shares : Addr → Nat
  rewards : Addr → Nat
  unbonding : Addr → Nat
  allow : Addr → Addr → Nat
  pool : List PoolTx
  nextId : Nat
  dust : Addr → Nat
  vTok : Nat
  vShr : Nat

def upd (f : Addr → Nat) (k : Addr) (v : Nat) : Addr → Nat := fun a => if a = k then v else f a
def upd2 (f : Addr → Addr → Nat) (k1 k2 : Addr) (v : Nat) : Addr → Addr → Nat :=
  fun a b => if a = k1 ∧ b = k2 then v else f a b

/-- pending rewards of `p` are paid out to `p` -/
def claim (w : World) (p : Addr) : World :=
  { w with bal := upd w.bal p (w.bal p + w.rewards p), rewards := upd w.rewards p 0 }

inductive Call
  | delegate (amt : Nat) | undelegate (amt : Nat) | redelegate (amt : Nat) | withdraw
  | approve (spender : Addr) (shares : Nat)
  | transferShares (to : Addr) (shares : Nat)
  | transferFromShares (frm to : Addr) (shares : Nat)
  | crossChain (amt fee : Nat) (receipt : Addr)
  | cancelSend (txid : Nat)
  | increaseFee (txid fee : Nat)
  | bridgeCall (refund to : Addr) (value : Nat)
  | executeClaim (nonce : Nat)
  | view (name : String)

def Call.name : Call → String
  | .delegate _ => "delegateV2" | .undelegate _ => "undelegateV2" | .redelegate _ => "redelegateV2"
  | .withdraw => "withdraw" | .approve _ _ => "approveShares" | .transferShares _ _ => "transferShares"
  | .transferFromShares _ _ _ => "transferFromShares" | .crossChain _ _ _ => "crossChain"
  | .cancelSend _ => "cancelSendToExternal" | .increaseFee _ _ => "increaseBridgeFee"
  | .bridgeCall _ _ _ => "bridgeCall" | .executeClaim _ => "executeClaim" | .view n => n

/-- the `from`-like argument of a call, if it has one -/
def Call.argFrom : Call → Addr → Addr
  | .transferFromShares f _ _, _ => f
  | .bridgeCall r _ _, _ => r
  | .crossChain _ _ r, _ => r
  | .transferShares t _, _ => t
  | .approve s _, _ => s
  | _, d => d

structure Env where
  caller : Addr
  origin : Addr
  self : Addr     -- the account of the precompile address itself (a holder like any other)
  value : Nat     -- msg.value of this call

inductive Err | unknownMethod | writeProtection | disabled | method | allowance | shares | unknownStep | value
  deriving DecidableEq, Repr

/-- a delegation in 10^-18 units -/
def World.raw (w : World) (a : Addr) : Nat := w.shares a * shareScale + w.dust a

/-- `Validator.SharesFromTokens` (= `…Truncated`): `DelegatorShares.MulInt(amt).QuoInt(Tokens)`, integer division on the
10^-18 representation; a validator without shares issues them 1 : 1 -/
def World.sharesFor (w : World) (amt : Nat) : Nat :=
  if w.vShr = 0 then amt * shareScale else w.vShr * amt / w.vTok

/-- `chopPrecisionAndRound` of `cosmossdk.io/math`: drop 18 decimals with banker's rounding (half to even) -/
def chopRound (q : Nat) : Nat :=
  let d := q / shareScale
  let rem := q % shareScale
  if rem * 2 < shareScale then d else if shareScale < rem * 2 then d + 1 else (if d % 2 = 0 then d else d + 1)

/-- `Validator.RemoveDelShares`: the last shares take every token; otherwise `TokensFromShares(r).TruncateInt()` where
`TokensFromShares = shares.MulInt(Tokens).Quo(DelegatorShares)` — `LegacyDec.Quo` multiplies by 10^36, divides (truncating),
and chops 18 decimals with BANKER'S ROUNDING before the integer part is taken: a worth within 5·10^-19 below a whole
token is paid out as that whole token -/
def World.tokensFor (w : World) (r : Nat) : Nat :=
  if w.vShr - r = 0 then w.vTok else chopRound (r * w.vTok * shareScale * shareScale / w.vShr) / shareScale

def World.setRaw (w : World) (a : Addr) (raw : Nat) : World :=
  { w with shares := upd w.shares a (raw / shareScale), dust := upd w.dust a (raw % shareScale) }

/-- `handlerTransferShares`: the delegation of `p` must cover `s`; a transfer to oneself changes nothing (it returns
before the reward withdrawals); otherwise both sides' rewards are paid out and `s` shares move -/
def moveShares (w : World) (p to : Addr) (s : Nat) : Except Err World :=
  if w.shares p < s then .error .shares else
  if p = to then .ok w else
  let w1 := claim (claim w p) to
  .ok { w1 with shares := upd (upd w1.shares p (w1.shares p - s)) to (w1.shares to + s) }

/-- the effect of a method for payer `p` (resolved from the table), direct caller `c` -/
def effect (i : MInfo) (p c : Addr) (call : Call) (w : World) : Except Err World :=
  match call with
  | .delegate amt =>
    if w.bal p + w.rewards p < amt then .error .method else
    if w.vTok = 0 ∧ w.vShr ≠ 0 then .error .method else     -- a validator with shares and no tokens cannot be delegated to
    let w1 := claim w p
    let r := w1.sharesFor amt
    let w2 := { w1 with bal := upd w1.bal p (w1.bal p - amt), vTok := w1.vTok + amt, vShr := w1.vShr + r }
    .ok (w2.setRaw p (w1.raw p + r))
  | .undelegate amt =>
    -- `ValidateUnbondAmount`: tokens → shares at the validator's rate, refused beyond the delegation; `Unbond` +
    -- `RemoveDelShares`: the shares leave delegation and validator, their (truncated) token worth becomes an unbonding entry
    if w.vTok = 0 ∨ w.raw p < w.sharesFor amt then .error .method else
    let w1 := claim w p
    let r := w1.sharesFor amt
    let out := w1.tokensFor r
    let w2 := { w1 with unbonding := upd w1.unbonding p (w1.unbonding p + out), vTok := w1.vTok - out, vShr := w1.vShr - r }
    .ok (w2.setRaw p (w1.raw p - r))
  | .redelegate amt =>
    -- the shares leave the (one) validator of the world and reappear on the destination validator, which the world does
    -- not contain; rewards of the source delegation are paid out (BeforeDelegationSharesModified)
    if w.vTok = 0 ∨ w.raw p < w.sharesFor amt then .error .method else
    -- `BeginRedelegation`: shares worth less than one base unit are refused (ErrTinyRedelegationAmount)
    if (claim w p).tokensFor ((claim w p).sharesFor amt) = 0 then .error .method else
    let w1 := claim w p
    let r := w1.sharesFor amt
    let out := w1.tokensFor r
    let w2 := { w1 with vTok := w1.vTok - out, vShr := w1.vShr - r }
    .ok (w2.setRaw p (w1.raw p - r))
  | .withdraw => if w.raw p = 0 then .error .method else .ok (claim w p)   -- no delegation (not even a fraction of a share): nothing to withdraw
  | .approve sp s => .ok { w with allow := upd2 w.allow p sp s }
  | .transferShares to s => moveShares w p to s
  | .transferFromShares _ to s =>
    if i.guarded then
      if w.allow p c < s then .error .allowance else
      moveShares { w with allow := upd2 w.allow p c (w.allow p c - s) } p to s
    else moveShares w p to s
  | .crossChain amt fee _ =>
    if w.bal p < amt + fee then .error .method else
    .ok { w with bal := upd w.bal p (w.bal p - (amt + fee)), pool := ⟨w.nextId, p, amt + fee⟩ :: w.pool, nextId := w.nextId + 1 }
  | .cancelSend txid =>
    match w.pool.find? (fun e => e.id == txid) with
    | none => .error .method
    | some e =>
      if e.sender ≠ p then .error .method else
      .ok { w with pool := w.pool.erase e, bal := upd w.bal p (w.bal p + e.amount) }
  | .increaseFee txid fee =>
    if w.bal p < fee ∨ ¬ (w.pool.any (fun e => e.id == txid)) then .error .method else
    .ok { w with bal := upd w.bal p (w.bal p - fee),
                 pool := w.pool.map (fun e => if e.id == txid then { e with amount := e.amount + fee } else e) }
  | .bridgeCall _ _ value =>
    if w.bal p < value then .error .method else .ok { w with bal := upd w.bal p (w.bal p - value) }
  | .executeClaim _ => .ok w   -- executes an already authorised pending claim (subject of C01/C03); no portfolio is debited here
  | .view _ => .ok w

def lowerChar (c : Char) : Char := if 'A' ≤ c ∧ c ≤ 'Z' then Char.ofNat (c.toNat + 32) else c
def lower (s : List Char) : List Char := s.map lowerChar
def upperChar (c : Char) : Char := if 'a' ≤ c ∧ c ≤ 'z' then Char.ofNat (c.toNat - 32) else c
def upper (s : List Char) : List Char := s.map upperChar

/-- `CheckContractAddressIsDisabled`, parametrised by the regenerated shape of the comparison -/
def isDisabled (chk : DisabledCheck) (dis : List (List Char)) (addr mid : List Char) : Bool :=
  let a := if chk.lowerAddr then lower addr else addr
  dis.any (fun d =>
    let d' := if chk.lowerEntry then lower d else d
    (chk.addrEq && d' == a) || (chk.addrMethodEq && chk.fmt == "%s/%s" && chk.methodEnc == "hex" && d' == a ++ ['/'] ++ mid))

def resolve (s : Src) (env : Env) (call : Call) : Addr :=
  match s with
  | .caller => env.caller
  | .argFrom => call.argFrom env.caller
  | .origin => env.origin
  | .other => call.argFrom env.origin

/-- the dispatcher -/
def run (chk : DisabledCheck) (tbl : List MInfo) (dis : List (List Char)) (readonly : Bool) (addr mid : List Char)
    (env : Env) (call : Call) (w : World) : Except Err World :=
  match tbl.find? (fun i => i.name == call.name) with
  | none => .error .unknownMethod
  | some i =>
    if readonly && !i.readonly then .error .writeProtection
    else if isDisabled chk dis addr mid then .error .disabled
    else effect i (resolve i.payer env call) env.caller call w

inductive Kind | call | staticcall | delegatecall | callcode
  deriving DecidableEq, Repr

def Kind.goName : Kind → String
  | .call => "Call" | .staticcall => "StaticCall" | .delegatecall => "DelegateCall" | .callcode => "CallCode"

/-- the `readonly` argument the interpreter passes for a direct call of this kind (regenerated from the fork source) -/
def readonlyFlag (k : Kind) : Option Bool :=
  match forkReadonlyArg.find? (fun p => p.1 == k.goName) with
  | some (_, "true") => some true
  | some (_, "false") => some false
  | _ => none

/-! ## interpreter of the regenerated `CheckContractAddressIsDisabled` (`Gen.C10.disabledProg`) -/
section Dis
open FxVerif.Gen.C10

structure DEnv where
  s : Nat → List Char
  b : Nat → Bool

def updS (f : Nat → List Char) (k : Nat) (v : List Char) : Nat → List Char := fun x => if x = k then v else f x
def updB (f : Nat → Bool) (k : Nat) (v : Bool) : Nat → Bool := fun x => if x = k then v else f x

/-- Go `strings.Cut`: split around the first occurrence of `sep` -/
def cutAt (sep : List Char) : List Char → Option (List Char × List Char)
  | [] => if sep.isEmpty then some ([], []) else none
  | c :: r =>
    if sep.isPrefixOf (c :: r) then some ([], (c :: r).drop sep.length)
    else (cutAt sep r).map (fun p => (c :: p.1, p.2))

def evalSE (addr mid : List Char) (env : DEnv) : SE → List Char
  | .var x => env.s x
  | .lit s => s
  | .lower e => lower (evalSE addr mid env e)
  | .upper e => upper (evalSE addr mid env e)
  | .cat a b => evalSE addr mid env a ++ evalSE addr mid env b
  | .addrString => addr
  | .hexMethodId => mid
  | .unknown _ => []

def evalBE (nDis : Nat) (addr mid : List Char) (env : DEnv) : BE → Bool
  | .tt => true
  | .eq a b => evalSE addr mid env a == evalSE addr mid env b
  | .bvar x => env.b x
  | .not c => !evalBE nDis addr mid env c
  | .and a b => evalBE nDis addr mid env a && evalBE nDis addr mid env b
  | .or a b => evalBE nDis addr mid env a || evalBE nDis addr mid env b
  | .lenZero => nDis == 0
  | .hasPrefix a b => (evalSE addr mid env b).isPrefixOf (evalSE addr mid env a)
  | .unknown _ => false

inductive DOut
  | fall (env : DEnv) | ret (disabled : Bool) | cont (env : DEnv) | brk (env : DEnv) | unknown

mutual
def execS (nDis : Nat) (addr mid : List Char) : St → DEnv → DOut
  | .assign x e, env => .fall { env with s := updS env.s x (evalSE addr mid env e) }
  | .cut b a f e sep, env =>
    let v := evalSE addr mid env e
    match cutAt (evalSE addr mid env sep) v with
    | some (p, q) => .fall { s := updS (updS env.s b p) a q, b := updB env.b f true }
    | none => .fall { s := updS (updS env.s b v) a [], b := updB env.b f false }
  | .ite c t e, env => if evalBE nDis addr mid env c then execL nDis addr mid t env else execL nDis addr mid e env
  | .retErr, _ => .ret true
  | .retNil, _ => .ret false
  | .cont, env => .cont env
  | .brk, env => .brk env
  | .unknown _, _ => .unknown
def execL (nDis : Nat) (addr mid : List Char) : List St → DEnv → DOut
  | [], env => .fall env
  | s :: r, env =>
    match execS nDis addr mid s env with
    | .fall env' => execL nDis addr mid r env'
    | o => o
end

/-- the `for _, v := range disabledPrecompiles { body }` loop -/
def loopDis (nDis : Nat) (addr mid : List Char) (body : List St) (v : Nat) : List (List Char) → DEnv → DOut
  | [], env => .fall env
  | d :: r, env =>
    match execL nDis addr mid body { env with s := updS env.s v d } with
    | .ret b => .ret b
    | .brk env' => .fall env'
    | .cont env' => loopDis nDis addr mid body v r env'
    | .fall env' => loopDis nDis addr mid body v r env'
    | .unknown => .unknown

def denv0 : DEnv := ⟨fun _ => [], fun _ => false⟩

/-- `some true` = an error is returned (disabled), `some false` = nil, `none` = the translator met something it does not know -/
def checkDisabledGen (p : DisProg) (dis : List (List Char)) (addr mid : List Char) : Option Bool :=
  if p.loops ≠ 1 then none else
  match execL dis.length addr mid p.pre denv0 with
  | .ret b => some b
  | .fall env =>
    match loopDis dis.length addr mid p.body p.loopVar dis env with
    | .ret b => some b
    | .fall env' =>
      match execL dis.length addr mid p.post env' with
      | .ret b => some b
      | _ => none
    | _ => none
  | _ => none

end Dis

/-! ## interpreter of the regenerated `decrementAllowance` (`Gen.C10.decrementProg`) on the allowance table of a world -/
section Dec
open FxVerif.Gen.C10

structure AEnv where
  v : Nat → Int
  addr : String → Option Addr
  w : World

def updI (f : Nat → Int) (k : Nat) (v : Int) : Nat → Int := fun x => if x = k then v else f x

def evalIE (env : AEnv) : IE → Int
  | .var x => env.v x
  | .const n => n
  | .sub a b => evalIE env a - evalIE env b
  | .add a b => evalIE env a + evalIE env b
  | .unknown _ => 0

/-- `big.Int.Cmp` -/
def cmpInt (a b : Int) : Int := if a < b then -1 else if a = b then 0 else 1

def cmpHolds (op : CmpOp) (x k : Int) : Bool :=
  match op with
  | .lt => x < k | .le => x ≤ k | .eq => x == k | .ne => x != k | .gt => k < x | .ge => k ≤ x

def evalIC (env : AEnv) : IC → Bool
  | .cmp a b op k => cmpHolds op (cmpInt (evalIE env a) (evalIE env b)) k
  | .not c => !evalIC env c
  | .and a b => evalIC env a && evalIC env b
  | .or a b => evalIC env a || evalIC env b
  | .unknown _ => false

def ieKnown : IE → Bool
  | .unknown _ => false
  | .sub a b | .add a b => ieKnown a && ieKnown b
  | _ => true

def icKnown : IC → Bool
  | .unknown _ => false
  | .cmp a b _ _ => ieKnown a && ieKnown b
  | .not c => icKnown c
  | .and a b | .or a b => icKnown a && icKnown b

inductive AOut
  | fall (env : AEnv) | ret (err : Bool) (env : AEnv) | unknown

mutual
def execA : ASt → AEnv → AOut
  | .getAllow x [_, o, s], env =>
    match env.addr o, env.addr s with
    | some o, some s => .fall { env with v := updI env.v x (env.w.allow o s) }
    | _, _ => .unknown
  | .getAllow _ _, _ => .unknown
  | .setAllow [_, o, s] e, env =>
    match env.addr o, env.addr s with
    | some o, some s =>
      if ieKnown e then .fall { env with w := { env.w with allow := upd2 env.w.allow o s (evalIE env e).natAbs } } else .unknown
    | _, _ => .unknown
  | .setAllow _ _, _ => .unknown
  | .assign x e, env => if ieKnown e then .fall { env with v := updI env.v x (evalIE env e) } else .unknown
  | .ite c t e, env =>
    if !icKnown c then .unknown
    else if evalIC env c then execAL t env else execAL e env
  | .retErr, env => .ret true env
  | .retNil, env => .ret false env
  | .unknown _, _ => .unknown
def execAL : List ASt → AEnv → AOut
  | [], env => .fall env
  | s :: r, env =>
    match execA s env with
    | .fall env' => execAL r env'
    | o => o
end

/-- `decrementAllowance(ctx, valAddr, owner, spender, decrease)` called with the 3rd / 4th / 5th argument := `o` / `s` / `d`
(parameters are bound by POSITION; the keeper keys inside the body refer to them by NAME) -/
def runDecW (p : DecProg) (o s : Addr) (d : Nat) (w : World) : Except Err World :=
  let addr : String → Option Addr := fun n =>
    if p.params[2]? = some n then some o else if p.params[3]? = some n then some s else none
  match execAL p.body { v := fun i => if i = 4 then (d : Int) else 0, addr, w } with
  | .ret false env => .ok env.w
  | .ret true _ => .error .allowance
  | .fall env => .ok env.w
  | .unknown => .error .unknownStep

end Dec

/-! ## the ExecuteNativeAction closures of the share methods, call by call in source order -/
section Clo
open FxVerif.Gen.C10

def Call.addrArg (call : Call) (env : Env) (prov : String) : Option Addr :=
  if prov == "caller" then some env.caller
  else if prov == "origin" then some env.origin
  else match call, prov with
    | .transferFromShares f _ _, "arg:From" => some f
    | .transferFromShares _ t _, "arg:To" => some t
    | .transferShares t _, "arg:To" => some t
    | .approve sp _, "arg:Spender" => some sp
    | _, _ => none

def Call.amtArg (call : Call) (prov : String) : Option Nat :=
  match call, prov with
  | .transferFromShares _ _ s, "arg:Shares" => some s
  | .transferShares _ s, "arg:Shares" => some s
  | .approve _ s, "arg:Shares" => some s
  | _, _ => none

/-- how the closure treats the callee's error: `checked` / `returned` propagate it, anything else drops it -/
def applyErr (kind : String) (w : World) (r : Except Err World) : Except Err World :=
  if kind == "checked" || kind == "returned" then r
  else match r with
    | .ok w' => .ok w'
    | .error .unknownStep => .error .unknownStep
    | .error _ => .ok w

def stepClosure (env : Env) (call : Call) (st : Step) (w : World) : Except Err World :=
  if st.callee == "SetAllowance" then
    match st.args with
    | [_, _, o, s, a] =>
      match call.addrArg env o, call.addrArg env s, call.amtArg a with
      | some o, some s, some a => .ok { w with allow := upd2 w.allow o s a }
      | _, _, _ => .error .unknownStep
    | _ => .error .unknownStep
  else if st.callee == "decrementAllowance" then
    match st.args with
    | [_, _, o, s, a] =>
      match call.addrArg env o, call.addrArg env s, call.amtArg a with
      | some o, some s, some a => applyErr st.err w (runDecW decrementProg o s a w)
      | _, _, _ => .error .unknownStep
    | _ => .error .unknownStep
  else if st.callee == "handlerTransferShares" then
    match st.args with
    | [_, _, _, f, t, a] =>
      match call.addrArg env f, call.addrArg env t, call.amtArg a with
      | some f, some t, some a => applyErr st.err w (moveShares w f t a)
      | _, _, _ => .error .unknownStep
    | _ => .error .unknownStep
  else .error .unknownStep

def runClosure (env : Env) (call : Call) : List Step → World → Except Err World
  | [], w => .ok w
  | st :: r, w =>
    match stepClosure env call st w with
    | .ok w' => runClosure env call r w'
    | .error e => .error e

def isShareCall : Call → Bool
  | .approve _ _ | .transferShares _ _ | .transferFromShares _ _ _ => true
  | _ => false

/-! ### msg.value: the EVM credits it to the precompile account, the method hands `taken` back out of that account -/

def Call.numArg (call : Call) (name : String) : Nat :=
  match call, name with
  | .crossChain a _ _, "Amount" => a
  | .crossChain _ f _, "Fee" => f
  | .increaseFee _ f, "Fee" => f
  | _, _ => 0

def evalVE (v : Nat) (arg : String → Nat) : VE → Nat
  | .value => v
  | .arg n => arg n
  | .add a b => evalVE v arg a + evalVE v arg b
  | .const n => n
  | .unknown _ => 0

def veKnown : VE → Bool
  | .unknown _ => false
  | .add a b => veKnown a && veKnown b
  | _ => true

/-- `if lhs.Cmp(rhs) op k { return err }` does NOT fire -/
def guardPasses (v : Nat) (arg : String → Nat) (g : VGuard) : Bool :=
  !cmpHolds g.op (cmpInt (evalVE v arg g.lhs) (evalVE v arg g.rhs)) g.k

def flowKnown (f : ValueFlow) : Bool :=
  veKnown f.taken && f.guards.all (fun g => veKnown g.lhs && veKnown g.rhs) && f.recipient == "caller" &&
  (f.branch == "value.Cmp(big.NewInt(0)) == 1" ||
   f.branch == "value.Cmp(big.NewInt(0)) == 1 && fxcontract.IsZeroEthAddress(args.Token)")

def isPayable : Call → Bool
  | .crossChain _ _ _ | .increaseFee _ _ => true
  | _ => false

/-- the native-coin leg of a payable method (origin token: the harness and the model always pass token = 0):
EVM transfer caller → precompile account of msg.value; branch `value > 0`; the regenerated comparisons; then
`handlerOriginToken(taken)`: precompile account → caller -/
def valueLayer (f : ValueFlow) (env : Env) (call : Call) (w : World) : Except Err World :=
  if !flowKnown f then .error .unknownStep else
  let v := env.value
  if env.caller = env.self then .error .value else     -- a precompile account does not call itself
  if w.bal env.caller < v then .error .value else
  let b1 := upd (upd w.bal env.caller (w.bal env.caller - v)) env.self (w.bal env.self + v)
  if v = 0 then .error .value        -- the other branch: ERC-20 path with the zero token address
  else if !f.guards.all (guardPasses v call.numArg) then .error .value
  else
    let t := evalVE v call.numArg f.taken
    if b1 env.self < t then .error .value
    else .ok { w with bal := upd (upd b1 env.self (b1 env.self - t)) env.caller (upd b1 env.self (b1 env.self - t) env.caller + t) }

/-- what the dispatcher model needs of a row of the regenerated method table -/
structure Row where
  contract : String
  info : MInfo
  deriving DecidableEq, Repr

def rows : List Row := methods.map (fun m => ⟨m.contract, infoOf m⟩)

/-- the method body: share methods from their regenerated closures, the others from the payer column -/
def effectGen (r : Row) (env : Env) (call : Call) (w : World) : Except Err World :=
  if isShareCall call then
    match closures.find? (fun c => c.abiName == call.name && c.contract == r.contract) with
    | some c => if c.single then runClosure env call c.steps w else .error .unknownStep
    | none => .error .unknownStep
  else if isPayable call then
    match valueFlows.find? (fun f => f.abiName == call.name) with
    | some f =>
      match valueLayer f env call w with
      | .ok w1 => effect r.info (resolve r.info.payer env call) env.caller call w1
      | .error e => .error e
    | none => .error .unknownStep
  else effect r.info (resolve r.info.payer env call) env.caller call w

end Clo

/-! ## the dispatcher assembled from the regenerated step order -/

structure Res where
  out : Except Err World
  executed : Bool    -- did `method.Run` start?

def runSteps (ro writer : Bool) (disabled : Option Bool) (eff : World → Except Err World) :
    List String → World → Bool → Res
  | [], w, ex => ⟨.ok w, ex⟩
  | s :: r, w, ex =>
    if s == "readonly-guard" then
      if ro && writer then ⟨.error .writeProtection, ex⟩ else runSteps ro writer disabled eff r w ex
    else if s == "disabled-check" then
      match disabled with
      | some true => ⟨.error .disabled, ex⟩
      | some false => runSteps ro writer disabled eff r w ex
      | none => ⟨.error .unknownStep, ex⟩
    else if s == "run" then
      match eff w with
      | .ok w' => runSteps ro writer disabled eff r w' true
      | .error e => ⟨.error e, true⟩
    else ⟨.error .unknownStep, ex⟩

def runGen (dis : List (List Char)) (ro : Bool) (addr mid : List Char) (env : Env) (call : Call) (w : World) : Res :=
  match rows.find? (fun r => r.info.name == call.name) with
  | none => ⟨.error .unknownMethod, false⟩
  | some r =>
    match dispatchers.find? (fun d => d.contract == r.contract) with
    | none => ⟨.error .unknownMethod, false⟩
    | some d =>
      runSteps ro (!r.info.readonly) (checkDisabledGen FxVerif.Gen.C10.disabledProg dis addr mid) (effectGen r env call) d.steps w false

/-! ## the small abstract specification `runGen` is proved to refine (Proofs/C10.lean: `runGen_refines`) -/

def specDisabled (dis : List (List Char)) (addr mid : List Char) : Bool :=
  dis.any (fun d => lower d == lower addr || lower d == lower addr ++ '/' :: mid)

def Call.isView : Call → Bool
  | .view _ => true
  | _ => false

/-- who a call names besides its caller -/
def Call.parties : Call → List Addr
  | .approve _ _ => []                      -- the spender gains a right, none of its assets is touched
  | .transferShares t _ => [t]
  | .transferFromShares f t _ => [f, t]
  | _ => []

/-- every state-changing method acts on the direct caller's assets; `transferFromShares` acts on `from` after the
allowance `from → caller` has been checked and reduced -/
def specEffect (c : Addr) (call : Call) (w : World) : Except Err World :=
  match call with
  | .transferFromShares f _ _ => effect ⟨"transferFromShares", false, .argFrom, true⟩ f c call w
  | _ => effect ⟨call.name, false, .caller, false⟩ c c call w

/-- the native coins a payable method takes out of the precompile account are exactly the msg.value of this call (> 0,
covered by the caller's balance): `crossChain` amount + fee, `increaseBridgeFee` fee -/
def specValueOk (env : Env) (call : Call) (w : World) : Bool :=
  match call with
  | .crossChain a f _ =>
    decide (env.caller ≠ env.self) && decide (0 < env.value) && env.value == a + f && decide (env.value ≤ w.bal env.caller)
  | .increaseFee _ f =>
    decide (env.caller ≠ env.self) && decide (0 < env.value) && env.value == f && decide (env.value ≤ w.bal env.caller)
  | _ => true

def specEffectV (env : Env) (call : Call) (w : World) : Except Err World :=
  if specValueOk env call w then specEffect env.caller call w else .error .value

def specRun (dis : List (List Char)) (ro : Bool) (addr mid : List Char) (env : Env) (call : Call) (w : World) : Res :=
  if ro then ⟨.error .writeProtection, false⟩
  else if specDisabled dis addr mid then ⟨.error .disabled, false⟩
  else ⟨specEffectV env call w, true⟩

/-! ## histories: any list of calls by any callers, call kinds and governance settings -/

structure HOp where
  kind : Kind
  dis : List (List Char)
  addr : List Char
  mid : List Char
  env : Env
  call : Call

/-- what the direct call returns (`none`: the fork source gave no readonly literal for this call kind) -/
def outcome (w : World) (o : HOp) : Option (Except Err World) :=
  (readonlyFlag o.kind).map (fun ro => (runGen o.dis ro o.addr o.mid o.env o.call w).out)

def succeeded (w : World) (o : HOp) : Bool :=
  match outcome w o with
  | some (.ok _) => true
  | _ => false

/-- a failed precompile call leaves the state as it was (C09: the EVM reverts the frame) -/
def applyOp (w : World) (o : HOp) : World :=
  match outcome w o with
  | some (.ok w') => w'
  | _ => w

def runH (ops : List HOp) (w : World) : World := ops.foldl applyOp w

/-- allowance of `a` to `c` that a successful `transferFromShares(a, _, s)` issued by `c` consumes in this step -/
def spentBy (a c : Addr) (w : World) (o : HOp) : Nat :=
  match o.call with
  | .transferFromShares f _ s => if f = a ∧ o.env.caller = c ∧ succeeded w o = true then s else 0
  | _ => 0

def totalSpent (a c : Addr) : List HOp → World → Nat
  | [], _ => 0
  | o :: r, w => spentBy a c w o + totalSpent a c r (applyOp w o)

/-- shares a successful `transferFromShares(a, _, s)` of anybody may take from `a` in this step -/
def movedFrom (a : Addr) (w : World) (o : HOp) : Nat :=
  match o.call with
  | .transferFromShares f _ s => if f = a ∧ succeeded w o = true then s else 0
  | _ => 0

def totalMoved (a : Addr) : List HOp → World → Nat
  | [], _ => 0
  | o :: r, w => movedFrom a w o + totalMoved a r (applyOp w o)

end FxVerif.Model.C10
