import FxVerif.Model.C03Go

/-!
# C03 — a claim handler as a program the model interprets (core Lean only)

`go/extract/c03prog.go` translates the body of `Keeper.AddBridgeTokenExecuted` statement by statement into
`Gen/C03.lean` `addBridgeTokenProg : List HLine` — lines `(guards, statement)`, an `if c { … }` contributing `c` to the
guards of the statements of its body.  This file gives the lines their meaning: string expressions over the claim's fields,
the keeper's module name, local variables and constants; conditions (`hasKey` = `store.Has(GetBridgeDenomKey(·))`, equality
of strings, (in)equality of numbers); statements (`assign`, `setKey` = `store.Set(GetBridgeDenomKey(·), ·)`, `retErr`,
`retNil`).  A handler that returns an error writes nothing (`processAttestation` discards the cache context).

Anything the translator does not recognise is `.unknown`, on which the interpreter is `stuck`.
-/
namespace FxVerif.Model.C03

inductive SExpr where
  | lit (s : Str)
  | field (f : String)
  | var (v : String)
  | moduleName
  | cat (a b : SExpr)
  | unknown (src : String)
  deriving DecidableEq, Repr

inductive NExpr where
  | lit (n : Nat)
  | field (f : String)
  | unknown (src : String)
  deriving DecidableEq, Repr

inductive HCond where
  | hasKey (k : SExpr)
  | strEq (a b : SExpr)
  | strNe (a b : SExpr)
  | natEq (a b : NExpr)
  | natNe (a b : NExpr)
  | unknown (src : String)
  deriving DecidableEq, Repr

inductive HStmt where
  | assign (v : String) (e : SExpr)
  | setKey (k v : SExpr)
  | retErr
  | retNil
  | unknown (src : String)
  deriving DecidableEq, Repr

structure HLine where
  guards : List HCond
  stmt : HStmt
  deriving DecidableEq, Repr

/-- how the interpreted claim is seen: its string fields and its numeric fields, by Go field name -/
structure FieldEnv where
  str : String → Option Str
  nat : String → Option Nat

/-- locals and the module's bridge-denom store (`GetBridgeDenomKey(k) ↦ v`) -/
structure HSt where
  vars : List (String × Str) := []
  store : List (Str × Str) := []
  deriving DecidableEq, Repr

def evalS (fe : FieldEnv) (m : Str) (vars : List (String × Str)) : SExpr → Option Str
  | .lit s => some s
  | .field f => fe.str f
  | .var v => vars.lookup v
  | .moduleName => some m
  | .cat a b =>
    match evalS fe m vars a, evalS fe m vars b with
    | some x, some y => some (x ++ y)
    | _, _ => none
  | .unknown _ => none

def evalN (fe : FieldEnv) : NExpr → Option Nat
  | .lit n => some n
  | .field f => fe.nat f
  | .unknown _ => none

def evalC (fe : FieldEnv) (m : Str) (s : HSt) : HCond → Option Bool
  | .hasKey k => (evalS fe m s.vars k).map fun x => (s.store.lookup x).isSome
  | .strEq a b =>
    match evalS fe m s.vars a, evalS fe m s.vars b with
    | some x, some y => some (x == y)
    | _, _ => none
  | .strNe a b =>
    match evalS fe m s.vars a, evalS fe m s.vars b with
    | some x, some y => some (x != y)
    | _, _ => none
  | .natEq a b =>
    match evalN fe a, evalN fe b with
    | some x, some y => some (x == y)
    | _, _ => none
  | .natNe a b =>
    match evalN fe a, evalN fe b with
    | some x, some y => some (x != y)
    | _, _ => none
  | .unknown _ => none

/-- all guards hold (`none`: some guard cannot be evaluated) -/
def evalGuards (fe : FieldEnv) (m : Str) (s : HSt) : List HCond → Option Bool
  | [] => some true
  | g :: r =>
    match evalC fe m s g with
    | none => none
    | some false => some false
    | some true => evalGuards fe m s r

def setAssocS {κ : Type} [BEq κ] (xs : List (κ × Str)) (k : κ) (v : Str) : List (κ × Str) := (k, v) :: xs.filter (fun p => !(p.1 == k))

inductive HRes where
  | ok (store : List (Str × Str))   -- the handler returned nil: these are the writes
  | err                             -- the handler returned an error: nothing is written
  | stuck                           -- a construct the translator does not model, or the body fell off its end
  deriving DecidableEq, Repr

/-- run the lines in order -/
def runProg (fe : FieldEnv) (m : Str) : List HLine → HSt → HRes
  | [], _ => .stuck
  | l :: r, s =>
    match evalGuards fe m s l.guards with
    | none => .stuck
    | some false => runProg fe m r s
    | some true =>
      match l.stmt with
      | .assign v e =>
        match evalS fe m s.vars e with
        | some x => runProg fe m r { s with vars := setAssocS s.vars v x }
        | none => .stuck
      | .setKey k v =>
        match evalS fe m s.vars k, evalS fe m s.vars v with
        | some x, some y => runProg fe m r { s with store := setAssocS s.store x y }
        | _, _ => .stuck
      | .retErr => .err
      | .retNil => .ok s.store
      | .unknown _ => .stuck

/-! ## which fields a program mentions -/

def SExpr.strFields : SExpr → List String
  | .field f => [f]
  | .cat a b => a.strFields ++ b.strFields
  | _ => []

def NExpr.natFields : NExpr → List String
  | .field f => [f]
  | _ => []

def HCond.strFields : HCond → List String
  | .hasKey k => k.strFields
  | .strEq a b | .strNe a b => a.strFields ++ b.strFields
  | _ => []

def HCond.natFields : HCond → List String
  | .natEq a b | .natNe a b => a.natFields ++ b.natFields
  | _ => []

def HStmt.strFields : HStmt → List String
  | .assign _ e => e.strFields
  | .setKey k v => k.strFields ++ v.strFields
  | _ => []

def HLine.strFields (l : HLine) : List String := l.guards.flatMap HCond.strFields ++ l.stmt.strFields
def HLine.natFields (l : HLine) : List String := l.guards.flatMap HCond.natFields

def progStrFields (p : List HLine) : List String := p.flatMap HLine.strFields
def progNatFields (p : List HLine) : List String := p.flatMap HLine.natFields

/-- no `.unknown` anywhere -/
def SExpr.modelled : SExpr → Bool
  | .unknown _ => false
  | .cat a b => a.modelled && b.modelled
  | _ => true

def NExpr.modelled : NExpr → Bool
  | .unknown _ => false
  | _ => true

def HCond.modelled : HCond → Bool
  | .hasKey k => k.modelled
  | .strEq a b | .strNe a b => a.modelled && b.modelled
  | .natEq a b | .natNe a b => a.modelled && b.modelled
  | .unknown _ => false

def HStmt.modelled : HStmt → Bool
  | .assign _ e => e.modelled
  | .setKey k v => k.modelled && v.modelled
  | .unknown _ => false
  | _ => true

def HLine.modelled (l : HLine) : Bool := l.guards.all HCond.modelled && l.stmt.modelled

/-! ## the bridge-token claim as a field environment -/

def MsgBridgeTokenClaim.fieldEnv (c : MsgBridgeTokenClaim) : FieldEnv where
  str := fun f =>
    if f == "TokenContract" then some c.TokenContract
    else if f == "Name" then some c.Name
    else if f == "Symbol" then some c.Symbol
    else if f == "ChannelIbc" then some c.ChannelIbc
    else if f == "BridgerAddress" then some c.BridgerAddress
    else if f == "ChainName" then some c.ChainName
    else none
  nat := fun f =>
    if f == "EventNonce" then some c.EventNonce
    else if f == "BlockHeight" then some c.BlockHeight
    else if f == "Decimals" then some c.Decimals
    else none

end FxVerif.Model.C03
