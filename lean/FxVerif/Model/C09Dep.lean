import FxVerif.Model.C09
import FxVerif.Gen.C09Dep
/-!
# C09 — interpreters for the REGENERATED dependency code (`Gen/C09Dep.lean`, re-read from the module cache on every run)

Round 3.  The frame model (`Model/C09.lean`) was a hand-written model of two dependencies: the ethermint fork's
`(*StateDB).ExecuteNativeAction` and the go-ethereum fork's `EVM.Call / CallCode / DelegateCall / StaticCall`.  Here the
statement lists of those functions, as the sources have them NOW, are *interpreted* over the model's StateDB (`St`), and
`Props/C09.lean` proves that the interpretation is exactly the function the frame model is built from
(`native_action_program_as_modelled`, `evm_call_program_as_modelled`, `exec_call_is_fork_call`, `exec_pre_is_fork_call`,
`runPre_is_fork_native_action`) — so a change of statement order in either fork (journal entry before the action, return
before restore, revert after the gas is burnt, transfer before the snapshot, …) breaks a proof obligation instead of
silently leaving the model behind.  Core Lean only.
-/
namespace FxVerif.Model.C09
open FxVerif.Gen.C09Dep

variable {N : Type}

/-! ## `ExecuteNativeAction` -/

/-- what `runPre` does around the closure: snapshot the native store; on success journal the snapshot ABOVE whatever the
closure journaled; on error put the snapshot back; a panic passes through untouched -/
def naModel (clo : St N → Res × St N) (s0 : St N) : Res × St N :=
  match clo s0 with
  | (.ok, s1) => (.ok, { s1 with journal := .native s0.native :: s1.journal })
  | (.err, s1) => (.err, { s1 with native := s0.native })
  | (.panic, s1) => (.panic, s1)

structure NASt (N : Type) where
  cur : St N
  snap : Option N      -- the local variable `snapshot`
  failed : Bool        -- `err != nil` after `action(...)`

/-- one statement; `inl` = fall through to the next statement, `inr` = the function returns (or a panic unwinds through it);
`none` = a statement the translator does not know, or a use of `snapshot` before it is assigned -/
def stepNA (clo : St N → Res × St N) : NAStep → NASt N → Option (Sum (NASt N) (Res × St N))
  | .snapshot, m => some (.inl { m with snap := some m.cur.native })
  | .events _, m => some (.inl m)
  | .run, m =>
    match clo m.cur with
    | (.ok, s1) => some (.inl { m with cur := s1, failed := false })
    | (.err, s1) => some (.inl { m with cur := s1, failed := true })
    | (.panic, s1) => some (.inr (.panic, s1))
  | .onErr b, m => if m.failed then stepNA clo b m else some (.inl m)
  | .restore, m =>
    match m.snap with
    | some n => some (.inl { m with cur := { m.cur with native := n } })
    | none => none
  | .journal, m =>
    match m.snap with
    | some n => some (.inl { m with cur := { m.cur with journal := .native n :: m.cur.journal } })
    | none => none
  | .retErr, m => some (.inr (.err, m.cur))
  | .retNil, m => some (.inr (.ok, m.cur))
  | .unknown _, _ => none

def execNA (clo : St N → Res × St N) : List NAStep → NASt N → Option (Res × St N)
  | [], _ => none
  | st :: rest, m =>
    match stepNA clo st m with
    | some (.inl m') => execNA clo rest m'
    | some (.inr r) => some r
    | none => none

/-- `ExecuteNativeAction(action)` on StateDB `s0`, by the statements of `prog` -/
def runNA (prog : List NAStep) (clo : St N → Res × St N) (s0 : St N) : Option (Res × St N) :=
  execNA clo prog { cur := s0, snap := none, failed := false }

/-! ## `EVM.Call` and its three siblings -/

/-- what `exec` does with a callee, up to the point where the caller's code continues: the balance check returns at
once with all the gas; otherwise snapshot, move the value, run the callee; a callee that does not return normally is
reverted to the snapshot and — unless it REVERTed — loses its gas; a Go panic unwinds -/
def callModel (h : CallHdr N) (callee : St N → Outcome × St N × Nat) (s : St N) (gas : Nat) : Outcome × St N × Nat :=
  if h.unfunded s.native then (.revert, s, gas) else
  let r := callee (s.enter h)
  if r.1 = .abort then r
  else if r.1 = .ok then r
  else (r.1, r.2.1.revertTo s.journal.length, if r.1 = .revert then r.2.2 else 0)

/-- the caller's side after `evm.Call*` has returned `(err, leftOverGas)`: refund, then continue / bubble up / run dry -/
def post (h : CallHdr N) (keep : Nat) (r : Outcome × St N × Nat) : Sum (St N × Nat) (Outcome × St N × Nat) :=
  if r.1 = .abort then .inr (.abort, r.2.1, 0) else
  if r.1 = .ok then
    if keep + r.2.2 < h.pOk then .inr (.fail, r.2.1, 0) else .inl (r.2.1, keep + r.2.2 - h.pOk)
  else
    if keep + r.2.2 < h.pFail then .inr (.fail, r.2.1, 0)
    else if h.swallow then .inl (r.2.1, keep + r.2.2 - h.pFail) else .inr (.revert, r.2.1, keep + r.2.2 - h.pFail)

structure CSt (N : Type) where
  cur : St N
  gas : Nat
  snap : Option Nat    -- the local variable `snapshot` (a revision whose journal index is this)
  out : Outcome        -- `err`: ok = nil, revert = ErrExecutionReverted, fail = any other error

def stepC (h : CallHdr N) (callee : St N → Outcome × St N × Nat) : CStep → CSt N → Option (Sum (CSt N) (Outcome × St N × Nat))
  | .depthCheck, m => some (.inl m)      -- the call depth is bounded by `fuel` in the model, not by 1024
  | .fundCheck, m => if h.unfunded m.cur.native then some (.inr (.revert, m.cur, m.gas)) else some (.inl m)
  | .snapshot, m => some (.inl { m with snap := some m.cur.journal.length })
  | .transfer, m => some (.inl { m with cur := m.cur.enter h })
  | .runCallee, m =>
    let r := callee m.cur
    if r.1 = .abort then some (.inr r) else some (.inl { m with cur := r.2.1, gas := r.2.2, out := r.1 })
  | .onErr b, m => if m.out = .ok then some (.inl m) else stepC h callee b m
  | .revert, m =>
    match m.snap with
    | some n => some (.inl { m with cur := m.cur.revertTo n })
    | none => none
  | .burnGasUnlessReverted, m => some (.inl (if m.out = .revert then m else { m with gas := 0 }))
  | .ret, m => some (.inr (m.out, m.cur, m.gas))
  | .neutral _, m => some (.inl m)
  | .unknown _, _ => none

def execC (h : CallHdr N) (callee : St N → Outcome × St N × Nat) : List CStep → CSt N → Option (Outcome × St N × Nat)
  | [], _ => none
  | st :: rest, m =>
    match stepC h callee st m with
    | some (.inl m') => execC h callee rest m'
    | some (.inr r) => some r
    | none => none

/-- `evm.Call*(caller, addr, input, gas, value)` on StateDB `s`, by the statements of `prog` -/
def runCall (prog : List CStep) (h : CallHdr N) (callee : St N → Outcome × St N × Nat) (s : St N) (gas : Nat) :
    Option (Outcome × St N × Nat) :=
  execC h callee prog { cur := s, gas := gas, snap := none, out := .ok }

/-- the statement list the fork has for a call kind -/
def progOf : Kind → List CStep
  | .call => progCall
  | .callcode => progCallCode
  | .delegatecall => progDelegateCall
  | .staticcall => progStaticCall

/-- the single facts the model relies on besides the two programs -/
def expectedStateDBFacts : List (String × String) := [
  ("AddLog.journaled", "true"),
  ("Commit.nativeFirst", "true"),
  ("Context", "{ return s.ctx }"),
  ("RevertToSnapshot.journalIndex", "true"),
  ("Snapshot.records", "true"),
  ("Transfer.isNativeAction", "true"),
  ("actionCtx", "s.ctx.WithEventManager(eventManager)"),
  ("journal.Revert.newestFirst", "true"),
  ("journal.Revert.truncates", "true"),
  ("journal.append.atEnd", "true"),
  ("journal.length", "{ return len(j.entries) }"),
  ("nativeChange.Revert", "{ s.revertNativeStateToSnapshot(native.snapshot) s.nativeEvents = s.nativeEvents[:len(s.nativeEvents)-native.events] }"),
  ("revertNativeStateToSnapshot", "{ s.cacheMS.Restore(ms) }"),
  ("runPrecompiledContract.requiredGasFirst", "true"),
  ("snapshotNativeState", "{ return s.cacheMS.Clone() }"),
  ("storageChange.Revert", "{ s.getStateObject(*ch.account).setState(ch.key, ch.prevalue) }")]

/-! ## round 4 — the statements the dependency translator takes as neutral, as data

`go/extract/c09dep.go` classifies some statements of `ExecuteNativeAction` / `EVM.Call*` / `create` as neutral (no effect on
what the frame model keeps: journal, native store, gas handed back).  That classification used to be a trusted prefix list
inside the translator.  The statements so classified are now printed IN FULL into `Gen.C09Dep.neutralStmts` (function,
flattened source, StateDB methods called inside, whether it contains a `return`), and `Props/C09.lean` states: the list is
literally the REVIEWED one below (a new or changed neutral statement in either fork is noticed); every neutral step of the
interpreted programs has its text in the list; the StateDB methods reached from neutral statements are account
bookkeeping only; a neutral statement that can return stands before the value transfer and the callee. -/

/-- the neutral statements as reviewed (ethermint fork v0.22-fx / go-ethereum fork v1.10.20-fx as pinned by /repo/go.mod):
event-manager plumbing of `ExecuteNativeAction`; precompile lookup, tracer hooks, account existence / creation (a CALL to a
non-existent account without value returns at once: nothing was changed since the snapshot), `AddBalance(addr, 0)` (touch)
in `StaticCall`; in `create` the creator's nonce bump, access list, collision test, new account + nonce, contract object,
tracer hooks and the three checks on the returned runtime code -/
def reviewedNeutral : List (String × String × List String × Bool) := [
  ("ExecuteNativeAction", "eventManager := sdk.NewEventManager()", [], false),
  ("ExecuteNativeAction", "events := eventManager.Events()", [], false),
  ("ExecuteNativeAction", "s.emitNativeEvents(contract, converter, events)", ["emitNativeEvents"], false),
  ("ExecuteNativeAction", "s.nativeEvents = s.nativeEvents.AppendEvents(events)", [], false),
  ("Call", "p, isPrecompile := evm.Precompile(addr)", [], false),
  ("Call", "debug := evm.Config.Tracer != nil", [], false),
  ("Call", "if !evm.StateDB.Exist(addr) { if !isPrecompile && evm.chainRules.IsEIP158 && value.Sign() == 0 { if debug { if evm.depth == 0 { evm.Config.Tracer.CaptureStart(evm, caller.Address(), addr, false, input, gas, value) evm.Config.Tracer.CaptureEnd(ret, 0, nil) } else { evm.Config.Tracer.CaptureEnter(CALL, caller.Address(), addr, input, gas, value) evm.Config.Tracer.CaptureExit(ret, 0, nil) } } return nil, gas, nil } evm.StateDB.CreateAccount(addr) }", ["Exist", "CreateAccount"], true),
  ("Call", "if debug { if evm.depth == 0 { evm.Config.Tracer.CaptureStart(evm, caller.Address(), addr, false, input, gas, value) defer func(startGas uint64) { evm.Config.Tracer.CaptureEnd(ret, startGas-gas, err) }(gas) } else { evm.Config.Tracer.CaptureEnter(CALL, caller.Address(), addr, input, gas, value) defer func(startGas uint64) { evm.Config.Tracer.CaptureExit(ret, startGas-gas, err) }(gas) } }", [], false),
  ("CallCode", "if evm.Config.Tracer != nil { evm.Config.Tracer.CaptureEnter(CALLCODE, caller.Address(), addr, input, gas, value) defer func(startGas uint64) { evm.Config.Tracer.CaptureExit(ret, startGas-gas, err) }(gas) }", [], false),
  ("DelegateCall", "if evm.Config.Tracer != nil { parent := caller.(*Contract) evm.Config.Tracer.CaptureEnter(DELEGATECALL, caller.Address(), addr, input, gas, parent.value) defer func(startGas uint64) { evm.Config.Tracer.CaptureExit(ret, startGas-gas, err) }(gas) }", [], false),
  ("StaticCall", "evm.StateDB.AddBalance(addr, big0)", ["AddBalance"], false),
  ("StaticCall", "if evm.Config.Tracer != nil { evm.Config.Tracer.CaptureEnter(STATICCALL, caller.Address(), addr, input, gas, nil) defer func(startGas uint64) { evm.Config.Tracer.CaptureExit(ret, startGas-gas, err) }(gas) }", [], false),
  ("create", "nonce := evm.StateDB.GetNonce(caller.Address())", ["GetNonce"], false),
  ("create", "if nonce+1 < nonce { return nil, common.Address{}, gas, ErrNonceUintOverflow }", [], true),
  ("create", "evm.StateDB.SetNonce(caller.Address(), nonce+1)", ["SetNonce"], false),
  ("create", "if evm.chainRules.IsBerlin { evm.StateDB.AddAddressToAccessList(address) }", ["AddAddressToAccessList"], false),
  ("create", "contractHash := evm.StateDB.GetCodeHash(address)", ["GetCodeHash"], false),
  ("create", "if evm.StateDB.GetNonce(address) != 0 || (contractHash != (common.Hash{}) && contractHash != emptyCodeHash) { return nil, common.Address{}, 0, ErrContractAddressCollision }", ["GetNonce"], true),
  ("create", "evm.StateDB.CreateAccount(address)", ["CreateAccount"], false),
  ("create", "if evm.chainRules.IsEIP158 { evm.StateDB.SetNonce(address, 1) }", ["SetNonce"], false),
  ("create", "contract := NewContract(caller, AccountRef(address), value, gas)", [], false),
  ("create", "contract.SetCodeOptionalHash(&address, codeAndHash)", [], false),
  ("create", "if evm.Config.Tracer != nil { if evm.depth == 0 { evm.Config.Tracer.CaptureStart(evm, caller.Address(), address, true, codeAndHash.code, gas, value) } else { evm.Config.Tracer.CaptureEnter(typ, caller.Address(), address, codeAndHash.code, gas, value) } }", [], false),
  ("create", "if err == nil && evm.chainRules.IsEIP158 && len(ret) > params.MaxCodeSize { err = ErrMaxCodeSizeExceeded }", [], false),
  ("create", "if err == nil && len(ret) >= 1 && ret[0] == 0xEF && evm.chainRules.IsLondon { err = ErrInvalidCode }", [], false),
  ("create", "if err == nil { createDataGas := uint64(len(ret)) * params.CreateDataGas if contract.UseGas(createDataGas) { evm.StateDB.SetCode(address, ret) } else { err = ErrCodeStoreOutOfGas } }", ["SetCode"], false),
  ("create", "if evm.Config.Tracer != nil { if evm.depth == 0 { evm.Config.Tracer.CaptureEnd(ret, gas-contract.Gas, err) } else { evm.Config.Tracer.CaptureExit(ret, gas-contract.Gas, err) } }", [], false)]

/-- StateDB methods that only touch EVM-side account bookkeeping (existence, nonce, code, access list, a zero-value touch)
or the event buffer: nothing the View of the frame model (EVM storage slots, native store, logs) contains.  NOT in the
list, on purpose: Snapshot, RevertToSnapshot, ExecuteNativeAction, Transfer, SubBalance, SetState, AddLog, Context, Commit -/
def accountBookkeeping : List String :=
  ["Exist", "CreateAccount", "AddBalance", "GetNonce", "SetNonce", "AddAddressToAccessList", "GetCodeHash", "SetCode", "emitNativeEvents"]

def cNeutral : CStep → Bool
  | .neutral _ => true
  | _ => false
def naNeutral : NAStep → Bool
  | .events _ => true
  | _ => false
def cEffect : CStep → Bool
  | .transfer | .runCallee => true
  | _ => false

def neutralOf (fn : String) (l : List (String × String × List String × Bool)) : List (String × String × List String × Bool) :=
  l.filter (fun n => n.1 == fn)

/-- number of neutral steps before the first statement with an effect (value transfer, callee) -/
def neutralBeforeEffect : List CStep → Nat
  | [] => 0
  | st :: rest => if cEffect st then 0 else (if cNeutral st then 1 else 0) + neutralBeforeEffect rest

/-- positions (among the neutral statements of one function, in source order) of those that contain a `return` -/
def returningIdx (l : List (String × String × List String × Bool)) : List Nat :=
  (l.zipIdx.filter (fun p => p.1.2.2.2)).map (·.2)

/-- the five go-ethereum programs with the function name the translator records them under -/
def depProgs : List (String × List CStep) :=
  [("Call", progCall), ("CallCode", progCallCode), ("DelegateCall", progDelegateCall), ("StaticCall", progStaticCall), ("create", progCreate)]

/-! ## round 5 — CREATE2

`opCreate2` reaches the frame discipline through `(*EVM).Create2`, `opCreate` through `(*EVM).Create`; both are regenerated
(`Gen.C09Dep.createEntries`) and must be nothing but "compute the address, then `return evm.create(…)`" — the program
`progCreate` that `evm_create_program_as_modelled` is about.  What distinguishes them is the address argument alone. -/

/-- an entry point hands the frame to `evm.create` as its LAST statement and passes the results through; before that it
calls no StateDB method other than reading a nonce -/
def createEntryOk (e : String × List String × Bool × String × String × List String) : Bool :=
  e.2.2.1 && e.2.2.2.2.1 == "contractAddr" && e.2.2.2.2.2.all (fun m => m == "GetNonce")

/-- the reviewed entry points, character for character -/
def reviewedCreateEntries : List (String × List String × Bool × String × String × List String) := [
  ("Create", ["contractAddr = crypto.CreateAddress(caller.Address(), evm.StateDB.GetNonce(caller.Address()))",
              "return evm.create(caller, &codeAndHash{code: code}, gas, value, contractAddr, CREATE)"], true, "CREATE", "contractAddr", ["GetNonce"]),
  ("Create2", ["codeAndHash := &codeAndHash{code: code}",
               "contractAddr = crypto.CreateAddress2(caller.Address(), salt.Bytes32(), codeAndHash.Hash().Bytes())",
               "return evm.create(caller, codeAndHash, gas, endowment, contractAddr, CREATE2)"], true, "CREATE2", "contractAddr", [])]

end FxVerif.Model.C09
