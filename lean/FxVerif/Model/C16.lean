import FxVerif.Gen.C16
/-!
# C16 model — privileged handlers

`handlers` (generated from the Go source on every run) lists every message-server method whose request carries an
`Authority` field, with the *shape* of its body.  This file gives the shapes an executable meaning:

* `guard c` — the handler's first statement compares the keeper authority with `req.Authority` (`!=`, or
  `!strings.EqualFold`) and returns an error; only then the arbitrary rest of the handler (`body`) runs;
* `forward m` — the crosschain router: if the chain has no route → error; else the per-chain `MsgServer.m` runs;
* `unguarded` — the rest of the handler runs whatever the authority is.

Text is `List Char`.  `body` is universally quantified in the theorems (anything the handler might do).
-/
namespace FxVerif.Model.C16
open FxVerif.Gen.C16

inductive Res where | ok | err
  deriving DecidableEq, Repr

/-- ASCII lower-casing; `strings.EqualFold` restricted to ASCII strings (bech32 and hex addresses are ASCII; a
non-ASCII authority is rejected earlier by address decoding — exercised by the correspondence sweep). -/
def lowerAscii (s : List Char) : List Char := s.map Char.toLower

def guardPasses : Cmp → List Char → List Char → Bool
  | .strict, gov, a => gov == a
  | .fold, gov, a => lowerAscii gov == lowerAscii a

/-- the guarded per-chain handler a router method forwards to -/
def target (tbl : List Handler) (m : String) : Option Handler :=
  tbl.find? (fun t => t.recv == "MsgServer" && t.method == m)

/-- run a handler: returns the result and the state afterwards (`body` = everything after the guard) -/
def run {σ : Type} (tbl : List Handler) (sh : Shape) (gov auth : List Char) (routeOk : Bool)
    (body : σ → Res × σ) (s : σ) : Res × σ :=
  match sh with
  | .guard c => if guardPasses c gov auth then body s else (.err, s)
  | .unguarded => body s
  | .forward m =>
    if !routeOk then (.err, s) else
    match target tbl m with
    | some t =>
      match t.shape with
      | .guard c => if guardPasses c gov auth then body s else (.err, s)
      | _ => body s
    | none => body s

/-- what the extractor must have found for a handler to be protected -/
def shapeOk (tbl : List Handler) : Shape → Bool
  | .guard _ => true
  | .unguarded => false
  | .forward m =>
    match target tbl m with
    | some t => (match t.shape with | .guard _ => true | _ => false)
    | none => false

/-! ## raw store update (`MsgUpdateStore`): compare-and-set over a list of entries, all-or-nothing -/

abbrev KV := List (List Nat × List Nat)   -- key bytes ↦ value bytes (absent = empty value, as `bytes.Equal(nil, [])`)

def kvGet (s : KV) (k : List Nat) : List Nat :=
  match s.find? (fun p => p.1 == k) with
  | some p => p.2
  | none => []

def kvSet (s : KV) (k v : List Nat) : KV := (k, v) :: s.filter (fun p => p.1 != k)

structure Upd where
  spaceOk : Bool          -- store space is a known store key
  key : List Nat
  old : List Nat
  new : List Nat

/-- the handler loop after the guard: returns `none` on the first failing entry -/
def applyUpds : List Upd → KV → Option KV
  | [], s => some s
  | u :: us, s =>
    if !u.spaceOk then none
    else if kvGet s u.key != u.old then none
    else applyUpds us (kvSet s u.key u.new)

/-- message level: the SDK runs a message in a cache context and discards it on error -/
def updateStore (gov auth : List Char) (us : List Upd) (s : KV) : Res × KV :=
  if gov != auth then (.err, s) else
  match applyUpds us s with
  | some s' => (.ok, s')
  | none => (.err, s)

end FxVerif.Model.C16
