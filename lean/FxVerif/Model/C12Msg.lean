import FxVerif.Model.C12
import FxVerif.Model.C12Sig
import FxVerif.Model.C12Env
import FxVerif.Gen.C12Msg
/-! C12 (round 5): the MESSAGE layer in front of the confirm handlers, and branches of the state.

* `validateBasic`: the regenerated check list of `Msg…Confirm.ValidateBasic` (`Gen/C12Msg.lean`), interpreted over the
  dependency predicates it calls (`VbEnv`: router membership, bech32 parsing, `ValidateExternalAddr`);
* `addrValid`: the regenerated check lists of `ValidateEthereumAddress` / `ValidateTronAddress`, interpreted over the format
  predicates and the canonical re-rendering (`AddrPrims`) — the last check of both compares the text with the rendering of what
  it parses to;
* `txStep` / `txRun`: a confirm as a TRANSACTION delivers it — `ValidateBasic` first (baseapp), then the handler the driver runs
  (`confirmStepGV`: key plan and `ValidateConfirmSign` statement list both regenerated);
* `BOp` / `bRun`: operations with branches of the state (`CacheContext`): `branch` pushes the state, `discard` returns to it,
  `commit` keeps what was done;
* `rawPower` / `rawTotal`: `Oracle.GetPower` and the `uint64` accumulation of `GetCurrentOracleSet`.
-/
namespace FxVerif.Model.C12
open FxVerif.Gen.C12 FxVerif.Gen.C12Msg FxVerif.Gen.C12Sig

/-- what `ValidateBasic` calls and the model does not compute -/
structure VbEnv where
  registered : String → Bool          -- `externalAddressRouter[chain]` exists
  bech32 : String → Bool              -- `sdk.AccAddressFromBech32` succeeds
  extAddr : String → String → Bool    -- `ValidateExternalAddr(chain, text)` returns nil

/-- a confirm message as a transaction carries it: the chain name and what the handler sees -/
structure TxConfirm where
  chain : String
  m : ConfirmMsg
  deriving DecidableEq, Repr

def msgTypeOf : ObjKey → String
  | .oracleSet _ => "MsgOracleSetConfirm" | .batch _ _ => "MsgConfirmBatch" | .bridgeCall _ => "MsgBridgeCallConfirm"

/-- the text of a message field (the signature is not a text here: see `checkFails`) -/
def fieldText (t : TxConfirm) : VbField → Option String
  | .chainName => some t.chain
  | .bridger => some t.m.bridger
  | .external => some t.m.external
  | .token => match t.m.key with | .batch tok _ => some tok | _ => none
  | _ => none

/-- does the check reject the message?  `len(m.Signature) == 0`: the text is empty iff it decodes to no bytes; a check the
model does not know rejects (so that an unknown statement shows in the correspondence, never as a silent pass) -/
def checkFails (E : VbEnv) (t : TxConfirm) (c : VbCheck) : Bool :=
  match c.kind with
  | .chainRegistered => match fieldText t c.field with | some x => !E.registered x | none => true
  | .bech32 => match fieldText t c.field with | some x => !E.bech32 x | none => true
  | .extAddr => match fieldText t c.chain, fieldText t c.field with | some ch, some x => !E.extAddr ch x | _, _ => true
  | .nonEmpty => if c.field = .signature then t.m.sig == some [] else true
  | .hex => if c.field = .signature then t.m.sig == none else true
  | .other _ => true

/-- the first check that rejects -/
def vbRun (E : VbEnv) (t : TxConfirm) : List VbCheck → Option VbCheck
  | [] => none
  | c :: r => if checkFails E t c then some c else vbRun E t r

def missingProg : VbCheck := ⟨.other "no ValidateBasic", .other "", .other "", "", "missing"⟩

/-- `ValidateBasic` of the message: `none` = nil -/
def validateBasic (E : VbEnv) (t : TxConfirm) : Option VbCheck :=
  match confirmValidateBasic.lookup (msgTypeOf t.m.key), confirmValidateBasicTail.lookup (msgTypeOf t.m.key) with
  | some p, some "return nil" => vbRun E t p
  | _, _ => some missingProg

/-! ### address validators -/

/-- the dependency predicates of an address validator: format predicates by their source text, and the re-rendering
`render (parse text)` the last check compares with -/
structure AddrPrims where
  wellFormed : String → String → Bool
  canon : String → String
  lenConst : String → Nat             -- value of a named length constant

def lenArg (P : AddrPrims) (c : AddrCheck) : Nat := match c.num with | some n => n | none => P.lenConst c.arg

def addrCheckFails (P : AddrPrims) (text : String) (c : AddrCheck) : Bool :=
  match c.kind with
  | .empty => text == ""
  | .length => text.length != lenArg P c
  | .wellFormed => !P.wellFormed c.arg text
  | .canonical => P.canon text != text
  | .other => true

def addrValid (P : AddrPrims) (checks : List AddrCheck) (text : String) : Bool :=
  checks.all fun c => !addrCheckFails P text c

/-- `ValidateExternalAddr` on a chain of the given style, through the router's dispatch (regenerated) -/
def addrChecksOf (tron : Bool) : List AddrCheck :=
  match addrValidatorOf.lookup (if tron then "tronAddress" else "EthereumAddress") with
  | some "contract.ValidateEthereumAddress" => ethAddrChecks
  | some "ValidateTronAddress" => tronAddrChecks
  | _ => [⟨.other, "unknown validator", none, ""⟩]

/-- the environment whose `ValidateExternalAddr` is the regenerated validator of the chain's address style -/
def envOf (tron : Bool) (P : AddrPrims) (registered bech32 : String → Bool) : VbEnv :=
  ⟨registered, bech32, fun _ x => addrValid P (addrChecksOf tron) x⟩

/-- every stored confirmation names canonical texts: its external address, and the token contract of a batch key -/
def CanonEntries (P : AddrPrims) (st : HState) : Prop :=
  ∀ e ∈ st.confirms, P.canon e.external = e.external ∧ ∀ tok n, e.key = .batch tok n → P.canon tok = tok

/-! ### a confirm delivered by a transaction -/

inductive TxErr where
  | basic (c : VbCheck)      -- rejected by `ValidateBasic`: the handler never runs
  | handler (e : Err)
  deriving DecidableEq, Repr

def txStep (E : VbEnv) (tron : Bool) (recoverBy : String → List Nat → List Nat → Option String) (st : HState) (t : TxConfirm) :
    Except TxErr HState :=
  match validateBasic E t with
  | some c => .error (.basic c)
  | none => match confirmStepGV tron recoverBy st t.m with
    | .ok st' => .ok st'
    | .error e => .error (.handler e)

inductive TxOp where
  | tx (t : TxConfirm)
  | other (op : Op)          -- stores, registry writes, prunings (`stepOther`; a `.confirm` here is ignored)

def txApply (E : VbEnv) (tron : Bool) (recoverBy : String → List Nat → List Nat → Option String) (st : HState) : TxOp → HState
  | .tx t => match txStep E tron recoverBy st t with | .ok st' => st' | .error _ => st
  | .other op => stepOther st op

def txRun (E : VbEnv) (tron : Bool) (recoverBy : String → List Nat → List Nat → Option String) (st : HState) (ops : List TxOp) : HState :=
  ops.foldl (txApply E tron recoverBy) st

/-! ### a confirm delivered by a SIGNED transaction: ante handler (signer), the `MsgConfirm` wrapper -/

/-- a signed transaction carrying one confirm message: the account whose signature the ante handler verified, the message, and
(when the confirm travels inside the `MsgConfirm` wrapper) the wrapper's own `bridger_address` -/
structure SignedTx where
  signer : String
  wrapper : Option String
  t : TxConfirm
  deriving DecidableEq, Repr

/-- the account that must have signed: the field named by the proto signer option (regenerated `confirmSigners`) of the
OUTERMOST message -/
def requiredSigner (x : SignedTx) : Option String :=
  match x.wrapper with
  | none => if confirmSigners.lookup (msgTypeOf x.t.m.key) = some "bridger_address" then some x.t.m.bridger else none
  | some b => if confirmSigners.lookup "MsgConfirm" = some "bridger_address" then some b else none

inductive DeliverErr where
  | ante                      -- not signed by the required signer
  | undecodable               -- `MsgConfirm` without `UnpackInterfaces`: no cached value, `MsgServer.Confirm` rejects
  | tx (e : TxErr)
  deriving DecidableEq, Repr

/-- ante handler (signer), decoding of the wrapper, `ValidateBasic`, handler.  `ValidateBasic` of the wrapper itself does not
exist (`MsgConfirm` has none); the inner message is validated by nobody when wrapped -/
def deliverTx (E : VbEnv) (tron : Bool) (recoverBy : String → List Nat → List Nat → Option String) (st : HState) (x : SignedTx) :
    Except DeliverErr HState :=
  if requiredSigner x ≠ some x.signer then .error .ante
  else match x.wrapper with
    | some _ =>
      if msgConfirmUnpacks then
        (match confirmStepGV tron recoverBy st x.t.m with | .ok st' => .ok st' | .error e => .error (.tx (.handler e)))
      else .error .undecodable
    | none => match txStep E tron recoverBy st x.t with | .ok st' => .ok st' | .error e => .error (.tx e)

/-! ### branches of the state -/

/-- operations with branches: `branch` = `CacheContext` (a failed multi-message transaction, CheckTx, a simulation),
`discard` = the branch is dropped, `commit` = `write()` -/
inductive BOp where
  | op (o : Op)
  | branch
  | discard
  | commit

/-- state + the stack of states to return to -/
def bStep (recover : List Nat → List Nat → Option String) : HState × List HState → BOp → HState × List HState
  | (st, stack), .op o => (step recover st o, stack)
  | (st, stack), .branch => (st, st :: stack)
  | (_, old :: stack), .discard => (old, stack)
  | (st, []), .discard => (st, [])
  | (st, _ :: stack), .commit => (st, stack)
  | (st, []), .commit => (st, [])

def bRun (recover : List Nat → List Nat → Option String) (s : HState × List HState) (ops : List BOp) : HState × List HState :=
  ops.foldl (bStep recover) s

/-! ### raw oracle powers -/

/-- `Oracle.GetPower`: the delegated amount divided by the power reduction (regenerated: which field, which operation, which
divisor; the divisor's value from the assignment in `types/`) -/
def powerReduction : Nat := powerReductionExp.1 ^ powerReductionExp.2

def rawPower (delegate : Nat) : Nat :=
  if oraclePower = ("DelegateAmount", "Quo", "sdk.DefaultPowerReduction") then delegate / powerReduction else delegate

/-- the powers `GetCurrentOracleSet` sums: the positive ones -/
def livePowers (delegates : List Nat) : List Nat := (delegates.map rawPower).filter (· > 0)

/-- `totalPower += power.Uint64()` over a `uint64` -/
def rawTotal (delegates : List Nat) : Nat := (livePowers delegates).foldl (fun acc p => (acc + p) % 2 ^ 64) 0

end FxVerif.Model.C12
