import FxVerif.Model.C05
/-!
# The external chain, as far as the bridge contract's submit rules go (ghost for C05 / C06)

`Ext` is not fxcore state.  It records what the external chain knows: every batch / outgoing bridge call fxcore ever
created (relayers can submit any of them), the contract's `state_lastBatchNonces[token]`, the bridge-call nonces already
used, and the highest block height an observed event has reported.  An observed event is *admissible* when the contract
could have produced it: heights do not decrease from one event to the next (event-nonce order = block order), an executed
batch satisfied `require(state_lastBatchNonces[token] < nonce)` and `require(block.number < timeout)`, a bridge-call result
satisfied `require(!state_lastBridgeCallNonces[nonce])` and `require(block.number < timeout)` — the comparison operators
are the ones read from `FxBridgeLogic.sol` on every run (`Gen/C05.lean`).

Round 3: the ghost no longer hand-copies these rules.  The whole check-then-update statement list of `submitBatch` and
`submitBridgeCall` (every `require`, the state update, the signature check, the first value-moving statement, in source
order, `verifySubmitBridgeCall` inlined) is regenerated as `solSubmitBatch` / `solSubmitBridgeCall : List SolStmt`, and
`admissible` / `Ext.next` INTERPRET it (`solRun`): an event is admissible when the interpreted submission does not revert,
and the contract's `state_lastBatchNonces` / `state_lastBridgeCallNonces` move as the interpreted program moves them.  The
order of the statements matters (an update placed before its `require` makes every submission revert).  `admissibleStd`
/ `Ext.nextStd` are the hand-written closed forms the proofs work with; `Proofs/C05Sol.lean` proves the two coincide
for the program as it is in the source now.  Not interpreted (assumed to hold; C12 covers signatures and checkpoints):
token status, array lengths, the oracle-set checkpoint, the signature / power-threshold check.
-/
namespace FxVerif.Model.C05
open FxVerif.Gen.C05

/-- what the bridge contract sees when a submission arrives: `block.number`, the submitted timeout and nonce, its own
`state_lastBatchNonces[token]` / `state_lastBridgeCallNonces[nonce]`; `moved`: value has left the contract -/
structure SolSt where
  blockNumber : Nat
  timeout : Nat
  lastNonce : Nat
  nonce : Nat
  nonceUsed : Bool
  moved : Bool := false
  deriving DecidableEq, Repr

/-- quantities the ghost knows; signatures, powers and everything else are not interpreted -/
def evalVar (st : SolSt) : SolVar → Option Nat
  | .blockNumber => some st.blockNumber
  | .timeout => some st.timeout
  | .lastNonce => some st.lastNonce
  | .nonce => some st.nonce
  | .nonceUsed => some (if st.nonceUsed then 1 else 0)
  | .power => none
  | .threshold => none
  | .other _ => none

/-- one statement; `none` = the transaction reverts.  A `require` over quantities the ghost does not know is assumed to
hold (environment: the relayer submits a well-formed, sufficiently signed transaction) -/
def solStep (st : SolSt) : SolStmt → Option SolSt
  | .require l op r =>
    match evalVar st l, evalVar st r with
    | some a, some b => if op.eval a b then some st else none
    | _, _ => some st
  | .requireNot v =>
    match evalVar st v with
    | some a => if a = 0 then some st else none
    | none => some st
  | .requireOther _ => some st
  | .setLastNonce => some { st with lastNonce := st.nonce }
  | .setNonceUsed => some { st with nonceUsed := true }
  | .checkSignatures => some st
  | .moveValue => some { st with moved := true }

def solRun : List SolStmt → SolSt → Option SolSt
  | [], st => some st
  | x :: xs, st =>
    match solStep st x with
    | none => none
    | some st' => solRun xs st'

structure Ext where
  height : Nat := 0
  lastNonce : Nat → Nat := fun _ => 0
  created : List Batch := []
  createdCalls : List Call := []
  callDone : List Nat := []
  /-- every transfer as its creator supplied it (ghost log of successful `SendToExternal`) -/
  sent : List Tx := []
  /-- every successful fee increase: (transfer id, added fee) -/
  raised : List (Nat × Nat) := []
  /-- ids of the transfers created through the `crossChain` precompile (ghost log of successful `psend`) -/
  sentEvm : List Nat := []
  /-- nonces of the outgoing bridge calls created by `MsgBridgeCall` (ghost log of successful `bridgeCall`) -/
  msgCalls : List Nat := []

/-- the batch submission the contract sees for an observed execution of batch `n` of token `t` at block `h` -/
def batchSubmission (x : Ext) (h t n : Nat) : SolSt :=
  ⟨h, ((x.created.find? (fun b => b.token = t ∧ b.nonce = n)).map (·.timeout)).getD 0, x.lastNonce t, n, false, false⟩

/-- the bridge-call submission the contract sees for an observed result of bridge call `c` at block `h` -/
def callSubmission (x : Ext) (h c : Nat) : SolSt :=
  ⟨h, ((x.createdCalls.find? (fun cl => cl.nonce = c)).map (·.timeout)).getD 0, 0, c, decide (c ∈ x.callDone), false⟩

/-- how one operation on fxcore (creation) or one observed event (execution) moves the ghost.  For an observed execution
the contract's state moves as the INTERPRETED submit function moves it; an event whose submission would revert is outside
the environment assumptions — the ghost then follows what fxcore was told -/
def Ext.next (x : Ext) (s : State) (op : Op) : Ext :=
  match op with
  | .reqBatch _ _ _ _ => { x with created := x.created ++ (step s op).1.batches.drop s.batches.length }
  | .bridgeCall _ _ _ _ _ _ =>
    { x with createdCalls := x.createdCalls ++ (step s op).1.calls.drop s.calls.length,
             msgCalls := x.msgCalls ++ ((step s op).1.calls.drop s.calls.length).map (·.nonce) }
  | .pcall _ _ _ _ _ _ => { x with createdCalls := x.createdCalls ++ (step s op).1.calls.drop s.calls.length }
  | .send a d t am f =>
    if (step s op).1.nextTxId = s.nextTxId + 1 then { x with sent := x.sent ++ [⟨s.nextTxId, a, d, t, am, f⟩] } else x
  | .psend a d t am f =>
    if (step s op).1.nextTxId = s.nextTxId + 1 then
      { x with sent := x.sent ++ [⟨s.nextTxId, a, d, t, am, f⟩], sentEvm := x.sentEvm ++ [s.nextTxId] } else x
  | .incFee id _ _ add _ =>
    match (step s op).2 with
    | .ok _ => { x with raised := x.raised ++ [(id, add)] }
    | _ => x
  | .observe h (.batch t n) =>
    let last' := match solRun solSubmitBatch (batchSubmission x h t n) with
      | some st => st.lastNonce
      | none => n
    { x with height := h, lastNonce := fun t' => if t' = t then last' else x.lastNonce t' }
  | .observe h (.result c _) =>
    let used := match solRun solSubmitBridgeCall (callSubmission x h c) with
      | some st => st.nonceUsed
      | none => true
    { x with height := h, callDone := if used then c :: x.callDone else x.callDone }
  | .observe h .other => { x with height := h }
  | _ => x

/-- `Ext.next` in closed form (the proofs work with this one; `Proofs/C05Sol.lean`: the two are equal) -/
def Ext.nextStd (x : Ext) (s : State) (op : Op) : Ext :=
  match op with
  | .reqBatch _ _ _ _ => { x with created := x.created ++ (step s op).1.batches.drop s.batches.length }
  | .bridgeCall _ _ _ _ _ _ =>
    { x with createdCalls := x.createdCalls ++ (step s op).1.calls.drop s.calls.length,
             msgCalls := x.msgCalls ++ ((step s op).1.calls.drop s.calls.length).map (·.nonce) }
  | .pcall _ _ _ _ _ _ => { x with createdCalls := x.createdCalls ++ (step s op).1.calls.drop s.calls.length }
  | .send a d t am f =>
    if (step s op).1.nextTxId = s.nextTxId + 1 then { x with sent := x.sent ++ [⟨s.nextTxId, a, d, t, am, f⟩] } else x
  | .psend a d t am f =>
    if (step s op).1.nextTxId = s.nextTxId + 1 then
      { x with sent := x.sent ++ [⟨s.nextTxId, a, d, t, am, f⟩], sentEvm := x.sentEvm ++ [s.nextTxId] } else x
  | .incFee id _ _ add _ =>
    match (step s op).2 with
    | .ok _ => { x with raised := x.raised ++ [(id, add)] }
    | _ => x
  | .observe h (.batch t n) => { x with height := h, lastNonce := fun t' => if t' = t then n else x.lastNonce t' }
  | .observe h (.result c _) => { x with height := h, callDone := c :: x.callDone }
  | .observe h .other => { x with height := h }
  | _ => x

/-- the event is one the bridge contract can have produced: heights do not decrease, fxcore created the record, and the
INTERPRETED submit function does not revert for it -/
def admissible (x : Ext) : Op → Prop
  | .observe h (.batch t n) => x.height ≤ h ∧ ∃ b ∈ x.created, b.token = t ∧ b.nonce = n ∧
      (solRun solSubmitBatch ⟨h, b.timeout, x.lastNonce t, n, false, false⟩).isSome = true
  | .observe h (.result c _) => x.height ≤ h ∧ ∃ cl ∈ x.createdCalls, cl.nonce = c ∧
      (solRun solSubmitBridgeCall ⟨h, cl.timeout, 0, c, decide (c ∈ x.callDone), false⟩).isSome = true
  | .observe h .other => x.height ≤ h
  | _ => True

/-- every event of the run is admissible (user operations are unconstrained) -/
def AdmissibleRun : State → Ext → List Op → Prop
  | _, _, [] => True
  | s, x, op :: ops => admissible x op ∧ AdmissibleRun (step s op).1 (x.next s op) ops

/-- `admissible` in closed form: the comparison operators of the contract's rules, applied directly -/
def admissibleStd (x : Ext) : Op → Prop
  | .observe h (.batch t n) => x.height ≤ h ∧ ∃ b ∈ x.created, b.token = t ∧ b.nonce = n ∧
      solBatchNonceCmp.eval (x.lastNonce t) n = true ∧ solBatchTimeoutCmp.eval h b.timeout = true
  | .observe h (.result c _) => x.height ≤ h ∧ ∃ cl ∈ x.createdCalls, cl.nonce = c ∧
      (solCallNonceOnce = true → c ∉ x.callDone) ∧ solCallTimeoutCmp.eval h cl.timeout = true
  | .observe h .other => x.height ≤ h
  | _ => True

/-- every event of the run is admissible (user operations are unconstrained) -/
def AdmissibleRunStd : State → Ext → List Op → Prop
  | _, _, [] => True
  | s, x, op :: ops => admissibleStd x op ∧ AdmissibleRunStd (step s op).1 (x.nextStd s op) ops

/-- everything paid on top of the original fee of transfer `id` -/
def raisedSum (r : List (Nat × Nat)) (id : Nat) : Nat := ((r.filter (fun p => p.1 = id)).map (·.2)).sum

def runExt : State → Ext → List Op → State × Ext
  | s, x, [] => (s, x)
  | s, x, op :: ops => runExt (step s op).1 (x.next s op) ops

def runExtStd : State → Ext → List Op → State × Ext
  | s, x, [] => (s, x)
  | s, x, op :: ops => runExtStd (step s op).1 (x.nextStd s op) ops

end FxVerif.Model.C05

namespace FxVerif.Model.C05
open FxVerif.Gen.C05

/-- admissibility is decidable (used by the driver, which prints it next to every observation) -/
instance (x : Ext) : (op : Op) → Decidable (admissible x op)
  | .observe h (.batch t n) => by unfold admissible; exact inferInstance
  | .observe h (.result c _) => by unfold admissible; exact inferInstance
  | .observe h .other => by unfold admissible; exact inferInstance
  | .send .. => isTrue trivial
  | .cancel .. => isTrue trivial
  | .incFee .. => isTrue trivial
  | .reqBatch .. => isTrue trivial
  | .bridgeCall .. => isTrue trivial
  | .psend .. => isTrue trivial
  | .pcall .. => isTrue trivial
  | .exec .. => isTrue trivial
  | .setParams .. => isTrue trivial
  | .block .. => isTrue trivial

end FxVerif.Model.C05

namespace FxVerif.Model.C05

def isObserve : Op → Bool
  | .observe _ _ => true
  | _ => false

/-- at every observation no bridge-call result is pending: results are applied before the next event is observed -/
def PromptRun : State → List Op → Prop
  | _, [] => True
  | s, op :: ops => (isObserve op = true → s.pending = []) ∧ PromptRun (step s op).1 ops

end FxVerif.Model.C05
