import FxVerif.Model.C05
/-!
# The external chain, as far as the bridge contract's submit rules go (ghost for C05 / C06)

`Ext` is not fxcore state.  It records what the external chain knows: every batch / outgoing bridge call fxcore ever
created (relayers can submit any of them), the contract's `state_lastBatchNonces[token]`, the bridge-call nonces already
used, and the highest block height an observed event has reported.  An observed event is *admissible* when the contract
could have produced it: heights do not decrease from one event to the next (event-nonce order = block order), an executed
batch satisfied `require(state_lastBatchNonces[token] < nonce)` and `require(block.number < timeout)`, a bridge-call result
satisfied `require(!state_lastBridgeCallNonces[nonce])` and `require(block.number < timeout)` — the comparison operators
are the ones read from `FxBridgeLogic.sol` on every run (`Gen/C05.lean`).
-/
namespace FxVerif.Model.C05
open FxVerif.Gen.C05

structure Ext where
  height : Nat := 0
  lastNonce : Nat → Nat := fun _ => 0
  created : List Batch := []
  createdCalls : List Call := []
  callDone : List Nat := []
  /-- every transfer as its creator supplied it (ghost log of successful `SendToExternal`) -/
  sent : List Tx := []
  /-- every successful fee increase: (transfer id, added fee) -/
  raised : List (Nat × Nat) := []

/-- how one operation on fxcore (creation) or one observed event (execution) moves the ghost -/
def Ext.next (x : Ext) (s : State) (op : Op) : Ext :=
  match op with
  | .reqBatch _ _ _ _ => { x with created := x.created ++ (step s op).1.batches.drop s.batches.length }
  | .bridgeCall _ _ _ _ _ _ => { x with createdCalls := x.createdCalls ++ (step s op).1.calls.drop s.calls.length }
  | .send a d t am f =>
    if (step s op).1.nextTxId = s.nextTxId + 1 then { x with sent := x.sent ++ [⟨s.nextTxId, a, d, t, am, f⟩] } else x
  | .incFee id _ _ add =>
    match (step s op).2 with
    | .ok _ => { x with raised := x.raised ++ [(id, add)] }
    | _ => x
  | .observe h (.batch t n) => { x with height := h, lastNonce := fun t' => if t' = t then n else x.lastNonce t' }
  | .observe h (.result c _) => { x with height := h, callDone := c :: x.callDone }
  | .observe h .other => { x with height := h }
  | _ => x

/-- the event is one the bridge contract can have produced -/
def admissible (x : Ext) : Op → Prop
  | .observe h (.batch t n) => x.height ≤ h ∧ ∃ b ∈ x.created, b.token = t ∧ b.nonce = n ∧
      solBatchNonceCmp.eval (x.lastNonce t) n = true ∧ solBatchTimeoutCmp.eval h b.timeout = true
  | .observe h (.result c _) => x.height ≤ h ∧ ∃ cl ∈ x.createdCalls, cl.nonce = c ∧
      (solCallNonceOnce = true → c ∉ x.callDone) ∧ solCallTimeoutCmp.eval h cl.timeout = true
  | .observe h .other => x.height ≤ h
  | _ => True

/-- every event of the run is admissible (user operations are unconstrained) -/
def AdmissibleRun : State → Ext → List Op → Prop
  | _, _, [] => True
  | s, x, op :: ops => admissible x op ∧ AdmissibleRun (step s op).1 (x.next s op) ops

/-- everything paid on top of the original fee of transfer `id` -/
def raisedSum (r : List (Nat × Nat)) (id : Nat) : Nat := ((r.filter (fun p => p.1 = id)).map (·.2)).sum

def runExt : State → Ext → List Op → State × Ext
  | s, x, [] => (s, x)
  | s, x, op :: ops => runExt (step s op).1 (x.next s op) ops

end FxVerif.Model.C05

namespace FxVerif.Model.C05
open FxVerif.Gen.C05

/-- admissibility is decidable (used by the driver, which prints it next to every observation) -/
instance (x : Ext) : (op : Op) → Decidable (admissible x op)
  | .observe h (.batch t n) => by unfold admissible; exact inferInstance
  | .observe h (.result c _) => by unfold admissible; exact inferInstance
  | .observe h .other => by unfold admissible; exact inferInstance
  | .send .. => isTrue trivial
  | .cancel .. => isTrue trivial
  | .incFee .. => isTrue trivial
  | .reqBatch .. => isTrue trivial
  | .bridgeCall .. => isTrue trivial
  | .exec .. => isTrue trivial
  | .setParams .. => isTrue trivial
  | .block .. => isTrue trivial

end FxVerif.Model.C05

namespace FxVerif.Model.C05

def isObserve : Op → Bool
  | .observe _ _ => true
  | _ => false

/-- at every observation no bridge-call result is pending: results are applied before the next event is observed -/
def PromptRun : State → List Op → Prop
  | _, [] => True
  | s, op :: ops => (isObserve op = true → s.pending = []) ∧ PromptRun (step s op).1 ops

end FxVerif.Model.C05
