import FxVerif.Gen.C07
/-!
# C07 (gov half) — the arithmetic of `x/gov/keeper/tally.go: Keeper.Tally`

The gov end-blocker (`x/gov/abci.go`) halts the chain when `Tally` panics or returns an error.  C15's model treats the tally
outcome as an input; this file models the tally itself:

* the two vote loops (voters → their delegations to bonded validators, then the validators that voted with the shares left
  after deducting their voting delegators), with `LegacyDec` arithmetic as in `cosmossdk.io/math` (18 decimals, banker's
  rounding in `Mul` / `Quo`, `Quo` by zero panics: `big.Int` division by zero);
* the decision tail (no bonded tokens / quorum / all abstain / veto / threshold) is NOT written by hand: it is the
  straight-line program `Gen.C07.tallyTail` regenerated from the AST on every run and interpreted here, every `Quo` checked
  for a zero divisor at the point where the code evaluates it.

Decimals are `Int`s scaled by 10^18.  Core Lean only.
-/
namespace FxVerif.Model.C07Gov
open FxVerif.Gen.C07

def P : Nat := 10 ^ 18
def half : Nat := 5 * 10 ^ 17

/-- `chopPrecisionAndRound` on a non-negative integer: drop 18 digits, banker's rounding -/
def chopNat (x : Nat) : Nat :=
  let q := x / P
  let r := x % P
  if r = 0 then q
  else if r < half then q
  else if r > half then q + 1
  else if q % 2 = 0 then q else q + 1

/-- `chopPrecisionAndRound` (negative numbers are rounded by magnitude) -/
def chop (x : Int) : Int := if x < 0 then -((chopNat x.natAbs : Nat) : Int) else ((chopNat x.natAbs : Nat) : Int)

/-- `LegacyDec.Mul` -/
def decMul (a b : Int) : Int := chop (a * b)

/-- `LegacyDec.Quo`: `(a · 10^36) quo b` (truncated), then chop; `none` = division by zero panic -/
def decQuo (a b : Int) : Option Int :=
  if b = 0 then none else some (chop (Int.tdiv (a * ((P * P : Nat) : Int)) b))

inductive Opt where | yes | abstain | no | veto
  deriving DecidableEq, Repr

structure Res4 where
  yes : Int := 0
  abstain : Int := 0
  no : Int := 0
  veto : Int := 0
  deriving DecidableEq, Repr

def Res4.add (r : Res4) : Opt → Int → Res4
  | .yes, x => { r with yes := r.yes + x }
  | .abstain, x => { r with abstain := r.abstain + x }
  | .no, x => { r with no := r.no + x }
  | .veto, x => { r with veto := r.veto + x }

/-- a bonded validator: bonded tokens (integer), delegator shares (decimal), its own vote (empty = did not vote),
shares of its delegators that voted themselves (`DelegatorDeductions`) -/
structure GVal where
  tokens : Int
  shares : Int
  vote : List (Opt × Int)
  ded : Int := 0
  deriving DecidableEq, Repr

/-- a vote: weighted options, and the voter's delegations to bonded validators (index into the validator list, shares) -/
structure GVoter where
  opts : List (Opt × Int)
  dels : List (Nat × Int)
  deriving DecidableEq, Repr

structure TallyIn where
  bonded : Int            -- TotalBondedTokens
  quorum : Int            -- decimal × 10^18 (after GetCustomMsgQuorum)
  vetoThr : Int
  thr : Int               -- Threshold / ExpeditedThreshold by `proposal.Expedited`
  burnQ : Bool            -- params.BurnVoteQuorum
  burnV : Bool            -- params.BurnVoteVeto
  vals : List GVal
  voters : List GVoter
  deriving Repr

structure Acc where
  res : Res4 := {}
  total : Int := 0
  vals : List GVal
  deriving Repr

/-- `for _, option := range options { results[option] += votingPower.Mul(weight) }` -/
def addOpts (r : Res4) (vp : Int) : List (Opt × Int) → Res4
  | [] => r
  | (o, w) :: rest => addOpts (r.add o (decMul vp w)) vp rest

def quoSite : String := "Tally:Quo"

/-- one delegation of a voter: `shares.MulInt(val.BondedTokens).Quo(val.DelegatorShares)` -/
def delegationStep (opts : List (Opt × Int)) (acc : Acc) (d : Nat × Int) : Except String Acc :=
  match acc.vals[d.1]? with
  | none => .ok acc                                   -- not a bonded validator: skipped by the code
  | some v =>
    match decQuo (d.2 * v.tokens) v.shares with
    | none => .error quoSite
    | some vp =>
      .ok { res := addOpts acc.res vp opts, total := acc.total + vp,
            vals := acc.vals.set d.1 { v with ded := v.ded + d.2 } }

def foldE {α β : Type} (f : β → α → Except String β) : β → List α → Except String β
  | b, [] => .ok b
  | b, a :: as => match f b a with
    | .error e => .error e
    | .ok b' => foldE f b' as

def voterStep (acc : Acc) (v : GVoter) : Except String Acc := foldE (delegationStep v.opts) acc v.dels

/-- the validator loop: `if len(val.Vote) == 0 { continue }` (when the code has it), then
`(DelegatorShares − DelegatorDeductions).MulInt(BondedTokens).Quo(DelegatorShares)` -/
def validatorStep (acc : Acc) (v : GVal) : Except String Acc :=
  if tallySkipsNonVotingValidators && v.vote.isEmpty then .ok acc else
  match decQuo ((v.shares - v.ded) * v.tokens) v.shares with
  | none => .error quoSite
  | some vp => .ok { acc with res := addOpts acc.res vp v.vote, total := acc.total + vp }

/-! ## the regenerated decision tail -/

structure Env where
  i : TallyIn
  res : Res4
  total : Int
  binds : List (String × Int) := []

def evalTV (e : Env) : TV → Except String Int
  | .total => .ok e.total
  | .bonded => .ok (e.i.bonded * (P : Int))
  | .yes => .ok e.res.yes
  | .abstain => .ok e.res.abstain
  | .no => .ok e.res.no
  | .veto => .ok e.res.veto
  | .quorum => .ok e.i.quorum
  | .vetoThr => .ok e.i.vetoThr
  | .thr => .ok e.i.thr
  | .zero => .ok 0
  | .var n => match e.binds.find? (fun b => b.1 == n) with
    | some b => .ok b.2
    | none => .error "Tally:unbound"
  | .sub a b => match evalTV e a, evalTV e b with
    | .ok x, .ok y => .ok (x - y)
    | .error m, _ => .error m
    | _, .error m => .error m
  | .quo a b => match evalTV e a, evalTV e b with
    | .ok x, .ok y => match decQuo x y with
      | some q => .ok q
      | none => .error quoSite
    | .error m, _ => .error m
    | _, .error m => .error m
  | .other => .error "Tally:untranslated"

def evalCond (e : Env) : TCond → Except String Bool
  | .isZero a => match evalTV e a with
    | .ok x => .ok (x == 0)
    | .error m => .error m
  | .eq a b => match evalTV e a, evalTV e b with
    | .ok x, .ok y => .ok (x == y)
    | .error m, _ => .error m
    | _, .error m => .error m
  | .lt a b => match evalTV e a, evalTV e b with
    | .ok x, .ok y => .ok (decide (x < y))
    | .error m, _ => .error m
    | _, .error m => .error m
  | .le a b => match evalTV e a, evalTV e b with
    | .ok x, .ok y => .ok (decide (x ≤ y))
    | .error m, _ => .error m
    | _, .error m => .error m
  | .gt a b => match evalTV e a, evalTV e b with
    | .ok x, .ok y => .ok (decide (x > y))
    | .error m, _ => .error m
    | _, .error m => .error m
  | .ge a b => match evalTV e a, evalTV e b with
    | .ok x, .ok y => .ok (decide (x ≥ y))
    | .error m, _ => .error m
    | _, .error m => .error m
  | .other => .error "Tally:untranslated"

def burnOf (i : TallyIn) : TBurn → Bool
  | .never => false
  | .always => true
  | .quorumFlag => i.burnQ
  | .vetoFlag => i.burnV
  | .other => false

/-- run the tail: `(passes, burnDeposits)` -/
def runTail (e : Env) : List TStep → Except String (Bool × Bool)
  | [] => .error "Tally:no-return"
  | .bind n v :: rest => match evalTV e v with
    | .ok x => runTail { e with binds := (n, x) :: e.binds } rest
    | .error m => .error m
  | .retIf c p b :: rest => match evalCond e c with
    | .ok true => .ok (p, burnOf e.i b)
    | .ok false => runTail e rest
    | .error m => .error m
  | .ret p b :: _ => .ok (p, burnOf e.i b)
  | .other _ :: _ => .error "Tally:untranslated"

structure TallyOut where
  passes : Bool
  burn : Bool
  res : Res4
  total : Int
  deriving Repr

/-- `Keeper.Tally` -/
def tally (i : TallyIn) : Except String TallyOut :=
  match foldE voterStep { vals := i.vals } i.voters with
  | .error e => .error e
  | .ok a1 =>
    match foldE validatorStep a1 a1.vals with
    | .error e => .error e
    | .ok a2 =>
      match runTail { i := i, res := a2.res, total := a2.total } tallyTail with
      | .error e => .error e
      | .ok (p, b) => .ok ⟨p, b, a2.res, a2.total⟩

/-! ## line protocol -/

def parseOpt (s : String) : Option Opt :=
  match s with
  | "1" => some .yes | "2" => some .abstain | "3" => some .no | "4" => some .veto | _ => none

def parseOpts (s : String) : Option (List (Opt × Int)) :=
  if s == "-" then some [] else
  (s.splitOn ",").mapM fun e =>
    match e.splitOn ":" with
    | [o, w] => do pure (← parseOpt o, ((← w.toNat?) : Int))
    | _ => none

def takeVals : Nat → List String → Option (List GVal × List String)
  | 0, ws => some ([], ws)
  | n + 1, t :: sh :: o :: ws => do
    let v : GVal := { tokens := (← t.toNat?), shares := (← sh.toNat?), vote := (← parseOpts o) }
    let (vs, rest) ← takeVals n ws
    pure (v :: vs, rest)
  | _, _ => none

def takeDels : Nat → List String → Option (List (Nat × Int) × List String)
  | 0, ws => some ([], ws)
  | n + 1, i :: sh :: ws => do
    let d : Nat × Int := (← i.toNat?, ((← sh.toNat?) : Int))
    let (ds, rest) ← takeDels n ws
    pure (d :: ds, rest)
  | _, _ => none

def takeVoters : Nat → List String → Option (List GVoter × List String)
  | 0, ws => some ([], ws)
  | n + 1, o :: nd :: ws => do
    let (ds, rest) ← takeDels (← nd.toNat?) ws
    let (vs, rest') ← takeVoters n rest
    pure ({ opts := (← parseOpts o), dels := ds } :: vs, rest')
  | _, _ => none

/-- `T pid bonded quorum veto thr burnQ burnV nv {tokens shares opts} nvot {opts nd {vi shares}}` -/
def takeTally : List String → Option ((Nat × TallyIn) × List String)
  | "T" :: pid :: bonded :: q :: vt :: th :: bq :: bv :: nv :: ws => do
    let (vals, r1) ← takeVals (← nv.toNat?) ws
    match r1 with
    | nvot :: r2 =>
      let (voters, r3) ← takeVoters (← nvot.toNat?) r2
      pure ((← pid.toNat?, { bonded := (← bonded.toNat?), quorum := (← q.toNat?), vetoThr := (← vt.toNat?), thr := (← th.toNat?),
                              burnQ := bq == "1", burnV := bv == "1", vals := vals, voters := voters }), r3)
    | [] => none
  | _ => none

def takeTallies : Nat → List String → Option (List (Nat × TallyIn))
  | 0, [] => some []
  | 0, _ => none
  | n + 1, ws => do
    let (t, rest) ← takeTally ws
    let ts ← takeTallies n rest
    pure (t :: ts)

def b01 (b : Bool) : String := if b then "1" else "0"

def showTally (pid : Nat) (o : TallyOut) : String :=
  s!"{pid}:{b01 o.passes}{b01 o.burn}:{o.res.yes / (P : Int)}/{o.res.abstain / (P : Int)}/{o.res.no / (P : Int)}/{o.res.veto / (P : Int)}"

/-- answer of the model to a `gblock dt k T…` line: every due tally in order; the first panic halts the block -/
def gblock (ts : List (Nat × TallyIn)) : String :=
  let rec go : List (Nat × TallyIn) → List String → String
    | [], acc => " ".intercalate ("ok" :: acc.reverse)
    | (pid, i) :: rest, acc =>
      match tally i with
      | .error e => "panic:" ++ e
      | .ok o => go rest (showTally pid o :: acc)
  go ts []

/-- gov lines of the C07 op stream: everything but `gblock` only sets the scene on the real chain (answer `-`) -/
def gline (ws : List String) : Option String :=
  match ws with
  | "gblock" :: _dt :: k :: rest => do
    let ts ← takeTallies (← k.toNat?) rest
    pure (gblock ts)
  | w :: _ => if ["gparams", "gcustom", "gmint", "gdelegate", "gundelegate", "gsubmit", "gdeposit", "gvote"].contains w then some "-" else none
  | [] => none

end FxVerif.Model.C07Gov
