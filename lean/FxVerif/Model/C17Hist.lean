import FxVerif.Model.C17Proc
/-!
# C17 model — reads at ANOTHER HEIGHT, and the read-path programs of the keepers

`Model/C17Proc.lean` lets a node execute a message on a discarded branch of its LATEST state (`Ev.serve`: CheckTx, simulation,
query).  A real node also answers queries for OLDER heights (`x-cosmos-block-height`, archive / indexer traffic, `eth_call`
with a block number) — right after a restart as well, before it has executed anything.  `VNode` keeps the committed versions;
`VEv.serveAt k i` executes `i` on a discarded branch of the version `k` steps back.  Whatever such an execution leaves in
process memory is later seen by block execution.

The general theorem of `Props/C17.lean` (`versioned_coherent_cache_process_history_irrelevant`) needs, for an invariant `Inv`
relating memory and the latest state, that an execution on ANY state whose effect is discarded keeps the memory coherent with
the LATEST state (`hforeign`).  For a read at the latest height this is hypothesis (3) of the round-4 theorem; for a read at an
older height it is exactly what an UNKEYED read-through cache breaks (`readThroughHandler`, the seeded shape of a cache of the
governance switch parameters: filled by whoever reads first, at whatever height).

The second half ties this to the source: `Gen.C17.readerProgs` are the flattened statement programs of the keepers' read /
write paths (store access, decode, process-memory read / write, return — regenerated on every run); `runGetter` INTERPRETS such a
program over (process memory, store record of the context) and `progHandler` builds the node handler from the regenerated
programs of `GetSwitchParams` / `SetSwitchParams`.
-/
namespace FxVerif.Model.C17
open FxVerif.Gen.C17

/-! ## an archive node -/

/-- latest committed state, the earlier versions (newest first), process memory -/
structure VNode (M S : Type) where
  mem : M
  st : S
  old : List S

inductive VEv (I : Type) where
  /-- a block: state and memory effects are kept, the previous state becomes an older version -/
  | deliver (i : I)
  /-- executed on a discarded branch of the LATEST state -/
  | serve (i : I)
  /-- executed on a discarded branch of the version `k` steps back (nothing happens when that version is not there) -/
  | serveAt (k : Nat) (i : I)
  /-- process restart: memory back to what construction builds, all versions kept -/
  | restart
  /-- replaced by a state-synced node: fresh memory, no older versions -/
  | sync

def stepV {M S I O : Type} (h : Handler M S I O) (m₀ : M) (n : VNode M S) : VEv I → VNode M S × Option O
  | .deliver i => let r := h n.mem n.st i; (⟨r.1, r.2.1, n.st :: n.old⟩, some r.2.2)
  | .serve i => (⟨(h n.mem n.st i).1, n.st, n.old⟩, none)
  | .serveAt k i =>
    match n.old[k]? with
    | some s => (⟨(h n.mem s i).1, n.st, n.old⟩, none)
    | none => (n, none)
  | .restart => (⟨m₀, n.st, n.old⟩, none)
  | .sync => (⟨m₀, n.st, []⟩, none)

def runV {M S I O : Type} (h : Handler M S I O) (m₀ : M) : VNode M S → List (VEv I) → VNode M S × List O
  | n, [] => (n, [])
  | n, e :: es =>
    let r := stepV h m₀ n e
    let rest := runV h m₀ r.1 es
    match r.2 with
    | some o => (rest.1, o :: rest.2)
    | none => (rest.1, rest.2)

def blocksOfV {I : Type} : List (VEv I) → List I
  | [] => []
  | .deliver i :: es => i :: blocksOfV es
  | _ :: es => blocksOfV es

/-! ## the switch parameters behind an unkeyed read-through cache (the seeded shape), and as the code has them -/

/-- the decoded parameters: the disabled names -/
abbrev Params := List String

inductive ParMsg where
  /-- `MsgUpdateSwitchParams` (gov proposal); `ok = false`: a later message of the same proposal fails, the write is discarded -/
  | update (p : Params) (ok : Bool)
  /-- a transaction / precompile call whose admission depends on the parameters: output = refused? -/
  | use (name : String)
  deriving DecidableEq, Repr

/-- state = the store record (`none`: key absent = zero parameters) -/
abbrev ParStore := Option Params

def paramsOf (s : ParStore) : Params := s.getD []

/-- `GetSwitchParams` with the cache: hit → cached value, miss → read + decode + remember; `SetSwitchParams` refreshes it -/
def readThroughHandler : Handler (Option Params) ParStore ParMsg Bool := fun mem store m =>
  match m with
  | .update p ok => (some p, if ok then some p else store, false)
  | .use name =>
    match mem with
    | some p => (mem, store, p.contains name)
    | none => (some (paramsOf store), store, (paramsOf store).contains name)

/-- the code as it is: every read goes to the store of the context -/
def noCacheParHandler : Handler (Option Params) ParStore ParMsg Bool := fun mem store m =>
  match m with
  | .update p ok => (mem, if ok then some p else store, false)
  | .use name => (mem, store, (paramsOf store).contains name)

/-- every cached value is what the (latest) store holds -/
def cohP (mem : Option Params) (store : ParStore) : Prop := ∀ p, mem = some p → p = paramsOf store

/-- events after which the unkeyed cache still mirrors the latest state: delivered updates that succeed, uses (delivered or
served at the LATEST height), restarts, state syncs.  Not: a read at an older height, a served or failing update. -/
def latestOnly : VEv ParMsg → Bool
  | .deliver (.update _ ok) => ok
  | .deliver (.use _) => true
  | .serve (.use _) => true
  | .serve (.update _ _) => false
  | .serveAt _ _ => false
  | .restart => true
  | .sync => true

/-! ## read-path programs, interpreted -/

inductive RStep where
  | memRead | store | decode | memWrite | ret | retIfNil | other
  deriving DecidableEq, Repr

def parseRStep (s : RdStep) : RStep :=
  if s.kind == "memRead" then .memRead
  else if s.kind == "memWrite" then .memWrite
  else if s.kind == "store" then .store
  else if s.kind == "decode" then .decode
  else if s.kind == "ret" then .ret
  else if s.kind == "retIfNil" then .retIfNil
  else .other

/-- no step touches process memory -/
def memFree (prog : List RStep) : Bool := prog.all (fun s => s != .memRead && s != .memWrite)

/-- the obligation per regenerated program -/
def readerCovered (r : ReaderProg) : Bool := r.steps.all (fun s => s.kind != "memRead" && s.kind != "memWrite")

/-- registers of a getter: process memory, the raw record read, the decoded value, the returned value -/
structure GSt where
  mem : Option Params
  raw : ParStore
  val : Params
  out : Option Params

/-- one step; after a return nothing happens.  `memRead`: a hit returns the cached value (the guarded return that follows it in
the source is part of this step); `retIfNil`: returns the zero value when the record is absent; `decode`: the decoded record;
`memWrite`: remembers the value computed so far -/
def gstep (store : ParStore) (g : GSt) (s : RStep) : GSt :=
  if g.out.isSome then g else
  match s with
  | .memRead => match g.mem with
    | some p => { g with out := some p }
    | none => g
  | .store => { g with raw := store }
  | .retIfNil => if g.raw.isNone then { g with out := some g.val } else g
  | .decode => { g with val := g.raw.getD [] }
  | .memWrite => { g with mem := some g.val }
  | .ret => { g with out := some g.val }
  | .other => g

/-- a getter program on (memory, store record of the context): the memory it leaves and the value it returns -/
def runGetter (prog : List RStep) (mem : Option Params) (store : ParStore) : Option Params × Params :=
  let g := prog.foldl (gstep store) ⟨mem, none, [], none⟩
  (g.mem, g.out.getD g.val)

/-- the node handler built from a getter and a setter program: `use` evaluates the getter on the context's store, `update`
writes the store (discarded when `ok = false`) and refreshes the memory iff the setter program has a `memWrite` step -/
def progHandler (get set : List RStep) : Handler (Option Params) ParStore ParMsg Bool := fun mem store m =>
  match m with
  | .update p ok => (if set.contains .memWrite then some p else mem, if ok then some p else store, false)
  | .use name => let r := runGetter get mem store; (r.1, store, r.2.contains name)

/-- the regenerated programs of `x/gov/keeper` `GetSwitchParams` / `SetSwitchParams` -/
def switchGet : List RStep := switchGetter.map parseRStep
def switchSet : List RStep := switchSetter.map parseRStep

/-- the programs the seeded change turns them into -/
def cachedGet : List RStep := [.memRead, .other, .store, .decode, .memWrite, .ret]
def cachedSet : List RStep := [.store, .other, .retIfNil, .store, .memWrite, .ret]

/-- driver entry: the regenerated getter program on an absent / present record and an empty / filled memory -/
def switchGetOp (mem : Option Params) (store : ParStore) : Params := (runGetter switchGet mem store).2

/-! ## the entry points that consult the switch parameters, closed under calls within the keeper -/

/-- the program of a method of a package, if it is in the regenerated list -/
def readerOf (pkg func : String) : Option ReaderProg := readerProgs.find? (fun r => r.pkg == pkg && r.func == func)

/-- every `call` step of `r` names a method of the same keeper whose program is in the list and is memory-free, to depth `fuel` -/
def callsClosed : Nat → ReaderProg → Bool
  | 0, _ => false
  | fuel + 1, r =>
    readerCovered r && r.steps.all (fun s => s.kind != "call" ||
      match readerOf r.pkg ("Keeper." ++ s.arg) with
      | some r' => callsClosed fuel r'
      | none => false)

/-! ## a derived value cached under a FINGERPRINT of the record it was derived from -/

/-- `CheckDisabledPrecompiles` with a lookup structure (`derive`) that is rebuilt only when the fingerprint `fp` of the
parameters read from the context's store differs from the fingerprint it was built for; output = `derive` of … applied to the name -/
def fingerHandler {F D : Type} [DecidableEq F] (fp : Params → F) (derive : Params → D) (ask : D → String → Bool) :
    Handler (Option (F × D)) ParStore ParMsg Bool := fun mem store m =>
  match m with
  | .update p ok => (mem, if ok then some p else store, false)
  | .use name =>
    let p := paramsOf store
    match mem with
    | some (f, d) => if f = fp p then (mem, store, ask d name) else (some (fp p, derive p), store, ask (derive p) name)
    | none => (some (fp p, derive p), store, ask (derive p) name)

/-- memory is always "the structure derived from some parameters, under their fingerprint" -/
def fingerInv {F D : Type} (fp : Params → F) (derive : Params → D) (mem : Option (F × D)) : Prop :=
  ∀ f d, mem = some (f, d) → ∃ p, f = fp p ∧ d = derive p

/-- what `fingerHandler` computes, without any memory -/
def derivePure {D : Type} (derive : Params → D) (ask : D → String → Bool) (store : ParStore) : ParMsg → ParStore × Bool
  | .update p ok => (if ok then some p else store, false)
  | .use name => (store, ask (derive (paramsOf store)) name)

end FxVerif.Model.C17
