import FxVerif.Model.Flows
/-!
# C04 — typed signatures of the bank / ERC-20 keeper calls, and the IBC route

`Gen/C04.lean` regenerates, for every branch of the anchored Go functions, not only WHICH keeper calls are made in
which order (`List Call`) but also WITH WHICH ARGUMENTS: the module-account expression, the account expression and
the coins (or ERC-20 contract) expression of every call, as written in the source (`List Sig`, a closed lexical
vocabulary `Ref`; anything the translator does not know is `.other`).  The model does not copy these lists: it
INTERPRETS them (`interp`) under an environment that says what each Go variable denotes in that function (`Env`), and
`Props/C04.lean` obliges the interpretation to be exactly the flow the ledger model runs.  Sending to the wrong module
account, minting the wrong denomination, taking a fee from the wrong party changes a regenerated list and breaks the
obligation.

The IBC route: an IBC voucher that is registered as an alias of a base denomination is, for the bank metadata, one more
"bridge denomination" of the group; its module account is the ibc-transfer module.  It is encoded as route `ibcRoute`
(= 3, the first index after the three bridge chains): voucher = `.bridge g ibcRoute`, transfer module = `.chainMod ibcRoute`.
-/
namespace FxVerif.Model.C04
open FxVerif.Model.Ledger FxVerif.Model.Flows

/-- index of the IBC route (the bridge chains are `0 … 2`) -/
def ibcRoute : Nat := 3

/-- the ibc-transfer module account (`ibctransfertypes.ModuleName`) -/
abbrev T : Addr := .chainMod ibcRoute

/-- the IBC voucher registered as an alias of group `g` -/
abbrev voucher (g : Nat) : Asset := .bridge g ibcRoute

/-- a Go expression used as module / account / coins / contract argument of a tracked keeper call -/
inductive Ref where
  | k_moduleName | types_ModuleName | ibctransfertypes_ModuleName | k_moduleAddress
  | holder | sender | receiver | from_ | erc20Contract | pair_GetERC20Contract
  | bridgeToken | coin | targetCoin | baseCoin | ibcCoin | addBridgeFee | coins
  | mintCoins | unlockCoins | erc20types_ModuleName | tokenPair_GetERC20Contract | amount
  | crosschaintypes_GetAddress | evmtypes_ModuleName | totalCoins
  | none | other
  deriving DecidableEq, Repr

/-- one keeper call as written: `SendCoinsFromAccountToModule(ctx, a, b, coin)`, `SendCoinsFromModuleToAccount(ctx, a, b,
coin)`, `MintCoins / BurnCoins(ctx, a, coin)` (`b = none`), `ERC20Mint / ERC20Burn / ERC20Transfer(ctx, coin, a, b, amount)` -/
structure Sig where
  call : Call
  a : Ref
  b : Ref
  coin : Ref
  deriving DecidableEq, Repr

/-- what the Go variables of one function denote -/
structure Env where
  addr : Ref → Option Addr
  asset : Ref → Option Asset

/-- the ledger primitive a keeper call performs (both bank send functions move from their first to their second
address argument; mint / burn act on the module account itself; the ERC-20 functions are called *as* `a` on account `b`) -/
def Sig.prim (e : Env) (n : Nat) (s : Sig) : Option Prim :=
  match e.asset s.coin, e.addr s.a with
  | some as, some a =>
    match s.call with
    | .mintCoins => some (.mint as a a n)
    | .burnCoins => some (.burn as a a n)
    | .sendAccToMod | .sendModToAcc | .erc20Transfer => (e.addr s.b).map (fun b => .send as a b n)
    | .erc20Mint => (e.addr s.b).map (fun b => .mint as a b n)
    | .erc20Burn => (e.addr s.b).map (fun b => .burn as a b n)
  | _, _ => none

/-- interpretation of a regenerated call list: `none` as soon as one expression is unknown -/
def interp (e : Env) (n : Nat) : List Sig → Option (List Prim)
  | [] => some []
  | s :: r =>
    match s.prim e n, interp e n r with
    | some p, some ps => some (p :: ps)
    | _, _ => none

/-- the denomination a chain's module account locks / burns for a token: FX itself, else the bridge denomination -/
def bridgeAsset (k : Kind) (g c : Nat) : Asset :=
  match k with
  | .fx => .base g
  | _ => .bridge g c

/-- `x/crosschain/keeper` on chain `c`: `k.moduleName` is the chain's module account -/
def xAddr (c : Nat) (h : Addr) : Ref → Option Addr
  | .k_moduleName => some (M c)
  | .ibctransfertypes_ModuleName => some T
  | .holder => some h
  | .sender => some h
  | _ => none

/-- `DepositBridgeToken` / `WithdrawBridgeToken(bridgeToken, holder)` -/
def envBridgeToken (k : Kind) (g c : Nat) (h : Addr) : Env :=
  ⟨xAddr c h, fun | .bridgeToken => some (bridgeAsset k g c) | _ => none⟩

/-- `ConversionCoin(holder, coin, baseDenom, targetDenom)` -/
def envConversion (g c : Nat) (h : Addr) (toBase : Bool) : Env :=
  ⟨xAddr c h, fun
    | .coin => some (if toBase then .bridge g c else .base g)
    | .targetCoin => some (if toBase then .base g else .bridge g c)
    | _ => none⟩

/-- `AddUnbatchedTxBridgeFee(txId, sender, addBridgeFee)` -/
def envFee (k : Kind) (g c : Nat) (h : Addr) : Env :=
  ⟨xAddr c h, fun | .addBridgeFee => some (bridgeAsset k g c) | _ => none⟩

/-- `IBCCoinToBaseCoin(coin, holder)`: `coin` is the voucher -/
def envIbcIn (g : Nat) (h : Addr) : Env :=
  ⟨xAddr 0 h, fun | .coin => some (voucher g) | .baseCoin => some (.base g) | _ => none⟩

/-- `BaseCoinToIBCCoin(coin, holder, ibcTarget)`: `coin` is the base coin -/
def envIbcOut (g : Nat) (h : Addr) : Env :=
  ⟨xAddr 0 h, fun | .coin => some (.base g) | .ibcCoin => some (voucher g) | _ => none⟩

/-- `x/erc20/keeper` conversions of pair `g` (`types.ModuleName` / `k.moduleAddress` are the erc20 module account; the
pair's contract as an ACCOUNT is the WFX contract — only the FX branch sends coins to it) -/
def envErc20 (g : Nat) (s r : Addr) : Env :=
  ⟨fun
    | .types_ModuleName => some E
    | .k_moduleAddress => some E
    | .sender => some s
    | .receiver => some r
    | .erc20Contract => some .wfx
    | _ => none,
   fun
    | .coins => some (.base g)
    | .erc20Contract => some (.erc g)
    | .pair_GetERC20Contract => some (.erc g)
    | _ => none⟩

/-- `bridgeCallTransferCoins(sender, tokens)` for one token of kind `k` on chain `c` (`sender` is the refund address) -/
def envRefund (k : Kind) (g c : Nat) (r : Addr) : Env :=
  ⟨xAddr c r, fun | .mintCoins => some (bridgeAsset k g c) | .unlockCoins => some (bridgeAsset k g c) | _ => none⟩

/-- erc20 `ConvertDenomToTarget(from, coin, target)` and its `convertNativeCoin` / `convertNativeERC20` -/
def envDenom (g : Nat) (h : Addr) (src dst : Den) : Env :=
  ⟨fun | .types_ModuleName => some E | .from_ => some h | _ => none,
   fun | .coin => some (src.asset g) | .targetCoin => some (dst.asset g) | _ => none⟩

/-- precompile `convertERC20(tokenPair, amount, sender)` (bank part) -/
def envPrecompile (g : Nat) (s : Addr) : Env :=
  ⟨fun | .erc20types_ModuleName => some E | .sender => some s | .tokenPair_GetERC20Contract => some .wfx | _ => none,
   fun | .amount => some (.base g) | _ => none⟩

/-- `ConvertDenomToTarget` = its two sends with the mint / burn of `convertDenomToContractOwner` in between (the position
of that inner call between the two sends is read by hand, its three branches and the two sends are regenerated) -/
def interpDenom (e : Env) (n : Nat) (outer mid : List Sig) : Option (List Prim) :=
  match interp e n outer, interp e n mid with
  | some o, some m => some (o.take 1 ++ m ++ o.drop 1)
  | _, _ => none

/-- the primitives of a flow that are bank calls (not ERC-20 contract calls) -/
def bankPart (fl : List Prim) : List Prim :=
  fl.filter (fun p => match p with
    | .send (.erc _) .. => false
    | .mint (.erc _) .. => false
    | .burn (.erc _) .. => false
    | _ => true)

/-- the money-moving functions a composite function calls (regenerated in source order: `Gen.C04.*_calls`) -/
inductive FCall where
  | depositBridgeToken | withdrawBridgeToken | conversionCoin | bridgeTokenToBaseCoin | baseCoinToBridgeToken
  | ibcCoinToBaseCoin | baseCoinToIBCCoin | ibcTransfer | convertCoin | baseCoinToEvm | transferIBCHandler | ibcRefund
  | addUnbatchedTx
  deriving DecidableEq, Repr

/-- flow of one call inside `BridgeTokenToBaseCoin` (`toBase = true`) / `BaseCoinToBridgeToken` (`toBase = false`) -/
def FCall.bridgeFlow (k : Kind) (g c : Nat) (h : Addr) (n : Nat) (toBase : Bool) : FCall → Option (List Prim)
  | .depositBridgeToken => some (FxVerif.Model.Flows.depositBridgeToken k g c h n)
  | .withdrawBridgeToken => some (FxVerif.Model.Flows.withdrawBridgeToken k g c h n)
  | .conversionCoin => some (FxVerif.Model.Flows.conversionCoin k g c h n toBase)
  | _ => none

def composeFlow (f : FCall → Option (List Prim)) : List FCall → Option (List Prim)
  | [] => some []
  | x :: r =>
    match f x, composeFlow f r with
    | some a, some b => some (a ++ b)
    | _, _ => none

/-! ### IBC alias flows (`x/crosschain/keeper/many_to_one.go`) -/

/-- `IBCCoinToBaseCoin`: the voucher is parked in the transfer module account, the base coin minted there and paid out -/
def ibcCoinToBaseCoin (g : Nat) (h : Addr) (n : Nat) : List Prim :=
  [.send (voucher g) h T n, .mint (.base g) T T n, .send (.base g) T h n]

/-- `BaseCoinToIBCCoin`: the base coin is burned in the transfer module account, a parked voucher released -/
def baseCoinToIBCCoin (g : Nat) (h : Addr) (n : Nat) : List Prim :=
  [.send (.base g) h T n, .burn (.base g) T T n, .send (voucher g) T h n]

end FxVerif.Model.C04
