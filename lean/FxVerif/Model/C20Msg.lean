import FxVerif.Model.C20Args
/-!
# C20 — stateless validation of messages (`ValidateBasic` / `validateBasic` / `Validate`) as guard programs

`Gen/C20Msg.lean` (typed translator `go/extractt/c20msg.go`, regenerated from `/repo` on every run) contains the body of
every `ValidateBasic() error` / `validateBasic() error` / `Validate() error` method of the fx-core message, claim, packet,
parameter and proposal types — and of the fx-core helper functions they call — translated STATEMENT BY STATEMENT into
the language below.  The model INTERPRETS these programs (`runAt`), so the theorems are about the code as written:

* an `Atom` is one test the Go code performs on the decoded message.  Atoms that dereference something evaluate to `none`
  when the thing is not there — that is Go's panic:
  `intPred p m` / `intSign p op` / `intBin p q m`  method call on a `sdkmath.Int` / `LegacyDec` field (nil when the field is absent
  on the wire);  `coinPred p m`  `IsPositive()` … on a `sdk.Coin` whose amount is nil;  `coinsCall p m`  `Coins.Validate()` with a nil
  amount inside;  `index p i`  `p[i]` with `i ≥ len p`;  `derefLocal v fn args`  use of the first result of `v, err := fn(args)` when
  `fn` failed;  `derefPtr p`  use of a nil pointer field;  `unknown`  a construct the translator does not know;
* `Cond` has Go's short-circuit evaluation order; `Flat` statements are `if c { return … }`, an expression evaluated for its
  effects, `return`; nested `if` blocks are flattened by the translator into guarded steps (`if A { if B { return } }` =
  `if A && B { return }`, same evaluation order); `Stmt` adds `for _, v := range m.F { … }`, a call of another validation
  program on a field (`m.Params.ValidateBasic()`), and a tail call with static or dynamic dispatch
  (`return m.validateBasic()`, `return claim.ValidateBasic()`);
* `safeAt`: a syntactic check that every dereference is dominated — in evaluation order — by the test that makes it safe
  (`IsNil()`, `IsValid()`, `IsAnyNil()`, a length comparison, the `err != nil` return of the defining call), following calls
  through the program table with a fuel bound.  `Proofs/C20Msg.safeAt_sound`: for EVERY table, program and environment,
  `safeAt` implies that the interpreter does not reach a panic.

Core Lean only (the driver evaluates `runAt` on the harness's feature lines `mvb …`).
-/
namespace FxVerif.Model.C20Msg
open FxVerif.Model.C20Args (Cmp bigBitLen)

inductive Atom where
  | ext (fn : String) (args : List String)        -- `fn(args…)` returned an error / `!ok` (total dependency or fx-core helper)
  | oracle (src : String) (args : List String)    -- any other hazard-free boolean expression over the listed paths
  | isNil (p : String)                            -- `p.IsNil()` / `p == nil`
  | intPred (p m : String)                        -- `p.m()` on a sdkmath.Int / LegacyDec       (dereferences p)
  | intSign (p : String) (op : Cmp)               -- `p.Sign() op 0`                            (dereferences p)
  | intBin (p q m : String)                       -- `p.m(q)`                                   (dereferences both)
  | coinValid (p : String)                        -- `p.IsValid()` on a sdk.Coin: false when the amount is nil, never panics
  | coinPred (p m : String)                       -- `p.IsPositive()` … on a sdk.Coin           (dereferences p.Amount)
  | coinsAnyNil (p : String)                      -- `p.IsAnyNil()` on sdk.Coins
  | coinsCall (p m : String)                      -- `p.Validate()` returned an error           (dereferences every amount)
  | lenK (p : String) (op : Cmp) (k : Nat)
  | lenRel (p : String) (op : Cmp) (q : String)
  | numK (p : String) (op : Cmp) (k : Int)
  | strEq (p q : String)
  | strEqK (p : String) (k : String)
  | index (p : String) (i : Nat)                  -- `p[i]` is evaluated                        (needs i < len p)
  | derefLocal (v fn : String) (args : List String) (src : String)   -- `src` uses `v` from `v, err := fn(args)`
  | derefPtr (p : String) (src : String)          -- `src` dereferences the pointer field p
  | unknown (src : String)
  deriving DecidableEq, Repr

inductive Cond where
  | atom (a : Atom)
  | not (c : Cond)
  | and (a b : Cond)
  | or (a b : Cond)
  deriving DecidableEq, Repr

inductive Flat where
  | ifRet (c : Cond) (isErr : Bool)
  | eval (c : Cond)
  | ret (isErr : Bool)
  | unknown (src : String)
  deriving DecidableEq, Repr

inductive Stmt where
  | flat (s : Flat)
  | forEach (coll var : String) (body : List Flat)          -- `for _, var := range m.coll { body }`
  | callErr (name pfx : String)                             -- `if err := m.pfx.Validate…(); err != nil { return err }`
  | retCall (names : List String) (pfx sel : String)        -- `return <recv>.validate…()`: one name = static, several = dynamic dispatch
  deriving DecidableEq, Repr

/-- what stateless validation can observe of a decoded message, keyed by field path (`Amount.Amount`, `UpdateStores[2].Key`) -/
structure Env where
  ext : String → List String → Bool     -- (function or expression, argument paths) ↦ "returned an error" / truth value
  isNil : String → Bool                 -- Int / LegacyDec / pointer path is nil
  big : String → Int                    -- its value when it is not (LegacyDec: count of 10⁻¹⁸ units)
  anyNil : String → Bool                -- sdk.Coins path: some amount is nil
  len : String → Nat
  num : String → Int
  str : String → List Nat               -- bytes of a string field

/-- all look-ups go through a path rewriting -/
def Env.rw (env : Env) (σ : String → String) : Env :=
  { ext := fun fn args => env.ext fn (args.map σ), isNil := fun p => env.isNil (σ p), big := fun p => env.big (σ p),
    anyNil := fun p => env.anyNil (σ p), len := fun p => env.len (σ p), num := fun p => env.num (σ p), str := fun p => env.str (σ p) }

/-- loop variable `$var` ↦ `coll[i]` -/
def bindPath (var coll : String) (i : Nat) (p : String) : String :=
  let v := "$" ++ var
  if p.startsWith v then coll ++ "[" ++ toString i ++ "]" ++ (p.drop v.length).toString else p

def Env.bind (env : Env) (var coll : String) (i : Nat) : Env := env.rw (bindPath var coll i)

/-- callee paths are relative to the field the method was called on -/
def subPath (pfx p : String) : String := if pfx == "" then p else if p == "" then pfx else pfx ++ "." ++ p

def Env.sub (env : Env) (pfx : String) : Env := if pfx == "" then env else env.rw (subPath pfx)

/-- known predicates of `sdkmath.Int` / `LegacyDec` (raw value) -/
def predVal (m : String) (v : Int) : Option Bool :=
  if m == "IsPositive" then some (decide (v > 0))
  else if m == "IsNegative" then some (decide (v < 0))
  else if m == "IsZero" then some (decide (v = 0))
  else if m == "GT(sdkmath.LegacyOneDec())" then some (decide (v > 1000000000000000000))
  else none

/-- known binary operations: `SafeAdd` fails when the sum needs more than 256 bits -/
def binVal (m : String) (x y : Int) : Option Bool :=
  if m == "SafeAdd" then some (decide (bigBitLen (x + y) > 256)) else none

def strBytes (s : String) : List Nat := s.toUTF8.toList.map (·.toNat)

def Atom.eval (env : Env) : Atom → Option Bool
  | .ext fn args => some (env.ext fn args)
  | .oracle s args => some (env.ext s args)
  | .isNil p => some (env.isNil p)
  | .intPred p m => if env.isNil p then none else some ((predVal m (env.big p)).getD (env.ext m [p]))
  | .intSign p op => if env.isNil p then none else some (op.eval (env.big p) 0)
  | .intBin p q m =>
    if env.isNil p || env.isNil q then none else some ((binVal m (env.big p) (env.big q)).getD (env.ext m [p, q]))
  | .coinValid p => some (!env.isNil (p ++ ".Amount") && !env.ext "Coin.Validate" [p])
  | .coinPred p m =>
    if env.isNil (p ++ ".Amount") then none else some ((predVal m (env.big (p ++ ".Amount"))).getD (env.ext m [p]))
  | .coinsAnyNil p => some (env.anyNil p)
  | .coinsCall p m => if env.anyNil p then none else some (env.ext ("Coins." ++ m) [p])
  | .lenK p op k => some (op.eval (env.len p) k)
  | .lenRel p op q => some (op.eval (env.len p) (env.len q))
  | .numK p op k => some (op.eval (env.num p) k)
  | .strEq p q => some (env.str p == env.str q)
  | .strEqK p k => some (env.str p == strBytes k)
  | .index p i => if i < env.len p then some true else none
  | .derefLocal v fn args src => if env.ext fn args then none else some (env.ext src (v :: args))
  | .derefPtr p src => if env.isNil p then none else some (env.ext src [p])
  | .unknown _ => none

/-- Go evaluation order: `a && b` evaluates `b` only when `a` is true, `a || b` only when `a` is false -/
def Cond.eval (env : Env) : Cond → Option Bool
  | .atom a => a.eval env
  | .not c => (c.eval env).map (!·)
  | .and a b =>
    match a.eval env with
    | none => none
    | some false => some false
    | some true => b.eval env
  | .or a b =>
    match a.eval env with
    | none => none
    | some true => some true
    | some false => b.eval env

/-- `cont`: fell through (end of a block or loop body) -/
inductive R where | cont | ok | err | panic
  deriving DecidableEq, Repr

def retOf (isErr : Bool) : R := if isErr then .err else .ok

def runFlat (env : Env) : List Flat → R
  | [] => .cont
  | .ret e :: _ => retOf e
  | .ifRet c e :: rest =>
    match c.eval env with
    | none => .panic
    | some true => retOf e
    | some false => runFlat env rest
  | .eval c :: rest =>
    match c.eval env with
    | none => .panic
    | some _ => runFlat env rest
  | .unknown _ :: _ => .panic

/-- `for i, var := range coll { body }`: `n` iterations left, next index `i` -/
def runLoop (env : Env) (coll var : String) (body : List Flat) : Nat → Nat → R
  | 0, _ => .cont
  | n + 1, i =>
    match runFlat (env.bind var coll i) body with
    | .cont => runLoop env coll var body n (i + 1)
    | r => r

/-- one validation function; `cr name env` = result of the callee `name` -/
def runList (cr : String → Env → R) (env : Env) : List Stmt → R
  | [] => .panic                       -- a Go function cannot fall off its end; never generated
  | .flat s :: rest =>
    match runFlat env [s] with
    | .cont => runList cr env rest
    | r => r
  | .forEach coll var body :: rest =>
    match runLoop env coll var body (env.len coll) 0 with
    | .cont => runList cr env rest
    | r => r
  | .callErr name pfx :: rest =>
    match cr name (env.sub pfx) with
    | .panic => .panic
    | .err => .err
    | _ => runList cr env rest
  | .retCall names pfx sel :: _ =>
    match names[(env.num sel).toNat]? with
    | none => .err                     -- an implementation outside the table: not generated (the translator lists all)
    | some n =>
      match cr n (env.sub pfx) with
      | .panic => .panic
      | .err => .err
      | _ => .ok

abbrev Table := List (String × List Stmt)

def Table.find (t : Table) (n : String) : Option (List Stmt) := (t.find? (·.1 == n)).map (·.2)

/-- run program `name` of the table with call depth at most `fuel` (exhaustion counts as a panic) -/
def runAt (t : Table) : Nat → String → Env → R
  | 0, _, _ => .panic
  | fuel + 1, name, env =>
    match t.find name with
    | none => .panic
    | some p => runList (runAt t fuel) env p

/-! ## facts established by a condition's value -/

abbrev Fact := Atom × Bool

def Fact.holds (env : Env) (f : Fact) : Prop := f.1.eval env = some f.2

def Cond.facts : Bool → Cond → List Fact
  | pol, .atom a => [(a, pol)]
  | pol, .not c => c.facts (!pol)
  | pol, .and a b => if pol then a.facts true ++ b.facts true else []
  | pol, .or a b => if pol then [] else a.facts false ++ b.facts false

def hasFact (fs : List Fact) (a : Atom) (b : Bool) : Bool := fs.any fun f => f.1 == a && f.2 == b

/-- the path is known not to be nil: an explicit test, an `IsValid()` of the enclosing coin, or an earlier dereference that
was evaluated -/
def followsNonNil (fs : List Fact) (p : String) : Bool :=
  fs.any fun f =>
    match f with
    | (.isNil q, false) => q == p
    | (.intPred q _, _) => q == p
    | (.intSign q _, _) => q == p
    | (.intBin q r _, _) => q == p || r == p
    | (.coinValid q, true) => q ++ ".Amount" == p
    | (.coinPred q _, _) => q ++ ".Amount" == p
    | _ => false

/-- `i < len p` follows from a length comparison with a constant -/
def followsLenGt (fs : List Fact) (p : String) (i : Nat) : Bool :=
  fs.any fun f =>
    match f with
    | (.lenK q .ne k, false) => q == p && decide (i < k)
    | (.lenK q .eq k, true) => q == p && decide (i < k)
    | (.lenK q .lt k, false) => q == p && decide (i < k)
    | (.lenK q .ge k, true) => q == p && decide (i < k)
    | (.lenK q .le k, false) => q == p && decide (i ≤ k)
    | (.lenK q .gt k, true) => q == p && decide (i ≤ k)
    | _ => false

def Atom.safe (fs : List Fact) : Atom → Bool
  | .intPred p _ => followsNonNil fs p
  | .intSign p _ => followsNonNil fs p
  | .intBin p q _ => followsNonNil fs p && followsNonNil fs q
  | .coinPred p _ => followsNonNil fs (p ++ ".Amount")
  | .coinsCall p _ => hasFact fs (.coinsAnyNil p) false
  | .index p i => followsLenGt fs p i
  | .derefLocal _ fn args _ => hasFact fs (.ext fn args) false
  | .derefPtr p _ => hasFact fs (.isNil p) false
  | .unknown _ => false
  | _ => true

def Cond.safe : List Fact → Cond → Bool
  | fs, .atom a => a.safe fs
  | fs, .not c => c.safe fs
  | fs, .and a b => a.safe fs && b.safe (a.facts true ++ fs)
  | fs, .or a b => a.safe fs && b.safe (a.facts false ++ fs)

def safeFlat : List Fact → List Flat → Bool
  | _, [] => true
  | _, .ret _ :: _ => true
  | fs, .ifRet c _ :: rest => c.safe fs && safeFlat (c.facts false ++ fs) rest
  | fs, .eval c :: rest => c.safe fs && safeFlat fs rest
  | _, .unknown _ :: _ => false

/-- `ck name`: the callee was checked.  Loop bodies and callees start from no facts (their paths are rewritten). -/
def safeList (ck : String → Bool) : List Fact → List Stmt → Bool
  | _, [] => false
  | _, .flat (.ret _) :: _ => true
  | fs, .flat (.ifRet c _) :: rest => c.safe fs && safeList ck (c.facts false ++ fs) rest
  | fs, .flat (.eval c) :: rest => c.safe fs && safeList ck fs rest
  | _, .flat (.unknown _) :: _ => false
  | fs, .forEach _ _ body :: rest => safeFlat [] body && safeList ck fs rest
  | fs, .callErr name _ :: rest => ck name && safeList ck fs rest
  | _, .retCall names _ _ :: _ => names.all ck

def safeAt (t : Table) : Nat → String → Bool
  | 0, _ => false
  | fuel + 1, name =>
    match t.find name with
    | none => false
    | some p => safeList (safeAt t fuel) [] p

/-! ## what a successful validation establishes (used for what the HANDLERS rely on) -/

/-- a requirement a handler puts on a message that passed `ValidateBasic` -/
inductive Need where
  | nonNil (p : String)
  | sumFits256 (p q : String)          -- `p.Add(q)` cannot overflow sdkmath.Int
  | signGe0 (p : String)
  | signGt0 (p : String)
  | lenEq (p q : String)
  | noNilCoin (p : String)
  deriving DecidableEq, Repr

def Need.holds (env : Env) : Need → Prop
  | .nonNil p => env.isNil p = false
  | .sumFits256 p q => env.isNil p = false ∧ env.isNil q = false ∧ bigBitLen (env.big p + env.big q) ≤ 256
  | .signGe0 p => env.isNil p = false ∧ 0 ≤ env.big p
  | .signGt0 p => env.isNil p = false ∧ 0 < env.big p
  | .lenEq p q => env.len p = env.len q
  | .noNilCoin p => env.anyNil p = false

/-- `q.m()` on a coin `q` with `q.Amount = p` evaluated to `b` -/
def hasCoinFact (fs : List Fact) (p m : String) (b : Bool) : Bool :=
  fs.any fun f =>
    match f with
    | (.coinPred q m', b') => q ++ ".Amount" == p && m' == m && b' == b
    | _ => false

def followsNeed (fs : List Fact) : Need → Bool
  | .nonNil p => followsNonNil fs p
  | .sumFits256 p q =>
    hasFact fs (.intBin p q "SafeAdd") false || hasFact fs (.intBin q p "SafeAdd") false
  | .signGe0 p =>
    hasFact fs (.intPred p "IsNegative") false || hasFact fs (.intPred p "IsPositive") true ||
      hasFact fs (.intSign p .lt) false || hasFact fs (.intSign p .ge) true || hasFact fs (.intSign p .eq) true ||
      hasFact fs (.intSign p .ne) false || hasFact fs (.intSign p .gt) true ||
      hasCoinFact fs p "IsNegative" false || hasCoinFact fs p "IsPositive" true
  | .signGt0 p => hasFact fs (.intPred p "IsPositive") true || hasFact fs (.intSign p .gt) true || hasFact fs (.intSign p .le) false ||
      hasCoinFact fs p "IsPositive" true
  | .lenEq p q =>
    hasFact fs (.lenRel p .ne q) false || hasFact fs (.lenRel q .ne p) false || hasFact fs (.lenRel p .eq q) true ||
      hasFact fs (.lenRel q .eq p) true
  | .noNilCoin p => hasFact fs (.coinsAnyNil p) false

/-- every `ok`-exit of a program WITHOUT calls into callees before it establishes the need (facts are threaded exactly as in
`safeList`; a tail call is followed when static, with the facts kept only if the callee works on the same receiver) -/
def needList (tail : List Fact → String → Bool) (n : Need) : List Fact → List Stmt → Bool
  | _, [] => true
  | fs, .flat (.ret isErr) :: _ => isErr || followsNeed fs n
  | fs, .flat (.ifRet c isErr) :: rest =>
    (isErr || followsNeed (c.facts true ++ fs) n) && needList tail n (c.facts false ++ fs) rest
  | fs, .flat (.eval _) :: rest => needList tail n fs rest
  | _, .flat (.unknown _) :: _ => true
  | fs, .forEach _ _ body :: rest =>
    -- a loop body that can return nil would be an `ok`-exit with unknown facts: refuse
    body.all (fun s => match s with | .ifRet _ e => e | .ret e => e | _ => true) && needList tail n fs rest
  | fs, .callErr _ _ :: rest => needList tail n fs rest
  | fs, .retCall names pfx _ :: _ =>
    match names with
    | [nm] => pfx == "" && tail fs nm
    | _ => false

def needAt (t : Table) (n : Need) : Nat → List Fact → String → Bool
  | 0, _, _ => false
  | fuel + 1, fs, name =>
    match t.find name with
    | none => false
    | some p => needList (needAt t n fuel) n fs p

/-! ## generated tables -/

structure Prog where
  name : String          -- `Type.Method` or `pkg.Func`
  pkg : String
  recv : String
  meth : String
  typeURL : String       -- proto message name with leading `/` when the receiver is a registered message, else ""
  root : Bool            -- a message / claim / packet / proposal type: hostile input reaches it directly
  reach : Bool           -- reachable from a root through calls (`callErr`, `retCall`, `ext` atoms naming fx-core helpers)
  deps : List String     -- programs it calls
  prog : List Stmt
  deriving Repr

structure Callee where
  fn : String            -- as written in the atoms (`sdk.AccAddressFromBech32`)
  full : String          -- package path + name
  fxcore : Bool
  progs : List String    -- the translated program(s) when fx-core (every implementation for an interface method; [] = not translated)
  deriving Repr, DecidableEq

/-- dependency functions that stateless validation calls and that are TRUSTED to be total (return a value or an error for every
argument, never panic); each is exercised by the harness with the hostile payload classes.  A call to any other dependency
function from a validation method breaks the obligation `msg_callees_closed` until it is reviewed here. -/
def trustedTotal : List String := [
  -- error-returning calls (`ext` atoms)
  "github.com/cosmos/cosmos-sdk/types.AccAddressFromBech32",      -- bech32 decode + length check
  "github.com/cosmos/cosmos-sdk/types.ValAddressFromBech32",
  "github.com/cosmos/cosmos-sdk/types.ValidateDenom",             -- regexp match
  "encoding/hex.DecodeString",
  "github.com/ethereum/go-ethereum/crypto.SigToPub",              -- checks len(sig) = 65 and the recovery id before recovering
  "github.com/fbsobreira/gotron-sdk/pkg/common.DecodeCheck",      -- base58 + checksum, length checked
  "github.com/cosmos/ibc-go/v8/modules/apps/transfer/types.ValidateIBCDenom",
  "github.com/cosmos/cosmos-sdk/x/gov/types/v1beta1.ValidateAbstract",
  "(github.com/cosmos/cosmos-sdk/x/bank/types.Metadata).Validate",
  "cosmossdk.io/math.LegacyNewDecFromStr",
  -- calls inside hazard-free expressions (`oracle` atoms)
  "(*regexp.Regexp).MatchString",
  "(github.com/cosmos/cosmos-sdk/types.AccAddress).Bytes",
  "(github.com/ethereum/go-ethereum/common.Address).Bytes",
  "(github.com/ethereum/go-ethereum/common.Address).Hex",
  "bytes.Equal",
  "cosmossdk.io/math.LegacyOneDec",
  "github.com/ethereum/go-ethereum/common.HexToAddress",
  "github.com/ethereum/go-ethereum/common.IsHexAddress",
  "github.com/ethereum/go-ethereum/crypto.PubkeyToAddress",
  "github.com/ethereum/go-ethereum/crypto.Keccak256",
  "github.com/fbsobreira/gotron-sdk/pkg/common.EncodeCheck",
  "strings.TrimSpace",
  "(time.Duration).Seconds",
  "(cosmossdk.io/math.LegacyDec).GT",
  "(cosmossdk.io/math.LegacyDec).IsNegative"
]

/-- call depth bound used for the generated table (deepest chain today: MsgClaim → claim.ValidateBasic → validateBasic) -/
def msgFuel : Nat := 6

end FxVerif.Model.C20Msg
