import FxVerif.Model.C08Journal
/-!
# C08 — the statement language of the regenerated StateDB code (round 5)

`go/extract/c08e.go` re-reads the ethermint fork's `x/evm/statedb` (module cache, version of `/repo/go.mod`) on every run and
emits the bodies of `GetCommittedState`, `GetState`, `SetState`, `setState`, `storageChange.Revert` and of the per-slot loop
of `Commit` as lists of the statements below (`Gen/C08e.lean`).  `exec` interprets such a list on a state object
(`originStorage`, `dirtyStorage`, the store behind it, the journal); `Model/C08DepI.lean` instantiates it with the
regenerated lists and `Props/C08.lean` proves the hand-written cache / journal model equal to the interpretation.
Core Lean only.
-/
namespace FxVerif.Model.C08Dep
open FxVerif.Model.C08Cache

inductive MapId where
  | dirty | origin | override
  deriving DecidableEq, Repr

inductive Stmt where
  /-- `if s.overrideStorage != nil { … return … }` — state overrides exist only in `eth_call`; nil in a transaction -/
  | overrideGuard
  /-- `if value, ok := s.<m>[key]; ok { return value }` -/
  | retIfIn (m : MapId)
  /-- `x := s.db.keeper.GetState(s.db.ctx, s.Address(), key)` -/
  | load (x : String)
  /-- `s.<m>[key] = x` -/
  | put (m : MapId) (x : String)
  /-- `return x` -/
  | ret (x : String)
  /-- `return s.f(key)` -/
  | retCall (f : String)
  /-- `x := s.f(key)` -/
  | call (x f : String)
  /-- `if x == y { return }` -/
  | retIfEq (x y : String)
  /-- `s.db.journal.append(storageChange{account: &s.address, key: key, prevalue: x})` -/
  | journal (x : String)
  /-- `s.f(key, x)` -/
  | proc (f x : String)
  /-- `x := obj.<m>[key]` (zero value when absent) -/
  | getMap (x : String) (m : MapId)
  /-- `if x == obj.<m>[key] { continue }` -/
  | skipIfEqMap (x : String) (m : MapId)
  /-- `s.keeper.SetState(s.origCtx, obj.Address(), key, x.Bytes())` -/
  | storeSet (x : String)
  /-- a statement the translator does not know: the interpretation is stuck -/
  | other (src : String)
  deriving Repr

abbrev Env := List (String × Nat)

def envGet : Env → String → Option Nat
  | [], _ => none
  | (y, v) :: r, x => if y = x then some v else envGet r x

/-- a state object of the running StateDB together with the storage entries of the journal (newest first) -/
structure ObjSt where
  o : Outer
  journal : List (Slot × Nat) := []

inductive Res where
  | fell (e : Env)
  | returned (v : Option Nat)
  | stuck

def mapOf (s : ObjSt) : MapId → List (Slot × Nat)
  | .dirty => s.o.dirty
  | .origin => s.o.origin
  | .override => []

/-- the functions a body may call: value-returning methods of the state object and procedures -/
structure Callees where
  fn : String → Slot → ObjSt → Option (Nat × ObjSt)
  pr : String → Slot → Nat → ObjSt → Option ObjSt

def noCallees : Callees := ⟨fun _ _ _ => none, fun _ _ _ _ => none⟩

def exec (c : Callees) (k : Slot) : List Stmt → Env → ObjSt → Res × ObjSt
  | [], e, s => (.fell e, s)
  | .overrideGuard :: rest, e, s => exec c k rest e s
  | .retIfIn m :: rest, e, s =>
    match lookup k (mapOf s m) with
    | some v => (.returned (some v), s)
    | none => exec c k rest e s
  | .load x :: rest, e, s => exec c k rest ((x, s.o.store k) :: e) s
  | .put m x :: rest, e, s =>
    match envGet e x, m with
    | some v, .dirty => exec c k rest e { s with o := { s.o with dirty := (k, v) :: s.o.dirty } }
    | some v, .origin => exec c k rest e { s with o := { s.o with origin := (k, v) :: s.o.origin } }
    | _, _ => (.stuck, s)
  | .ret x :: _, e, s =>
    match envGet e x with
    | some v => (.returned (some v), s)
    | none => (.stuck, s)
  | .retCall f :: _, _, s =>
    match c.fn f k s with
    | some (v, s1) => (.returned (some v), s1)
    | none => (.stuck, s)
  | .call x f :: rest, e, s =>
    match c.fn f k s with
    | some (v, s1) => exec c k rest ((x, v) :: e) s1
    | none => (.stuck, s)
  | .retIfEq x y :: rest, e, s =>
    match envGet e x, envGet e y with
    | some a, some b => if a = b then (.returned none, s) else exec c k rest e s
    | _, _ => (.stuck, s)
  | .journal x :: rest, e, s =>
    match envGet e x with
    | some p => exec c k rest e { s with journal := (k, p) :: s.journal }
    | none => (.stuck, s)
  | .proc f x :: rest, e, s =>
    match envGet e x with
    | some v =>
      match c.pr f k v s with
      | some s1 => exec c k rest e s1
      | none => (.stuck, s)
    | none => (.stuck, s)
  | .getMap x m :: rest, e, s => exec c k rest ((x, (lookup k (mapOf s m)).getD 0) :: e) s
  | .skipIfEqMap x m :: rest, e, s =>
    match envGet e x with
    | some v => if v = (lookup k (mapOf s m)).getD 0 then (.returned none, s) else exec c k rest e s
    | none => (.stuck, s)
  | .storeSet x :: rest, e, s =>
    match envGet e x with
    | some v => exec c k rest e { s with o := { s.o with store := s.o.store.set k v } }
    | none => (.stuck, s)
  | .other _ :: _, _, s => (.stuck, s)

end FxVerif.Model.C08Dep
