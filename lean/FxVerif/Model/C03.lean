import FxVerif.Model.C03Fmt
import FxVerif.Model.Sha256
import FxVerif.Gen.C03

/-!
# C03 — claim validity classes (`ValidateBasic`), effect-relevant fields, claim hash

`valid k c` mirrors the *syntactic* part of each claim's `ValidateBasic` for a chain whose external addresses are of
class `k`: the character classes the injectivity theorems rely on.  What `ValidateBasic` checks beyond that (EIP-55
checksum = Keccak-256, base58check = double SHA-256, bech32 checksum and prefix) only *shrinks* the set of valid claims,
so every theorem proved for `valid` holds a fortiori for the real class; the correspondence run checks
`real ValidateBasic ok → valid` on every generated claim (and equality of the verdicts given the opaque checksum bit).
-/
namespace FxVerif.Model.C03
open FxVerif.Gen.C03

/-! ## character classes -/

def isHexChar (c : Char) : Bool := c.isDigit || ('a' ≤ c && c ≤ 'f') || ('A' ≤ c && c ≤ 'F')

/-- `hex.DecodeString(s)` succeeds (the empty string does) -/
def isHexData (s : Str) : Bool := s.length % 2 == 0 && s.all isHexChar

/-- base58 alphabet (Bitcoin/Tron): alphanumeric without `0 O I l` -/
def isBase58Char (c : Char) : Bool := c.isAlphanum && c != '0' && c != 'O' && c != 'I' && c != 'l'

/-- `^0x[0-9a-fA-F]{40}$`, length 42 (the EIP-55 checksum is not modelled) -/
def isEthAddr (s : Str) : Bool := s.length == 42 && s.take 2 == ['0', 'x'] && (s.drop 2).all isHexChar

/-- 34 base58 characters (the base58check checksum is not modelled) -/
def isTronAddr (s : Str) : Bool := s.length == 34 && s.all isBase58Char

def isExtAddr : AddrKind → Str → Bool
  | .eth, s => isEthAddr s
  | .tron, s => isTronAddr s
  | .other, _ => false

/-- superset of the strings `sdk.AccAddressFromBech32` accepts: non-empty, alphanumeric -/
def isBech32ish (s : Str) : Bool := !s.isEmpty && s.all Char.isAlphanum

/-- non-nil and non-negative `sdkmath.Int` -/
def isNonNeg : Option Int → Bool
  | some (Int.ofNat _) => true
  | _ => false

/-- representation invariant of the model: a Go string is a byte string, one `Char` per byte -/
def isBytes (s : Str) : Bool := s.all fun c => c.toNat < 256

/-! ## `ValidateBasic` (syntactic part), per claim type, for address class `k` -/

def MsgSendToFxClaim.valid (k : AddrKind) (c : MsgSendToFxClaim) : Bool :=
  isBech32ish c.BridgerAddress && isExtAddr k c.Sender && isExtAddr k c.TokenContract && isBech32ish c.Receiver
  && isNonNeg c.Amount && isHexData c.TargetIbc && c.EventNonce != 0 && c.BlockHeight != 0

def MsgBridgeCallClaim.valid (k : AddrKind) (c : MsgBridgeCallClaim) : Bool :=
  c.TokenContracts.length == c.Amounts.length && c.TokenContracts.all (isExtAddr k)
  && isBech32ish c.BridgerAddress && isExtAddr k c.Sender && isExtAddr k c.To && isExtAddr k c.Refund
  && isNonNeg c.Value && isHexData c.Data && c.EventNonce != 0 && c.BlockHeight != 0
  && isExtAddr k c.TxOrigin && isHexData c.Memo

def MsgBridgeCallResultClaim.valid (k : AddrKind) (c : MsgBridgeCallResultClaim) : Bool :=
  isBech32ish c.BridgerAddress && c.Nonce != 0 && c.EventNonce != 0 && c.BlockHeight != 0
  && isExtAddr k c.TxOrigin && isHexData c.Cause

def MsgSendToExternalClaim.valid (k : AddrKind) (c : MsgSendToExternalClaim) : Bool :=
  isBech32ish c.BridgerAddress && isExtAddr k c.TokenContract && c.EventNonce != 0 && c.BlockHeight != 0
  && c.BatchNonce != 0

def MsgBridgeTokenClaim.valid (k : AddrKind) (c : MsgBridgeTokenClaim) : Bool :=
  isBech32ish c.BridgerAddress && isExtAddr k c.TokenContract && isHexData c.ChannelIbc
  && !c.Name.isEmpty && !c.Symbol.isEmpty && c.EventNonce != 0 && c.BlockHeight != 0
  && isBytes c.Name && isBytes c.Symbol

def MsgOracleSetUpdatedClaim.valid (k : AddrKind) (c : MsgOracleSetUpdatedClaim) : Bool :=
  isBech32ish c.BridgerAddress && !c.Members.isEmpty
  && c.Members.all (fun m => isExtAddr k m.ExternalAddress && m.Power != 0)
  && c.EventNonce != 0 && c.BlockHeight != 0

/-- address class of a chain name (`externalAddressRouter`); `none` = "unrecognized cross chain name" -/
def chainKind (name : Str) : Option AddrKind := chains.lookup (String.ofList name)

/-! ## effect-relevant fields

Everything of the event except who relays it (`BridgerAddress`, different for every voter by construction) and
`ChainName` (routing: the attestation store is per chain).  For `MsgBridgeTokenClaim` the token `Name` is not demanded:
`AddBridgeTokenExecuted` never reads it (it reads `TokenContract`, `Symbol`, `Decimals`; see Props/C03.lean). -/

def MsgSendToFxClaim.effect (c : MsgSendToFxClaim) : MsgSendToFxClaim := { c with BridgerAddress := [], ChainName := [] }
def MsgBridgeCallClaim.effect (c : MsgBridgeCallClaim) : MsgBridgeCallClaim := { c with BridgerAddress := [], ChainName := [] }
def MsgBridgeCallResultClaim.effect (c : MsgBridgeCallResultClaim) : MsgBridgeCallResultClaim := { c with BridgerAddress := [], ChainName := [] }
def MsgSendToExternalClaim.effect (c : MsgSendToExternalClaim) : MsgSendToExternalClaim := { c with BridgerAddress := [], ChainName := [] }
def MsgBridgeTokenClaim.effect (c : MsgBridgeTokenClaim) : MsgBridgeTokenClaim := { c with BridgerAddress := [], ChainName := [], Name := [] }
def MsgOracleSetUpdatedClaim.effect (c : MsgOracleSetUpdatedClaim) : MsgOracleSetUpdatedClaim := { c with BridgerAddress := [], ChainName := [] }

/-- struct fields that need not occur in the hashed path -/
def notDemanded : List String := ["BridgerAddress", "ChainName"]
def notDemandedBridgeToken : List String := ["BridgerAddress", "ChainName", "Name"]

/-- how every `ClaimHash` must turn the path into the digest -/
def expectedHashExpr : String := "tmhash.Sum([]byte(path))"

/-! ## claim hash = SHA-256 of the path bytes (`tmhash.Sum`) -/

def hashHex (path : Str) : String := FxVerif.Sha256.sha256Hex (path.map Char.toNat)

/-! ## the paths as they were at commit 6774338 for the three types whose hash did not determine the executed effect
(hand-written copies, used only for the recorded counterexamples `legacy_*_not_injective`) -/

def legacyBridgeCallPath (c : MsgBridgeCallClaim) : Str :=
  fmt_d_uint64 c.BlockHeight ++ ['/'] ++ fmt_d_uint64 c.EventNonce ++ ['/'] ++ fmt_s_string c.Sender ++ ['/']
  ++ fmt_s_string c.Refund ++ ['/'] ++ fmt_s_string c.To ++ ['/'] ++ fmt_s_sliceString c.TokenContracts ++ ['/']
  ++ fmt_v_sliceInt c.Amounts ++ ['/'] ++ fmt_v_string c.Data ++ ['/'] ++ fmt_s_IntString c.Value

def legacyBridgeCallResultPath (c : MsgBridgeCallResultClaim) : Str :=
  fmt_d_uint64 c.BlockHeight ++ ['/'] ++ fmt_d_uint64 c.EventNonce ++ ['/'] ++ fmt_d_uint64 c.Nonce ++ ['/']
  ++ fmt_t_bool c.Success ++ ['/'] ++ fmt_s_string c.Cause

def legacyBridgeTokenPath (c : MsgBridgeTokenClaim) : Str :=
  fmt_d_uint64 c.BlockHeight ++ ['/'] ++ fmt_d_uint64 c.EventNonce ++ fmt_s_string c.TokenContract ++ ['/']
  ++ fmt_s_string c.Name ++ ['/'] ++ fmt_s_string c.Symbol ++ ['/'] ++ fmt_d_uint64 c.Decimals ++ ['/']
  ++ fmt_s_string c.ChannelIbc ++ ['/']

end FxVerif.Model.C03
