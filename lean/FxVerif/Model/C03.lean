import FxVerif.Model.C03Fmt
import FxVerif.Model.Sha256
import FxVerif.Gen.C03

/-!
# C03 — claim validity classes (`ValidateBasic`), effect-relevant fields, claim hash

`valid k c` mirrors the *syntactic* part of each claim's `ValidateBasic` for a chain whose external addresses are of
class `k`: the character classes the injectivity theorems rely on.  What `ValidateBasic` checks beyond that (EIP-55
checksum = Keccak-256, base58check = double SHA-256, bech32 checksum and prefix) only *shrinks* the set of valid claims,
so every theorem proved for `valid` holds a fortiori for the real class; the correspondence run checks
`real ValidateBasic ok → valid` on every generated claim (and equality of the verdicts given the opaque checksum bit).
-/
namespace FxVerif.Model.C03
open FxVerif.Gen.C03

/-! ## `ValidateBasic` (syntactic part), per claim type, for address class `k`

`validGen` is REGENERATED from the body of each `ValidateBasic` (Gen/C03.lean: the recognised checks in source order,
`validateBasic` helpers inlined; an unrecognised statement is dropped, which only enlarges the class).  `valid` adds
nothing to it except, for the one type with free-form text fields, the representation invariant of the model (a Go
string is a byte string). -/

def MsgSendToFxClaim.valid (k : AddrKind) (c : MsgSendToFxClaim) : Bool := c.validGen k
def MsgBridgeCallClaim.valid (k : AddrKind) (c : MsgBridgeCallClaim) : Bool := c.validGen k
def MsgBridgeCallResultClaim.valid (k : AddrKind) (c : MsgBridgeCallResultClaim) : Bool := c.validGen k
def MsgSendToExternalClaim.valid (k : AddrKind) (c : MsgSendToExternalClaim) : Bool := c.validGen k
def MsgBridgeTokenClaim.valid (k : AddrKind) (c : MsgBridgeTokenClaim) : Bool :=
  c.validGen k && isBytes c.Name && isBytes c.Symbol
def MsgOracleSetUpdatedClaim.valid (k : AddrKind) (c : MsgOracleSetUpdatedClaim) : Bool := c.validGen k

/-- address class of a chain name (`externalAddressRouter`); `none` = "unrecognized cross chain name" -/
def chainKind (name : Str) : Option AddrKind := chains.lookup (String.ofList name)

/-! ## effect-relevant fields

Everything of the event except who relays it (`BridgerAddress`, different for every voter by construction) and
`ChainName` (routing: the attestation store is per chain).  For `MsgBridgeTokenClaim` the token `Name` is not demanded:
`AddBridgeTokenExecuted` never reads it (it reads `TokenContract`, `Symbol`, `Decimals`; see Props/C03.lean). -/

def MsgSendToFxClaim.effect (c : MsgSendToFxClaim) : MsgSendToFxClaim := { c with BridgerAddress := [], ChainName := [] }
def MsgBridgeCallClaim.effect (c : MsgBridgeCallClaim) : MsgBridgeCallClaim := { c with BridgerAddress := [], ChainName := [] }
def MsgBridgeCallResultClaim.effect (c : MsgBridgeCallResultClaim) : MsgBridgeCallResultClaim := { c with BridgerAddress := [], ChainName := [] }
def MsgSendToExternalClaim.effect (c : MsgSendToExternalClaim) : MsgSendToExternalClaim := { c with BridgerAddress := [], ChainName := [] }
def MsgBridgeTokenClaim.effect (c : MsgBridgeTokenClaim) : MsgBridgeTokenClaim := { c with BridgerAddress := [], ChainName := [], Name := [] }
def MsgOracleSetUpdatedClaim.effect (c : MsgOracleSetUpdatedClaim) : MsgOracleSetUpdatedClaim := { c with BridgerAddress := [], ChainName := [] }

/-- struct fields that need not occur in the hashed path -/
def notDemanded : List String := ["BridgerAddress", "ChainName"]
def notDemandedBridgeToken : List String := ["BridgerAddress", "ChainName", "Name"]

/-! ## what code may do with a claim it holds only as `types.ExternalClaim` (round 4)

`Gen/C03.lean` `interfaceUses` lists every use of a value of the interface type in x/crosschain/keeper (function, kind, what).
Allowed: the getters of fields every `ClaimHash` covers, the hash itself, the type (claims of different types never share a
path: `anyClaim_path_injective`); a type switch / assertion (the typed scans `handlerView` / `flow_<tag>` take over); handing
the claim to a function that is itself in the table (`followedCallees`) or that stores / deletes / collects it as it is
(`storingCallees`); `GetClaimer()` only in `MsgServer.Claim`, where it identifies the voter, not the event. -/

/-- getters of fields, with the field -/
def interfaceFieldGetters : List (String × String) := [("GetEventNonce", "EventNonce"), ("GetBlockHeight", "BlockHeight")]

def interfaceGetters : List String := interfaceFieldGetters.map (·.1) ++ ["ClaimHash", "GetType"]

/-- callee#argument positions whose callee is scanned itself, with the callee's name -/
def followedCalleeTable : List (String × String) :=
  [("Attest", "Attest#2"), ("claimLogicCheck", "claimLogicCheck#1"), ("TryAttestation", "TryAttestation#2"),
   ("processAttestation", "processAttestation#1"), ("AttestationHandler", "AttestationHandler#1"),
   ("DeleteAttestation", "DeleteAttestation#1"), ("SavePendingExecuteClaim", "SavePendingExecuteClaim#1")]

def followedCallees : List String := followedCalleeTable.map (·.2)

/-- callee#argument positions that keep the claim as it is: `codectypes.NewAnyWithValue` (the attestation's recorded claim),
`cdc.MarshalInterface` (the pending-execute-claim store), an iterator's callback, `append` (the claims whose attestations
`pruneAttestations` deletes) -/
def storingCallees : List String := ["NewAnyWithValue#0", "MarshalInterface#0", "cb#1", "append#1"]

def allowedInterfaceUse : String × String × String → Bool
  | ("Claim", "call", "GetClaimer") => true
  | (_, "call", m) => interfaceGetters.contains m
  | (_, "typed", _) => true
  | (_, "pass", f) => followedCallees.contains f || storingCallees.contains f
  | ("pruneAttestations", "value", _) => true
  | _ => false

/-- how every `ClaimHash` must turn the path into the digest -/
def expectedHashExpr : String := "tmhash.Sum([]byte(path))"

/-! ## `AddBridgeTokenExecuted`: the REGENERATED statement list (`Gen/C03.lean` `addBridgeTokenProg`) interpreted -/

/-- what `AddBridgeTokenExecuted(claim)` does on the keeper of module `m` whose bridge-denom store holds `st`: the writes
(`ok`), or an error (nothing written) -/
def runAddBridgeToken (m : Str) (st : List (Str × Str)) (c : MsgBridgeTokenClaim) : HRes :=
  runProg c.fieldEnv m addBridgeTokenProg { store := st }

/-! ## claim hash = SHA-256 of the path bytes (`tmhash.Sum`) -/

def hashHex (path : Str) : String := FxVerif.Sha256.sha256Hex (path.map Char.toNat)

/-! ## the paths as they were at commit 6774338 for the three types whose hash did not determine the executed effect
(hand-written copies, used only for the recorded counterexamples `legacy_*_not_injective`) -/

def legacyBridgeCallPath (c : MsgBridgeCallClaim) : Str :=
  fmt_d_uint64 c.BlockHeight ++ ['/'] ++ fmt_d_uint64 c.EventNonce ++ ['/'] ++ fmt_s_string c.Sender ++ ['/']
  ++ fmt_s_string c.Refund ++ ['/'] ++ fmt_s_string c.To ++ ['/'] ++ fmt_s_sliceString c.TokenContracts ++ ['/']
  ++ fmt_v_sliceInt c.Amounts ++ ['/'] ++ fmt_v_string c.Data ++ ['/'] ++ fmt_s_IntString c.Value

def legacyBridgeCallResultPath (c : MsgBridgeCallResultClaim) : Str :=
  fmt_d_uint64 c.BlockHeight ++ ['/'] ++ fmt_d_uint64 c.EventNonce ++ ['/'] ++ fmt_d_uint64 c.Nonce ++ ['/']
  ++ fmt_t_bool c.Success ++ ['/'] ++ fmt_s_string c.Cause

def legacyBridgeTokenPath (c : MsgBridgeTokenClaim) : Str :=
  fmt_d_uint64 c.BlockHeight ++ ['/'] ++ fmt_d_uint64 c.EventNonce ++ fmt_s_string c.TokenContract ++ ['/']
  ++ fmt_s_string c.Name ++ ['/'] ++ fmt_s_string c.Symbol ++ ['/'] ++ fmt_d_uint64 c.Decimals ++ ['/']
  ++ fmt_s_string c.ChannelIbc ++ ['/']

end FxVerif.Model.C03
