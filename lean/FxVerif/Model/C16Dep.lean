import FxVerif.Gen.C16Dep
import FxVerif.Model.C16Sem
/-!
# C16 — the dependency handlers (Cosmos SDK / IBC / ethermint message servers the app wires in)

`Gen/C16Dep.lean` is regenerated on every run from the module cache, at the versions and replacements `/repo/go.mod`
pins: every method of a dependency keeper package whose request carries an `Authority`, statement by statement, in the
same syntax as the fx-core handlers.  Their guards are not always a bare comparison (x/distribution first checks that the
authority decodes, then compares), so the decision procedure here is the one-sided one: `mustReject g = some c` means
"whenever the authority is NOT `c`-related to the keeper's authority, `g` holds" — `g` may also hold for other reasons
(a handler may reject more, never less).

Core Lean only.
-/
namespace FxVerif.Model.C16
open FxVerif.Gen

def govRel (c : CmpK) (a b : SExpr) : Option CmpK := if isGovPair a b then some c else none

/-- one-sided normal form of a rejecting condition; helper calls are answered by `cf` -/
def mustRejectWith (cf : String → List SExpr → Option CmpK) : BExpr → Option CmpK
  | .ne a b => govRel .strict a b
  | .not (.eq a b) => govRel .strict a b
  | .not (.equalFold a b) => govRel .fold a b
  | .not (.addrEq a b) => govRel .addr a b
  | .not (.decEq d a b) => govRel (CmpK.ofDec d) a b
  | .or x y =>
    match mustRejectWith cf x with
    | some c => some c
    | none => mustRejectWith cf y
  | .call h args => cf h args
  | _ => none

/-- an error helper made of checks that can only reject or fall through, one of which must reject -/
def helperMustReject : List HStmt → Option CmpK
  | .retIf c true :: rest =>
    match mustRejectWith (fun _ _ => none) c with
    | some k => some k
    | none => helperMustReject rest
  | _ => none

def callMustReject (hs : List Helper) (h : String) (args : List SExpr) : Option CmpK :=
  match findHelper hs h with
  | some hp => helperMustReject (hp.body.map (substH args))
  | none => none

def mustReject (hs : List Helper) : BExpr → Option CmpK := mustRejectWith (callMustReject hs)

/-- the body starts (after statements that cannot touch state) with a rejecting `if` that must fire for every authority
not `c`-related to the keeper's authority -/
def depProtectedBody (hs : List Helper) : List Stmt → Option CmpK
  | .rejectIf g :: _ => mustReject hs g
  | .nop _ :: rest => depProtectedBody hs rest
  | _ => none

def depProtected (P : Program) (T m : String) : Option CmpK :=
  match resolve P T m with
  | some impl => depProtectedBody P.helpers impl.body
  | none => none

/-- the regenerated dependency program -/
def depProg : Program := ⟨C16Dep.helpers, C16Dep.impls, C16Dep.types⟩

/-- dependency handlers whose authority check is NOT a leading comparison with the keeper's authority string.
`MsgExecLegacyContent` (SDK x/gov) reads the governance module account from the x/auth state and compares the message's
authority with ITS address string: modelled by `stateGuardBody` below (round 4; monitor-only before). -/
def depExceptions : List String := ["github.com/cosmos/cosmos-sdk/x/gov/types/v1.MsgExecLegacyContent"]

/-- the guard program of a state-reading handler: after statements that cannot touch state and statements that fetch a
module account from the x/auth state, a rejecting `if` that compares (`!=`) the address string of the module account
named `govName` — as the state has it — with the request's authority -/
def isStateGuard (govName : String) : BExpr → Bool
  | .ne (.moduleAccInState n) .reqAuthority => n == govName
  | .ne .reqAuthority (.moduleAccInState n) => n == govName
  | _ => false

def stateGuardBody (govName : String) : List Stmt → Bool
  | .nop _ :: rest => stateGuardBody govName rest
  | .ensureModuleAcc _ _ :: rest => stateGuardBody govName rest
  | .rejectIf g :: _ => isStateGuard govName g
  | _ => false

/-- the module accounts a body fetches (and would create, were they missing) before its guard -/
def ensuredBefore : List Stmt → List String
  | .nop _ :: rest => ensuredBefore rest
  | .ensureModuleAcc n _ :: rest => n :: ensuredBefore rest
  | _ => []

def depStateGuarded (P : Program) (govName T m : String) : Bool :=
  match resolve P T m with
  | some impl => stateGuardBody govName impl.body
  | none => false

def depEnsured (P : Program) (T m : String) : List String :=
  match resolve P T m with
  | some impl => ensuredBefore impl.body
  | none => []

end FxVerif.Model.C16
