import FxVerif.Model.Ledger
import FxVerif.Gen.C04Tok
/-!
# C04 round 5: tokens of externally-owned pairs and the wrappers that reach them

The ledger primitive `.send (.erc g) s d n` of the flows says "the token moved or the step failed".  For a pair whose
ERC-20 contract fxcore does not control this is a statement about TWO pieces of code: the token's own `transfer` /
`transferFrom` (any contract: it may signal failure by reverting, by returning `false`, or by returning nothing; it may
signal success by returning `true` or nothing) and the wrapper fxcore calls it through, which decides from the call's
outcome whether the step is taken as done.  This file keeps the two apart: `tokenTransfer` is the contract (per
signalling style), `wrappedTransfer` applies a wrapper's accept condition — the conditions of `Keeper.ERC20Transfer` and
`ERC20Call.TransferFrom` are REGENERATED from the Go source (`Gen/C04Tok.lean`) — and `runFlowStyled` runs a flow with
every ERC-20 send of an externally-owned group going through the wrapper.  `Props/C04.lean` proves that with the
regenerated conditions `runFlowStyled` IS `runFlow` (for every style that answers `true` on success), that an accepted
transfer has moved (every style), and exhibits what an unchecked wrapper does.  Core Lean only.
-/
namespace FxVerif.Model.C04Tok
open FxVerif.Model.Ledger

inductive OkStyle where
  | retTrue | retNothing
  deriving DecidableEq, Repr

inductive FailStyle where
  | revert | retFalse | retNothing
  deriving DecidableEq, Repr

structure Style where
  ok : OkStyle
  fail : FailStyle
  deriving DecidableEq, Repr

/-- what the caller of a token sees: the four atoms of the generated accept conditions -/
structure Signal where
  vmOk : Bool
  retEmpty : Bool
  unpackErr : Bool
  value : Bool
  deriving DecidableEq, Repr

def okSignal : OkStyle → Signal
  | .retTrue => ⟨true, false, false, true⟩
  | .retNothing => ⟨true, true, true, false⟩

def failSignal : FailStyle → Signal
  | .revert => ⟨false, true, true, false⟩
  | .retFalse => ⟨true, false, false, false⟩
  | .retNothing => ⟨true, true, true, false⟩

/-- the token contract: moves the amount iff the paying balance suffices (`applyPrim (.send …)`), and answers in its style;
an unsuccessful call writes nothing -/
def tokenTransfer (st : Style) (a : Asset) (s d : Addr) (n : Nat) (L : Ledger) : Ledger × Signal :=
  match applyPrim (.send a s d n) L with
  | .ok L' => (L', okSignal st.ok)
  | .error _ => (L, failSignal st.fail)

abbrev Accepts := Bool → Bool → Bool → Bool → Bool

def Accepts.on (acc : Accepts) (sg : Signal) : Bool := acc sg.vmOk sg.retEmpty sg.unpackErr sg.value

/-- a wrapper: call the token, decide by the accept condition.  A refusal is an error of the enclosing message / EVM frame,
which discards the token's writes (C09 / C18), so a refused transfer leaves the ledger as it was; an ACCEPTED call keeps
whatever the token did — possibly nothing. -/
def wrappedTransfer (acc : Accepts) (st : Style) (a : Asset) (s d : Addr) (n : Nat) (L : Ledger) : Except Err Ledger :=
  match applyPrim (.send a s d n) L with
  | .ok L' => if acc.on (okSignal st.ok) then .ok L' else .error .invalid
  | .error e => if acc.on (failSignal st.fail) then .ok L else .error e

/-- a primitive, with the ERC-20 sends of the groups in `ext` (externally-owned pairs) going through the wrapper -/
def applyPrimStyled (acc : Accepts) (st : Style) (ext : Nat → Bool) : Prim → Ledger → Except Err Ledger
  | .send (.erc g) s d n, L =>
    if ext g then wrappedTransfer acc st (.erc g) s d n L else applyPrim (.send (.erc g) s d n) L
  | p, L => applyPrim p L

def runFlowStyled (acc : Accepts) (st : Style) (ext : Nat → Bool) : List Prim → Ledger → Except Err Ledger
  | [], L => .ok L
  | p :: ps, L =>
    match applyPrimStyled acc st ext p L with
    | .ok L' => runFlowStyled acc st ext ps L'
    | .error e => .error e

/-- the accept condition of a wrapper that only looks at the EVM error (the shape of `ERC20Mint` / `ERC20Burn`, which call
contracts the module owns) -/
def uncheckedAccepts : Accepts := fun vmOk _ _ _ => vmOk

/-- the only token-calling functions a site that moves an externally-owned token may use -/
def checkedWrappers : List String := ["ERC20Transfer", "TransferFrom"]

def sitesChecked (sites : List (String × List String)) : Bool :=
  sites.all fun s => !s.2.isEmpty && s.2.all fun w => checkedWrappers.contains w

end FxVerif.Model.C04Tok
