/-!
# C09 model — EVM call frames over the ethermint-fork StateDB journal, with native (Cosmos) actions

What is modelled (read from the fork sources, see `spec/C09.json`):

* `x/evm/statedb/statedb.go`: `Snapshot` = current journal length; `RevertToSnapshot` = undo the journal entries above that
  length, newest first; `SetState` pushes `storageChange{prev}`; `AddLog` pushes `addLogChange`;
  `ExecuteNativeAction` = clone the native cache store, run the action, on error restore the clone, on success push
  `nativeChange{snapshot}` (AFTER the action — so entries pushed by EVM calls the action makes sit below it); a panic
  inside the action unwinds through `ExecuteNativeAction`: neither restore nor journal entry; `Transfer` (value of a CALL)
  is itself a native action; `Context()` hands out the ctx over the SAME native store without any journaling; `Commit` =
  native store first, then the dirty EVM storage.
* `core/vm/evm.go` `Call/CallCode/DelegateCall/StaticCall`: (`CanTransfer` fails ⇒ return at once with the error and ALL
  the gas handed over — stipend included — and nothing touched), snapshot, (transfer), run callee, on any error revert to
  the snapshot, and unless the error is `ErrExecutionReverted` consume all forwarded gas.  A precompile gets
  `readonly = (kind ≠ CALL)` — the flag of the *direct* call only.  A precompile returning an error (the fx-core
  dispatchers return the plain Go error next to the packed revert data) is an exceptional failure: all forwarded gas is lost.
* `core/vm/contracts.go` `runPrecompiledContract`: `RequiredGas` is charged first, running out = `ErrOutOfGas`.
* the precompile methods' `Run` (x/staking/precompile, x/crosschain/precompile): statements before / after the one
  `ExecuteNativeAction` closure (`RunShape.outerBefore/outerAfter`: keeper calls on `stateDB.Context()`), a deferred
  `recover()` (`RunShape.recovers`), and inside the closure the keeper part (`ActionX`: arbitrary, may fail after
  half-writing, may panic) and the EVM calls made on the same StateDB (`contract.ERC20Call.call` = `evm.Call` from the
  precompile's address with its own gas allowance, inheriting the interpreter's read-only flag), in the order
  `RunShape.evmAfterWrite` says.  The shape of every real method is regenerated from the AST (`Gen/C09.lean runFacts`).
* a Go panic that nothing recovers unwinds the interpreter; baseapp discards the whole transaction (`Outcome.abort`).

`fuel` is only the structural recursion bound; `gas` is threaded EVM gas.  Every gas cost is an arbitrary `Nat` carried
by the program node (the theorems hold for all of them; the correspondence harness fills in the costs it measured with
a tracer on the real interpreter).  Nested `Prog` is never recursed on structurally.
-/
namespace FxVerif.Model.C09

inductive Kind | call | staticcall | delegatecall | callcode
  deriving DecidableEq, Repr

inductive Outcome | ok | revert | fail | abort
  deriving DecidableEq, Repr

/-- what a piece of native (Go) code yields: returns nil / returns an error / panics -/
inductive Res | ok | err | panic
  deriving DecidableEq, Repr

/-- what a transaction can commit: EVM storage (global slot ids), the native multistore, the tx logs (newest first) -/
structure View (N : Type) where
  slots : Nat → Nat
  native : N
  logs : List Nat

inductive Entry (N : Type)
  | slot (k prev : Nat)      -- storageChange
  | native (snap : N)        -- nativeChange
  | log                      -- addLogChange

/-- StateDB: current values + journal (newest entry first) -/
structure St (N : Type) extends View N where
  journal : List (Entry N)

variable {N : Type}

def setSlot (f : Nat → Nat) (k v : Nat) : Nat → Nat := fun j => if j = k then v else f j

/-- `JournalEntry.Revert` -/
def undo (e : Entry N) (v : View N) : View N :=
  match e with
  | .slot k prev => { v with slots := setSlot v.slots k prev }
  | .native snap => { v with native := snap }
  | .log => { v with logs := v.logs.tail }

def undoAll : List (Entry N) → View N → View N
  | [], v => v
  | e :: es, v => undoAll es (undo e v)

/-- `RevertToSnapshot(id)` where the revision's journal index is `n` -/
def St.revertTo (s : St N) (n : Nat) : St N :=
  let k := s.journal.length - n
  { toView := undoAll (s.journal.take k) s.toView, journal := s.journal.drop k }

/-- `SetState` -/
def St.sstore (s : St N) (k v : Nat) : St N :=
  { s with slots := setSlot s.slots k v, journal := .slot k (s.slots k) :: s.journal }

/-- `AddLog` -/
def St.addLog (s : St N) (l : Nat) : St N :=
  { s with logs := l :: s.logs, journal := .log :: s.journal }

def St.addLogs (s : St N) : List Nat → St N
  | [] => s
  | l :: ls => (s.addLog l).addLogs ls

/-- a keeper write through `stateDB.Context()`: the same native store, no snapshot, no journal entry -/
def St.poke (s : St N) (f : N → N) : St N := { s with native := f s.native }

/-- a native action (two-valued, the abstraction of a method whose `Run` has the clean shape): gets the `readonly` flag the
interpreter passed and the native store; returns success?, the store as the action left it (possibly half-written when it
fails) and the EVM logs it emitted through `AddLog` on the way -/
abbrev Action (N : Type) := Bool → N → Bool × N × List Nat

/-- the keeper part of a native-action closure: `readonly` flag, gas left after `RequiredGas`, native store ↦ result,
store as left behind (possibly half-written on error or panic), EVM logs emitted on the way -/
abbrev ActionX (N : Type) := Bool → Nat → N → Res × N × List Nat

def Action.lift (a : Action N) : ActionX N := fun ro _ n => (if (a ro n).1 then .ok else .err, (a ro n).2.1, (a ro n).2.2)

/-- shape of a precompile method's `Run` (regenerated per method, `Gen/C09.lean runFacts` → `shapeOf`) -/
structure RunShape where
  outerBefore : Bool    -- keeper calls on `stateDB.Context()` before `ExecuteNativeAction`
  outerAfter : Bool     -- … after it
  recovers : Bool       -- a deferred `recover()` in `Run` turns a panic inside the native action into an error return
  evmAfterWrite : Bool  -- on some path through the closure an EVM call on the same StateDB follows a keeper write
  dropsActionError : Bool  -- the error `ExecuteNativeAction` returns is overwritten / never tested: `Run` goes on and reports success
  /-- round 4: a keeper call on `stateDB.Context()` in the ERROR branch after `ExecuteNativeAction` (the snapshot has been
  put back, the write that follows is not journaled and the failing frame holds no native journal entry) -/
  outerOnError : Bool := false
  deriving DecidableEq, Repr

/-- the shapes for which a precompile call is all-or-nothing (`Props/C09.lean`: sufficient, and each condition necessary).
A keeper write AFTER the native action is not in the list: it sits above the action's journal entry, whose snapshot
restores the store as it was before the action — the order of the two statements is what matters. -/
def RunShape.clean (sh : RunShape) : Bool :=
  !sh.outerBefore && !sh.recovers && !sh.evmAfterWrite && !sh.dropsActionError && !sh.outerOnError
def RunShape.tidy : RunShape :=
  { outerBefore := false, outerAfter := false, recovers := false, evmAfterWrite := false, dropsActionError := false }

/-- `StateDB.Transfer`: a native action that cannot fail once `CanTransfer` passed -/
def St.transfer (s : St N) (f : N → N) : St N :=
  { s with native := f s.native, journal := .native s.native :: s.journal }

/-- gas and shape of one CALL-family instruction sequence -/
structure CallHdr (N : Type) where
  callc : Nat            -- everything charged in the caller before gas is forwarded (pushes, CODECOPY, CALL base cost)
  cap : Nat              -- requested gas
  stip : Nat             -- call stipend added for the callee (value > 0)
  kind : Kind
  xfer : Option (N → N)  -- value transfer (native bank move), performed after the snapshot
  funded : N → Bool      -- `CanTransfer`: the caller's balance covers the value (only looked at when `xfer` is there)
  swallow : Bool         -- on failure: continue (true) or bubble up with REVERT (false)
  pOk : Nat              -- caller-side cost after a successful call
  pFail : Nat            -- caller-side cost after a failed call (up to and including the REVERT when bubbling)
  /-- CALLCODE with a value (round 4): `EVM.CallCode` consults `CanTransfer` for the executing account but moves NOTHING
  (its statement list has the balance check and no `Transfer`, `Gen.C09Dep.progCallCode`), and `opCallCode` has no
  write-protection test — so such a call is a header with `xfer = none` and `checkOnly = true` -/
  checkOnly : Bool := false

inductive Prog (N : Type)
  | sstore (c k v : Nat)
  | call (h : CallHdr N) (body : List (Prog N))
  /-- a call to a precompile: `RequiredGas`, the shape of the method's `Run`, the write `Run` makes outside the native
  action (only performed when the shape says so), the EVM calls the closure makes on the same StateDB (own gas allowance,
  callee program), the keeper part of the closure -/
  | pre (h : CallHdr N) (req : Nat) (sh : RunShape) (out : N → N) (inner : List (Nat × List (Prog N))) (act : ActionX N)
  | revert (c : Nat)
  | stop (c : Nat)
  | invalid

/-- a precompile call of the clean shape without EVM calls inside (the node of the first version of this model) -/
def Prog.preA (h : CallHdr N) (req : Nat) (act : Action N) : Prog N := .pre h req .tidy id [] act.lift

/-- EIP-150: at most all-but-one-64th of what is left after the call's own cost -/
def fwdGas (h : CallHdr N) (gas : Nat) : Nat := min h.cap ((gas - h.callc) - (gas - h.callc) / 64)
def keepGas (h : CallHdr N) (gas : Nat) : Nat := (gas - h.callc) - fwdGas h gas

def St.enter (s : St N) (h : CallHdr N) : St N :=
  match h.xfer with
  | some f => s.transfer f
  | none => s

/-- `evm.Call` / `evm.CallCode` refuses to start: value attached that the caller cannot pay -/
def CallHdr.unfunded (h : CallHdr N) (s : N) : Bool := (h.xfer.isSome || h.checkOnly) && !h.funded s

/-- the evaluator of a callee program (`exec fuel`), abstracted so that `runPre` is not part of the recursion -/
abbrev Eval (N : Type) := Bool → Nat → List (Prog N) → St N → Outcome × St N × Nat

/-- the EVM calls a closure makes (`ERC20Call.call` = `evm.Call(precompile, token, data, maxGas, 0)`): each has its own
snapshot and gas allowance; the first that does not return normally is reverted and makes the closure return its error;
a panic inside unwinds -/
def runInner (ev : Eval N) (ro : Bool) : List (Nat × List (Prog N)) → St N → Res × St N
  | [], s => (.ok, s)
  | (g, body) :: rest, s =>
    let r := ev ro g body s
    if r.1 = .ok then runInner ev ro rest r.2.1
    else if r.1 = .abort then (.panic, r.2.1)
    else (.err, r.2.1.revertTo s.journal.length)

/-- the keeper part: writes go to the native store directly (that is what a snapshot is for), logs through `AddLog` -/
def St.keeper (s : St N) (ro : Bool) (g : Nat) (act : ActionX N) : Res × St N :=
  let r := act ro g s.native
  (r.1, { (s.addLogs r.2.2) with native := r.2.1 })

/-- the closure handed to `ExecuteNativeAction`, in the order the method's source has -/
def runClosure (ev : Eval N) (roCtx roCall : Bool) (g : Nat) (sh : RunShape) (inner : List (Nat × List (Prog N)))
    (act : ActionX N) (s : St N) : Res × St N :=
  if sh.evmAfterWrite then
    match s.keeper roCall g act with
    | (.ok, s1) => runInner ev roCtx inner s1
    | r => r
  else
    match runInner ev roCtx inner s with
    | (.ok, s1) => s1.keeper roCall g act
    | r => r

/-- precompile body: `RequiredGas`, then the dispatcher + the method's `Run`: statements before the native action, the
action inside `ExecuteNativeAction` (snapshot; on error restore; on success journal the snapshot; a panic passes
through), statements after it, the deferred `recover()` -/
def runPre (ev : Eval N) (roCtx roCall : Bool) (gas req : Nat) (sh : RunShape) (out : N → N)
    (inner : List (Nat × List (Prog N))) (act : ActionX N) (s : St N) : Outcome × St N × Nat :=
  if gas < req then (.fail, s, 0) else
  let s0 := if sh.outerBefore then s.poke out else s
  match runClosure ev roCtx roCall (gas - req) sh inner act s0 with
  | (.ok, s1) =>
    let s2 : St N := { s1 with journal := .native s0.native :: s1.journal }
    (.ok, if sh.outerAfter then s2.poke out else s2, gas - req)
  | (.err, s1) =>
    -- `ExecuteNativeAction` has put the snapshot back; a `Run` that loses the error carries on as after a success
    if sh.dropsActionError then (.ok, { s1 with native := s0.native }, gas - req)
    else (.fail, (if sh.outerOnError then ({ s1 with native := s0.native } : St N).poke out else { s1 with native := s0.native }), 0)
  | (.panic, s1) => if sh.recovers then (.fail, s1, 0) else (.abort, s1, 0)

/-- what `evm.Call*` and the caller's code do with the callee's result: `inl` = caller continues, `inr` = caller halts -/
def resolve (h : CallHdr N) (snap keep : Nat) (r : Outcome × St N × Nat) : Sum (St N × Nat) (Outcome × St N × Nat) :=
  if r.1 = .abort then .inr (.abort, r.2.1, 0) else
  if r.1 = .ok then
    if keep + r.2.2 < h.pOk then .inr (.fail, r.2.1, 0) else .inl (r.2.1, keep + r.2.2 - h.pOk)
  else
    let s3 := r.2.1.revertTo snap
    let g3 := keep + (if r.1 = .revert then r.2.2 else 0)
    if g3 < h.pFail then .inr (.fail, s3, 0)
    else if h.swallow then .inl (s3, g3 - h.pFail) else .inr (.revert, s3, g3 - h.pFail)

def exec (fuel : Nat) (ro : Bool) (gas : Nat) (p : List (Prog N)) (s : St N) : Outcome × St N × Nat :=
  match fuel with
  | 0 => (.fail, s, 0)
  | fuel + 1 =>
    match p with
    | [] => (.ok, s, gas)
    | .sstore c k v :: rest =>
      if gas < c ∨ ro = true then (.fail, s, 0) else exec fuel ro (gas - c) rest (s.sstore k v)
    | .revert c :: _ => if gas < c then (.fail, s, 0) else (.revert, s, gas - c)
    | .stop c :: _ => if gas < c then (.fail, s, 0) else (.ok, s, gas - c)
    | .invalid :: _ => (.fail, s, 0)
    | .call h body :: rest =>
      if gas < h.callc ∨ (ro = true ∧ h.xfer.isSome = true) then (.fail, s, 0) else
      match resolve h s.journal.length (keepGas h gas)
          (if h.unfunded s.native then (.revert, s, fwdGas h gas + h.stip)
           else exec fuel (ro || h.kind == .staticcall) (fwdGas h gas + h.stip) body (s.enter h)) with
      | .inl x => exec fuel ro x.2 rest x.1
      | .inr r => r
    | .pre h req sh out inner act :: rest =>
      if gas < h.callc ∨ (ro = true ∧ h.xfer.isSome = true) then (.fail, s, 0) else
      match resolve h s.journal.length (keepGas h gas)
          (if h.unfunded s.native then (.revert, s, fwdGas h gas + h.stip)
           else runPre (exec fuel) ro (h.kind != .call) (fwdGas h gas + h.stip) req sh out inner act (s.enter h)) with
      | .inl x => exec fuel ro x.2 rest x.1
      | .inr r => r

/-- `StateDB.Commit`: the native cache store is written first, then the dirty EVM storage (disjoint components) -/
def commit (s : St N) : View N := s.toView

/-- one transaction: fresh StateDB over `v`, root frame (a `Call`, so it has its own snapshot at journal length 0), commit;
an unrecovered panic makes baseapp drop the transaction's whole cache -/
def runTx (fuel gas : Nat) (p : List (Prog N)) (v : View N) : Outcome × View N × Nat :=
  let r := exec fuel false gas p { toView := v, journal := [] }
  if r.1 = .ok then (.ok, commit r.2.1, r.2.2)
  else if r.1 = .abort then (.abort, v, 0)
  else (r.1, commit (r.2.1.revertTo 0), if r.1 = .revert then r.2.2 else 0)

/-- a transaction whose `to` is the precompile itself (a direct call by an externally owned account): the root frame IS
the precompile call — `evm.Call` snapshots, moves the transaction's value, runs the precompile with `readonly = false`,
reverts to the snapshot on any error -/
def runTxPre (fuel gas : Nat) (xfer : Option (N → N)) (req : Nat) (sh : RunShape) (out : N → N)
    (inner : List (Nat × List (Prog N))) (act : ActionX N) (v : View N) : Outcome × View N × Nat :=
  let s0 : St N := { toView := v, journal := [] }
  let s1 := match xfer with | some f => s0.transfer f | none => s0
  let r := runPre (exec fuel) false false gas req sh out inner act s1
  if r.1 = .ok then (.ok, commit r.2.1, r.2.2)
  else if r.1 = .abort then (.abort, v, 0)
  else (r.1, commit (r.2.1.revertTo 0), if r.1 = .revert then r.2.2 else 0)

/-! ## Spec: the same language with whole-state snapshots instead of a journal
"The surviving effects are those of calls all of whose enclosing frames returned normally": a frame that does not return
normally hands back the state it was entered in.  The spec gives a meaning to precompile calls of the clean shape only
(the others are exactly the ones for which no such meaning exists, see `Props/C09.lean`); a keeper write that `Run`
makes after a successful native action is simply part of the call's effect. -/

def View.sstore (v : View N) (k x : Nat) : View N := { v with slots := setSlot v.slots k x }
def View.addLogs (v : View N) (ls : List Nat) : View N := { v with logs := ls.reverse ++ v.logs }
def View.enter (v : View N) (h : CallHdr N) : View N :=
  match h.xfer with
  | some f => { v with native := f v.native }
  | none => v

abbrev SEval (N : Type) := Bool → Nat → List (Prog N) → View N → Outcome × View N × Nat

def specInner (ev : SEval N) (ro : Bool) : List (Nat × List (Prog N)) → View N → Res × View N
  | [], v => (.ok, v)
  | (g, body) :: rest, v =>
    let r := ev ro g body v
    if r.1 = .ok then specInner ev ro rest r.2.1
    else if r.1 = .abort then (.panic, v)
    else (.err, v)

def specPre (ev : SEval N) (roCtx roCall : Bool) (gas req : Nat) (sh : RunShape) (out : N → N)
    (inner : List (Nat × List (Prog N))) (act : ActionX N) (v : View N) : Outcome × View N × Nat :=
  if gas < req then (.fail, v, 0) else
  match specInner ev roCtx inner v with
  | (.ok, v1) =>
    match (act roCall (gas - req) v1.native).1 with
    | .ok => (.ok, { (v1.addLogs (act roCall (gas - req) v1.native).2.2) with
                     native := if sh.outerAfter then out (act roCall (gas - req) v1.native).2.1
                               else (act roCall (gas - req) v1.native).2.1 }, gas - req)
    | .err => (.fail, v, 0)
    | .panic => (.abort, v, 0)
  | (.err, _) => (.fail, v, 0)
  | (.panic, _) => (.abort, v, 0)

def specResolve (h : CallHdr N) (saved : View N) (keep : Nat) (r : Outcome × View N × Nat) :
    Sum (View N × Nat) (Outcome × View N × Nat) :=
  if r.1 = .abort then .inr (.abort, saved, 0) else
  if r.1 = .ok then
    if keep + r.2.2 < h.pOk then .inr (.fail, r.2.1, 0) else .inl (r.2.1, keep + r.2.2 - h.pOk)
  else
    let g3 := keep + (if r.1 = .revert then r.2.2 else 0)
    if g3 < h.pFail then .inr (.fail, saved, 0)
    else if h.swallow then .inl (saved, g3 - h.pFail) else .inr (.revert, saved, g3 - h.pFail)

def spec (fuel : Nat) (ro : Bool) (gas : Nat) (p : List (Prog N)) (v : View N) : Outcome × View N × Nat :=
  match fuel with
  | 0 => (.fail, v, 0)
  | fuel + 1 =>
    match p with
    | [] => (.ok, v, gas)
    | .sstore c k x :: rest =>
      if gas < c ∨ ro = true then (.fail, v, 0) else spec fuel ro (gas - c) rest (v.sstore k x)
    | .revert c :: _ => if gas < c then (.fail, v, 0) else (.revert, v, gas - c)
    | .stop c :: _ => if gas < c then (.fail, v, 0) else (.ok, v, gas - c)
    | .invalid :: _ => (.fail, v, 0)
    | .call h body :: rest =>
      if gas < h.callc ∨ (ro = true ∧ h.xfer.isSome = true) then (.fail, v, 0) else
      match specResolve h v (keepGas h gas)
          (if h.unfunded v.native then (.revert, v, fwdGas h gas + h.stip)
           else spec fuel (ro || h.kind == .staticcall) (fwdGas h gas + h.stip) body (v.enter h)) with
      | .inl x => spec fuel ro x.2 rest x.1
      | .inr r => r
    | .pre h req sh out inner act :: rest =>
      if gas < h.callc ∨ (ro = true ∧ h.xfer.isSome = true) then (.fail, v, 0) else
      match specResolve h v (keepGas h gas)
          (if h.unfunded v.native then (.revert, v, fwdGas h gas + h.stip)
           else specPre (spec fuel) ro (h.kind != .call) (fwdGas h gas + h.stip) req sh out inner act (v.enter h)) with
      | .inl x => spec fuel ro x.2 rest x.1
      | .inr r => r

/-- transaction-level spec: a transaction that does not end normally commits the state it started in -/
def specTx (fuel gas : Nat) (p : List (Prog N)) (v : View N) : Outcome × View N × Nat :=
  let r := spec fuel false gas p v
  if r.1 = .ok then (.ok, r.2.1, r.2.2) else (r.1, v, if r.1 = .revert then r.2.2 else 0)

def specTxPre (fuel gas : Nat) (xfer : Option (N → N)) (req : Nat) (sh : RunShape) (out : N → N)
    (inner : List (Nat × List (Prog N))) (act : ActionX N) (v : View N) : Outcome × View N × Nat :=
  let v1 := match xfer with | some f => { v with native := f v.native } | none => v
  let r := specPre (spec fuel) false false gas req sh out inner act v1
  if r.1 = .ok then (.ok, r.2.1, r.2.2) else (r.1, v, if r.1 = .revert then r.2.2 else 0)

/-- every precompile call in the program (at any depth, also inside the EVM calls precompiles make) has the clean shape -/
inductive Clean : List (Prog N) → Prop
  | nil : Clean []
  | sstore {c k v rest} : Clean rest → Clean (.sstore c k v :: rest)
  | revert {c rest} : Clean (.revert c :: rest)
  | stop {c rest} : Clean (.stop c :: rest)
  | invalid {rest} : Clean (.invalid :: rest)
  | call {h body rest} : Clean body → Clean rest → Clean (.call h body :: rest)
  | pre {h req sh out inner act rest} : sh.clean = true → (∀ x ∈ inner, Clean x.2) → Clean rest →
      Clean (.pre h req sh out inner act :: rest)

/-- no keeper part anywhere in the program ever panics (in particular: every program built from two-valued `Action`s) -/
inductive NoPanic : List (Prog N) → Prop
  | nil : NoPanic []
  | sstore {c k v rest} : NoPanic rest → NoPanic (.sstore c k v :: rest)
  | revert {c rest} : NoPanic (.revert c :: rest)
  | stop {c rest} : NoPanic (.stop c :: rest)
  | invalid {rest} : NoPanic (.invalid :: rest)
  | call {h body rest} : NoPanic body → NoPanic rest → NoPanic (.call h body :: rest)
  | pre {h req sh out inner act rest} : (∀ ro g n, (act ro g n).1 ≠ .panic) → (∀ x ∈ inner, NoPanic x.2) → NoPanic rest →
      NoPanic (.pre h req sh out inner act :: rest)

end FxVerif.Model.C09
