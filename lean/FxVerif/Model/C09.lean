/-!
# C09 model — EVM call frames over the ethermint-fork StateDB journal, with native (Cosmos) actions

What is modelled (read from the fork sources, see `spec/C09.json`):

* `x/evm/statedb/statedb.go`: `Snapshot` = current journal length; `RevertToSnapshot` = undo the journal entries above that
  length, newest first; `SetState` pushes `storageChange{prev}`; `AddLog` pushes `addLogChange`;
  `ExecuteNativeAction` = clone the native cache store, run the action, on error restore the clone, on success push
  `nativeChange{snapshot}`; `Transfer` (value of a CALL) is itself a native action; `Commit` = native store first, then
  the dirty EVM storage.
* `core/vm/evm.go` `Call/CallCode/DelegateCall/StaticCall`: snapshot, (transfer), run callee, on any error revert to the
  snapshot, and unless the error is `ErrExecutionReverted` consume all forwarded gas.  A precompile gets
  `readonly = (kind ≠ CALL)` — the flag of the *direct* call only.  A precompile returning an error (the fx-core
  dispatchers return the plain Go error next to the packed revert data) is an exceptional failure: all forwarded gas is lost.
* `core/vm/contracts.go` `runPrecompiledContract`: `RequiredGas` is charged first, running out = `ErrOutOfGas`.

`fuel` is only the structural recursion bound; `gas` is threaded EVM gas.  Every gas cost is an arbitrary `Nat` carried
by the program node (the theorems hold for all of them; the correspondence harness fills in the costs it measured with
a tracer on the real interpreter).  Nested `Prog` is never recursed on structurally.
-/
namespace FxVerif.Model.C09

inductive Kind | call | staticcall | delegatecall | callcode
  deriving DecidableEq, Repr

inductive Outcome | ok | revert | fail
  deriving DecidableEq, Repr

/-- what a transaction can commit: EVM storage (global slot ids), the native multistore, the tx logs (newest first) -/
structure View (N : Type) where
  slots : Nat → Nat
  native : N
  logs : List Nat

inductive Entry (N : Type)
  | slot (k prev : Nat)      -- storageChange
  | native (snap : N)        -- nativeChange
  | log                      -- addLogChange

/-- StateDB: current values + journal (newest entry first) -/
structure St (N : Type) extends View N where
  journal : List (Entry N)

variable {N : Type}

def setSlot (f : Nat → Nat) (k v : Nat) : Nat → Nat := fun j => if j = k then v else f j

/-- `JournalEntry.Revert` -/
def undo (e : Entry N) (v : View N) : View N :=
  match e with
  | .slot k prev => { v with slots := setSlot v.slots k prev }
  | .native snap => { v with native := snap }
  | .log => { v with logs := v.logs.tail }

def undoAll : List (Entry N) → View N → View N
  | [], v => v
  | e :: es, v => undoAll es (undo e v)

/-- `RevertToSnapshot(id)` where the revision's journal index is `n` -/
def St.revertTo (s : St N) (n : Nat) : St N :=
  let k := s.journal.length - n
  { toView := undoAll (s.journal.take k) s.toView, journal := s.journal.drop k }

/-- `SetState` -/
def St.sstore (s : St N) (k v : Nat) : St N :=
  { s with slots := setSlot s.slots k v, journal := .slot k (s.slots k) :: s.journal }

/-- `AddLog` -/
def St.addLog (s : St N) (l : Nat) : St N :=
  { s with logs := l :: s.logs, journal := .log :: s.journal }

def St.addLogs (s : St N) : List Nat → St N
  | [] => s
  | l :: ls => (s.addLog l).addLogs ls

/-- a native action: gets the `readonly` flag the interpreter passed and the native store; returns success?, the store
as the action left it (possibly half-written when it fails) and the EVM logs it emitted through `AddLog` on the way -/
abbrev Action (N : Type) := Bool → N → Bool × N × List Nat

/-- `ExecuteNativeAction`: snapshot, run, on error restore, on success journal the snapshot -/
def St.nativeAction (s : St N) (ro : Bool) (act : Action N) : Bool × St N :=
  let snap := s.native
  let r := act ro s.native
  let s1 := s.addLogs r.2.2
  let dirty : St N := { s1 with native := r.2.1 }
  if r.1 then (true, { dirty with journal := .native snap :: dirty.journal })
  else (false, { dirty with native := snap })

/-- `StateDB.Transfer`: a native action that cannot fail once `CanTransfer` passed -/
def St.transfer (s : St N) (f : N → N) : St N :=
  { s with native := f s.native, journal := .native s.native :: s.journal }

/-- gas and shape of one CALL-family instruction sequence -/
structure CallHdr (N : Type) where
  callc : Nat            -- everything charged in the caller before gas is forwarded (pushes, CODECOPY, CALL base cost)
  cap : Nat              -- requested gas
  stip : Nat             -- call stipend added for the callee (value > 0)
  kind : Kind
  xfer : Option (N → N)  -- value transfer (native bank move), performed after the snapshot
  swallow : Bool         -- on failure: continue (true) or bubble up with REVERT (false)
  pOk : Nat              -- caller-side cost after a successful call
  pFail : Nat            -- caller-side cost after a failed call (up to and including the REVERT when bubbling)

inductive Prog (N : Type)
  | sstore (c k v : Nat)
  | call (h : CallHdr N) (body : List (Prog N))
  | pre (h : CallHdr N) (req : Nat) (act : Action N)
  | revert (c : Nat)
  | stop (c : Nat)
  | invalid

/-- EIP-150: at most all-but-one-64th of what is left after the call's own cost -/
def fwdGas (h : CallHdr N) (gas : Nat) : Nat := min h.cap ((gas - h.callc) - (gas - h.callc) / 64)
def keepGas (h : CallHdr N) (gas : Nat) : Nat := (gas - h.callc) - fwdGas h gas

def St.enter (s : St N) (h : CallHdr N) : St N :=
  match h.xfer with
  | some f => s.transfer f
  | none => s

/-- precompile body: `RequiredGas`, then the dispatcher + method (abstract `act`) inside `ExecuteNativeAction` -/
def runPre (ro : Bool) (gas req : Nat) (act : Action N) (s : St N) : Outcome × St N × Nat :=
  if gas < req then (.fail, s, 0) else
  if (s.nativeAction ro act).1 then (.ok, (s.nativeAction ro act).2, gas - req)
  else (.fail, (s.nativeAction ro act).2, 0)

/-- what `evm.Call*` and the caller's code do with the callee's result: `inl` = caller continues, `inr` = caller halts -/
def resolve (h : CallHdr N) (snap keep : Nat) (r : Outcome × St N × Nat) : Sum (St N × Nat) (Outcome × St N × Nat) :=
  if r.1 = .ok then
    if keep + r.2.2 < h.pOk then .inr (.fail, r.2.1, 0) else .inl (r.2.1, keep + r.2.2 - h.pOk)
  else
    let s3 := r.2.1.revertTo snap
    let g3 := keep + (if r.1 = .revert then r.2.2 else 0)
    if g3 < h.pFail then .inr (.fail, s3, 0)
    else if h.swallow then .inl (s3, g3 - h.pFail) else .inr (.revert, s3, g3 - h.pFail)

def exec (fuel : Nat) (ro : Bool) (gas : Nat) (p : List (Prog N)) (s : St N) : Outcome × St N × Nat :=
  match fuel with
  | 0 => (.fail, s, 0)
  | fuel + 1 =>
    match p with
    | [] => (.ok, s, gas)
    | .sstore c k v :: rest =>
      if gas < c ∨ ro = true then (.fail, s, 0) else exec fuel ro (gas - c) rest (s.sstore k v)
    | .revert c :: _ => if gas < c then (.fail, s, 0) else (.revert, s, gas - c)
    | .stop c :: _ => if gas < c then (.fail, s, 0) else (.ok, s, gas - c)
    | .invalid :: _ => (.fail, s, 0)
    | .call h body :: rest =>
      if gas < h.callc ∨ (ro = true ∧ h.xfer.isSome = true) then (.fail, s, 0) else
      match resolve h s.journal.length (keepGas h gas)
          (exec fuel (ro || h.kind == .staticcall) (fwdGas h gas + h.stip) body (s.enter h)) with
      | .inl x => exec fuel ro x.2 rest x.1
      | .inr r => r
    | .pre h req act :: rest =>
      if gas < h.callc ∨ (ro = true ∧ h.xfer.isSome = true) then (.fail, s, 0) else
      match resolve h s.journal.length (keepGas h gas)
          (runPre (h.kind != .call) (fwdGas h gas + h.stip) req act (s.enter h)) with
      | .inl x => exec fuel ro x.2 rest x.1
      | .inr r => r

/-- `StateDB.Commit`: the native cache store is written first, then the dirty EVM storage (disjoint components) -/
def commit (s : St N) : View N := s.toView

/-- one transaction: fresh StateDB over `v`, root frame (a `Call`, so it has its own snapshot at journal length 0), commit -/
def runTx (fuel gas : Nat) (p : List (Prog N)) (v : View N) : Outcome × View N × Nat :=
  let r := exec fuel false gas p { toView := v, journal := [] }
  if r.1 = .ok then (.ok, commit r.2.1, r.2.2)
  else (r.1, commit (r.2.1.revertTo 0), if r.1 = .revert then r.2.2 else 0)

/-! ## Spec: the same language with whole-state snapshots instead of a journal
"The surviving effects are those of calls all of whose enclosing frames returned normally": a frame that does not return
normally hands back the state it was entered in. -/

def View.sstore (v : View N) (k x : Nat) : View N := { v with slots := setSlot v.slots k x }
def View.addLogs (v : View N) (ls : List Nat) : View N := { v with logs := ls.reverse ++ v.logs }
def View.enter (v : View N) (h : CallHdr N) : View N :=
  match h.xfer with
  | some f => { v with native := f v.native }
  | none => v

def specPre (ro : Bool) (gas req : Nat) (act : Action N) (v : View N) : Outcome × View N × Nat :=
  if gas < req then (.fail, v, 0) else
  if (act ro v.native).1 then (.ok, { (v.addLogs (act ro v.native).2.2) with native := (act ro v.native).2.1 }, gas - req)
  else (.fail, v, 0)

def specResolve (h : CallHdr N) (saved : View N) (keep : Nat) (r : Outcome × View N × Nat) :
    Sum (View N × Nat) (Outcome × View N × Nat) :=
  if r.1 = .ok then
    if keep + r.2.2 < h.pOk then .inr (.fail, r.2.1, 0) else .inl (r.2.1, keep + r.2.2 - h.pOk)
  else
    let g3 := keep + (if r.1 = .revert then r.2.2 else 0)
    if g3 < h.pFail then .inr (.fail, saved, 0)
    else if h.swallow then .inl (saved, g3 - h.pFail) else .inr (.revert, saved, g3 - h.pFail)

def spec (fuel : Nat) (ro : Bool) (gas : Nat) (p : List (Prog N)) (v : View N) : Outcome × View N × Nat :=
  match fuel with
  | 0 => (.fail, v, 0)
  | fuel + 1 =>
    match p with
    | [] => (.ok, v, gas)
    | .sstore c k x :: rest =>
      if gas < c ∨ ro = true then (.fail, v, 0) else spec fuel ro (gas - c) rest (v.sstore k x)
    | .revert c :: _ => if gas < c then (.fail, v, 0) else (.revert, v, gas - c)
    | .stop c :: _ => if gas < c then (.fail, v, 0) else (.ok, v, gas - c)
    | .invalid :: _ => (.fail, v, 0)
    | .call h body :: rest =>
      if gas < h.callc ∨ (ro = true ∧ h.xfer.isSome = true) then (.fail, v, 0) else
      match specResolve h v (keepGas h gas)
          (spec fuel (ro || h.kind == .staticcall) (fwdGas h gas + h.stip) body (v.enter h)) with
      | .inl x => spec fuel ro x.2 rest x.1
      | .inr r => r
    | .pre h req act :: rest =>
      if gas < h.callc ∨ (ro = true ∧ h.xfer.isSome = true) then (.fail, v, 0) else
      match specResolve h v (keepGas h gas)
          (specPre (h.kind != .call) (fwdGas h gas + h.stip) req act (v.enter h)) with
      | .inl x => spec fuel ro x.2 rest x.1
      | .inr r => r

/-- transaction-level spec: a transaction that does not end normally commits the state it started in -/
def specTx (fuel gas : Nat) (p : List (Prog N)) (v : View N) : Outcome × View N × Nat :=
  let r := spec fuel false gas p v
  if r.1 = .ok then (.ok, r.2.1, r.2.2) else (r.1, v, if r.1 = .revert then r.2.2 else 0)

end FxVerif.Model.C09
