import FxVerif.Model.C16Tx
/-!
# C16 — whole blocks of MULTI-MESSAGE, MULTI-SIGNER transactions, `x/authz` inside blocks, begin / end blockers (round 5)

Round 4 modelled a block as a list of transactions carrying ONE privileged message each, signed with one key.  Here a
transaction is what `baseapp.runTx` really gets: a list of messages — privileged ones (each with its own authority
string), `x/authz` `MsgExec`s wrapping a privileged message, and arbitrary other messages (bank sends …) — together with
the list of accounts whose keys signed it.  The transaction's run is NOT written by hand: it is the regenerated
`runTx` statement list (`runTxGen`, `Gen/C16Tx.lean`) on the input `txInN` built from these data; `txRunN` is the closed
form with the stage the harness can observe, proved equal to it (`tx_run_n_is_regenerated_pipeline`).

What stays by hand (dependency code; tied by the `blkn` lines through the real `FinalizeBlock` + `Commit`):

* the signers of a transaction are the signers of its messages in order, without repetitions
  (`sdk.Tx.GetSigners` / `GetMsgV1Signers`); the ante handler refuses unless the signatures are by exactly these
  accounts, in this order (`signersN` / `anteOkN`; a message whose signer cannot be computed makes the ante handler refuse);
* `MsgExec{grantee, [inner]}`: signer = grantee; its handler validates the inner message, computes the inner signer, and,
  unless that IS the grantee, looks for a grant (there is none: monitored) — then the router (`execHandler`);
* `FinalizeBlock` = begin-blocker, the transactions in order on the block's state, end-blocker (`blockRunFull`; the begin-
  and end-blockers are ARBITRARY functions of the state: universally quantified in the theorems).

Core Lean only.
-/
namespace FxVerif.Model.C16

/-- a privileged message with everything its handling depends on -/
structure PrivMsg (σ : Type) where
  env : Env
  W : World σ
  T : String          -- the registered concrete type serving it
  m : String          -- the method
  msg : String        -- the message type
  auth : Str
  payloadOk : Bool    -- the verdict of the rest of `ValidateBasic`

/-- one message of a block transaction -/
inductive BMsg (σ : Type) where
  | priv (p : PrivMsg σ)                                  -- a privileged message, directly in the transaction
  | exec (grantee : List Nat) (p : PrivMsg σ)             -- `MsgExec{grantee, [p]}`
  | plain (signer : List Nat) (f : σ → Res × σ)           -- any other message: its signer and its handler

/-- a block transaction: its messages in order and the accounts whose keys signed it, in order -/
structure BlockTxN (σ : Type) where
  msgs : List (BMsg σ)
  keys : List (List Nat)

def PrivMsg.basic {σ : Type} (infos : List MsgInfo) (p : PrivMsg σ) : Bool :=
  basicOk infos p.env.cfg p.auth p.payloadOk p.msg

def PrivMsg.handler {σ : Type} (P : Program) (infos : List MsgInfo) (p : PrivMsg σ) : σ → Res × σ :=
  routed P infos p.env p.auth p.W p.payloadOk p.T p.m p.msg

/-- `ValidateBasic` as `runTx` runs it on each message of the transaction (`MsgExec` validates its inner message only in
its handler; its own stateless check — a decodable grantee, a non-empty list — holds for every transaction the harness
can build) -/
def BMsg.basic {σ : Type} (infos : List MsgInfo) : BMsg σ → Bool
  | .priv p => p.basic infos
  | .exec _ _ => true
  | .plain _ _ => true

/-- the signer of a message (`none`: cannot be computed) -/
def BMsg.signer {σ : Type} : BMsg σ → Option (List Nat)
  | .priv p => accAddress p.env.cfg p.auth
  | .exec g _ => some g
  | .plain a _ => some a

/-- the `Exec` handler of x/authz on one inner privileged message, no grant from anybody to anybody -/
def execHandler {σ : Type} (P : Program) (infos : List MsgInfo) (grantee : List Nat) (p : PrivMsg σ) : σ → Res × σ := fun s =>
  if !p.basic infos then (.err, s)
  else match accAddress p.env.cfg p.auth with
    | none => (.err, s)
    | some bz => if bz != grantee then (.err, s) else p.handler P infos s

/-- the handler of a message as `runMsgs` calls it -/
def BMsg.handler {σ : Type} (P : Program) (infos : List MsgInfo) : BMsg σ → σ → Res × σ
  | .priv p => p.handler P infos
  | .exec g p => execHandler P infos g p
  | .plain _ f => f

/-- insert at the end unless present -/
def addSigner (acc : List (List Nat)) (a : List Nat) : List (List Nat) := if acc.contains a then acc else acc ++ [a]

/-- the signers of the transaction: those of its messages in order, without repetitions; `none` when one cannot be computed -/
def signersN {σ : Type} : List (BMsg σ) → List (List Nat) → Option (List (List Nat))
  | [], acc => some acc
  | b :: bs, acc =>
    match b.signer with
    | none => none
    | some a => signersN bs (addSigner acc a)

/-- the ante handler lets the transaction through only when it is signed by exactly its signers, in order -/
def anteOkN {σ : Type} (t : BlockTxN σ) : Bool :=
  match signersN t.msgs [] with
  | none => false
  | some ss => ss == t.keys

/-- the transaction as an input of the regenerated `runTx` -/
def txInN {σ : Type} (P : Program) (infos : List MsgInfo) (t : BlockTxN σ) : TxIn σ :=
  { envReject := fun _ => false
    basicOk := t.msgs.all (·.basic infos)
    ante := fun s => if anteOkN t then (.ok, s) else (.err, s)
    msgs := t.msgs.map (·.handler P infos)
    postOk := true
    unknown := id }

/-- index of the first failing message of `runMsgs` (what the ABCI log reports as `message index`) -/
def firstFail {σ : Type} : List (σ → Res × σ) → σ → Nat → Option Nat
  | [], _, _ => none
  | f :: fs, s, i =>
    match f s with
    | (.ok, s') => firstFail fs s' (i + 1)
    | (.err, _) => some i

/-- closed form with the observable stage: stateless validation of every message; the ante handler; the messages in
order on ONE branch, written back only when all of them succeed -/
def txRunN {σ : Type} (P : Program) (infos : List MsgInfo) (t : BlockTxN σ) (s : σ) : TxStage × (Res × σ) :=
  if !t.msgs.all (·.basic infos) then (.basic, (.err, s))
  else if !anteOkN t then (.ante, (.err, s))
  else (.msgs, match loopMsgsG true (t.msgs.map (·.handler P infos)) s .ok with
    | (.ok, s2) => (.ok, s2)
    | (.err, _) => (.err, s))

/-- the transactions of a block in order (each through `txRunN`): stage and result of each, state after them -/
def blockRunN {σ : Type} (P : Program) (infos : List MsgInfo) : List (BlockTxN σ) → σ → List (TxStage × Res) × σ
  | [], s => ([], s)
  | t :: ts, s =>
    let r := txRunN P infos t s
    let rest := blockRunN P infos ts r.2.2
    ((r.1, r.2.1) :: rest.1, rest.2)

/-- `FinalizeBlock`: begin-blocker, the transactions, end-blocker -/
def blockRunFull {σ : Type} (P : Program) (infos : List MsgInfo) (beginB endB : σ → σ) (txs : List (BlockTxN σ)) (s : σ) :
    List (TxStage × Res) × σ :=
  let r := blockRunN P infos txs (beginB s)
  (r.1, endB r.2)

/-- the transaction carries a privileged message (directly or inside a `MsgExec`) -/
def BMsg.isPriv {σ : Type} : BMsg σ → Bool
  | .plain _ _ => false
  | _ => true

def BlockTxN.hasPriv {σ : Type} (t : BlockTxN σ) : Bool := t.msgs.any (·.isPriv)

end FxVerif.Model.C16
